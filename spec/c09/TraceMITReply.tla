---------------------------- MODULE TraceMITReply ----------------------------
(***************************************************************************)
(* Validation of the SPECIFICATION KDCReplyCheck (the oracle of C09)        *)
(* against MIT Kerberos' client: MIT's client library is run against the    *)
(* simulated KDC whose AS or TGS reply carries one perturbation of the      *)
(* catalogue (vh mitclient -cases).  MIT must accept the reply (stage 7: it *)
(* went on to use the ticket) exactly when Accept holds, except where the   *)
(* two knowingly follow different rules (MITOpen).                          *)
(***************************************************************************)
EXTENDS KDCReplyCheck, Json
CONSTANTS NShards
Tr == ndJsonDeserialize("trace.ndjson")
NLines == Len(Tr)
VARIABLES sh, l
LT == INSTANCE LineTrace
Q(x) == [kind |-> x.kind, reqAddrs |-> x.reqAddrs, level |-> "client"]
\* fields on which MIT's client does not follow the rule gokrb5's property states (either outcome is accepted):
\*  - the statement leaves them open itself (Open);
\*  - addrs: MIT's client does not compare the addresses of a reply with its request;
\*  - times: MIT adjusts its clock to the KDC's (kdc_timesync) and judges later replies by the adjusted clock.
MITOpen(x, f) == Open(Q(x), f) \/ f \in {"addrs", "times"}
OpenCase(x) == \E i \in 1..Len(x.devs) : MITOpen(x, x.devs[i][1])
LineOK(x) == /\ x.setupOK /\ x.perturbationApplied
             /\ OpenCase(x) \/ ((x.mitStage = 7) <=> Accept(Q(x), x.p))
TInit == LT!Init /\ Init
TNext == LT!Next /\ UNCHANGED vars
Check == ~LT!Active \/ LineOK(Tr[l]) \/ PrintT(<<"BADLINE", l>>)
=============================================================================
