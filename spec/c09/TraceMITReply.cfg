CONSTANTS NShards = 16  Kinds = {}  MaxReq = 0
INIT TInit
NEXT TNext
INVARIANT Check
CHECK_DEADLOCK FALSE
