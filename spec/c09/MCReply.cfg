CONSTANTS Kinds = {"AS", "TGS"}  MaxReq = 2
SPECIFICATION Spec
INVARIANT OnlyOwnAnswers
CONSTRAINT AccBound
CHECK_DEADLOCK FALSE
