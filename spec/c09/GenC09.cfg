CONSTANTS Kinds = {}  MaxReq = 0
INIT Init
NEXT Next
CHECK_DEADLOCK FALSE
