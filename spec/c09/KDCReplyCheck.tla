---------------------------- MODULE KDCReplyCheck ----------------------------
(***************************************************************************)
(* C09: when does the client accept a KDC reply.  The outstanding request  *)
(* q is [kind, reqAddrs, level]; a reply p is described RELATIVE to it:    *)
(* every field is "same"/"right"/"intact" in the correct reply and takes   *)
(* one of the listed other values in a perturbed one (RFC 4120 3.1.5,      *)
(* 3.3.4).  level = "client" is Client.Login / GetServiceTicket,           *)
(* level = "verify" the exported ASRep.Verify / TGSRep.Verify (the latter  *)
(* is not given the client's realm and cannot compare crealm).             *)
(***************************************************************************)
EXTENDS Integers, Sequences, FiniteSets, TLC
Domain == [ nonce    |-> {"same", "+1", "-1", "earlier",       \* earlier: the KDC's reply to a previous request, replayed
                          "+2^32", "-2^32"},                     \* the same low 32 bits (the nonce is an INTEGER, not a 32-bit word)
            cname    |-> {"same", "differs", "regrouped"},       \* regrouped: another name that prints alike (components a, b sent as one component "a/b")
            crealm   |-> {"same", "differs"},
            sname    |-> {"same", "differs", "regrouped"},       \* server name inside the encrypted part
            srealm   |-> {"same", "differs"},
            tktRealm |-> {"same", "differs"},
            addrs    |-> {"same", "none", "subset", "extra", "otherOnly"},   \* relative to the addresses of the request (same = echoed)
            times    |-> {"inside", "authBeyond", "startBeyond", "bothBeyond",
                          "startAbsent",                         \* the OPTIONAL starttime left out (it then is the authtime), authtime inside
                          "startAbsentAuthBeyond",               \* left out, and the authtime beyond the skew
                          "authZero"},                           \* authtime 0001-01-01 00:00:00 (what an unset time value encodes to)
            key      |-> {"right", "other"},
            usage    |-> {"right", "other"},
            msgType  |-> {"right", "swapped"},
            cipher   |-> {"intact", "flipped", "truncated"} ]
Fields == DOMAIN Domain
Correct == [ nonce |-> "same", cname |-> "same", crealm |-> "same", sname |-> "same", srealm |-> "same", tktRealm |-> "same",
             addrs |-> "same", times |-> "inside", key |-> "right", usage |-> "right", msgType |-> "right", cipher |-> "intact" ]
Decrypts(p) == p.key = "right" /\ p.usage = "right" /\ p.cipher = "intact" /\ p.msgType = "right"
\* when the request lists no addresses, "same", "subset" and "none" all denote the empty list, "extra" is "otherOnly"
\* AS: if the request listed addresses the reply must list the same ones
AddrAS(q, p) == q.reqAddrs = "some" => p.addrs = "same"
\* TGS: every address of the reply must have been in the request
AddrTGS(q, p) == p.addrs \in {"none", "same", "subset"}
AcceptAS(q, p) == /\ Decrypts(p) /\ p.nonce = "same" /\ p.cname = "same" /\ p.crealm = "same"
                  /\ p.sname = "same" /\ p.srealm = "same" /\ AddrAS(q, p)
                  /\ p.times \notin {"authBeyond", "bothBeyond", "startAbsentAuthBeyond", "authZero"}   \* KDC time (authtime) within the skew
AcceptTGS(q, p) == /\ Decrypts(p) /\ p.nonce = "same" /\ p.cname = "same" /\ (q.level = "client" => p.crealm = "same")
                   /\ p.tktRealm = "same" /\ p.srealm = "same" /\ AddrTGS(q, p)
                   /\ p.times \notin {"bothBeyond", "startAbsentAuthBeyond"}       \* starttime (the authtime when left out) or authtime within the skew
Accept(q, p) == IF q.kind = "AS" THEN AcceptAS(q, p) ELSE AcceptTGS(q, p)
\* fields whose alteration the statement does not constrain for this kind of request (either outcome is acceptable)
\* kind "TGSREF" is a TGS exchange whose (perturbed) reply is a referral to another realm: the same conditions apply to it
Open(q, f) == (q.kind = "AS" /\ f = "tktRealm") \/ (q.kind # "AS" /\ f = "sname")
\* KRB-ERROR replies: the exchange fails and the KDC's code reaches the caller, except for the codes the client acts upon
Handled == {24, 25, 52, 68}     \* PREAUTH_FAILED, PREAUTH_REQUIRED (retry with pre-authentication), RESPONSE_TOO_BIG (TCP), WRONG_REALM (referral)

\* ---- a client that has sent requests n1 < n2 < ... and holds the last one outstanding ------------------------------------
CONSTANTS Kinds, MaxReq
VARIABLES outstanding, earlier, accepted
vars == <<outstanding, earlier, accepted>>
Init == outstanding = 0 /\ earlier = {} /\ accepted = << >>
Send == /\ outstanding < MaxReq /\ outstanding' = outstanding + 1
        /\ earlier' = (IF outstanding = 0 THEN earlier ELSE earlier \cup {outstanding}) /\ UNCHANGED accepted
\* a reply carries the nonce it answers (a number) and a description p
Receive(n, p, q) == /\ outstanding > 0
                    /\ LET rel == [p EXCEPT !.nonce = IF n = outstanding THEN "same" ELSE IF n \in earlier THEN "earlier" ELSE "+1"] IN
                       accepted' = IF Accept(q, rel) THEN Append(accepted, [nonce |-> n, for |-> outstanding, p |-> rel]) ELSE accepted
                    /\ UNCHANGED <<outstanding, earlier>>
DevAll == UNION { { <<f, v>> : v \in Domain[f] \ {Correct[f]} } : f \in Fields }
Replies == {Correct} \cup { [Correct EXCEPT ![d[1]] = d[2]] : d \in DevAll }
Next == Send \/ \E n \in 1..MaxReq, p \in Replies, k \in Kinds, a \in {"none", "some"} :
                   Receive(n, p, [kind |-> k, reqAddrs |-> a, level |-> "client"])
Spec == Init /\ [][Next]_vars
\* only answers to the outstanding request are accepted, and only unaltered in the authenticated fields
OnlyOwnAnswers == \A i \in 1..Len(accepted) : accepted[i].nonce = accepted[i].for /\ Decrypts(accepted[i].p) /\ accepted[i].p.cname = "same"
=============================================================================
