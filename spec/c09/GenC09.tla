------------------------------- MODULE GenC09 -------------------------------
(* role B: every single-field perturbation of the correct reply (and, for thorough runs, every pair) *)
EXTENDS KDCReplyCheck, Json, SequencesExt
Dev == UNION { { <<f, v>> : v \in Domain[f] \ {Correct[f]} } : f \in Fields }
FieldOrder == SetToSeq(Fields)
Idx(f) == CHOOSE i \in 1..Len(FieldOrder) : FieldOrder[i] = f
One == { [p |-> [Correct EXCEPT ![d[1]] = d[2]], devs |-> <<d>>] : d \in Dev }
Two == { [p |-> [[Correct EXCEPT ![de[1][1]] = de[1][2]] EXCEPT ![de[2][1]] = de[2][2]], devs |-> <<de[1], de[2]>>] :
            de \in { x \in Dev \X Dev : Idx(x[1][1]) < Idx(x[2][1]) } }
ASSUME ndJsonSerialize("cases.ndjson", <<[p |-> Correct, devs |-> << >>]>> \o SetToSeq(One) \o SetToSeq(Two))
ASSUME PrintT(<<"COUNTS", Cardinality(One), Cardinality(Two)>>)
=============================================================================
