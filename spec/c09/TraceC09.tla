------------------------------ MODULE TraceC09 ------------------------------
(* C09 trace validation: one line = one exchange of the real client with the simulated KDC whose reply was perturbed as
   x.p says (or a KRB-ERROR with code x.code), and what the caller observed at both levels. *)
EXTENDS KDCReplyCheck, Json
CONSTANTS NShards
Tr == ndJsonDeserialize("trace.ndjson")
NLines == Len(Tr)
VARIABLES sh, l
LT == INSTANCE LineTrace
Q(x, lvl) == [kind |-> x.kind, reqAddrs |-> x.reqAddrs, level |-> lvl]
OpenCase(x) == \E i \in 1..Len(x.devs) : Open(Q(x, "client"), x.devs[i][1])
ReplyOK(x) ==
  /\ x.client.panic = "" /\ x.verify.panic = ""
  /\ x.setupOK                                               \* the unperturbed part of the scenario worked (vacuity guard per line)
  /\ OpenCase(x) \/ (x.client.err <=> ~Accept(Q(x, "client"), x.p))
  /\ OpenCase(x) \/ (x.verify.ok <=> Accept(Q(x, "verify"), x.p))
ErrorOK(x) == /\ x.client.panic = "" /\ x.setupOK
              /\ x.client.err                               \* the exchange fails
              /\ x.client.errHasCode                        \* and the KDC's code reaches the caller
LineOK(x) == IF x.ev = "krberror" THEN ErrorOK(x) ELSE ReplyOK(x)
TInit == LT!Init /\ Init
TNext == LT!Next /\ UNCHANGED vars
Check == ~LT!Active \/ LineOK(Tr[l]) \/ PrintT(<<"BADLINE", l>>)
=============================================================================
