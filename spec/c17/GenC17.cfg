INIT Init
NEXT Next
