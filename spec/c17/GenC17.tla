------------------------------- MODULE GenC17 -------------------------------
(* role B: the independent writer of GSSTokenFormat renders the token of every case chosen by the driver
   (cases.ndjson: kind, etype, key, key usage, flags, sequence number, message, rotation count) into the octets a
   conforming peer puts on the wire; the harness hands these images to gokrb5's reader and compares gokrb5's writer
   with them.  acc = the receiver must expect a token of the context acceptor. *)
EXTENDS GSSTokens, Json
Cases == ndJsonDeserialize("cases.ndjson")
H(s) == FromHex(s)
TokOf(c) == [kind |-> c.kind, et |-> c.et, key |-> H(c.key), u |-> c.u, flags |-> c.flags, seq |-> H(c.sn), msg |-> H(c.msg)]
Image(c) == IF c.kind = "mic" THEN RenderMIC(TokOf(c)) ELSE RenderWrapRRC(TokOf(c), c.rrc)
ASSUME \A i \in 1..Len(Cases) : Cases[i].kind \in {"mic", "wrap"} /\ Cases[i].et \in ETypes /\ Cases[i].flags \in 0..255
                                /\ Len(H(Cases[i].sn)) = 8 /\ Len(Cases[i].u) = 4 /\ Cases[i].rrc \in 0..65535
ASSUME ndJsonSerialize("images.ndjson", [i \in 1..Len(Cases) |->
          LET c == Cases[i] IN [kind |-> c.kind, et |-> c.et, key |-> c.key, u |-> c.u, flags |-> c.flags, sn |-> c.sn, msg |-> c.msg,
                                rrc |-> c.rrc, acc |-> (c.flags % 2) = 1, image |-> ToHex(Image(c))]])
ASSUME PrintT(<<"COUNTS", Len(Cases)>>)
VARIABLE x
Init == x = 0
Next == UNCHANGED x
=============================================================================
