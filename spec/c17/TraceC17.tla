------------------------------ MODULE TraceC17 ------------------------------
(* C17 trace validation, one line per token case.  The harness reports, for the case (kind, etype, key, usage, flags,
   sequence number, message) and the image the specification rendered for it:
     build   what gokrb5 marshals for the same fields (struct literal, SetChecksum, Marshal)
     ctor    what NewInitiatorWrapToken / NewInitiatorMICToken marshal for (message, key)
     dec     the fields gokrb5 unmarshals from the image under the sender's direction;  ver: Verify on them;
             remarshal: Marshal of the decoded token
     other   the outcome for the intact image when the receiver expects the other direction
     flips / flipsOther   outcome of every single-bit flip of the image (both expectations), run-length encoded
     truncs  outcome of every proper prefix of the image;  ext: of the image with one more octet
     ecs / strips (Wrap)  the image with every value of the EC field; with the checksum cut to k octets and EC = k
     changes fields changed between SetChecksum and Verify: numbers offered per kind, and every accepted one in full
     ecunset (Wrap) Marshal after SetCheckSum with the EC field left at zero (an API hazard that is reported, not judged)
   Outcomes: d = Unmarshal returned an error, v = Verify refused, a = accepted, p = panic.
   Every acceptance must be justified by the reader rule of GSSTokenFormat evaluated on the very octets / fields
   presented; rejections must fall in the outcome set of the bit class (GSSTokens).  Lines with rrc # 0 (tokens a
   conforming peer may send, which gokrb5 does not un-rotate) only have to be free of panics: documented deviation. *)
EXTENDS GSSTokens, Json, FiniteSets
CONSTANTS NShards
Tr == ndJsonDeserialize("trace.ndjson")
NLines == Len(Tr)
VARIABLES sh, l
LT == INSTANCE LineTrace
H(s) == FromHex(s)
Pick(v, orig) == IF v = "=" THEN orig ELSE H(v)
TokOf(c) == [kind |-> c.kind, et |-> c.et, key |-> H(c.key), u |-> c.u, flags |-> c.flags, seq |-> H(c.sn), msg |-> H(c.msg)]
Seq0 == <<0, 0, 0, 0, 0, 0, 0, 0>>
CtorTok(t) == [t EXCEPT !.flags = 0, !.seq = Seq0, !.u = IF t.kind = "mic" THEN UInitiatorSign ELSE UInitiatorSeal]

\* runs = <<[o, f, t], ...>> must tile 0..N-1
Covers(runs, N) == /\ Len(runs) > 0 /\ runs[1].f = 0 /\ runs[Len(runs)].t = N - 1
                   /\ \A k \in 1..Len(runs) : runs[k].f <= runs[k].t
                   /\ \A k \in 1..(Len(runs) - 1) : runs[k + 1].f = runs[k].t + 1
FlipRunsOK(t, b, runs, Allowed(_), expAcc) ==
  LET segs == SegsOf(t) IN
  /\ Covers(runs, 8 * Len(b))
  /\ \A k \in 1..Len(runs) : \A s \in 1..Len(segs) :
        LET lo == Max2(runs[k].f, segs[s].from)  hi == Min2(runs[k].t, segs[s].to) IN
        \/ lo > hi
        \/ runs[k].o \in Allowed(segs[s].c) \ {"a"}
        \/ runs[k].o = "a" /\ "a" \in Allowed(segs[s].c)                               \* rrc: unconstrained
        \/ runs[k].o = "a" /\ \A i \in lo..hi : Accept(t, FlipBit(b, i), expAcc)        \* an acceptance the reader rule shares
TruncRunsOK(t, b, runs) ==
  /\ Covers(runs, Len(b))
  /\ \A k \in 1..Len(runs) : \/ runs[k].o = "d"
                             \/ runs[k].o = "v" /\ runs[k].f >= HdrLen
                             \/ runs[k].o = "a" /\ \A n \in runs[k].f..runs[k].t : Accept(t, Take(b, n), Acc(t))
\* Wrap: EC set to every k in 0..(octets after the header)+1; checksum cut to k octets with EC = k
VariantRunsOK(t, runs, N, V(_)) ==
  /\ Covers(runs, N)
  /\ \A k \in 1..Len(runs) : \/ runs[k].o \in {"d", "v"}
                             \/ runs[k].o = "a" /\ \A j \in runs[k].f..runs[k].t : Accept(t, V(j), Acc(t))
\* fields changed after the checksum was computed: Verify may say yes only if the checksum of what is presented is the token's
ChangeJustified(t, ck, c) ==
  LET msg == Pick(c.msg, t.msg)  key == Pick(c.key, t.key)
  IN ck = (IF t.kind = "mic" THEN MICChecksum(t.et, key, c.u, msg, c.flags, H(c.seq)) ELSE WrapChecksum(t.et, key, c.u, msg, c.flags, H(c.seq)))
ChangesOK(x, t, ck) ==
  LET of == x.changes.offered  ac == x.changes.accepted IN
  /\ of.flags = 8 /\ of.seq = 64 /\ of.key >= 2 /\ of.usage >= 3 /\ of.msg >= 2                \* the harness offered what the property quantifies over
  /\ \A k \in 1..Len(ac) : ChangeJustified(t, ck, ac[k])    \* (a changed EC / RRC field of the struct is justified: both are zero in the checksum input)
Panics(x) == \/ x.remarshal.panic # "" \/ x.build.panic # "" \/ x.ctor.panic # "" \/ x.dec.panic # "" \/ x.ver.panic # "" \/ x.changes.panic # ""
             \/ x.other = "p" \/ x.ext = "p"
             \/ \E k \in 1..Len(x.flips) : x.flips[k].o = "p"
             \/ \E k \in 1..Len(x.flipsOther) : x.flipsOther[k].o = "p"
             \/ \E k \in 1..Len(x.truncs) : x.truncs[k].o = "p"
             \/ \E k \in 1..Len(x.ecs) : x.ecs[k].o = "p"
             \/ \E k \in 1..Len(x.strips) : x.strips[k].o = "p"
\* RFC 4121 4.2.2: Sealed SHALL NOT be set in MIC tokens and announces an encrypted body in Wrap tokens.  gokrb5 carries the
\* bit as an opaque signed flag; an implementation may as well refuse to build or to decode such a token (never: panic, build
\* other octets, return other fields, or decode and not verify).
Sealed(t) == ((t.flags \div FlagSealed) % 2) = 1
FieldsOK(x, t, b) ==
  LET d == Decode(t, b, Acc(t)) IN
  /\ d.ok /\ ~x.dec.err
  /\ x.dec.flags = d.f.flags /\ H(x.dec.seq) = d.f.seq /\ H(x.dec.cksum) = d.f.cksum
  /\ d.f.flags = t.flags /\ d.f.seq = t.seq                                                    \* the reader rule returns what was written
  /\ t.kind = "wrap" => (x.dec.ec = d.f.ec /\ x.dec.rrc = d.f.rrc /\ H(x.dec.msg) = d.f.msg /\ d.f.msg = t.msg /\ d.f.ec = Len(d.f.cksum))
\* (bound variables instead of LET: TLC evaluates the token, its image and the checksum once per line)
LineOK(x) ==
  \E t \in {TokOf(x)} :
  IF x.rrc # 0 THEN H(x.image) = RenderWrapRRC(t, x.rrc) /\ ~Panics(x)
  ELSE \E b \in {Render(t)} : \E ck \in {LastN(b, MacLen(t.et))} :
  /\ H(x.image) = b /\ x.acc = Acc(t)                                                          \* the image is what this specification wrote
  /\ ~Panics(x)
  /\ \/ ~x.build.err /\ H(x.build.hex) = b                                                     \* gokrb5's writer: same octets
     \/ x.build.err /\ Sealed(t)
  /\ ~x.ctor.err /\ H(x.ctor.hex) = Render(CtorTok(t))                                         \* the constructors: initiator token, sequence number 0
  /\ \/ FieldsOK(x, t, b) /\ x.ver.ok                                                          \* gokrb5's reader: same fields, and it verifies,
        /\ ~x.remarshal.err /\ H(x.remarshal.hex) = b                                           \* and what it decoded marshals to the image again
     \/ x.dec.err /\ Sealed(t)
  /\ x.other = "d"                                                                             \* wrong direction: decode rejects
  /\ FlipRunsOK(t, b, x.flips, AllowedFlip, Acc(t))
  /\ FlipRunsOK(t, b, x.flipsOther, AllowedFlipOther, ~Acc(t))
  /\ TruncRunsOK(t, b, x.truncs)
  /\ (x.ext \in {"d", "v"} \/ (x.ext = "a" /\ Accept(t, b \o <<0>>, Acc(t))))
  /\ t.kind = "wrap" => LET EV(k) == ECVariant(b, k)  SV(k) == StripVariant(b, Len(ck), k) IN
                         /\ VariantRunsOK(t, x.ecs, Len(b) - HdrLen + 2, EV)
                         /\ x.dec.err \/ \E k \in 1..Len(x.ecs) : x.ecs[k].o = "a" /\ x.ecs[k].f = Len(ck) /\ x.ecs[k].t = Len(ck)   \* the true EC, and only it, is accepted
                         /\ VariantRunsOK(t, x.strips, Len(ck), SV)
  /\ (x.build.err \/ ChangesOK(x, t, ck))
Init == LT!Init
Next == LT!Next
Check == ~LT!Active \/ LineOK(Tr[l]) \/ PrintT(<<"BADLINE", l>>)
=============================================================================
