CONSTANT Lens = {0, 1, 5}
CONSTANT FlagSet = {0, 5}
INIT Init
NEXT Next
INVARIANT Classified
INVARIANT Tiling
CHECK_DEADLOCK FALSE
