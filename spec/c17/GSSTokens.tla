------------------------------ MODULE GSSTokens ------------------------------
(***************************************************************************)
(* Every bit of a marshalled MIC / Wrap token belongs to exactly one class; *)
(* the class fixes what a receiver may do with the token when that bit is   *)
(* changed in transit:                                                      *)
(*   id, filler, dir : decoding must reject                      {d}        *)
(*   flags (other bits), seq, payload, cksum, ec :                          *)
(*                     decoding rejects or verification fails    {d, v}     *)
(*   rrc             : not integrity protected by RFC 4121 (zeroed in the   *)
(*                     checksum input); gokrb5 ignores the field, a reader  *)
(*                     that honours it un-rotates: unconstrained {d, v, a}  *)
(* Outcomes: "d" decode rejected, "v" decoded but verification failed,      *)
(* "a" accepted.  Bits are numbered from 0, most significant bit of the     *)
(* first octet first.  ClassTheorem states that the READER of               *)
(* GSSTokenFormat obeys the classification (checked by MCGSSTokens); the    *)
(* trace validation holds gokrb5 to the same classification and justifies   *)
(* every acceptance by the reader rule itself.                              *)
(***************************************************************************)
EXTENDS GSSTokenFormat

Seg(c, f, t) == [c |-> c, from |-> f, to |-> t]
\* n = payload octets carried in the token (0 for MIC), ck = checksum octets
WrapSegs(n, ck) == << Seg("id", 0, 15), Seg("flags", 16, 22), Seg("dir", 23, 23), Seg("filler", 24, 31), Seg("ec", 32, 47),
                      Seg("rrc", 48, 63), Seg("seq", 64, 127), Seg("payload", 128, 127 + 8 * n), Seg("cksum", 128 + 8 * n, 127 + 8 * (n + ck)) >>
MICSegs(ck) == << Seg("id", 0, 15), Seg("flags", 16, 22), Seg("dir", 23, 23), Seg("filler", 24, 63), Seg("seq", 64, 127),
                  Seg("cksum", 128, 127 + 8 * ck) >>
Segs(kind, n, ck) == IF kind = "mic" THEN MICSegs(ck) ELSE WrapSegs(n, ck)
ClassOf(segs, i) == LET k == CHOOSE k \in 1..Len(segs) : segs[k].from <= i /\ i <= segs[k].to IN segs[k].c

MustRejectDecode == {"id", "filler", "dir"}
Unconstrained == {"rrc"}
\* outcomes allowed without further justification when a bit of class c is flipped and the receiver's expectation is the sender's direction
AllowedFlip(c) == IF c \in MustRejectDecode THEN {"d"} ELSE IF c \in Unconstrained THEN {"d", "v", "a"} ELSE {"d", "v"}
\* the same when the receiver expects the other direction: flipping the direction bit makes the token decodable, nothing else does
AllowedFlipOther(c) == IF c = "dir" THEN {"d", "v"} ELSE {"d"}
\* truncation to n octets
AllowedTrunc(n) == IF n < HdrLen THEN {"d"} ELSE {"d", "v"}

\* ---- the reader rule obeys the classification.  t as in GSSTokenFormat plus kind
Render(t) == IF t.kind = "mic" THEN RenderMIC(t) ELSE RenderWrap(t)
Decode(t, b, expAcc) == IF t.kind = "mic" THEN MICDecode(b, expAcc) ELSE WrapDecode(b, expAcc)
Accept(t, b, expAcc) == IF t.kind = "mic" THEN MICAccept(b, expAcc, t.et, t.key, t.u, t.msg) ELSE WrapAccept(b, expAcc, t.et, t.key, t.u)
Outcome(t, b, expAcc) == IF ~Decode(t, b, expAcc).ok THEN "d" ELSE IF Accept(t, b, expAcc) THEN "a" ELSE "v"
Acc(t) == (t.flags % 2) = 1
SegsOf(t) == Segs(t.kind, IF t.kind = "mic" THEN 0 ELSE Len(t.msg), MacLen(t.et))

\* flipping bit i of the rendered token b
FlipTheorem(t, b, i) ==
  LET c == ClassOf(SegsOf(t), i)
      b2 == FlipBit(b, i)
      o == Outcome(t, b2, Acc(t))
      o2 == Outcome(t, b2, ~Acc(t))
  IN /\ o \in AllowedFlip(c)
     /\ o2 \in AllowedFlipOther(c)
     /\ c \in MustRejectDecode => o = "d"
     /\ c = "dir" => o2 = "v"                                   \* decodable under the other expectation, but the flags octet is signed
     /\ c = "rrc" => (o = "a") = ((BEVal(SubSeq(b2, 7, 8)) % (Len(b) - HdrLen)) = 0)   \* accepted iff the rotation is the identity
     /\ c \in {"flags", "seq", "payload", "cksum"} => o = "v"
\* Wrap only: the same octets with the EC field set to k, and the token with its checksum cut to the first k octets and EC = k
\* (k = 0: the checksum stripped altogether)
ECVariant(b, k) == [b EXCEPT ![5] = k \div 256, ![6] = k % 256]
StripVariant(b, ck, k) == ECVariant(Take(b, Len(b) - ck + k), k)
ECTheorem(t, b, k) == LET o == Outcome(t, ECVariant(b, k), Acc(t)) IN
                      IF k = MacLen(t.et) THEN o = "a" ELSE IF k > Len(b) - HdrLen THEN o = "d" ELSE o = "v"
StripTheorem(t, b, k) == Outcome(t, StripVariant(b, MacLen(t.et), k), Acc(t)) = "v"
TruncTheorem(t, b, n) == Outcome(t, Take(b, n), Acc(t)) \in AllowedTrunc(n)
IntactTheorem(t, b) == /\ Outcome(t, b, Acc(t)) = "a" /\ Outcome(t, b, ~Acc(t)) = "d"
                       /\ Len(b) = HdrLen + (IF t.kind = "mic" THEN 0 ELSE Len(t.msg)) + MacLen(t.et)
                       /\ \A u2 \in GSSUsages \ {t.u} : ~Accept([t EXCEPT !.u = u2], b, Acc(t))
=============================================================================
