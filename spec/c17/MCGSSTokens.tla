----------------------------- MODULE MCGSSTokens -----------------------------
(* role A: the reader rule of GSSTokenFormat obeys the bit classification of GSSTokens on every bit, every truncation
   and both expectations of a family of small tokens (every etype x MIC/Wrap x payload lengths x flags x usages).
   One TLC state per (token, bit) / (token, truncation length) /
   (Wrap token, value of the EC field) / (Wrap token, length the checksum is cut to). *)
EXTENDS GSSTokens, FiniteSets
CONSTANTS Lens, FlagSet
KeyOf(et) == TLCEval([i \in 1..KeyLen(et) |-> IF et = 16 THEN (2 * ((i * 37 + 11) % 128)) + 1 ELSE (i * 37 + et) % 256])   \* des3 octets need not have parity for a checksum
MsgOf(n) == TLCEval([i \in 1..n |-> (i * 101 + n) % 256])
Seqs == << <<0,0,0,0,0,0,0,0>>, <<0,0,0,1,0,0,0,0>>, <<255,255,255,255,255,255,255,255>> >>
Tokens == { [kind |-> k, et |-> et, key |-> KeyOf(et), u |-> U(22 + ((n + fl) % 4)), flags |-> fl, seq |-> Seqs[((n + fl) % 3) + 1], msg |-> MsgOf(n)] :
            k \in {"mic", "wrap"}, et \in ETypes, n \in Lens, fl \in FlagSet }
VARIABLES t, b, ph, i
Init == /\ t \in Tokens /\ b = Render(t) /\ ph = "intact" /\ i = 0
Next == \/ ph = "intact" /\ ph' = "flip" /\ i' = 0 /\ UNCHANGED <<t, b>>
        \/ ph = "intact" /\ ph' = "trunc" /\ i' = 0 /\ UNCHANGED <<t, b>>
        \/ ph = "intact" /\ t.kind = "wrap" /\ ph' \in {"ec", "strip"} /\ i' = 0 /\ UNCHANGED <<t, b>>
        \/ ph = "ec" /\ i + 1 <= Len(b) - HdrLen + 1 /\ i' = i + 1 /\ UNCHANGED <<t, b, ph>>
        \/ ph = "strip" /\ i + 1 < MacLen(t.et) /\ i' = i + 1 /\ UNCHANGED <<t, b, ph>>
        \/ ph = "flip" /\ i + 1 < 8 * Len(b) /\ i' = i + 1 /\ UNCHANGED <<t, b, ph>>
        \/ ph = "trunc" /\ i + 1 < Len(b) /\ i' = i + 1 /\ UNCHANGED <<t, b, ph>>
Classified == CASE ph = "intact" -> IntactTheorem(t, b)
                [] ph = "flip" -> FlipTheorem(t, b, i)
                [] ph = "trunc" -> TruncTheorem(t, b, i)
                [] ph = "ec" -> ECTheorem(t, b, i)
                [] ph = "strip" -> StripTheorem(t, b, i)
\* the segments tile the token exactly
Tiling == LET s == SegsOf(t) IN /\ s[1].from = 0 /\ s[Len(s)].to = 8 * Len(b) - 1
                                /\ \A k \in 1..(Len(s) - 1) : s[k + 1].from = s[k].to + 1
=============================================================================
