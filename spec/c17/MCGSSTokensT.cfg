CONSTANT Lens = {0, 1, 5, 16, 33}
CONSTANT FlagSet = {0, 1, 2, 3, 4, 5, 6, 7}
INIT Init
NEXT Next
INVARIANT Classified
INVARIANT Tiling
CHECK_DEADLOCK FALSE
