------------------------------ MODULE GSSVectors ------------------------------
(* Validation of the specification itself against tokens that were not produced by it: the four captured tokens of
   gokrb5's gssapi tests (v8/gssapi/wrapToken_test.go, MICToken_test.go; aes128-cts-hmac-sha1-96 session key): the Wrap
   challenge is a SASL/GSSAPI security-layer negotiation message of a Kerberized server.  The writer must reproduce
   them octet for octet and the reader must accept them. *)
EXTENDS GSSTokens
H(s) == FromHex(s)
T(name, ok) == IF ok THEN TRUE ELSE PrintT(<<"VECTORFAIL", name>>)
SK == H("14f9bde6b50ec508201a97f74c4e5bd3")
WCh == [kind |-> "wrap", et |-> 17, key |-> SK, u |-> UAcceptorSeal, flags |-> 1, seq |-> H("00000000575e85d6"), msg |-> H("01010000")]
WRe == [kind |-> "wrap", et |-> 17, key |-> SK, u |-> UInitiatorSeal, flags |-> 0, seq |-> H("0000000000000000"), msg |-> H("01010000")]
MCh == [kind |-> "mic", et |-> 17, key |-> SK, u |-> UAcceptorSign, flags |-> 1, seq |-> H("00000000575e85d6"), msg |-> H("deadbeef")]
MRe == [kind |-> "mic", et |-> 17, key |-> SK, u |-> UInitiatorSign, flags |-> 0, seq |-> H("0000000000000000"), msg |-> H("deadbeef")]
ASSUME T("wrap-challenge", RenderWrap(WCh) = H("050401ff000c000000000000575e85d601010000853b728d5268525a1386c19f"))
ASSUME T("wrap-reply", RenderWrap(WRe) = H("050400ff000c000000000000000000000101000079a033510b6f127212242b97"))
ASSUME T("mic-challenge", RenderMIC(MCh) = H("040401ffffffffff00000000575e85d6c34d12ba3e5b1b1310cd9cb3"))
ASSUME T("mic-reply", RenderMIC(MRe) = H("040400ffffffffff00000000000000009649ca09d2f1bc51ff6e5ca3"))
ASSUME T("accept", \A t \in {WCh, WRe, MCh, MRe} : IntactTheorem(t, Render(t)))
\* rotation: a Wrap token written with RRC = r is read back to the same fields, and RRC = 0 is the plain layout
ASSUME T("rrc", \A r \in {0, 1, 12, 15, 16, 17, 28, 65535} :
                  LET b == RenderWrapRRC(WCh, r)  d == WrapDecode(b, TRUE) IN
                  d.ok /\ d.f.msg = WCh.msg /\ d.f.rrc = r /\ d.f.ec = 12 /\ WrapAccept(b, TRUE, 17, SK, UAcceptorSeal))
ASSUME T("rotr", RotR(<<1, 2, 3, 4, 5>>, 2) = <<4, 5, 1, 2, 3>> /\ RotL(RotR(<<1, 2, 3, 4, 5>>, 7), 7) = <<1, 2, 3, 4, 5>>)
VARIABLE x
Init == x = 0
Next == UNCHANGED x
=============================================================================
