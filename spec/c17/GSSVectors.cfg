INIT Init
NEXT Next
