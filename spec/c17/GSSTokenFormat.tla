--------------------------- MODULE GSSTokenFormat ---------------------------
(***************************************************************************)
(* RFC 4121 section 4.2.6: the per-message tokens of the Kerberos V5 GSS   *)
(* mechanism, version 2 ("CFX"), without confidentiality.                  *)
(*                                                                         *)
(*   4.2.6.1  MIC token    04 04 | flags | FF FF FF FF FF | SND_SEQ(8) | SGN_CKSUM *)
(*   4.2.6.2  Wrap token   05 04 | flags | FF | EC(2) | RRC(2) | SND_SEQ(8) | data *)
(*            data = RotR(plaintext | checksum, RRC);  EC = checksum length *)
(*   4.2.4    checksum = get_mic(key, usage, plaintext | header), where for *)
(*            Wrap the header is taken with EC and RRC filled with zeros.   *)
(*   2        key usages: acceptor seal 22, acceptor sign 23,               *)
(*            initiator seal 24, initiator sign 25.                         *)
(*   4.2.2    flags: 01 SentByAcceptor, 02 Sealed, 04 AcceptorSubkey.       *)
(*                                                                         *)
(* This module is an independent WRITER (RenderMIC, RenderWrap) and READER *)
(* (MICDecode, WrapDecode, MICAccept, WrapAccept) of the format.  get_mic  *)
(* is Checksum of KrbCrypto (the mandatory                                  *)
(* checksum of the key's encryption type).  Sequence numbers are 8-byte    *)
(* big-endian tuples, key usages 4-byte tuples (TLC integers are 32 bit).  *)
(* The flags octet is carried as an opaque header octet: the integrity-only *)
(* layout is written for every flags value (the caller of gokrb5 chooses it).*)
(***************************************************************************)
EXTENDS KrbCrypto

UAcceptorSeal  == U(22)
UAcceptorSign  == U(23)
UInitiatorSeal == U(24)
UInitiatorSign == U(25)
GSSUsages == {UAcceptorSeal, UAcceptorSign, UInitiatorSeal, UInitiatorSign}

FlagSentByAcceptor == 1
FlagSealed == 2
FlagAcceptorSubkey == 4
HdrLen == 16
Filler5 == <<255, 255, 255, 255, 255>>

MICHeader(flags, seq) == <<4, 4, flags>> \o Filler5 \o seq
WrapHeader(flags, ec, rrc, seq) == <<5, 4, flags, 255>> \o BE16(ec) \o BE16(rrc) \o seq

\* the octets the checksum is computed over
MICInput(msg, flags, seq) == msg \o MICHeader(flags, seq)
WrapInput(msg, flags, seq) == msg \o WrapHeader(flags, 0, 0, seq)
MICChecksum(et, key, u, msg, flags, seq) == Checksum(et, key, u, MICInput(msg, flags, seq))
WrapChecksum(et, key, u, msg, flags, seq) == Checksum(et, key, u, WrapInput(msg, flags, seq))

\* right / left rotation of an octet string by k positions (4.2.5)
RotR(s, k) == IF Len(s) = 0 THEN s ELSE LET n == Len(s)  r == k % n IN TLCEval([i \in 1..n |-> s[((i - 1 - r + n) % n) + 1]])
RotL(s, k) == IF Len(s) = 0 THEN s ELSE LET n == Len(s)  r == k % n IN TLCEval([i \in 1..n |-> s[((i - 1 + r) % n) + 1]])

\* ---- the writer.  t = [et, key, u, flags, seq, msg] (+ rrc for Wrap)
RenderMIC(t) == MICHeader(t.flags, t.seq) \o MICChecksum(t.et, t.key, t.u, t.msg, t.flags, t.seq)
RenderWrapRRC(t, rrc) ==
  LET ck == WrapChecksum(t.et, t.key, t.u, t.msg, t.flags, t.seq)
  IN WrapHeader(t.flags, Len(ck), rrc, t.seq) \o RotR(t.msg \o ck, rrc)
RenderWrap(t) == RenderWrapRRC(t, 0)

\* ---- the reader: structure.  expAcc = the receiver expects a token sent by the context acceptor
NoFields == [flags |-> 0, ec |-> 0, rrc |-> 0, seq |-> <<>>, msg |-> <<>>, cksum |-> <<>>]
Rej(why) == [ok |-> FALSE, why |-> why, f |-> NoFields]
MICDecode(b, expAcc) ==
  IF Len(b) < HdrLen THEN Rej("short")
  ELSE IF SubSeq(b, 1, 2) # <<4, 4>> THEN Rej("id")
  ELSE IF ((b[3] % 2) = 1) # expAcc THEN Rej("dir")
  ELSE IF SubSeq(b, 4, 8) # Filler5 THEN Rej("filler")
  ELSE [ok |-> TRUE, why |-> "", f |-> [flags |-> b[3], ec |-> 0, rrc |-> 0, seq |-> SubSeq(b, 9, 16), msg |-> <<>>, cksum |-> Drop(b, HdrLen)]]
WrapDecode(b, expAcc) ==
  IF Len(b) < HdrLen THEN Rej("short")
  ELSE IF SubSeq(b, 1, 2) # <<5, 4>> THEN Rej("id")
  ELSE IF ((b[3] % 2) = 1) # expAcc THEN Rej("dir")
  ELSE IF b[4] # 255 THEN Rej("filler")
  ELSE LET ec == b[5] * 256 + b[6]
           rrc == b[7] * 256 + b[8]
       IN IF ec > Len(b) - HdrLen THEN Rej("ec")
          ELSE LET data == RotL(Drop(b, HdrLen), rrc)
               IN [ok |-> TRUE, why |-> "", f |-> [flags |-> b[3], ec |-> ec, rrc |-> rrc, seq |-> SubSeq(b, 9, 16),
                                                  msg |-> Take(data, Len(data) - ec), cksum |-> LastN(data, ec)]]

\* ---- the reader: verdict.  A MIC token is verified against the message msg presented with it.
MICAccept(b, expAcc, et, key, u, msg) ==
  LET d == MICDecode(b, expAcc) IN d.ok /\ d.f.cksum = MICChecksum(et, key, u, msg, d.f.flags, d.f.seq)
WrapAccept(b, expAcc, et, key, u) ==
  LET d == WrapDecode(b, expAcc) IN d.ok /\ d.f.cksum = WrapChecksum(et, key, u, d.f.msg, d.f.flags, d.f.seq)
=============================================================================
