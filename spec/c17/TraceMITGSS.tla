----------------------------- MODULE TraceMITGSS -----------------------------
(***************************************************************************)
(* C17 against an independent implementation (vh mitgss): MIT Kerberos'     *)
(* GSS-API establishes a context between a user logged in at the simulated  *)
(* KDC and the service's keytab (stage 6 = established on both sides), and  *)
(* protects a message in both directions with gss_get_mic and gss_wrap.     *)
(*   - gokrb5 must decode each of MIT's four tokens for the direction it    *)
(*     came from, verify it with the context key and the RFC 4121 key usage *)
(*     of that direction, and (Wrap) return the message;                    *)
(*   - MIT must verify the MIC and Wrap tokens gokrb5 builds for the two    *)
(*     directions (gss_verify_mic, gss_unwrap returning the message), and   *)
(*     refuse gokrb5's MIC over a message with one bit changed.             *)
(* "an independent implementation reproduces the checksum from the payload, *)
(* header, key and key usage" - here the independent implementation is not  *)
(* this specification but MIT's library.                                    *)
(***************************************************************************)
EXTENDS Integers, Sequences, TLC, Json
CONSTANTS NShards
Tr == ndJsonDeserialize("trace.ndjson")
NLines == Len(Tr)
VARIABLES sh, l
LT == INSTANCE LineTrace
GoReads(v) == v.panic = "" /\ v.decoded /\ v.verified /\ v.payloadIsMessage
MITReads(v) == v.answered /\ v.micOK /\ v.unwrapOK /\ v.plainIsMessage
Established(x) == x.mitStage = 6 /\ x.mitRC = 0
LineOK(x) == /\ Established(x)
             /\ GoReads(x.goMicI) /\ GoReads(x.goWrapI) /\ GoReads(x.goMicA) /\ GoReads(x.goWrapA)
             /\ x.buildPanic = "" /\ MITReads(x.mitReadsInitiatorTokens) /\ MITReads(x.mitReadsAcceptorTokens)
             /\ x.mitRefusesChangedMessage
Init == LT!Init
Next == LT!Next
Check == ~LT!Active \/ LineOK(Tr[l]) \/ PrintT(<<"BADLINE", l>>)
=============================================================================
