------------------------------- MODULE PAHints -------------------------------
(* RFC 4120 section 5.2.7.5: which hint decides salt and string-to-key parameters.
   "If ETYPE-INFO2 is present, ETYPE-INFO and PW-SALT are ignored; if ETYPE-INFO is present PW-SALT is ignored."
   The effective hint is a function of the SET of hints present, never of their order in the PA-DATA sequence. *)
EXTENDS Integers, Sequences, FiniteSets
Hints == {"pwsalt", "info", "info2"}
\* all orders in which any subset of the hints can arrive
Orders == { s \in UNION { [1..n -> Hints] : n \in 0..3 } : \A i, j \in 1..Len(s) : i # j => s[i] # s[j] }
Present(order) == { order[i] : i \in 1..Len(order) }
Effective(P) == IF "info2" \in P THEN "info2" ELSE IF "info" \in P THEN "info" ELSE IF "pwsalt" \in P THEN "pwsalt" ELSE "default"
\* only ETYPE-INFO2 carries string-to-key parameters
ParamsFrom(P) == IF "info2" \in P THEN "info2" ELSE "default"
THEOREM OrderIndependent == \A a, b \in Orders : Present(a) = Present(b) => Effective(Present(a)) = Effective(Present(b))
=============================================================================
