------------------------------- MODULE GenC08 -------------------------------
(* role B for C08: every order of every subset of the three PA-data hints x etype, and random-to-key inputs that
   stretch to each of the 16 weak DES keys in each of the three positions *)
EXTENDS KrbCrypto, PAHints, Json, SequencesExt
ASSUME \A a, b \in Orders : Present(a) = Present(b) => Effective(Present(a)) = Effective(Present(b))
ASSUME Cardinality(Orders) = 16
HintCases == { [ev |-> "hints", et |-> et, order |-> o] : et \in ETypes, o \in Orders }
\* inverse of Stretch: the 7 input bytes whose expansion is the parity-adjusted key k
Unstretch(k) == [i \in 1..7 |-> (k[i] \div 2) * 2 + (((k[8] \div 2) \div (2 ^ (i - 1))) % 2)]
ASSUME \A k \in WeakDES : Stretch(Unstretch(k)) = k
Filler == <<16, 50, 84, 118, 152, 186, 220>>       \* stretches to a non-weak key
R2KCases == { [ev |-> "r2k", in |-> ToHex(IF pos = 1 THEN Unstretch(k) \o Filler \o Filler
                                           ELSE IF pos = 2 THEN Filler \o Unstretch(k) \o Filler
                                           ELSE Filler \o Filler \o Unstretch(k)), weak |-> TRUE] : k \in WeakDES, pos \in 1..3 }
ASSUME ndJsonSerialize("gen_out.ndjson", SetToSeq(HintCases) \o SetToSeq(R2KCases))
VARIABLE x
Init == x = 0
Next == UNCHANGED x
=============================================================================
