INIT Init
NEXT Next
