------------------------------- MODULE GenC05 -------------------------------
(* role B: the specification mints reference ciphertexts for inputs chosen by the driver (seeded keys, contents and
   confounders); the library must decrypt them. *)
EXTENDS KrbCrypto, Json
In == ndJsonDeserialize("gen_in.ndjson")
Out == [i \in 1..Len(In) |->
          LET x == In[i] IN
          [et |-> x.et, key |-> x.key, u |-> x.u, plain |-> x.plain, conf |-> x.conf,
           cipher |-> ToHex(Encrypt(x.et, FromHex(x.key), x.u, FromHex(x.conf), FromHex(x.plain)))]]
ASSUME ndJsonSerialize("gen_out.ndjson", Out)
VARIABLE x
Init == x = 0
Next == UNCHANGED x
=============================================================================
