------------------------------ MODULE TraceC06 ------------------------------
(* C06 trace validation.  One line = one authentic library ciphertext (etype x.et, key "k", usage x.u) and one
   mutation class applied exhaustively to it by the harness; x.succ lists every presented string the library
   decrypted successfully, each described as the AEAD model describes a wire string: whether its bytes still equal
   the authentic message (same), the key it was presented under ("k" or "other") and the usage.  The line is
   accepted iff every such entry is Authentic in the ideal functionality. *)
EXTENDS Integers, Sequences, FiniteSets, TLC, Json, AEADDefs
CONSTANTS NShards
Tr == ndJsonDeserialize("trace.ndjson")
NLines == Len(Tr)
VARIABLES sh, l
LT == INSTANCE LineTrace
LineOK(x) ==
  /\ x.panics = <<>>                                   \* "yields an error": a panic is not an error
  /\ x.leaks = 0                                       \* "and no plaintext"
  /\ \A s \in 1..Len(x.succ) :
        AuthenticIn(<<[key |-> "k", u |-> x.u, plain |-> "p"]>>, x.et,
                    [src |-> 1, changed |-> ~x.succ[s].same, how |-> x.class], x.succ[s].key, x.succ[s].u)
Init == LT!Init
Next == LT!Next
Check == ~LT!Active \/ LineOK(Tr[l]) \/ PrintT(<<"BADLINE", l>>)
=============================================================================
