------------------------------ MODULE TraceC05 ------------------------------
(* C05: every line is one library encryption (ev = "enc") or one library decryption of a ciphertext minted by
   this specification (ev = "dec").  The library interoperates iff the RFC transcription decrypts what it
   produced to the same plaintext, re-encrypting with the extracted confounder reproduces its bytes exactly,
   and it recovers the plaintext of spec-minted messages. *)
EXTENDS KrbCrypto, Json
CONSTANTS NShards
Tr == ndJsonDeserialize("trace.ndjson")
NLines == Len(Tr)
VARIABLES sh, l
LT == INSTANCE LineTrace

EncOK(x) ==
  LET key == FromHex(x.key)  plain == FromHex(x.plain)  c == FromHex(x.cipher)  c2 == FromHex(x.cipher2)
      d == Decrypt(x.et, key, x.u, c)
      d2 == Decrypt(x.et, key, x.u, c2)
  IN /\ x.panic = "" /\ ~x.encerr
     /\ d.ok /\ d.plain = PaddedPlain(x.et, d.conf, plain)
     /\ Len(d.conf) = ConfLen(x.et)
     /\ Encrypt(x.et, key, x.u, d.conf, plain) = c            \* byte-exact in the other direction
     /\ x.libok /\ FromHex(x.lib) = d.plain                   \* the library reads its own message as the RFC does
     /\ d2.ok /\ d2.plain = d.plain /\ d2.conf # d.conf /\ c2 # c   \* fresh confounder per message
DecOK(x) ==
  LET key == FromHex(x.key)  plain == FromHex(x.plain)  conf == FromHex(x.conf)  c == FromHex(x.cipher)
  IN /\ Encrypt(x.et, key, x.u, conf, plain) = c              \* the case really is what the specification minted
     /\ x.panic = "" /\ x.libok /\ FromHex(x.lib) = PaddedPlain(x.et, conf, plain)
LineOK(x) == IF x.ev = "enc" THEN EncOK(x) ELSE DecOK(x)

Init == LT!Init
Next == LT!Next
Check == ~LT!Active \/ LineOK(Tr[l]) \/ PrintT(<<"BADLINE", l>>)
=============================================================================
