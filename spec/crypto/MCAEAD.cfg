CONSTANTS Keys = {k1, k2}  Usages <- MCUsages  Plains = {p1, p2}  ET = 23  MaxMsgs = 1  MaxWire = 3
SPECIFICATION Spec
INVARIANT NoForgery
PROPERTY NoMalleability
