------------------------------ MODULE TraceC08 ------------------------------
(* C08: string-to-key, DK/DR/KDF, n-fold, random-to-key, PA-data precedence and generated keys, line by line *)
EXTENDS KrbCrypto, PAHints, Json
CONSTANTS NShards
Tr == ndJsonDeserialize("trace.ndjson")
NLines == Len(Tr)
VARIABLES sh, l
LT == INSTANCE LineTrace
\* iteration count denoted by a parameter string of 8 hex digits (RFC 3962 section 4: 4 octets, big endian);
\* the counts used in traces fit 31 bits
IterOf(et, p) == IF p = "default" THEN DefaultIter(et) ELSE BEVal(FromHex(p))
S2KOK(x) == /\ x.panic = "" /\ ~x.err
            /\ FromHex(x.key) = StringToKey(x.et, FromHex(x.pw), x.cps, FromHex(x.salt), IterOf(x.et, x.params))
\* a parameter string that is not exactly four octets must be refused
S2KBadOK(x) == x.panic = "" /\ x.err
NFoldOK(x) == x.panic = "" /\ FromHex(x.out) = NFold(FromHex(x.in), x.bits)
DKOK(x) == LET key == FromHex(x.key)  c == FromHex(x.const) IN
           /\ x.panic = "" /\ ~x.err
           /\ FromHex(x.dk) = (IF x.et \in {19, 20} /\ c # Kerberos
                               THEN (CASE c[Len(c)] = 170 -> Ke(x.et, key, SubSeq(c, 1, Len(c) - 1))
                                       [] c[Len(c)] = 85 -> Ki(x.et, key, SubSeq(c, 1, Len(c) - 1))
                                       [] c[Len(c)] = 153 -> Kc(x.et, key, SubSeq(c, 1, Len(c) - 1)))
                               ELSE DeriveKey(x.et, key, c))
           /\ (x.dr # "" => FromHex(x.dr) = (IF x.et = 16 THEN DR3(key, c) ELSE DRAES(key, c, Len(key))))
KDFOK(x) == x.panic = "" /\ FromHex(x.out) =
              Take(HMAC(HAlg(x.et), FromHex(x.key), <<0,0,0,1>> \o FromHex(x.label) \o <<0>> \o FromHex(x.ctx) \o BE32(x.bits)), x.bits \div 8)
R2KOK(x) == x.panic = "" /\ FromHex(x.out) = R2K3(FromHex(x.in))
HintsOK(x) ==
  LET P == Present(x.order)
      salt == FromHex(x.salts[Effective(P)])
      iter == IF ParamsFrom(P) = "info2" /\ x.et \notin {16, 23} THEN BEVal(FromHex(x.iter2)) ELSE DefaultIter(x.et)
  IN /\ x.panic = "" /\ ~x.err /\ x.keytype = x.et /\ x.retet = x.et
     /\ FromHex(x.key) = StringToKey(x.et, FromHex(x.pw), x.cps, salt, iter)
\* a generated key has the etype's length, works in the library's own encryption, and is a key of that etype for everybody else too:
\* for des3 a value random-to-key produces (the other etypes accept every string of the right length)
GenKeyOK(x) == /\ x.panic = "" /\ ~x.generr /\ x.keytype = x.et /\ x.keylen = KeyLen(x.et) /\ x.usable
               /\ Len(FromHex(x.key)) = x.keylen
               /\ x.et = 16 => ValidDES3Key(FromHex(x.key))
LineOK(x) == CASE x.ev = "s2k" -> S2KOK(x) [] x.ev = "s2kbad" -> S2KBadOK(x) [] x.ev = "nfold" -> NFoldOK(x)
               [] x.ev = "dk" -> DKOK(x) [] x.ev = "kdf" -> KDFOK(x) [] x.ev = "r2k" -> R2KOK(x)
               [] x.ev = "hints" -> HintsOK(x) [] x.ev = "genkey" -> GenKeyOK(x)
Init == LT!Init
Next == LT!Next
Check == ~LT!Active \/ LineOK(Tr[l]) \/ PrintT(<<"BADLINE", l>>)
=============================================================================
