------------------------------ MODULE LineTrace ------------------------------
(***************************************************************************)
(* Generic shape of a "stateless lines" trace validation (DESIGN 3.2 C).   *)
(* The recorded trace is a sequence of independent observations; line l is *)
(* acceptable iff LineOK(Tr[l]).  The lines are walked as NShards chains   *)
(* (l = s, s+N, s+2N, ...) so that TLC's workers validate them in parallel;*)
(* a rejected line is reported with PrintT and the walk continues, so that *)
(* every rejected line is seen by the driver (known findings are matched   *)
(* per line).  One TLC state per line: the state count is the line count.  *)
(***************************************************************************)
EXTENDS Integers, Sequences, TLC
CONSTANTS NShards, NLines
VARIABLES sh, l
Init == sh = 0 /\ l = 0
Next == \/ sh = 0 /\ sh' \in 1..NShards /\ sh' <= NLines /\ l' = sh'
        \/ sh # 0 /\ l + NShards <= NLines /\ l' = l + NShards /\ sh' = sh
Active == sh # 0 /\ l <= NLines
=============================================================================
