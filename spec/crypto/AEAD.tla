-------------------------------- MODULE AEAD --------------------------------
(***************************************************************************)
(* C06: the ideal functionality every Kerberos etype has to implement.     *)
(* A wire string is described by the authentic message it was derived from *)
(* and whether its bytes still equal that message ("changed").  The        *)
(* attacker flips bits, truncates, appends, swaps blocks, and presents the *)
(* string under any key and usage.  Decryption may return a plaintext only *)
(* for unchanged bytes under the same key and an aliased-equal usage       *)
(* (RFC 4757 maps usages 3,9 -> 8 and 23 -> 13 for rc4; identity else).    *)
(***************************************************************************)
EXTENDS Integers, Sequences, FiniteSets, TLC, AEADDefs
CONSTANTS Keys, Usages, Plains, ET, MaxMsgs, MaxWire   \* usages are 4-byte big-endian tuples
MutClass == {"flip", "truncate", "append", "swap"}
Alias(u) == AliasOf(ET, u)
VARIABLES msgs,   \* sequence of authentic messages [key, u, plain]
          wire,   \* set of strings on the wire: [src, changed, how]
          last    \* outcome of the last decryption
vars == <<msgs, wire, last>>
None == [ok |-> FALSE, plain |-> "none", src |-> 0, key |-> "none", u |-> <<>>]
Init == msgs = <<>> /\ wire = {} /\ last = None
Encrypt(k, u, p) == /\ Len(msgs) < MaxMsgs
                    /\ msgs' = Append(msgs, [key |-> k, u |-> u, plain |-> p])
                    /\ wire' = wire \cup {[src |-> Len(msgs) + 1, changed |-> FALSE, how |-> "none"]}
                    /\ UNCHANGED last
\* any single mutation of authentic bytes changes them, except swapping two equal blocks;
\* a mutation of already changed bytes may restore the original
Mutate(h, m) == /\ Cardinality(wire) < MaxWire
                /\ \E c \in BOOLEAN :
                     /\ (~h.changed /\ m # "swap") => c
                     /\ wire' = wire \cup {[src |-> h.src, changed |-> c, how |-> m]}
                /\ UNCHANGED <<msgs, last>>
Authentic(h, k, u) == AuthenticIn(msgs, ET, h, k, u)
Decrypt(h, k, u) == /\ last' = IF Authentic(h, k, u)
                               THEN [ok |-> TRUE, plain |-> msgs[h.src].plain, src |-> h.src, key |-> k, u |-> u]
                               ELSE [None EXCEPT !.src = h.src, !.key = k, !.u = u]
                    /\ UNCHANGED <<msgs, wire>>
Next == \/ \E k \in Keys, u \in Usages, p \in Plains : Encrypt(k, u, p)
        \/ \E h \in wire, m \in MutClass : Mutate(h, m)
        \/ \E h \in wire, k \in Keys, u \in Usages : Decrypt(h, k, u)
Spec == Init /\ [][Next]_vars
\* a plaintext is released only if some authentic message with that key, (aliased) usage and plaintext was encrypted
NoForgery == last.ok => \E i \in 1..Len(msgs) : /\ msgs[i].key = last.key /\ Alias(msgs[i].u) = Alias(last.u)
                                                /\ msgs[i].plain = last.plain
\* and never for changed bytes
NoMalleability == [][\A h \in wire, k \in Keys, u \in Usages : (Decrypt(h, k, u) /\ h.changed) => ~last'.ok]_vars
=============================================================================
