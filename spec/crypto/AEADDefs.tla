------------------------------ MODULE AEADDefs ------------------------------
(* constant-level definitions shared by the AEAD state machine and by the trace validation of C06 *)
EXTENDS Integers, Sequences
U4(n) == <<(n \div 16777216) % 256, (n \div 65536) % 256, (n \div 256) % 256, n % 256>>
\* RFC 4757: key usages 3 and 9 use message type 8, usage 23 uses 13; every other etype uses the usage itself
AliasOf(et, u) == IF et = 23 THEN (IF u \in {U4(3), U4(9)} THEN U4(8) ELSE IF u = U4(23) THEN U4(13) ELSE u) ELSE u
\* a wire string h = [src, changed, how] presented under key k and usage u is authentic w.r.t. the messages ms
AuthenticIn(ms, et, h, k, u) == ~h.changed /\ k = ms[h.src].key /\ AliasOf(et, u) = AliasOf(et, ms[h.src].u)
=============================================================================
