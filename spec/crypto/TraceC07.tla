------------------------------ MODULE TraceC07 ------------------------------
(* C07: checksum values equal the RFC transcription; verification accepts exactly the exact value; identifier tables
   equal the IANA registry. *)
EXTENDS KrbCrypto, Json, AEADDefs
CONSTANTS NShards
Tr == ndJsonDeserialize("trace.ndjson")
NLines == Len(Tr)
VARIABLES sh, l
LT == INSTANCE LineTrace
TableOK(x) == IF x.ct \in DOMAIN CksumEtype
              THEN ~x.err /\ x.et = CksumEtype[x.ct] /\ x.hashid = x.ct      \* the etype's mandatory checksum is this type
              ELSE x.err                                                     \* unassigned / unsupported identifiers select nothing
\* a verification entry is acceptable iff it is the exact value, or (rc4 only) another usage with the same message type
VerOK(x, v) == \/ v.class = "exact" /\ v.ok
               \/ v.class = "otherusage" /\ v.ok /\ x.et = 23 /\
                    \E u2 \in {U4(3), U4(8), U4(9), U4(13), U4(23)} : (u2[4] = v.pos /\ AliasOf(23, u2) = AliasOf(23, x.u))
SumOK(x) == /\ ~x.missing /\ x.panic = "" /\ ~x.err
            /\ x.et = CksumEtype[x.ct]
            /\ FromHex(x.sum) = Checksum(x.et, FromHex(x.key), x.u, FromHex(x.data))
            /\ \A i \in 1..Len(x.verify) : VerOK(x, x.verify[i])
            /\ \E i \in 1..Len(x.verify) : x.verify[i].class = "exact"
LineOK(x) == IF x.ev = "table" THEN TableOK(x) ELSE SumOK(x)
Init == LT!Init
Next == LT!Next
Check == ~LT!Active \/ LineOK(Tr[l]) \/ PrintT(<<"BADLINE", l>>)
=============================================================================
