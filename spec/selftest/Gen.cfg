INIT Init
NEXT Next
