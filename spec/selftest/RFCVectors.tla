----------------------------- MODULE RFCVectors -----------------------------
(* Validation of the specification itself (DESIGN section 8): the KrbCrypto transcription reproduces the published
   test vectors of RFC 3961 (A.1 n-fold, A.3 DR/DK, A.4 des3 string-to-key), RFC 3962 (B string-to-key),
   RFC 8009 (A: string-to-key, key derivation, encryption, checksum) and the rc4 string-to-key sample. *)
EXTENDS KrbCrypto
H(s) == FromHex(s)
S(s) == StrBytes(s)
T(name, ok) == IF ok THEN TRUE ELSE PrintT(<<"VECTORFAIL", name>>)
ASSUME T("nfold1", NFold(S("012345"), 64) = H("be072631276b1955"))
ASSUME T("nfold2", NFold(S("password"), 56) = H("78a07b6caf85fa"))
ASSUME T("nfold3", NFold(S("Rough Consensus, and Running Code"), 64) = H("bb6ed30870b7f0e0"))
ASSUME T("nfold4", NFold(S("password"), 168) = H("59e4a8ca7c0385c3c37b3f6d2000247cb6e6bd5b3e"))
ASSUME T("nfold5", NFold(S("MASSACHVSETTS INSTITVTE OF TECHNOLOGY"), 192) = H("db3b0d8f0b061e603282b308a50841229ad798fab9540c1b"))
ASSUME T("nfold6", NFold(S("Q"), 168) = H("518a54a215a8452a518a54a215a8452a518a54a215"))
ASSUME T("nfold7", NFold(S("ba"), 168) = H("fb25d531ae8974499f52fd92ea9857c4ba24cf297e"))
\* RFC 3961 A.3
ASSUME T("dr1", DR3(H("dce06b1f64c857a11c3db57c51899b2cc1791008ce973b92"), H("0000000155")) = H("935079d14490a75c3093c4a6e8c3b049c71e6ee705"))
ASSUME T("dk1", DK3(H("dce06b1f64c857a11c3db57c51899b2cc1791008ce973b92"), H("0000000155")) = H("925179d04591a79b5d3192c4a7e9c289b049c71f6ee604cd"))
ASSUME T("dk2", DK3(H("5e13d31c70ef765746578531cb51c15bf11ca82c97cee9f2"), H("00000001aa")) = H("9e58e5a146d9942a101c469845d67a20e3c4259ed913f207"))
ASSUME T("dk5", DK3(H("d3f8298ccb166438dcb9b93ee5a7629286a491f838f802fb"), H("6b65726265726f73")) = H("2370da575d2a3da864cebfdc5204d56df779a7df43d9da43"))
ASSUME T("dk9", DK3(H("26dce334b545292f2feab9a8701a89a4b99eb9942cecd016"), H("00000001aa")) = H("f48ffd6e83f83e7354e694fd252cf83bfe58f7d5ba37ec5d"))
\* RFC 3961 A.4
ASSUME T("s2kdes3-1", S2KDES3(S("password"), S("ATHENA.MIT.EDUraeburn")) = H("850bb51358548cd05e86768c313e3bfef7511937dcf72c3e"))
ASSUME T("s2kdes3-2", S2KDES3(S("potatoe"), S("WHITEHOUSE.GOVdanny")) = H("dfcd233dd0a43204ea6dc437fb15e061b02979c1f74f377a"))
ASSUME T("s2kdes3-3", S2KDES3(S("penny"), S("EXAMPLE.COMbuckaroo")) = H("6d2fcdf2d6fbbc3ddcadb5da5710a23489b0d3b69d5d9d4a"))
\* RFC 3962 B
ASSUME T("s2k17-1", S2KAESSha1(17, S("password"), S("ATHENA.MIT.EDUraeburn"), 1) = H("42263c6e89f4fc28b8df68ee09799f15"))
ASSUME T("s2k17-2", S2KAESSha1(17, S("password"), S("ATHENA.MIT.EDUraeburn"), 2) = H("c651bf29e2300ac27fa469d693bdda13"))
ASSUME T("s2k17-1200", S2KAESSha1(17, S("password"), S("ATHENA.MIT.EDUraeburn"), 1200) = H("4c01cd46d632d01e6dbe230a01ed642a"))
ASSUME T("s2k18-1", S2KAESSha1(18, S("password"), S("ATHENA.MIT.EDUraeburn"), 1) = H("fe697b52bc0d3ce14432ba036a92e65bbb52280990a2fa27883998d72af30161"))
ASSUME T("s2k17-x64", S2KAESSha1(17, S("XXXXXXXXXXXXXXXXXXXXXXXXXXXXXXXXXXXXXXXXXXXXXXXXXXXXXXXXXXXXXXXX"), S("pass phrase equals block size"), 1200) = H("59d1bb789a828b1aa54ef9c2883f69ed"))
ASSUME T("s2k17-x65", S2KAESSha1(17, S("XXXXXXXXXXXXXXXXXXXXXXXXXXXXXXXXXXXXXXXXXXXXXXXXXXXXXXXXXXXXXXXXX"), S("pass phrase exceeds block size"), 1200) = H("cb8005dc5f90179a7f02104c0018751d"))
\* RFC 8009 A
ASSUME T("s2k19", S2KAESSha2(19, S("password"), H("10df9dd783e5bc8acea1730e74355f61") \o S("ATHENA.MIT.EDUraeburn"), 32768) = H("089bca48b105ea6ea77ca5d2f39dc5e7"))
ASSUME T("s2k20", S2KAESSha2(20, S("password"), H("10df9dd783e5bc8acea1730e74355f61") \o S("ATHENA.MIT.EDUraeburn"), 32768) = H("45bd806dbf6a833a9cffc1c94589a222367a79bc21c413718906e9f578a78467"))
K19 == H("3705d96080c17728a0e800eab6e0d23c")
K20 == H("6d404d37faf79f9df0d33568d320669800eb4836472ea8a026d16b7182460c52")
ASSUME T("kc19", Kc(19, K19, U(2)) = H("b31a018a48f54776f403e9a396325dc3"))
ASSUME T("ke19", Ke(19, K19, U(2)) = H("9b197dd1e8c5609d6e67c3e37c62c72e"))
ASSUME T("ki19", Ki(19, K19, U(2)) = H("9fda0e56ab2d85e1569a688696c26a6c"))
ASSUME T("kc20", Kc(20, K20, U(2)) = H("ef5718be86cc84963d8bbb5031e9f5c4ba41f28faf69e73d"))
ASSUME T("ke20", Ke(20, K20, U(2)) = H("56ab22bee63d82d7bc5227f6773f8ea7a5eb1c825160c38312980c442e5c7e49"))
ASSUME T("ki20", Ki(20, K20, U(2)) = H("69b16514e3cd8e56b82010d5c73012b622c4d00ffc23ed1f"))
ASSUME T("enc19-0", Encrypt(19, K19, U(2), H("7e5895eaf2672435bad817f545a37148"), <<>>) = H("ef85fb890bb8472f4dab20394dca781dad877eda39d50c870c0d5a0a8e48c718"))
ASSUME T("enc19-6", Encrypt(19, K19, U(2), H("7bca285e2fd4130fb55b1a5c83bc5b24"), H("000102030405")) = H("84d7f30754ed987bab0bf3506beb09cfb55402cef7e6877ce99e247e52d16ed4421dfdf8976c"))
ASSUME T("enc19-16", Encrypt(19, K19, U(2), H("56ab21713ff62c0a1457200f6fa9948f"), H("000102030405060708090a0b0c0d0e0f")) = H("3517d640f50ddc8ad3628722b3569d2ae07493fa8263254080ea65c1008e8fc295fb4852e7d83e1e7c48c37eebe6b0d3"))
ASSUME T("enc19-21", Encrypt(19, K19, U(2), H("a7a4e29a4728ce10664fb64e49ad3fac"), H("000102030405060708090a0b0c0d0e0f1011121314")) = H("720f73b18d9859cd6ccb4346115cd336c70f58edc0c4437c5573544c31c813bce1e6d072c186b39a413c2f92ca9b8334a287ffcbfc"))
ASSUME T("dec19-21", Decrypt(19, K19, U(2), H("720f73b18d9859cd6ccb4346115cd336c70f58edc0c4437c5573544c31c813bce1e6d072c186b39a413c2f92ca9b8334a287ffcbfc"))
                      = [ok |-> TRUE, plain |-> H("000102030405060708090a0b0c0d0e0f1011121314"), conf |-> H("a7a4e29a4728ce10664fb64e49ad3fac")])
ASSUME T("ck19", Checksum(19, K19, U(2), H("000102030405060708090a0b0c0d0e0f1011121314")) = H("d78367186643d67b411cba9139fc1dee"))
\* rc4 string-to-key ("foo")
ASSUME T("s2k23", S2KRC4(<<102, 111, 111>>) = H("ac8e657f83df82beea5d43bdaf7800cc"))
\* inverse property of the CTS pair and of Encrypt/Decrypt for every etype, lengths around the block boundaries
KeyOf(et) == IF et = 16 THEN H("850bb51358548cd05e86768c313e3bfef7511937dcf72c3e") ELSE [i \in 1..KeyLen(et) |-> (i * 37) % 256]
ASSUME \A et \in ETypes : \A n \in {0, 1, 7, 8, 9, 15, 16, 17, 31, 32, 33} :
         LET p == [i \in 1..n |-> (i * 11) % 256]  c == [i \in 1..ConfLen(et) |-> 255 - i]
             d == Decrypt(et, KeyOf(et), U(7), Encrypt(et, KeyOf(et), U(7), c, p))
         IN T(<<"roundtrip", et, n>>, d.ok /\ d.conf = c /\ d.plain = PaddedPlain(et, c, p))
ASSUME PrintT(<<"VECTORSDONE", 38>>)
VARIABLE x
Init == x = 0
Next == UNCHANGED x
=============================================================================
