--------------------------- MODULE BasicAuthProof ---------------------------
(***************************************************************************)
(* BasicAuth.tla with the complete check of the service (Verification =     *)
(* "full") for an UNBOUNDED number of calls, proved with TLAPS: the service *)
(* says yes only to a sender who is the claimed user.  The records of       *)
(* BasicAuth are flattened into variables (claim = user, pw, by; the ticket *)
(* = tfor, sealed, keyKnown); the actions are the same.                     *)
(***************************************************************************)
EXTENDS TLAPS
CONSTANTS Victim, Mallory
ASSUME Distinct == Victim # Mallory
VARIABLES pc, user, pw, by, tgtFrom, tfor, sealed, keyKnown, result, seen
vars == <<pc, user, pw, by, tgtFrom, tfor, sealed, keyKnown, result, seen>>
Init == /\ pc = "idle" /\ user = "nobody" /\ pw = "other" /\ by = "nobody" /\ tgtFrom = "none"
        /\ tfor = "nobody" /\ sealed = "other" /\ keyKnown = FALSE /\ result = "none" /\ seen = FALSE
\* who may submit what: a user its own name with the real password or a wrong one; the attacker anything but the victim's real password
CanSubmit(u, p, b) == \/ (u = Victim /\ b = Victim /\ p \in {"real", "other"})
                      \/ (u = Victim /\ b = Mallory /\ p = "other")
                      \/ (u = Mallory /\ b = Mallory /\ p \in {"real", "other"})
Submit(u, p, b) == /\ pc = "idle" /\ CanSubmit(u, p, b)
                   /\ pc' = "as" /\ user' = u /\ pw' = p /\ by' = b /\ tgtFrom' = "none"
                   /\ tfor' = "nobody" /\ sealed' = "other" /\ keyKnown' = FALSE /\ result' = "none" /\ UNCHANGED seen
ASByKDC == /\ pc = "as"
           /\ IF pw = "real" THEN pc' = "tgs" /\ tgtFrom' = "kdc" /\ UNCHANGED result
                             ELSE pc' = "idle" /\ result' = "no" /\ UNCHANGED tgtFrom
           /\ UNCHANGED <<user, pw, by, tfor, sealed, keyKnown, seen>>
ASByAttacker == /\ pc = "as"
                /\ IF by = Mallory THEN pc' = "tgs" /\ tgtFrom' = "attacker" /\ UNCHANGED result
                                   ELSE pc' = "idle" /\ result' = "no" /\ UNCHANGED tgtFrom
                /\ UNCHANGED <<user, pw, by, tfor, sealed, keyKnown, seen>>
TGSByKDC == /\ pc = "tgs"
            /\ IF tgtFrom = "kdc" THEN pc' = "verify" /\ tfor' = user /\ sealed' = "svc" /\ keyKnown' = TRUE /\ UNCHANGED result
                                  ELSE pc' = "idle" /\ result' = "no" /\ UNCHANGED <<tfor, sealed, keyKnown>>
            /\ UNCHANGED <<user, pw, by, tgtFrom, seen>>
\* the attacker's own ticket, a ticket of the victim seen on the wire (session key unknown), or a forgery for anybody
AttackerHas(f, s, k) == \/ (f = Mallory /\ s = "svc" /\ k = TRUE)
                        \/ (seen /\ f = Victim /\ s = "svc" /\ k = FALSE)
                        \/ (s = "other" /\ k = TRUE)
TGSByAttacker(f, s, k) == /\ pc = "tgs" /\ AttackerHas(f, s, k)
                          /\ IF tgtFrom = "attacker" THEN pc' = "verify" /\ tfor' = f /\ sealed' = s /\ keyKnown' = k /\ UNCHANGED result
                                                     ELSE pc' = "idle" /\ result' = "no" /\ UNCHANGED <<tfor, sealed, keyKnown>>
                          /\ UNCHANGED <<user, pw, by, tgtFrom, seen>>
Accepts == sealed = "svc" /\ tfor = user /\ keyKnown = TRUE
Verify == /\ pc = "verify" /\ pc' = "idle" /\ result' = (IF Accepts THEN "yes" ELSE "no")
          /\ UNCHANGED <<user, pw, by, tgtFrom, tfor, sealed, keyKnown, seen>>
VictimUsesService == seen' = TRUE /\ UNCHANGED <<pc, user, pw, by, tgtFrom, tfor, sealed, keyKnown, result>>
Next == \/ \E u \in {Victim, Mallory}, p \in {"real", "other"}, b \in {Victim, Mallory} : Submit(u, p, b)
        \/ ASByKDC \/ ASByAttacker \/ TGSByKDC
        \/ \E f \in {Victim, Mallory}, s \in {"svc", "other"}, k \in BOOLEAN : TGSByAttacker(f, s, k)
        \/ Verify \/ VictimUsesService
Spec == Init /\ [][Next]_vars
YesMeansPassword == result = "yes" => by = user
IndInv == /\ (pw = "real" => by = user)
          /\ (tgtFrom = "kdc" => pw = "real")
          /\ (tgtFrom = "attacker" => by = Mallory)
          /\ (pc = "verify" => tgtFrom \in {"kdc", "attacker"})
          /\ (pc = "verify" /\ tgtFrom = "kdc" => tfor = user)
          /\ ((pc = "verify" /\ tgtFrom = "attacker" /\ sealed = "svc" /\ keyKnown = TRUE) => tfor = Mallory)
          /\ (result = "yes" => by = user)
THEOREM Safety == Spec => []YesMeansPassword
<1>1. Init => IndInv
  BY DEF Init, IndInv
<1>2. IndInv /\ [Next]_vars => IndInv'
  <2> SUFFICES ASSUME IndInv, [Next]_vars PROVE IndInv'
    OBVIOUS
  <2>1. ASSUME NEW u \in {Victim, Mallory}, NEW p \in {"real", "other"}, NEW b \in {Victim, Mallory}, Submit(u, p, b) PROVE IndInv'
    BY <2>1, Distinct DEF IndInv, Submit, CanSubmit
  <2>2. ASSUME ASByKDC PROVE IndInv'
    BY <2>2 DEF IndInv, ASByKDC
  <2>3. ASSUME ASByAttacker PROVE IndInv'
    BY <2>3 DEF IndInv, ASByAttacker
  <2>4. ASSUME TGSByKDC PROVE IndInv'
    BY <2>4 DEF IndInv, TGSByKDC
  <2>5. ASSUME NEW f \in {Victim, Mallory}, NEW s \in {"svc", "other"}, NEW k \in BOOLEAN, TGSByAttacker(f, s, k) PROVE IndInv'
    BY <2>5, Distinct DEF IndInv, TGSByAttacker, AttackerHas
  <2>6. ASSUME Verify PROVE IndInv'
    BY <2>6 DEF IndInv, Verify, Accepts
  <2>7. ASSUME VictimUsesService PROVE IndInv'
    BY <2>7 DEF IndInv, VictimUsesService
  <2>8. CASE UNCHANGED vars
    BY <2>8 DEF IndInv, vars
  <2> QED
    BY <2>1, <2>2, <2>3, <2>4, <2>5, <2>6, <2>7, <2>8 DEF Next
<1>3. IndInv => YesMeansPassword
  BY DEF IndInv, YesMeansPassword
<1> QED
  BY <1>1, <1>2, <1>3, PTL DEF Spec
=============================================================================
