------------------------------ MODULE MCK5TGS ------------------------------
EXTENDS Kerberos5TGS
\* two realms that trust each other; a third realm name "C" that nobody runs: A and B refer to each other for it
MCClients == {<<"alice", "A">>}
MCAttackers == {<<"mallory", "A">>}
MCServices == {<<"s1", "A">>, <<"s2", "B">>}
MCWanted == {<<"s1", "A">>, <<"s2", "B">>, <<"s3", "C">>}
MCHop(x, y) == IF y \in {"A", "B"} THEN y ELSE IF x = "A" THEN "B" ELSE "A"
=============================================================================
