-------------------------------- MODULE MCAS --------------------------------
EXTENDS ASExchange
\* every credential kind: password (a key for every etype), keytabs with one or two keys; with and without the AssumePreAuthentication option
MCCreds == [password : {TRUE}, keyEts : {Etypes}, assumeInit : BOOLEAN] \cup [password : {FALSE}, keyEts : {{18}, {17, 23}}, assumeInit : BOOLEAN]
=============================================================================
