-------------------------------- MODULE MCAS --------------------------------
EXTENDS ASExchange
\* every credential kind: password (a key for every etype), keytabs with one or two keys; with and without the AssumePreAuthentication option
\* and two orders of the etypes the requests offer
Tkts == {<<18, 17, 23>>, <<23, 18>>}
MCCreds == [password : {TRUE}, keyEts : {Etypes}, assumeInit : BOOLEAN, tkt : Tkts] \cup [password : {FALSE}, keyEts : {{18}, {17, 23}}, assumeInit : BOOLEAN, tkt : Tkts]
=============================================================================
