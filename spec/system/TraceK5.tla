------------------------------- MODULE TraceK5 -------------------------------
(***************************************************************************)
(* Trace validation of END-TO-END runs (real client, simulated KDC, real   *)
(* service) against the system specification.  Events, in order:           *)
(*   issue   c realm s k        the KDC issued a ticket (k = id of the     *)
(*                              session key, numbered in order of issue)   *)
(*   store   c realm s k        the client returned that ticket and key    *)
(*   ap      tk (issue id of the ticket presented) ak (issue id of the key *)
(*           the authenticator is sealed with) c realm id  result          *)
(* Each event must be a step of Kerberos5 (KDCIssue, ClientAccept, and     *)
(* ServiceAcceptAtomic or a refusal), and the system invariants are        *)
(* evaluated in every state of the trace.                                  *)
(***************************************************************************)
EXTENDS Kerberos5, Json, TLCExt
Tr == ndJsonDeserialize("trace.ndjson")
VARIABLE l
tvars == <<vars, l>>
IsEv(e) == l <= Len(Tr) /\ Tr[l].ev = e
Consume == l' = l + 1
TInit == Init /\ l = 1 /\ TLCSet(1, 1)
TktOf(x) == [c |-> x.c, realm |-> x.realm, s |-> x.s, k |-> x.k]
TIssue == /\ IsEv("issue") /\ Consume
          /\ LET x == Tr[l] IN /\ x.k \notin usedKeys
                               /\ issued' = issued \cup {TktOf(x)} /\ usedKeys' = usedKeys \cup {x.k}
          /\ UNCHANGED <<pending, store, net, advKeys, rc, accepted, svc>>
\* the client hands out a ticket only if the KDC issued it to that client for that server, with that key
TStore == /\ IsEv("store") /\ Consume
          /\ LET x == Tr[l] IN TktOf(x) \in issued
          /\ UNCHANGED vars
\* the AP-REQ as a Kerberos5 message
Msg(x) == [type |-> "ap", tkt |-> CHOOSE t \in issued : t.k = x.tk, auth |-> [k |-> x.ak, c |-> x.c, realm |-> x.realm, id |-> x.id]]
TAP == /\ IsEv("ap") /\ Consume
       /\ LET x == Tr[l]  m == Msg(x) IN
          /\ \E t \in issued : t.k = x.tk
          /\ IF Valid(m) /\ AuthId(m) \notin rc
             THEN /\ x.result = "accept" /\ x.identityC = m.tkt.c /\ x.identityRealm = m.tkt.realm       \* and the sealed identity is reported
                  /\ rc' = rc \cup {AuthId(m)} /\ accepted' = Append(accepted, Identity(m))
             ELSE /\ x.result = "reject" /\ UNCHANGED <<rc, accepted>>
       /\ UNCHANGED <<issued, usedKeys, pending, store, net, advKeys, svc>>
TReset == IsEv("reset") /\ Consume /\ issued' = {} /\ usedKeys' = {} /\ rc' = {} /\ accepted' = << >>
          /\ UNCHANGED <<pending, store, net, advKeys, svc>>
TNext == TIssue \/ TStore \/ TAP \/ TReset
TSpec == TInit /\ [][TNext]_tvars
Mark == IF l > TLCGet(1) THEN TLCSet(1, l) ELSE TRUE
Accepted == IF TLCGet(1) = Len(Tr) + 1 THEN TRUE ELSE PrintT(<<"REJECTED", TLCGet(1)>>)
=============================================================================
