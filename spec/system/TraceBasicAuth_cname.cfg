CONSTANTS Victim = "alice"  Mallory = "mallory"  Verification = "cname"  MaxCalls = 100000
SPECIFICATION TSpec
CONSTRAINT Mark
POSTCONDITION Accepted
CHECK_DEADLOCK FALSE
