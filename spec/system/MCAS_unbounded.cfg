SPECIFICATION Spec
CONSTANTS
  Realms = {"A", "B", "C"}
  Home = "A"
  Etypes = {17, 18, 23}
  Preferred = 17
  Creds <- MCCreds
  MaxReferrals = 5
  HintsOnFailed = TRUE
  BoundReferrals = FALSE
  UnsolicitedFromTkt = TRUE
  Faithful = TRUE
  Codes = {6, 18}
  MaxLogins = 2
INVARIANTS SendsBounded
CHECK_DEADLOCK FALSE
