CONSTANTS Clients <- MCClients  Attackers <- MCAttackers  Realms = {"A", "B"}  Services <- MCServices  Wanted <- MCWanted
          Hop <- MCHop  Nonces = {1, 2, 3, 4}  KeyIds = {1, 2, 3, 4}  MaxHops = 1  MaxMsgs = 8
          CheckNonce = FALSE  BoundReferrals = TRUE  AuthRealmOwn = TRUE
SPECIFICATION Spec
INVARIANTS DeliveredIsRight TGTsAreOwn Secrecy HopsBounded
CONSTRAINT HopConstraint
CHECK_DEADLOCK FALSE
