--------------------------- MODULE TraceBasicAuth ---------------------------
(***************************************************************************)
(* Trace validation of the REAL service.KRB5BasicAuthenticator (vh         *)
(* basicauth) against BasicAuth.  One line = one call of Authenticate with *)
(* a basic-authentication header, while the address the service takes for  *)
(* the KDC's is answered by the simulated KDC or by an attacker's own KDC  *)
(* (x.asBy, x.tgsBy) that hands out a ticket the attacker holds            *)
(* (x.ticket: its own, one of the victim's seen on the wire, a forgery).   *)
(* The line is replayed step by step through the specification's actions;  *)
(* what Authenticate returned must be the specification's result, and a    *)
(* yes must name the claimed user.                                         *)
(***************************************************************************)
EXTENDS BasicAuth, Json, TLCExt
Tr == ndJsonDeserialize("trace.ndjson")
VARIABLES l, stage
tvars == <<vars, l, stage>>
TInit == Init /\ l = 1 /\ stage = "submit" /\ TLCSet(1, 1)
X == Tr[l]
TicketOf(x) == CASE x.ticket = "own" -> [for |-> Mallory, sealed |-> "svc", keyKnown |-> TRUE]
                 [] x.ticket = "sniffed" -> [for |-> Victim, sealed |-> "svc", keyKnown |-> FALSE]
                 [] OTHER -> [for |-> x.user, sealed |-> "other", keyKnown |-> TRUE]
\* the victim's ticket is on the wire before the attacker can use it
TSeen == l <= Len(Tr) /\ stage = "submit" /\ X.ticket = "sniffed" /\ ~seen /\ VictimUsesService /\ UNCHANGED <<l, stage>>
TSubmit == /\ l <= Len(Tr) /\ stage = "submit" /\ (X.ticket = "sniffed" => seen)
           /\ Submit([user |-> X.user, pw |-> X.pw, by |-> X.by]) /\ stage' = "run" /\ UNCHANGED l
TAS == /\ stage = "run" /\ pc = "as" /\ (IF X.asBy = "kdc" THEN ASByKDC ELSE ASByAttacker) /\ UNCHANGED <<l, stage>>
TTGS == /\ stage = "run" /\ pc = "tgs" /\ (IF X.tgsBy = "kdc" THEN TGSByKDC ELSE TGSByAttacker(TicketOf(X))) /\ UNCHANGED <<l, stage>>
TVerify == stage = "run" /\ pc = "verify" /\ Verify /\ UNCHANGED <<l, stage>>
\* the call has returned
TResult == /\ stage = "run" /\ pc = "idle" /\ result # "none"
           /\ X.panic = ""
           /\ (X.yes <=> result = "yes")
           /\ (X.yes => (X.idUser = claim.user /\ X.idRealm = X.realm))        \* the identity handed to the application is the claimed one
           /\ l' = l + 1 /\ stage' = "submit" /\ UNCHANGED vars
TNext == TSeen \/ TSubmit \/ TAS \/ TTGS \/ TVerify \/ TResult
TSpec == TInit /\ [][TNext]_tvars
Mark == IF l > TLCGet(1) THEN TLCSet(1, l) ELSE TRUE
Accepted == IF TLCGet(1) = Len(Tr) + 1 THEN TRUE ELSE PrintT(<<"REJECTED", TLCGet(1)>>)
\* how often the specification's property fails on what the real code did (a yes to somebody who does not know the password)
Bypass == result = "yes" /\ claim.by # claim.user
=============================================================================
