SPECIFICATION Spec
CONSTANTS
  Victim = "alice"
  Mallory = "mallory"
  Verification = "cname"
  MaxCalls = 3
INVARIANTS TypeOK YesMeansPassword RealPasswordWorks
CHECK_DEADLOCK FALSE
