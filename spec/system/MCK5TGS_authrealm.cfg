CONSTANTS Clients <- MCClients  Attackers <- MCAttackers  Realms = {"A", "B"}  Services <- MCServices  Wanted <- MCWanted
          Hop <- MCHop  Nonces = {1, 2, 3, 4}  KeyIds = {1, 2, 3, 4}  MaxHops = 2  MaxMsgs = 9
          CheckNonce = TRUE  BoundReferrals = TRUE  AuthRealmOwn = FALSE
SPECIFICATION Spec
INVARIANTS ClientRequestsValid
CONSTRAINT HopConstraint
CHECK_DEADLOCK FALSE
