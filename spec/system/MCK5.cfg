CONSTANTS Honest <- MCHonest  Dishonest <- MCDishonest  Realms = {"GOOD", "EVIL"}  Service = "svc"  OtherServices = {"other"}
          Nonces = {1, 2}  KeyIds = {1, 2}  AuthIds = {1, 2}  MaxMsgs = 6
          CheckCRealm = TRUE  AtomicReplay = TRUE  CheckNonce = TRUE
SPECIFICATION Spec
INVARIANTS Agreement HonestNotImpersonated AtMostOnce AnswersOwnRequest Secrecy
CONSTRAINT AccBound
CHECK_DEADLOCK FALSE
