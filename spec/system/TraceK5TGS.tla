------------------------------ MODULE TraceK5TGS ------------------------------
(***************************************************************************)
(* Trace validation of end-to-end runs of the REAL client against the      *)
(* simulated KDCs of several realms (vh systgs) against Kerberos5TGS.      *)
(*   issue    a KDC issued a ticket              -> issued grows            *)
(*   deliver  GetServiceTicket returned (ticket, key): the step             *)
(*            AcceptTGS of the specification; DeliveredIsRight is an        *)
(*            invariant of the trace                                        *)
(*   giveup   GetServiceTicket returned an error: allowed only when the     *)
(*            specification's client has no way to a ticket - the service   *)
(*            is not registered, the referrals exceed the bound, or the     *)
(*            attacker replaced the reply by an earlier one                 *)
(* The number of TGS requests one call causes is bounded by the referral    *)
(* bound (HopsBounded).                                                    *)
(***************************************************************************)
EXTENDS Kerberos5TGS, Json, TLCExt
Tr == ndJsonDeserialize("trace.ndjson")
VARIABLE l
tvars == <<vars, l>>
IsEv(e) == l <= Len(Tr) /\ Tr[l].ev = e
Consume == l' = l + 1
TInit == Init /\ l = 1 /\ TLCSet(1, 1)
TIssue == /\ IsEv("issue") /\ Consume
          /\ LET x == Tr[l] IN /\ x.k \notin usedKeys
                               /\ issued' = issued \cup {[c |-> x.c, cr |-> x.cr, sn |-> x.sn, sr |-> x.sr, by |-> x.by, k |-> x.k]}
                               /\ usedKeys' = usedKeys \cup {x.k}
          /\ UNCHANGED <<tgts, pend, got, net, advKeys>>
\* one call sends at most one request per hop: the first and one per referral followed
ReqBound(x) == x.tgsreqs <= MaxHops + 1
TDeliver == /\ IsEv("deliver") /\ Consume
            /\ LET x == Tr[l] IN
               /\ ReqBound(x)
               /\ \E t \in issued : t.k = x.k                                    \* the key returned is one a KDC issued ...
               /\ got' = got \cup {[p |-> <<x.c, x.cr>>, want |-> <<x.want, x.wantRealm>>, tkt |-> CHOOSE t \in issued : t.k = x.k, k |-> x.k]}
            /\ UNCHANGED <<issued, usedKeys, tgts, pend, net, advKeys>>           \* ... and DeliveredIsRight says it is the right one
\* chain = number of referrals the KDCs make before the ticket is issued; the client follows MaxHops of them
TGiveUp == /\ IsEv("giveup") /\ Consume
           /\ LET x == Tr[l] IN ReqBound(x) /\ (~x.known \/ x.chain > MaxHops \/ x.replayed)
           /\ UNCHANGED vars
TReset == IsEv("reset") /\ Consume /\ issued' = {} /\ usedKeys' = {} /\ got' = {} /\ UNCHANGED <<tgts, pend, net, advKeys>>
TNext == TIssue \/ TDeliver \/ TGiveUp \/ TReset
TSpec == TInit /\ [][TNext]_tvars
Mark == IF l > TLCGet(1) THEN TLCSet(1, l) ELSE TRUE
Accepted == IF TLCGet(1) = Len(Tr) + 1 THEN TRUE ELSE PrintT(<<"REJECTED", TLCGet(1)>>)
NoHop(x, y) == "none"
=============================================================================
