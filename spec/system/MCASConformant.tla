--------------------------- MODULE MCASConformant ---------------------------
(***************************************************************************)
(* ASExchange against a conformant KDC of the home realm: the principal    *)
(* has one key (etype KEt, salt default or not); with RequirePreauth the   *)
(* KDC answers PREAUTH_REQUIRED to a request without PA-ENC-TIMESTAMP and  *)
(* PREAUTH_FAILED to one whose timestamp does not decrypt under that key,  *)
(* both with e-data naming the etype and salt (as MIT's KDC does).         *)
(* LoginSucceeds: every Login ends with a TGT (C10: "against any RFC 4120  *)
(* conformant KDC, login obtains a TGT ... correctly computed              *)
(* pre-authentication", over histories with several logins).               *)
(***************************************************************************)
EXTENDS ASExchange
CONSTANTS KEts, SaltKinds, PreauthPolicies
VARIABLES kEt, customSalt, requirePreauth
cvars == <<vars, kEt, customSalt, requirePreauth>>
PAValid(r) == r.pa /\ r.et = kEt /\ (r.salt = "stored" \/ (customSalt => r.salt = "hint"))
KDCAnswer(r) == IF requirePreauth /\ ~PAValid(r)
                THEN [t |-> "preauth", code |-> IF r.pa THEN PREAUTH_FAILED ELSE PREAUTH_REQUIRED, hint |-> kEt]
                ELSE [t |-> "reply", good |-> TRUE]
\* the credentials that can work at all: a key for the principal's etype is held and the requests offer that etype (a conformant KDC
\* chooses among the etypes offered); every credential kind with and without the AssumePreAuthentication option
Tkts == {<<18, 17, 23>>, <<23, 18>>, <<17, 18>>}
SetOf(s) == {s[i] : i \in DOMAIN s}
CCreds == [password : {TRUE}, keyEts : {Etypes}, assumeInit : BOOLEAN, tkt : Tkts]
          \cup [password : {FALSE}, keyEts : {{18}, {17, 23}, {17, 18}, {23}}, assumeInit : BOOLEAN, tkt : Tkts]
CInit == Init /\ kEt \in KEts \cap cred.keyEts \cap SetOf(cred.tkt) /\ customSalt \in SaltKinds /\ requirePreauth \in PreauthPolicies
CNext == (Begin \/ Recv(KDCAnswer(req))) /\ UNCHANGED <<kEt, customSalt, requirePreauth>>
CSpec == CInit /\ [][CNext]_cvars
LoginSucceeds == (pc = "idle" /\ logins > 0) => outcome = "ok"
=============================================================================
