CONSTANTS Realms = {}  Home = "R0.AS.TEST"  Etypes = {16, 17, 18, 19, 20, 23}  Preferred = 17  Creds <- TCreds  MaxReferrals = 5
          HintsOnFailed = TRUE  BoundReferrals = TRUE
  UnsolicitedFromTkt = TRUE  Faithful = FALSE  Codes = {}  MaxLogins = 1000
SPECIFICATION TSpec
CONSTRAINT Mark
INVARIANTS SendsBounded OkOnlyOnGoodReply ErrorCodeSurfaced KeyHeld
POSTCONDITION Accepted
CHECK_DEADLOCK FALSE
