CONSTANTS Clients = {}  Attackers = {}  Realms = {}  Services = {}  Wanted = {}  Hop <- NoHop  Nonces = {}  KeyIds = {}  MaxHops = 6  MaxMsgs = 0
          CheckNonce = TRUE  BoundReferrals = TRUE  AuthRealmOwn = TRUE
SPECIFICATION TSpec
CONSTRAINT Mark
INVARIANTS DeliveredIsRight
POSTCONDITION Accepted
CHECK_DEADLOCK FALSE
