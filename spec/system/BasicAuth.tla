------------------------------ MODULE BasicAuth ------------------------------
(***************************************************************************)
(* service.KRB5BasicAuthenticator.Authenticate (service/authenticator.go): *)
(* a service that is handed a user name and a password (HTTP basic         *)
(* authentication) decides whether they are right by acting as a Kerberos  *)
(* client itself: it logs in as the user with the password, asks for a     *)
(* ticket for its own service principal and checks that ticket with its    *)
(* keytab.  No listed property names this mechanism; it is specified here  *)
(* because it is an authentication decision of the library.                *)
(*                                                                         *)
(* The network between the service and the KDC belongs to an attacker who  *)
(* can answer in the KDC's place ("KDC spoofing").  The attacker has an    *)
(* account of its own (Mallory), the tickets it obtained with it, and the  *)
(* tickets of other users it saw on the wire (tickets travel in clear in   *)
(* every AP-REQ) - without their session keys.                             *)
(*                                                                         *)
(* One call:                                                               *)
(*   Submit     a (user, password) pair arrives; the password is the       *)
(*              user's ("real") or not ("other"); who sent it              *)
(*   AS         the reply comes from the KDC (sealed under the user's real *)
(*              key: usable iff the password is real) or from the attacker *)
(*              (sealed under a key of the attacker's choice: usable iff   *)
(*              the attacker knows the password that was submitted)        *)
(*   TGS        the reply comes from the KDC (only for a TGT it issued) or *)
(*              from whoever made the TGT (the attacker knows the session  *)
(*              key of a TGT it made up, not of a genuine one); it carries *)
(*              a ticket: [for, sealed, keyKnown]                          *)
(*                for      the client named inside the ticket              *)
(*                sealed   "svc": under the service's long-term key (only  *)
(*                         the KDC can make those), "other": anything else *)
(*                keyKnown whether the session key delivered next to the   *)
(*                         ticket is the one inside it                     *)
(*   Verify     what the service checks before it says yes:                *)
(*     "decryptOnly"  the ticket decrypts under the keytab (gokrb5)        *)
(*     "cname"        ... and names the user that was claimed              *)
(*     "full"         ... and the delivered session key is the ticket's    *)
(*                    (what building an AP-REQ and verifying it, as MIT's  *)
(*                    krb5_verify_init_creds does, establishes)            *)
(*                                                                         *)
(* YesMeansPassword: the service says yes only to a sender who knows the   *)
(* claimed user's password.  It holds for "full"; "cname" is defeated by a *)
(* ticket seen on the wire, "decryptOnly" already by the attacker's own.   *)
(***************************************************************************)
EXTENDS Integers, Sequences, FiniteSets, TLC
CONSTANTS Victim, Mallory,       \* an honest user and the attacker's account
          Verification,          \* "decryptOnly" | "cname" | "full"
          MaxCalls
Users == {Victim, Mallory}
VARIABLES pc,        \* "idle" | "as" | "tgs" | "verify"
          claim,     \* [user, pw, by]: what was submitted
          tgtFrom,   \* "none" | "kdc" | "attacker"
          tkt,       \* the ticket delivered by the TGS exchange
          result,    \* of the last finished call: "none" | "yes" | "no"
          seen,      \* tickets of the victim the attacker has seen on the wire
          calls
vars == <<pc, claim, tgtFrom, tkt, result, seen, calls>>
NoTkt == [for |-> "nobody", sealed |-> "other", keyKnown |-> FALSE]
NoClaim == [user |-> "nobody", pw |-> "other", by |-> "nobody"]
Init == pc = "idle" /\ claim = NoClaim /\ tgtFrom = "none" /\ tkt = NoTkt /\ result = "none" /\ seen = FALSE /\ calls = 0
\* the attacker knows a submitted password iff it submitted it itself (it never learns the victim's)
AttackerKnowsPw == claim.by = Mallory
\* an honest user submits its own name with its real password (or mistypes it); the attacker submits what it likes, but the real password
\* only for its own account
Submissions == {[user |-> Victim, pw |-> p, by |-> Victim] : p \in {"real", "other"}}
               \cup {[user |-> Victim, pw |-> "other", by |-> Mallory]}
               \cup {[user |-> Mallory, pw |-> p, by |-> Mallory] : p \in {"real", "other"}}
Submit(c) == /\ pc = "idle" /\ calls < MaxCalls /\ c \in Submissions
             /\ pc' = "as" /\ claim' = c /\ tgtFrom' = "none" /\ tkt' = NoTkt /\ result' = "none" /\ calls' = calls + 1 /\ UNCHANGED seen
Finish(r) == pc' = "idle" /\ result' = r
\* ---- AS exchange -----------------------------------------------------------------------------------------------------------
ASByKDC == /\ pc = "as"
           /\ IF claim.pw = "real" THEN pc' = "tgs" /\ tgtFrom' = "kdc" /\ UNCHANGED result ELSE Finish("no") /\ UNCHANGED tgtFrom
           /\ UNCHANGED <<claim, tkt, seen, calls>>
ASByAttacker == /\ pc = "as"
                /\ IF AttackerKnowsPw THEN pc' = "tgs" /\ tgtFrom' = "attacker" /\ UNCHANGED result ELSE Finish("no") /\ UNCHANGED tgtFrom
                /\ UNCHANGED <<claim, tkt, seen, calls>>
\* ---- TGS exchange ----------------------------------------------------------------------------------------------------------
\* the KDC serves only a TGT of its own; its ticket names the TGT's client; an honest user's ticket is on the wire afterwards
TGSByKDC == /\ pc = "tgs"
            /\ IF tgtFrom = "kdc"
               THEN pc' = "verify" /\ tkt' = [for |-> claim.user, sealed |-> "svc", keyKnown |-> TRUE] /\ UNCHANGED result
               ELSE Finish("no") /\ UNCHANGED tkt
            /\ UNCHANGED <<claim, tgtFrom, seen, calls>>
\* what the attacker can put into a reply it makes up: its own ticket (it knows that session key), a ticket it saw (it does not), or a
\* forgery; it can make a reply up only for a TGT whose session key it knows
AttackerTickets == {[for |-> Mallory, sealed |-> "svc", keyKnown |-> TRUE]}
                   \cup (IF seen THEN {[for |-> Victim, sealed |-> "svc", keyKnown |-> FALSE]} ELSE {})
                   \cup {[for |-> u, sealed |-> "other", keyKnown |-> TRUE] : u \in Users}
TGSByAttacker(t) == /\ pc = "tgs" /\ t \in AttackerTickets
                    /\ IF tgtFrom = "attacker" THEN pc' = "verify" /\ tkt' = t /\ UNCHANGED result ELSE Finish("no") /\ UNCHANGED tkt
                    /\ UNCHANGED <<claim, tgtFrom, seen, calls>>
\* ---- the service's check -----------------------------------------------------------------------------------------------------
Accepts(t) == /\ t.sealed = "svc"
              /\ (Verification \in {"cname", "full"} => t.for = claim.user)
              /\ (Verification = "full" => t.keyKnown)
Verify == /\ pc = "verify" /\ Finish(IF Accepts(tkt) THEN "yes" ELSE "no") /\ UNCHANGED <<claim, tgtFrom, tkt, seen, calls>>
\* the victim uses the service with Kerberos proper: its ticket crosses the network
VictimUsesService == ~seen /\ seen' = TRUE /\ UNCHANGED <<pc, claim, tgtFrom, tkt, result, calls>>
Next == (\E c \in Submissions : Submit(c)) \/ ASByKDC \/ ASByAttacker \/ TGSByKDC \/ (\E t \in AttackerTickets : TGSByAttacker(t))
        \/ Verify \/ VictimUsesService
Spec == Init /\ [][Next]_vars
\* ---- properties ----------------------------------------------------------------------------------------------------------------
TypeOK == pc \in {"idle", "as", "tgs", "verify"} /\ tgtFrom \in {"none", "kdc", "attacker"} /\ result \in {"none", "yes", "no"}
\* the service says yes only to somebody who knows the claimed user's password - the user (nobody else learns it; whether the pair that
\* was typed is exactly right is then between the user and the KDC: the attacker can have its own account accepted with any password)
YesMeansPassword == result = "yes" => claim.by = claim.user
\* without an attacker in the path the decision is exact (what the repository's integration tests look at)
\* completeness: the real password, answered by the KDC throughout, is accepted under every variant
RealPasswordWorks == (pc = "idle" /\ result = "no" /\ claim.pw = "real") => (tgtFrom # "kdc" \/ tkt.sealed # "svc" \/ tkt = NoTkt)
=============================================================================
