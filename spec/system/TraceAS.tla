------------------------------- MODULE TraceAS -------------------------------
(***************************************************************************)
(* Trace validation of the REAL client's Login against scripted KDCs       *)
(* (vh sysas) against ASExchange.                                          *)
(*   reset   a new client: the credential, its options                     *)
(*   login   Client.Login is called                      -> Begin          *)
(*   req     a KDC received a request and answered it: the request must be *)
(*           the one the specification's client has outstanding (same      *)
(*           realm asked, PA-ENC-TIMESTAMP present or not, its etype, and  *)
(*           a key of the kind the specification says), the answer is the  *)
(*           step Recv(answer)                                             *)
(*   result  Client.Login returned: the specification's client must be     *)
(*           idle with the same outcome; a KRB-ERROR that ended the Login  *)
(*           must have reached the caller with its code                    *)
(* With Faithful = FALSE the first request of a Login is free (any the     *)
(* credential can produce) and only success / failure is compared: that is *)
(* what C09 / C10 demand.  With Faithful = TRUE the trace must be exactly  *)
(* what the code does today, error classes included (model drift).        *)
(***************************************************************************)
EXTENDS ASExchange, Json, TLCExt
Tr == ndJsonDeserialize("trace.ndjson")
VARIABLE l
tvars == <<vars, l>>
IsEv(e) == l <= Len(Tr) /\ Tr[l].ev = e
Consume == l' = l + 1
TInit == Init /\ l = 1 /\ TLCSet(1, 1)
SetOf(s) == {s[i] : i \in DOMAIN s}
TReset == /\ IsEv("reset") /\ Consume
          /\ LET x == Tr[l] IN /\ cred' = [password |-> x.password, keyEts |-> SetOf(x.keyEts), assumeInit |-> x.assume, tkt |-> x.tkt] /\ assume' = x.assume
          /\ pc' = "idle" /\ at' = Home /\ referral' = 0 /\ negotiated' = 0 /\ req' = NoPA /\ sends' = 0 /\ outcome' = "none" /\ code' = 0
          /\ last' = NoAnswer /\ logins' = 0
TLogin == IsEv("login") /\ pc = "idle" /\ Consume /\ Begin
\* the key the timestamp was computed with is of the kind the specification says
KeyKind(x) == CASE req.salt = "hint" -> x.keyHint [] req.salt = "default" -> x.keyDefault [] req.salt = "stored" -> x.keyStored [] OTHER -> TRUE
ReqMatches(x) == /\ x.at = at /\ x.pa = req.pa /\ (req.pa => (x.et = req.et /\ KeyKind(x)))
TReq == /\ IsEv("req") /\ Consume /\ pc \in {"wait1", "wait2"}
        /\ LET x == Tr[l] IN ReqMatches(x) /\ Recv(x.answer)
TResult == /\ IsEv("result") /\ Consume /\ pc = "idle"
           /\ LET x == Tr[l] IN /\ (x.ok <=> outcome = "ok")
                                /\ (outcome = "KDC_Error" => x.hasCode)
                                /\ (Faithful => (x.ok \/ x.class = outcome))
           /\ UNCHANGED vars
TNext == TReset \/ TLogin \/ TReq \/ TResult
TSpec == TInit /\ [][TNext]_tvars
Mark == IF l > TLCGet(1) THEN TLCSet(1, l) ELSE TRUE
Accepted == IF TLCGet(1) = Len(Tr) + 1 THEN TRUE ELSE PrintT(<<"REJECTED", TLCGet(1)>>)
TCreds == {[password |-> TRUE, keyEts |-> {}, assumeInit |-> FALSE, tkt |-> <<>>]}
=============================================================================
