CONSTANTS Victim = "alice"  Mallory = "mallory"  Verification = "decryptOnly"  MaxCalls = 100000
SPECIFICATION TSpec
CONSTRAINT Mark
POSTCONDITION Accepted
CHECK_DEADLOCK FALSE
