------------------------------ MODULE Kerberos5 ------------------------------
(***************************************************************************)
(* System-level specification: clients, one KDC, one service and an active *)
(* network attacker, as one state machine over abstract terms.             *)
(*                                                                         *)
(* The component predicates that the conformance checks bind to the code   *)
(* appear here as the enabling conditions of the protocol steps:           *)
(*   client accepts a KDC reply     <->  KDCReplyCheck!Accept      (C09)   *)
(*   service accepts an AP-REQ      <->  APExchange!Accept         (C01)   *)
(*   replay cache test-and-set      <->  ReplayCacheAbs!Linearize  (C02)   *)
(* Each weakening that was found in gokrb5 (section 10 of DESIGN.md) is a  *)
(* switch; with all switches on the invariants hold, and switching one off *)
(* makes TLC exhibit the system-level consequence of that defect:          *)
(*   CheckCRealm = FALSE   mallory@EVIL is accepted as mallory@GOOD        *)
(*   AtomicReplay = FALSE  one authenticator is accepted twice             *)
(*   CheckNonce = FALSE    the client stores a ticket that does not answer *)
(*                         its request                                     *)
(*                                                                         *)
(* Terms.  Keys are identifiers; a term "sealed" under a key can be opened *)
(* or built only by who holds the key.                                     *)
(*   Ticket  [c, realm, s, k]         sealed under the service's key       *)
(*   Rep     [c, realm, s, n, k, tkt] enc-part sealed under c's key        *)
(*   Auth    [c, realm, id]           sealed under the session key k       *)
(***************************************************************************)
EXTENDS Integers, Sequences, FiniteSets, TLC
CONSTANTS Honest,        \* honest client principals, e.g. {<<"alice", "GOOD">>}
          Dishonest,     \* principals run by the attacker, e.g. {<<"mallory", "EVIL">>}
          Realms,        \* realm names the attacker may write into unauthenticated fields
          Service,       \* the service principal that verifies AP-REQs
          OtherServices, \* further service principals clients may ask tickets for
          Nonces, KeyIds, AuthIds,
          CheckCRealm, AtomicReplay, CheckNonce,
          MaxMsgs
Principals == Honest \cup Dishonest
VARIABLES issued,      \* KDC log: set of [c, realm, s, k]
          usedKeys,    \* session keys the KDC has generated
          pending,     \* client -> set of [n, s] outstanding requests
          store,       \* client -> set of [s, k] tickets held (with their session keys)
          net,         \* set of messages in flight (the attacker sees all and may inject)
          advKeys,     \* session keys known to the attacker
          rc,          \* the service's replay cache: set of [c, realm, id]
          accepted,    \* sequence of identities the service handed to the application: [c, realm, id, k]
          svc          \* service threads that passed the replay look-up but have not inserted yet (non-atomic variant)
vars == <<issued, usedKeys, pending, store, net, advKeys, rc, accepted, svc>>
Name(p) == p[1]
RealmOf(p) == p[2]
Init == /\ issued = {} /\ usedKeys = {} /\ pending = [p \in Principals |-> {}] /\ store = [p \in Principals |-> {}]
        /\ net = {} /\ advKeys = {} /\ rc = {} /\ accepted = << >> /\ svc = {}
Room == Cardinality(net) < MaxMsgs
\* ---- client -----------------------------------------------------------------------------------------------------------------
ClientRequest(p, n, sv) == /\ Room /\ \A q \in Principals : \A x \in pending[q] : x.n # n
                       /\ pending' = [pending EXCEPT ![p] = @ \cup {[n |-> n, s |-> sv]}]
                       /\ net' = net \cup {[type |-> "req", c |-> Name(p), realm |-> RealmOf(p), s |-> sv, n |-> n]}
                       /\ UNCHANGED <<issued, usedKeys, store, advKeys, rc, accepted, svc>>
\* the reply check (C09): the enc-part opens under the client's own key, names the client, answers an outstanding nonce and server
ClientAccept(p, m) == /\ m \in net /\ m.type = "rep" /\ m.sealedFor = p
                      /\ m.c = Name(p) /\ m.realm = RealmOf(p)
                      \* the request this reply is taken to answer
                      /\ \E x \in pending[p] :
                            /\ CheckNonce => (x.n = m.n /\ x.s = m.s)
                            /\ store' = [store EXCEPT ![p] = @ \cup {[for |-> x.s, s |-> m.s, k |-> m.k, tkt |-> m.tkt]}]
                            /\ pending' = [pending EXCEPT ![p] = @ \ {x}]
                      /\ advKeys' = IF p \in Dishonest THEN advKeys \cup {m.k} ELSE advKeys
                      /\ UNCHANGED <<issued, usedKeys, net, rc, accepted, svc>>
\* an honest client authenticates to the service with a fresh authenticator
ClientAP(p, t, id) == /\ Room /\ p \in Honest /\ t \in store[p] /\ t.s = Service
                      /\ \A m \in net : m.type = "ap" => m.auth.id # id
                      /\ net' = net \cup {[type |-> "ap", tkt |-> t.tkt, auth |-> [k |-> t.k, c |-> Name(p), realm |-> RealmOf(p), id |-> id]]}
                      /\ UNCHANGED <<issued, usedKeys, pending, store, advKeys, rc, accepted, svc>>
\* ---- KDC --------------------------------------------------------------------------------------------------------------------
\* the KDC answers a request for a registered principal; the reply is sealed for that principal
KDCIssue(m, k) == /\ Room /\ m \in net /\ m.type = "req" /\ k \notin usedKeys
                  /\ \E p \in Principals : Name(p) = m.c /\ RealmOf(p) = m.realm
                  /\ LET p == CHOOSE q \in Principals : Name(q) = m.c /\ RealmOf(q) = m.realm
                         tkt == [c |-> m.c, realm |-> m.realm, s |-> m.s, k |-> k]
                     IN /\ issued' = issued \cup {tkt} /\ usedKeys' = usedKeys \cup {k}
                        /\ net' = net \cup {[type |-> "rep", sealedFor |-> p, c |-> m.c, realm |-> m.realm, s |-> m.s, n |-> m.n, k |-> k, tkt |-> tkt]}
                  /\ UNCHANGED <<pending, store, advKeys, rc, accepted, svc>>
\* ---- attacker -----------------------------------------------------------------------------------------------------------------
\* builds an AP-REQ from any ticket seen on the wire and an authenticator under a session key it knows, with cname / crealm of
\* its choice (they are client-written)
AdvForgeAP(tkt, k, c, r, id) == /\ Room /\ k \in advKeys
                                /\ tkt \in { m.tkt : m \in { x \in net : x.type \in {"rep", "ap"} } }
                                /\ net' = net \cup {[type |-> "ap", tkt |-> tkt, auth |-> [k |-> k, c |-> c, realm |-> r, id |-> id]]}
                                /\ UNCHANGED <<issued, usedKeys, pending, store, advKeys, rc, accepted, svc>>
\* replays a reply addressed to p in answer to another request of p (unauthenticated header fields are whatever is needed)
\* - covered by leaving every message in net: ClientAccept may pick any of them at any time.
\* ---- service (C01 + C02) --------------------------------------------------------------------------------------------------------
\* ticket sealed for this service by the KDC (only the KDC holds the service key), authenticator under the ticket's session key,
\* naming the ticket's client - and realm, if the implementation compares it
Valid(m) == /\ m.type = "ap" /\ m.tkt \in issued /\ m.tkt.s = Service
            /\ m.auth.k = m.tkt.k /\ m.auth.c = m.tkt.c
            /\ (CheckCRealm => m.auth.realm = m.tkt.realm)
AuthId(m) == [c |-> m.auth.c, realm |-> m.auth.realm, id |-> m.auth.id]
\* the identity handed to the application is built from the authenticator (as gokrb5 does)
Identity(m) == [c |-> m.auth.c, realm |-> m.auth.realm, id |-> m.auth.id, k |-> m.auth.k]
ServiceAcceptAtomic(m) == /\ AtomicReplay /\ m \in net /\ Valid(m) /\ AuthId(m) \notin rc
                          /\ rc' = rc \cup {AuthId(m)} /\ accepted' = Append(accepted, Identity(m))
                          /\ UNCHANGED <<issued, usedKeys, pending, store, net, advKeys, svc>>
\* the weakened cache: look-up and insert are separate steps
ServiceLookup(m) == /\ ~AtomicReplay /\ m \in net /\ Valid(m) /\ AuthId(m) \notin rc /\ Cardinality(svc) < 2
                    /\ svc' = svc \cup {m} /\ UNCHANGED <<issued, usedKeys, pending, store, net, advKeys, rc, accepted>>
ServiceInsert(m) == /\ ~AtomicReplay /\ m \in svc /\ svc' = svc \ {m} /\ rc' = rc \cup {AuthId(m)}
                    /\ accepted' = Append(accepted, Identity(m))
                    /\ UNCHANGED <<issued, usedKeys, pending, store, net, advKeys>>
Next == \/ \E p \in Principals, n \in Nonces, sv \in {Service} \cup OtherServices : ClientRequest(p, n, sv)
        \/ \E p \in Principals, m \in net : ClientAccept(p, m)
        \/ \E p \in Honest, t \in UNION {store[q] : q \in Principals}, id \in AuthIds : ClientAP(p, t, id)
        \/ \E m \in net, k \in KeyIds : KDCIssue(m, k)
        \/ \E m \in net, k \in KeyIds, p \in Dishonest, r \in Realms, id \in AuthIds :
               m.type \in {"rep", "ap"} /\ AdvForgeAP(m.tkt, k, Name(p), r, id)
        \/ \E m \in net : ServiceAcceptAtomic(m) \/ ServiceLookup(m)
        \/ \E m \in svc : ServiceInsert(m)
Spec == Init /\ [][Next]_vars
\* ---- invariants ---------------------------------------------------------------------------------------------------------------
\* agreement: the identity (c, realm) reported to the application was issued a ticket for this service by the KDC with that key
Agreement == \A i \in 1..Len(accepted) :
               [c |-> accepted[i].c, realm |-> accepted[i].realm, s |-> Service, k |-> accepted[i].k] \in issued
\* an honest principal is reported only if it sent that authenticator itself (its session keys never reach the attacker)
HonestNotImpersonated == \A i \in 1..Len(accepted) :
               (\E p \in Honest : Name(p) = accepted[i].c /\ RealmOf(p) = accepted[i].realm) => accepted[i].k \notin advKeys
\* at most one acceptance per authenticator
AtMostOnce == \A i, j \in 1..Len(accepted) : (i # j) =>
               [c |-> accepted[i].c, realm |-> accepted[i].realm, id |-> accepted[i].id] # [c |-> accepted[j].c, realm |-> accepted[j].realm, id |-> accepted[j].id]
\* a client stores a ticket only in answer to a request it made for that server (with the key the KDC issued for it)
AnswersOwnRequest == \A p \in Principals : \A t \in store[p] :
                        /\ t.tkt \in issued /\ t.tkt.c = Name(p) /\ t.tkt.realm = RealmOf(p) /\ t.tkt.k = t.k
                        /\ t.for = t.tkt.s                         \* the ticket is for the server that was asked for
\* session keys of honest principals stay secret
Secrecy == \A t \in issued : (\E p \in Honest : Name(p) = t.c /\ RealmOf(p) = t.realm) => t.k \notin advKeys
AccBound == Len(accepted) <= 2
=============================================================================
