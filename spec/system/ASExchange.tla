----------------------------- MODULE ASExchange -----------------------------
(***************************************************************************)
(* The client side of the AS exchange as a state machine: what             *)
(* Client.Login / Client.ASExchange / setPAData / preAuthEType / Client.Key *)
(* (client/client.go, client/ASExchange.go) do with every possible answer  *)
(* of whatever sits at the KDC's address - pre-authentication negotiation, *)
(* client referrals (RFC 6806 section 7), KRB-ERRORs, replies that do or   *)
(* do not answer the request, dead connections.                            *)
(*                                                                         *)
(* One Login is a sequence of requests.  A request is described by what a  *)
(* KDC can tell about it: whether it carries PA-ENC-TIMESTAMP, under which *)
(* etype, and which key of that etype was used:                            *)
(*   "default"  string-to-key with the default salt (client name, realm)   *)
(*   "hint"     string-to-key with the salt / parameters of the e-data of  *)
(*              the KRB-ERROR being answered                               *)
(*   "stored"   a key of the keytab                                        *)
(* Two settings of the client survive a Login and shape the next one:      *)
(* assume (pre-authentication is sent without being asked) and negotiated  *)
(* (the etype a KDC asked for last).                                       *)
(*                                                                         *)
(* Switches:                                                               *)
(*   HintsOnFailed   FALSE: the hints of a PREAUTH_FAILED error give the   *)
(*                   etype but not the salt (gokrb5 as found: Client.Key   *)
(*                   looked at the e-data only for PREAUTH_REQUIRED); a    *)
(*                   password client whose principal has a non-default     *)
(*                   salt then cannot log in a second time                 *)
(*   BoundReferrals  FALSE: realms that refer to each other keep the       *)
(*                   client busy for ever                                  *)
(*   UnsolicitedFromTkt  FALSE: before anything is negotiated the etype *)
(*                   of an unsolicited timestamp is the constant Preferred *)
(*                   (gokrb5 as found: preferred_preauth_types[0] - a      *)
(*                   pre-authentication TYPE number, 17 - read as etype    *)
(*                   aes128); a keytab without a key of that etype then    *)
(*                   fails every Login before anything is sent.  TRUE: it  *)
(*                   is the first etype the request offers (cred.tkt) for  *)
(*                   which the credential has a key; when there is none,   *)
(*                   the request goes out without a timestamp              *)
(*   Faithful        TRUE: the first request of a Login is exactly what    *)
(*                   the code sends (PA iff assume, etype = negotiated or  *)
(*                   the configured first choice); FALSE: any first        *)
(*                   request the credential can produce - the part of the  *)
(*                   behaviour no listed property constrains               *)
(***************************************************************************)
EXTENDS Integers, Sequences, FiniteSets, TLC
CONSTANTS Realms, Home,
          Etypes,            \* etypes the library implements
          Preferred,         \* etype of an unsolicited PA-ENC-TIMESTAMP when nothing was negotiated yet
          Creds,             \* the credentials and options a client may be created with: [password, keyEts, assumeInit, tkt]
                             \*   password: TRUE password credential, FALSE keytab; keyEts: etypes it has a key for (password: all
                             \*   of Etypes); assumeInit: the AssumePreAuthentication option; tkt: the etypes its AS-REQs offer
                             \*   (default_tkt_enctypes), in order
          MaxReferrals,      \* referral counts 0..MaxReferrals are followed (5 in gokrb5)
          HintsOnFailed, BoundReferrals, UnsolicitedFromTkt, Faithful,
          Codes,             \* KRB-ERROR codes other than 24, 25, 68 a KDC may answer
          MaxLogins
VARIABLES cred,        \* the client's credential and options (fixed when the client is created)
          pc,          \* "idle" | "wait1" (first request of an ASExchange call outstanding) | "wait2" (the pre-authenticated retry outstanding)
          at,          \* realm whose KDC is being asked
          referral,    \* client referrals followed in this Login
          assume, negotiated,
          req,         \* the outstanding request [pa, et, salt]
          sends,       \* requests sent in this Login
          outcome,     \* result of the last finished Login: "none" | "ok" | the root cause of the error (krberror): "KDC_Error",
                       \*   "KRBMessage_Handling_Error", "Networking_Error", "Encrypting_Error" (no key / no etype for the timestamp)
          code,        \* the KRB-ERROR code that reaches the caller with a KDC_Error (0: none)
          last,        \* the answer that ended the last finished Login
          logins
vars == <<cred, pc, at, referral, assume, negotiated, req, sends, outcome, code, last, logins>>
Password == cred.password
KeyEtypes == cred.keyEts
PREAUTH_FAILED == 24
PREAUTH_REQUIRED == 25
WRONG_REALM == 68
NoPA == [pa |-> FALSE, et |-> 0, salt |-> "none"]
PAReq(e, s) == [pa |-> TRUE, et |-> e, salt |-> s]
OwnSalt == IF Password THEN "default" ELSE "stored"
NoAnswer == [t |-> "none"]
Answers == [t : {"preauth"}, code : {PREAUTH_FAILED, PREAUTH_REQUIRED}, hint : Etypes \cup {0}]
           \cup [t : {"wrongrealm"}, to : Realms] \cup [t : {"error"}, code : Codes]
           \cup [t : {"reply"}, good : BOOLEAN] \cup {[t |-> "netfail"]}
Init == /\ cred \in Creds /\ pc = "idle" /\ at = Home /\ referral = 0 /\ assume = cred.assumeInit /\ negotiated = 0 /\ req = NoPA /\ sends = 0
        /\ outcome = "none" /\ code = 0 /\ last = NoAnswer /\ logins = 0
\* ---- what setPAData(cl, nil, ...) puts into the first request of an ASExchange call ------------------------------------------------
\* the set of [ok, r]: ok = FALSE: no key for the chosen etype, nothing is sent
FirstHeld == LET idx == {i \in DOMAIN cred.tkt : cred.tkt[i] \in KeyEtypes} IN
               IF idx = {} THEN 0 ELSE cred.tkt[CHOOSE i \in idx : \A j \in idx : i <= j]
AsCoded == IF assume THEN LET e == IF negotiated # 0 THEN negotiated ELSE IF UnsolicitedFromTkt THEN FirstHeld ELSE Preferred IN
                          IF e = 0 THEN {[ok |-> TRUE, r |-> NoPA]} ELSE {[ok |-> e \in KeyEtypes, r |-> PAReq(e, OwnSalt)]}
                     ELSE {[ok |-> TRUE, r |-> NoPA]}
\* not Faithful: any first request the credential can produce; failing before anything is sent is left to the code only when an earlier
\* KDC named an etype the credential has no key for (no conformant KDC does: it chooses among the etypes the request offers)
Unsolicited ==
  IF Faithful THEN AsCoded
  ELSE {[ok |-> TRUE, r |-> NoPA]} \cup {[ok |-> TRUE, r |-> PAReq(e, OwnSalt)] : e \in KeyEtypes} \cup {u \in AsCoded : ~u.ok /\ negotiated # 0}
Finish(o, c, a) == /\ pc' = "idle" /\ outcome' = o /\ code' = c /\ last' = a /\ req' = NoPA
Send(r, realm, stage) == /\ pc' = stage /\ req' = r /\ at' = realm /\ sends' = sends + 1 /\ UNCHANGED <<outcome, code, last>>
\* ---- Login -------------------------------------------------------------------------------------------------------------------------
Begin == /\ pc = "idle" /\ logins < MaxLogins /\ logins' = logins + 1 /\ referral' = 0
         /\ \E u \in Unsolicited :
              IF u.ok THEN /\ pc' = "wait1" /\ req' = u.r /\ at' = Home /\ sends' = 1 /\ outcome' = "none" /\ code' = 0 /\ last' = NoAnswer
                      ELSE /\ Finish("Encrypting_Error", 0, NoAnswer) /\ sends' = 0 /\ UNCHANGED at
         /\ UNCHANGED <<cred, assume, negotiated>>
\* ---- answers to the first request ----------------------------------------------------------------------------------------------------
\* KDC_ERR_PREAUTH_REQUIRED / KDC_ERR_PREAUTH_FAILED: from now on pre-authentication is assumed; the etype is the one the e-data names
HintSalt(c) == IF ~Password THEN "stored" ELSE IF c = PREAUTH_REQUIRED \/ HintsOnFailed THEN "hint" ELSE "default"
RecvPreauth1(a) ==
  /\ pc = "wait1" /\ a.t = "preauth" /\ assume' = TRUE
  /\ IF a.hint \notin Etypes
     THEN Finish("Encrypting_Error", 0, a) /\ UNCHANGED <<negotiated, at, sends>>            \* no etype information (or an etype the library lacks): nothing to encrypt the timestamp with
     ELSE /\ negotiated' = a.hint
          /\ IF a.hint \in KeyEtypes THEN Send(PAReq(a.hint, HintSalt(a.code)), at, "wait2")
                                     ELSE Finish("Encrypting_Error", 0, a) /\ UNCHANGED <<at, sends>>
  /\ UNCHANGED <<cred, referral, logins>>
\* KDC_ERR_WRONG_REALM: the same request goes to the KDC of the realm the error names, a bounded number of times
RecvWrongRealm1(a) ==
  /\ pc = "wait1" /\ a.t = "wrongrealm"
  /\ IF BoundReferrals /\ referral > MaxReferrals
     THEN Finish("KRBMessage_Handling_Error", 0, a) /\ UNCHANGED <<referral, at, sends>>
     ELSE /\ referral' = referral + 1
          /\ \E u \in Unsolicited : IF u.ok THEN Send(u.r, a.to, "wait1") ELSE Finish("Encrypting_Error", 0, a) /\ UNCHANGED <<at, sends>>
  /\ UNCHANGED <<cred, assume, negotiated, logins>>
RecvError1(a) == /\ pc = "wait1" /\ a.t = "error" /\ Finish("KDC_Error", a.code, a) /\ UNCHANGED <<cred, at, referral, assume, negotiated, sends, logins>>
\* ---- answers to the pre-authenticated retry: every KRB-ERROR ends the Login ----------------------------------------------------------
CodeOf(a) == IF a.t = "wrongrealm" THEN WRONG_REALM ELSE a.code
RecvError2(a) == /\ pc = "wait2" /\ a.t \in {"preauth", "wrongrealm", "error"} /\ Finish("KDC_Error", CodeOf(a), a)
                 /\ UNCHANGED <<cred, at, referral, assume, negotiated, sends, logins>>
\* ---- either stage ----------------------------------------------------------------------------------------------------------------------
\* a reply is accepted exactly when it answers the request (KDCReplyCheck!Accept, bound by C09)
RecvReply(a) == /\ pc \in {"wait1", "wait2"} /\ a.t = "reply"
                /\ IF a.good THEN Finish("ok", 0, a) ELSE Finish("KRBMessage_Handling_Error", 0, a)
                /\ UNCHANGED <<cred, at, referral, assume, negotiated, sends, logins>>
RecvNetFail(a) == /\ pc \in {"wait1", "wait2"} /\ a.t = "netfail" /\ Finish("Networking_Error", 0, a)
                  /\ UNCHANGED <<cred, at, referral, assume, negotiated, sends, logins>>
Recv(a) == RecvPreauth1(a) \/ RecvWrongRealm1(a) \/ RecvError1(a) \/ RecvError2(a) \/ RecvReply(a) \/ RecvNetFail(a)
Next == Begin \/ \E a \in Answers : Recv(a)
Spec == Init /\ [][Next]_vars
\* ---- properties (whatever answers) ---------------------------------------------------------------------------------------------------
TypeOK == /\ pc \in {"idle", "wait1", "wait2"} /\ at \in Realms /\ referral \in Nat /\ assume \in BOOLEAN /\ negotiated \in Etypes \cup {0}
          /\ req \in {NoPA} \cup {PAReq(e, s) : e \in Etypes, s \in {"default", "hint", "stored"}}
          /\ outcome \in {"none", "ok", "KDC_Error", "KRBMessage_Handling_Error", "Networking_Error", "Encrypting_Error"}
\* C10: "referral chains are followed only up to a fixed bound": one Login sends at most MaxReferrals + 3 requests
SendsBounded == sends <= MaxReferrals + 3
\* C09: a Login succeeds only on a reply that answers the request; a KRB-ERROR that ends it reaches the caller with its code
OkOnlyOnGoodReply == (pc = "idle" /\ outcome = "ok") => (last.t = "reply" /\ last.good)
ErrorCodeSurfaced == (pc = "idle" /\ outcome = "KDC_Error") => (last.t \in {"preauth", "wrongrealm", "error"} /\ code = CodeOf(last))
\* pre-authentication is never computed with a key the credential does not have, and a solicited one uses the etype asked for
KeyHeld == req.pa => req.et \in KeyEtypes
SolicitedEtype == pc = "wait2" => (req.pa /\ req.et = negotiated)
\* a failed Login never leaves a request outstanding, a finished Login has an outcome
Settled == (pc = "idle" /\ logins > 0) => outcome # "none"
=============================================================================
