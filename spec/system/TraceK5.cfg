CONSTANTS Honest = {}  Dishonest = {}  Realms = {}  Service = "HTTP/svc.sys.test"  OtherServices = {}  Nonces = {}  KeyIds = {}  AuthIds = {}  MaxMsgs = 0
          CheckCRealm = TRUE  AtomicReplay = TRUE  CheckNonce = TRUE
SPECIFICATION TSpec
CONSTRAINT Mark
INVARIANTS Agreement AtMostOnce
POSTCONDITION Accepted
CHECK_DEADLOCK FALSE
