---------------------------- MODULE Kerberos5TGS ----------------------------
(***************************************************************************)
(* System-level specification of the two-stage exchange: AS (ticket         *)
(* granting ticket), TGS (service ticket) and cross-realm referrals, with   *)
(* a network attacker who sees, delays and replays every message and owns   *)
(* some registered principals.                                              *)
(*                                                                         *)
(* Kerberos5.tla collapses the KDC into one step and studies the service    *)
(* side; this module studies the client side of gokrb5 (client/ASExchange,  *)
(* client/TGSExchange, client/cache, client/session):                       *)
(*   Login          AS-REQ for krbtgt/REALM, reply opened with the long     *)
(*                  term key, nonce and names compared (KDCReplyCheck)      *)
(*   GetService     TGS-REQ under a TGT; the reply is opened with the TGT's *)
(*                  session key; a reply whose ticket is a TGT for another  *)
(*                  realm is a referral and is followed, at most MaxHops    *)
(*                  times; any other ticket is handed to the caller         *)
(* The switches are the weakenings that were found or seeded in gokrb5:     *)
(*   CheckNonce = FALSE      an earlier reply under the same TGT key is     *)
(*                           accepted: the caller gets a ticket for another *)
(*                           service than it asked for                      *)
(*   BoundReferrals = FALSE  realms that refer to each other keep the       *)
(*                           client busy for ever (seed C10-s1)             *)
(*   AuthRealmOwn = FALSE    the authenticator of a TGS request names the   *)
(*                           realm that issued the TGT instead of the       *)
(*                           client's: with a TGT of a foreign realm (third *)
(*                           hop of a chain) a conformant TGS refuses it    *)
(*                           (RFC 4120 3.2.3, KRB_AP_ERR_BADMATCH)          *)
(*                                                                         *)
(* Tickets  [c, cr, sn, sr, by, k]: client name and realm, server name and  *)
(* realm ("krbtgt", X = a TGT usable at the TGS of X), issuing realm, id of *)
(* the session key.  A reply [lock, n, tkt, k, sn, sr] can be opened only   *)
(* with its lock: LT(p) the long-term key of p, SK(k) a session key.        *)
(***************************************************************************)
EXTENDS Integers, Sequences, FiniteSets, TLC
CONSTANTS Clients,        \* honest client principals <<name, realm>>
          Attackers,      \* registered principals whose long-term key the attacker holds
          Realms,         \* realms that run a KDC
          Services,       \* registered service principals <<name, realm>>
          Wanted,         \* what clients may ask for: <<name, realm>>, registered or not
          Hop(_, _),      \* Hop(x, y): the realm the TGS of x refers to for a server of realm y ("none": no path)
          Nonces, KeyIds, MaxHops, MaxMsgs,
          CheckNonce, BoundReferrals, AuthRealmOwn
Principals == Clients \cup Attackers
Name(p) == p[1]
RealmOf(p) == p[2]
VARIABLES issued,      \* KDC log: every ticket issued
          usedKeys,
          tgts,        \* client -> set of [tkt, k]: ticket granting tickets held with their session keys
          pend,        \* client -> set of [n, want, at, under, hops]: outstanding requests (under = 0: long-term key)
          got,         \* set of [p, want, tkt, k]: service tickets handed to the application
          net,         \* every message sent so far (the attacker may deliver any of them at any time, again and again)
          advKeys      \* session keys the attacker knows
vars == <<issued, usedKeys, tgts, pend, got, net, advKeys>>
TGTName == "krbtgt"
Init == /\ issued = {} /\ usedKeys = {} /\ tgts = [p \in Principals |-> {}] /\ pend = [p \in Principals |-> {}]
        /\ got = {} /\ net = {} /\ advKeys = {}
Room == Cardinality(net) < MaxMsgs
\* nonces are never reused (gokrb5 draws 31 random bits per request); every request ever sent is still in net
FreshNonce(n) == \A m \in net : m.type \in {"as", "tgs"} => m.n # n
\* ---- client ---------------------------------------------------------------------------------------------------------------------
Login(p, n) == /\ Room /\ FreshNonce(n) /\ pend[p] = {}
               /\ pend' = [pend EXCEPT ![p] = {[n |-> n, want |-> <<TGTName, RealmOf(p)>>, at |-> RealmOf(p), under |-> 0, hops |-> 0]}]
               /\ net' = net \cup {[type |-> "as", c |-> Name(p), cr |-> RealmOf(p), n |-> n]}
               /\ UNCHANGED <<issued, usedKeys, tgts, got, advKeys>>
\* c, cr: the client the authenticator names.  gokrb5 as found took the realm from the TGT (the realm that issued it): AuthRealmOwn = FALSE
TGSMsg(p, t, want, n) == [type |-> "tgs", to |-> t.tkt.sr, tgt |-> t.tkt, ak |-> t.k, c |-> Name(p),
                          cr |-> IF AuthRealmOwn THEN RealmOf(p) ELSE t.tkt.by, want |-> want, n |-> n]
GetService(p, want, t, n) == /\ Room /\ FreshNonce(n) /\ pend[p] = {} /\ t \in tgts[p] /\ t.tkt.sr = RealmOf(p)
                             /\ pend' = [pend EXCEPT ![p] = {[n |-> n, want |-> want, at |-> t.tkt.sr, under |-> t.k, hops |-> 0]}]
                             /\ net' = net \cup {TGSMsg(p, t, want, n)}
                             /\ UNCHANGED <<issued, usedKeys, tgts, got, advKeys>>
\* opening a reply: possible only with the key the request was made under
NoOne == <<"", "">>
LT(p) == [kind |-> "lt", who |-> p, k |-> 0]
SK(k) == [kind |-> "sk", who |-> NoOne, k |-> k]
Opens(p, x, m) == m.lock = (IF x.under = 0 THEN LT(p) ELSE SK(x.under))
Learn(p, m) == IF p \in Attackers THEN advKeys \cup {m.k} ELSE advKeys
\* AS reply: nonce, and the server name and realm of the encrypted part, must be those of the request
AcceptAS(p, m) == \E x \in pend[p] :
                    /\ m \in net /\ m.type = "rep" /\ x.under = 0 /\ Opens(p, x, m)
                    /\ (CheckNonce => m.n = x.n) /\ m.sn = TGTName /\ m.sr = RealmOf(p)
                    /\ tgts' = [tgts EXCEPT ![p] = @ \cup {[tkt |-> m.tkt, k |-> m.k]}]
                    /\ pend' = [pend EXCEPT ![p] = @ \ {x}]
                    /\ advKeys' = Learn(p, m)
                    /\ UNCHANGED <<issued, usedKeys, got, net>>
IsReferral(x, m) == m.sn = TGTName /\ m.sr # x.at
\* TGS reply with the ticket asked for (gokrb5 does not compare the server name: the nonce ties the reply to the request)
AcceptTGS(p, m) == \E x \in pend[p] :
                    /\ m \in net /\ m.type = "rep" /\ x.under # 0 /\ Opens(p, x, m)
                    /\ (CheckNonce => m.n = x.n) /\ ~IsReferral(x, m)
                    /\ got' = got \cup {[p |-> p, want |-> x.want, tkt |-> m.tkt, k |-> m.k]}
                    /\ pend' = [pend EXCEPT ![p] = @ \ {x}]
                    /\ advKeys' = Learn(p, m)
                    /\ UNCHANGED <<issued, usedKeys, tgts, net>>
\* TGS reply that refers to another realm: keep the TGT, ask there - unless the bound is reached, then give up
FollowReferral(p, m, n2) == \E x \in pend[p] :
                    /\ m \in net /\ m.type = "rep" /\ x.under # 0 /\ Opens(p, x, m)
                    /\ (CheckNonce => m.n = x.n) /\ IsReferral(x, m)
                    /\ advKeys' = Learn(p, m)
                    /\ IF BoundReferrals /\ x.hops >= MaxHops
                       THEN /\ pend' = [pend EXCEPT ![p] = @ \ {x}] /\ UNCHANGED <<tgts, net>>          \* "maximum number of referrals exceeded"
                       ELSE /\ Room /\ FreshNonce(n2) /\ n2 # x.n
                            /\ tgts' = [tgts EXCEPT ![p] = @ \cup {[tkt |-> m.tkt, k |-> m.k]}]
                            /\ pend' = [pend EXCEPT ![p] = (@ \ {x}) \cup {[n |-> n2, want |-> x.want, at |-> m.sr, under |-> m.k, hops |-> x.hops + 1]}]
                            /\ net' = net \cup {TGSMsg(p, [tkt |-> m.tkt, k |-> m.k], x.want, n2)}
                    /\ UNCHANGED <<issued, usedKeys, got>>
\* ---- KDCs -----------------------------------------------------------------------------------------------------------------------
Rep(lock, n, tkt) == [type |-> "rep", lock |-> lock, n |-> n, tkt |-> tkt, k |-> tkt.k, sn |-> tkt.sn, sr |-> tkt.sr]
KDCAS(m, k) == /\ Room /\ m \in net /\ m.type = "as" /\ k \notin usedKeys /\ m.cr \in Realms
               /\ \E p \in Principals : Name(p) = m.c /\ RealmOf(p) = m.cr
               /\ LET p == CHOOSE q \in Principals : Name(q) = m.c /\ RealmOf(q) = m.cr
                      tkt == [c |-> m.c, cr |-> m.cr, sn |-> TGTName, sr |-> m.cr, by |-> m.cr, k |-> k]
                  IN /\ issued' = issued \cup {tkt} /\ usedKeys' = usedKeys \cup {k}
                     /\ net' = net \cup {Rep(LT(p), m.n, tkt)}
               /\ UNCHANGED <<tgts, pend, got, advKeys>>
\* the TGS of realm m.to: the TGT was issued for this TGS, the authenticator is under its session key and names its client
TGSValid(m) == /\ m.tgt \in issued /\ m.tgt.sn = TGTName /\ m.tgt.sr = m.to
               /\ m.ak = m.tgt.k /\ m.c = m.tgt.c /\ m.cr = m.tgt.cr
KDCTGS(m, k) == /\ Room /\ m \in net /\ m.type = "tgs" /\ k \notin usedKeys /\ m.to \in Realms /\ TGSValid(m)
                /\ LET r == m.to
                       local == m.want \in Services /\ m.want[2] = r
                       nxt == Hop(r, m.want[2])
                       tkt == IF local THEN [c |-> m.c, cr |-> m.cr, sn |-> m.want[1], sr |-> r, by |-> r, k |-> k]
                                       ELSE [c |-> m.c, cr |-> m.cr, sn |-> TGTName, sr |-> nxt, by |-> r, k |-> k]
                   IN /\ local \/ (m.want[2] # r /\ nxt # "none")          \* otherwise the TGS answers with an error (no ticket)
                      /\ issued' = issued \cup {tkt} /\ usedKeys' = usedKeys \cup {k}
                      /\ net' = net \cup {Rep(SK(m.tgt.k), m.n, tkt)}
                /\ UNCHANGED <<tgts, pend, got, advKeys>>
\* ---- attacker ---------------------------------------------------------------------------------------------------------------------
\* opens what is sealed under keys it knows; everything else it can only replay (net never shrinks)
AdvOpen(m) == /\ m \in net /\ m.type = "rep" /\ m.lock.kind = "sk" /\ m.lock.k \in advKeys /\ m.k \notin advKeys
              /\ advKeys' = advKeys \cup {m.k}
              /\ UNCHANGED <<issued, usedKeys, tgts, pend, got, net>>
Next == \/ \E p \in Principals, n \in Nonces : Login(p, n)
        \/ \E p \in Clients, w \in Wanted, n \in Nonces : \E t \in tgts[p] : GetService(p, w, t, n)
        \/ \E p \in Principals, m \in net : AcceptAS(p, m) \/ AcceptTGS(p, m)
        \/ \E p \in Clients, m \in net, n \in Nonces : FollowReferral(p, m, n)
        \/ \E m \in net, k \in KeyIds : KDCAS(m, k) \/ KDCTGS(m, k)
        \/ \E m \in net : AdvOpen(m)
Spec == Init /\ [][Next]_vars
\* ---- properties -------------------------------------------------------------------------------------------------------------------
\* what the application receives is the ticket the KDC of the service's realm issued to this client for the service asked for,
\* together with the session key issued with it
DeliveredIsRight == \A g \in got : /\ g.tkt \in issued /\ g.tkt.k = g.k
                                   /\ g.tkt.c = Name(g.p) /\ g.tkt.cr = RealmOf(g.p)
                                   /\ g.tkt.sn = g.want[1] /\ g.tkt.sr = g.want[2] /\ g.tkt.by = g.want[2]
\* a TGT the client keeps was issued to it
TGTsAreOwn == \A p \in Principals : \A t \in tgts[p] : t.tkt \in issued /\ t.tkt.k = t.k /\ t.tkt.c = Name(p) /\ t.tkt.cr = RealmOf(p) /\ t.tkt.sn = TGTName
\* session keys issued to honest clients stay secret
Secrecy == \A t \in issued : <<t.c, t.cr>> \in Clients => t.k \notin advKeys
\* every request an honest client makes under a TGT issued to it is one the TGS asked accepts (TGSValid: RFC 4120 3.2.3)
ClientRequestsValid == \A m \in net : (m.type = "tgs" /\ <<m.tgt.c, m.tgt.cr>> \in Clients) => TGSValid(m)
\* a request never travels further than the bound
HopsBounded == \A p \in Principals : \A x \in pend[p] : x.hops <= MaxHops
HopConstraint == \A p \in Principals : \A x \in pend[p] : x.hops <= MaxHops + 1
=============================================================================
