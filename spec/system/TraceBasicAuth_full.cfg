CONSTANTS Victim = "alice"  Mallory = "mallory"  Verification = "full"  MaxCalls = 100000
SPECIFICATION TSpec
CONSTRAINT Mark
POSTCONDITION Accepted
CHECK_DEADLOCK FALSE
