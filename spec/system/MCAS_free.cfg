SPECIFICATION Spec
CONSTANTS
  Realms = {"A", "B", "C"}
  Home = "A"
  Etypes = {17, 18, 23}
  Preferred = 17
  Creds <- MCCreds
  MaxReferrals = 5
  HintsOnFailed = TRUE
  BoundReferrals = TRUE
  UnsolicitedFromTkt = TRUE
  Faithful = FALSE
  Codes = {6, 18}
  MaxLogins = 2
INVARIANTS TypeOK SendsBounded OkOnlyOnGoodReply ErrorCodeSurfaced KeyHeld SolicitedEtype Settled
CHECK_DEADLOCK FALSE
