SPECIFICATION CSpec
CONSTANTS
  Realms = {"A"}
  Home = "A"
  Etypes = {17, 18, 23}
  Preferred = 17
  Creds <- CCreds
  MaxReferrals = 5
  HintsOnFailed = TRUE
  BoundReferrals = TRUE
  UnsolicitedFromTkt = TRUE
  Faithful = TRUE
  Codes = {6}
  MaxLogins = 3
  KEts = {17, 18, 23}
  SaltKinds = {TRUE, FALSE}
  PreauthPolicies = {TRUE, FALSE}
INVARIANTS TypeOK LoginSucceeds SendsBounded
CHECK_DEADLOCK FALSE
