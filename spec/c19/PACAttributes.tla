---------------------------- MODULE PACAttributes ----------------------------
(***************************************************************************)
(* What the application sees of a verified PAC (credentials.ADCredentials):*)
(* a projection of the decoded KERB_VALIDATION_INFO ([MS-PAC] 2.5).        *)
(* Numbers are carried as decimal strings, SIDs in the S-1-... notation,   *)
(* times as the strings the dependency's FILETIME conversion yields.       *)
(***************************************************************************)
EXTENDS Sequences, Naturals
\* append the elements of `more` that are not yet in the list, in order
RECURSIVE AppendNew(_, _)
AppendNew(l, more) == IF more = << >> THEN l
                      ELSE AppendNew(IF \E i \in 1..Len(l) : l[i] = more[1] THEN l ELSE Append(l, more[1]), Tail(more))
RidSIDs(domain, rids) == [i \in 1..Len(rids) |-> domain \o "-" \o rids[i]]
(* group membership: the logon domain's SID with every group RID, then the extra SIDs, then the resource-group domain SID with
   every resource-group RID; a SID that is already in the list is not repeated.  (GroupIds itself never repeats a RID.) *)
GroupSIDs(vi) == AppendNew(AppendNew(RidSIDs(vi.logonDomainID, vi.groupRIDs), vi.extraSIDs),
                           RidSIDs(vi.resourceDomainSID, vi.resourceRIDs))
Expose(vi) == [effectiveName |-> vi.effectiveName, fullName |-> vi.fullName, userID |-> vi.userID, primaryGroupID |-> vi.primaryGroupID,
               logOnTime |-> vi.logOnTime, logOffTime |-> vi.logOffTime, passwordLastSet |-> vi.passwordLastSet,
               logonServer |-> vi.logonServer, logonDomainName |-> vi.logonDomainName, logonDomainID |-> vi.logonDomainID,
               groupSIDs |-> GroupSIDs(vi)]
=============================================================================
