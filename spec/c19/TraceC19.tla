------------------------------ MODULE TraceC19 ------------------------------
(* C19 trace validation, one TLC state per recorded line.
   ev = "case":  a PAC image rendered by GenC19 (images.ndjson, looked up by id), given with the service key to the PAC
                 processing directly (direct) and inside a minted ticket to service.VerifyAPREQ without and with a logger
                 configured (ap, aplog): outcome accept | reject | panic | crash, the decoded validation info, the
                 ADCredentials the application receives.
   ev = "sweep": for an accepted image, the single-bit flips of the image and of the key after which it was still accepted,
                 and those on which the processing panicked or killed its process.
   ev = "sids":  an abstract validation info given as a decoded structure, and the group membership reported for it. *)
EXTENDS PACVerify, Json, FiniteSets
CONSTANTS NShards
Tr == ndJsonDeserialize("trace.ndjson")
Img == ndJsonDeserialize("images.ndjson")
Known == ndJsonDeserialize("known.ndjson")
NLines == Len(Tr)
VARIABLES sh, l
LT == INSTANCE LineTrace
A == INSTANCE PACAttributes
H(s) == FromHex(s)
ToSet(s) == { s[i] : i \in DOMAIN s }

\* ---- verdict ------------------------------------------------------------------------------------------------------------------
(* A rejected image must be rejected - with an error, not a panic, not a dead process.  An accepted image must be accepted
   when its first validation-info and client-info buffers are known to be well-formed (g.decodable); how a reader treats a
   mandatory buffer it cannot decode is left open (either verdict, but no panic). *)
OutcomeOK(d, decodable, o) == IF ~d.accept THEN o = "reject"
                              ELSE IF decodable THEN o = "accept" ELSE o \in {"accept", "reject"}
\* ---- faithful report ----------------------------------------------------------------------------------------------------------
KnownIdx(vihex) == LET s == { k \in 1..Len(Known) : Known[k].vi = vihex } IN IF s = {} THEN 0 ELSE CHOOSE k \in s : TRUE
Plain == {"effectiveName", "fullName", "logonServer", "logonDomainName", "userID", "primaryGroupID", "groupRIDs", "logonDomainID",
          "extraSIDs", "resourceDomainSID", "resourceRIDs", "ft"}
Times == {"logOnTime", "logOffTime", "kickOffTime", "passwordLastSet", "passwordCanChange", "passwordMustChange"}
\* the decoded structure is the known content of the validation info that counts (FILETIMEs raw; converted times where they are finite)
DecodedIs(dec, k) == /\ \A f \in Plain : dec[f] = k[f]
                     /\ \A f \in Times : k[f] = "never" \/ dec[f] = k[f]
CredsOK(c, dec) == LET e == A!Expose(dec) IN
                   /\ \A f \in DOMAIN e : c[f] = e[f]
                   /\ dec.effectiveName # "" => c.userName = dec.effectiveName
                   /\ dec.fullName # "" => c.displayName = dec.fullName
                   /\ ToSet(c.authzAttributes) = ToSet(e.groupSIDs)
APOK(p, d, g, dec) == /\ OutcomeOK(d, g.decodable, p.o)
                      /\ p.o = "accept" => (p.isPAC /\ CredsOK(p.creds, dec))
CaseOK(x) == LET g == Img[x.id]
                 d == Decide(H(g.image), H(g.vkey)) IN
             /\ g.id = x.id /\ x.image = g.image
             /\ OutcomeOK(d, g.decodable, x.direct.o)
             /\ x.direct.o = "accept" => LET k == KnownIdx(ToHex(d.vi)) IN k # 0 => DecodedIs(x.direct.dec, Known[k].attrs)
             /\ x.ap.o = "accept" \/ x.aplog.o = "accept" => x.direct.o = "accept"
             /\ APOK(x.ap, d, g, x.direct.dec)
             /\ APOK(x.aplog, d, g, x.direct.dec)
\* ---- sweep --------------------------------------------------------------------------------------------------------------------
SweepOK(x) == LET g == Img[x.id]
                  b == H(g.image)
                  key == H(g.vkey)
                  d == Decide(b, key)
                  exp == AcceptedFlips(b, key)                             \* by recomputation of the decision for every flip
                  byClass == { i \in 0..(8 * Len(b) - 1) : Class(d, i) = "kdcSig" }
                  got == ToSet(x.accepted) IN
              /\ d.accept /\ x.nbits = 8 * Len(b) /\ x.nkeybits = 8 * Len(key)
              /\ exp = byClass \/ PrintT(<<"THEOREM", l>>)                 \* the specification's own classification theorem
              /\ x.panicked = << >> /\ x.crashed = << >> /\ x.kpanicked = << >> /\ x.kcrashed = << >>
              /\ got = exp \/ (PrintT(<<"SWEEPDIFF", l, got \ exp, exp \ got>>) /\ FALSE)
              /\ \A i \in DOMAIN x.acceptedH : x.acceptedH[i] = x.baseH    \* a change of the KDC signature changes nothing that is reported
              /\ ToSet(x.kaccepted) = AcceptedKeyFlips(b, key)
SidsOK(x) == x.o = "accept" /\ x.sids = A!GroupSIDs(x.vi)
LineOK(x) == CASE x.ev = "case" -> CaseOK(x) [] x.ev = "sweep" -> SweepOK(x) [] x.ev = "sids" -> SidsOK(x)
Init == LT!Init
Next == LT!Next
Check == ~LT!Active \/ LineOK(Tr[l]) \/ PrintT(<<"BADLINE", l>>)
=============================================================================
