------------------------------ MODULE PACFormat ------------------------------
(***************************************************************************)
(* The PACTYPE container of [MS-PAC] 2.3/2.4 and the two PAC_SIGNATURE_DATA *)
(* buffers of 2.8, as an independent WRITER (Render: model -> bytes, with  *)
(* the signatures computed here from KrbCrypto) and a total READER         *)
(* (Parse: arbitrary bytes -> the info-buffer table, or malformed).        *)
(*                                                                         *)
(*   PACTYPE   = cBuffers (LE32) | Version (LE32, 0) | cBuffers x          *)
(*               PAC_INFO_BUFFER | buffer data                             *)
(*   INFO_BUFFER = ulType (LE32) | cbBufferSize (LE32) | Offset (LE64)     *)
(*   every buffer starts on a multiple of 8; the gaps and the tail are 0.  *)
(*   SIGNATURE_DATA = SignatureType (LE32, signed) | Signature (length by  *)
(*               type) | optional RODCIdentifier (2 bytes)                 *)
(*                                                                         *)
(* The content of the other buffers (NDR) is opaque here.                  *)
(***************************************************************************)
EXTENDS KrbCrypto

\* ---- numbers of [MS-PAC] 2.4 ------------------------------------------------------------------------------------------------
TLogonInfo == 1   TServerSig == 6   TKdcSig == 7   TClientInfo == 10
Mandatory == {TLogonInfo, TServerSig, TKdcSig, TClientInfo}
TypeLE(t) == <<t, 0, 0, 0>>                                  \* info-buffer types are small

\* signature types of [MS-PAC] 2.8 (HMAC_MD5 = -138, AES128 = 15, AES256 = 16) and the RFC 8009 types 19, 20;
\* the signature is the full keyed checksum of the type, key usage KERB_NON_KERB_CKSUM_SALT = 17
SigTypes == {-138, 15, 16, 19, 20}
SigLen(t) == CASE t = -138 -> 16 [] t \in {15, 16} -> 12 [] t = 19 -> 16 [] t = 20 -> 24
SigTypeLE(t) == IF t < 0 THEN <<256 + t, 255, 255, 255>> ELSE <<t, 0, 0, 0>>          \* two's complement, little endian
SigTypeOf(b4) == IF b4 = <<118, 255, 255, 255>> THEN -138
                 ELSE IF b4[2] = 0 /\ b4[3] = 0 /\ b4[4] = 0 /\ b4[1] \in SigTypes THEN b4[1] ELSE 0       \* 0 = not a PAC signature type
SigUsage == U(17)
\* HMAC_MD5 is used with the key of any non-AES service account; the AES types need a key of their own size
KeyFits(t, key) == t = -138 \/ Len(key) = KeyLen(CksumEtype[t])
Sum(t, key, data) == Checksum(CksumEtype[t], key, SigUsage, data)
(* The same checksum in two steps - the key that depends on (type, key) only, then the keyed hash of the data - so that a sweep
   over many images under one key derives the key once.  SumFactored (checked by MCPACVerify and GenC19 on every key they use)
   states that this is KrbCrypto's Checksum, which is the definition. *)
SumKey(t, key) == IF t = -138 THEN HMAC("HmacMD5", key, SignatureKey) ELSE Kc(CksumEtype[t], key, SigUsage)
SumWith(t, kc, data) == LET et == CksumEtype[t] IN
                        IF t = -138 THEN HMAC("HmacMD5", kc, Hash("MD5", MsgTypeLE(SigUsage) \o data))
                        ELSE Take(HMAC(HAlg(et), kc, data), MacLen(et))
SumFactored(t, key, data) == Sum(t, key, data) = SumWith(t, SumKey(t, key), data)

\* ---- the writer -------------------------------------------------------------------------------------------------------------
(* model: [version : 4 bytes, items : Seq(item), skey, kkey : bytes, trail : bytes, cut : Nat]
   item:  [kind |-> "data", type : 4 bytes (ulType as written), data : bytes]
        | [kind |-> "sig", role : {"server", "kdc"}, decl : 4 bytes (SignatureType as written), alg \in SigTypes, rodc : bytes]
   At most one item has role "server" and at most one has role "kdc": these are the two signatures the writer computes
   (ulType 6 resp. 7).  Further buffers of type 6/7 are given as "data" items and are just bytes.  A conforming writer has
   decl = SigTypeLE(alg); models with decl # SigTypeLE(alg) describe a PAC whose declared type is not the one it was signed with.
   trail: bytes after the last buffer (signed); cut: bytes removed from the end after signing (a damaged PAC). *)
Align8(x) == ((x + 7) \div 8) * 8
ItemType(it) == IF it.kind = "data" THEN it.type ELSE IF it.role = "server" THEN TypeLE(TServerSig) ELSE TypeLE(TKdcSig)
ItemLen(it) == IF it.kind = "data" THEN Len(it.data) ELSE 4 + SigLen(it.alg) + Len(it.rodc)
HeaderLen(n) == 8 + 16 * n
\* offsets: the first buffer follows the table, each next one starts at the next multiple of 8
Offsets(items) ==
  LET n == Len(items)
      RECURSIVE Off(_)
      Off(i) == IF i = 1 THEN HeaderLen(n) ELSE Align8(Off(i - 1) + ItemLen(items[i - 1]))
  IN [i \in 1..n |-> Off(i)]
LE64(u) == LE32(u) \o <<0, 0, 0, 0>>
RoleIdx(items, role) == { i \in 1..Len(items) : items[i].kind = "sig" /\ items[i].role = role }
Image(m, ssig, ksig) ==
  LET items == m.items
      n == Len(items)
      off == Offsets(items)
      body(i) == IF items[i].kind = "data" THEN items[i].data
                 ELSE items[i].decl \o (IF items[i].role = "server" THEN ssig ELSE ksig) \o items[i].rodc
      endOf(i) == off[i] + ItemLen(items[i])
      table == Concat([i \in 1..n |-> ItemType(items[i]) \o LE32(ItemLen(items[i])) \o LE64(off[i])])
      \* buffer i with the zero gap that follows it
      piece(i) == body(i) \o Zeros((IF i = n THEN Align8(endOf(i)) ELSE off[i + 1]) - endOf(i))
  IN LE32(n) \o m.version \o table \o Concat([i \in 1..n |-> piece(i)]) \o m.trail
Render(m) ==
  LET si == RoleIdx(m.items, "server")
      ki == RoleIdx(m.items, "kdc")
      salg == IF si = {} THEN 15 ELSE m.items[CHOOSE i \in si : TRUE].alg
      kalg == IF ki = {} THEN 15 ELSE m.items[CHOOSE i \in ki : TRUE].alg
      zeroed == Image(m, Zeros(SigLen(salg)), Zeros(SigLen(kalg)))           \* both signature fields zero
      ssig == Sum(salg, m.skey, zeroed)                                       \* [MS-PAC] 2.8.1
      ksig == Sum(kalg, m.kkey, ssig)                                         \* [MS-PAC] 2.8.2: the KDC signs the server signature
      full == Image(m, ssig, ksig)
  IN SubSeq(full, 1, Len(full) - m.cut)

\* ---- the reader -------------------------------------------------------------------------------------------------------------
\* little-endian fields of an image; anything that does not fit 24 bits is certainly larger than the image
Big == 16777216
U32At(b, p) == IF b[p + 4] # 0 THEN Big ELSE b[p + 1] + 256 * b[p + 2] + 65536 * b[p + 3]                   \* p: 0-based offset
U64At(b, p) == IF b[p + 5] # 0 \/ b[p + 6] # 0 \/ b[p + 7] # 0 \/ b[p + 8] # 0 THEN Big ELSE U32At(b, p)
Malformed == [ok |-> FALSE, n |-> 0, ent |-> << >>]
(* the info-buffer table; every buffer must lie inside the image.  (The alignment of the offsets and Version = 0 are
   obligations of the writer that a reader is not required to police; the specification leaves them open.) *)
Parse(b) ==
  IF Len(b) < 8 THEN Malformed ELSE
  LET n == U32At(b, 0) IN
  IF n >= Big \/ HeaderLen(n) > Len(b) THEN Malformed ELSE
  LET ent == [i \in 1..n |-> LET p == 8 + 16 * (i - 1) IN
                [type |-> SubSeq(b, p + 1, p + 4), size |-> U32At(b, p + 4), off |-> U64At(b, p + 8)]] IN
  IF \E i \in 1..n : ent[i].off >= Big \/ ent[i].size >= Big \/ ent[i].off + ent[i].size > Len(b) THEN Malformed
  ELSE [ok |-> TRUE, n |-> n, ent |-> ent]
\* "PAC structures MUST contain one buffer of this type, and additional buffers of this type MUST be ignored": the first counts
First(p, t) == LET s == { i \in 1..p.n : p.ent[i].type = TypeLE(t) } IN
               IF s = {} THEN 0 ELSE CHOOSE i \in s : \A j \in s : i <= j
BufData(b, e) == SubSeq(b, e.off + 1, e.off + e.size)
=============================================================================
