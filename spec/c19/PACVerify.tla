------------------------------ MODULE PACVerify ------------------------------
(***************************************************************************)
(* C19, the decision: a service that holds `key` accepts the PAC image b   *)
(* iff the four mandatory buffers are present and the server signature -   *)
(* the keyed checksum of the declared type, key usage 17, over the image   *)
(* with the two signature VALUE fields zeroed - equals the value in the    *)
(* (first) server-signature buffer.  [MS-PAC] 2.8.1, [MS-KILE] 3.3.5.6.    *)
(***************************************************************************)
EXTENDS PACFormat

ZeroRange(b, a, c) == SubSeq(b, 1, a) \o Zeros(c) \o SubSeq(b, a + c + 1, Len(b))       \* bytes a+1 .. a+c (a: 0-based offset)
Reject(why) == [accept |-> FALSE, why |-> why, vi |-> << >>, s |-> <<0, 0>>, k |-> <<0, 0>>]
\* a signature buffer: declared type and the span of the value field, or unusable
SigField(b, e) ==
  IF e.size < 4 THEN [ok |-> FALSE] ELSE
  LET t == SigTypeOf(SubSeq(b, e.off + 1, e.off + 4)) IN
  IF t \notin SigTypes \/ e.size < 4 + SigLen(t) THEN [ok |-> FALSE]
  ELSE [ok |-> TRUE, type |-> t, at |-> e.off + 4, len |-> SigLen(t)]
(* DecideWith: the decision, given the checksum key kc0 already derived from `key` for type t0 (t0 = 0: nothing derived). *)
DecideWith(b, key, t0, kc0) ==
  LET p == Parse(b) IN
  IF ~p.ok THEN Reject("malformed") ELSE
  LET iv == First(p, TLogonInfo)  is == First(p, TServerSig)  ik == First(p, TKdcSig)  ic == First(p, TClientInfo) IN
  IF iv = 0 \/ is = 0 \/ ik = 0 \/ ic = 0 THEN Reject("mandatory buffer missing") ELSE
  LET s == SigField(b, p.ent[is])  k == SigField(b, p.ent[ik]) IN
  IF ~s.ok \/ ~k.ok THEN Reject("signature buffer") ELSE
  IF ~KeyFits(s.type, key) THEN Reject("key does not belong to the declared type") ELSE
  LET zeroed == ZeroRange(ZeroRange(b, s.at, s.len), k.at, k.len)
      sig == SubSeq(b, s.at + 1, s.at + s.len) IN
  IF (IF s.type = t0 THEN SumWith(t0, kc0, zeroed) ELSE Sum(s.type, key, zeroed)) = sig
  THEN [accept |-> TRUE, why |-> "", vi |-> BufData(b, p.ent[iv]), s |-> <<s.at, s.len>>, k |-> <<k.at, k.len>>]
  ELSE Reject("server signature")
Decide(b, key) == DecideWith(b, key, 0, << >>)
Accepts(b, key) == Decide(b, key).accept

(* the classification of the bits of an ACCEPTED image (bit i: 0-based, most significant bit of byte 0 first):
   the value field of the server signature, the value field of the KDC signature (the service cannot check it: it is
   not covered by the server signature, a change leaves the verdict unchanged), and everything else - the table,
   every buffer, the signature types, the RODC identifiers, every padding byte - which is signed. *)
Class(d, i) == LET q == i \div 8 IN
               IF q >= d.s[1] /\ q < d.s[1] + d.s[2] THEN "serverSig"
               ELSE IF q >= d.k[1] /\ q < d.k[1] + d.k[2] THEN "kdcSig" ELSE "signed"
\* the theorem the flip sweep relies on (checked by MCPACVerify on every bit of small PACs, and on the samples)
FlipTheorem(b, key, i) == LET d == Decide(b, key) IN
                          d.accept => (Accepts(FlipBit(b, i), key) <=> Class(d, i) = "kdcSig")
\* the set of single-bit flips after which the image is still accepted, by recomputation
AcceptedFlips(b, key) ==
  LET p == Parse(b)
      is == IF p.ok THEN First(p, TServerSig) ELSE 0
      s == IF is = 0 THEN [ok |-> FALSE] ELSE SigField(b, p.ent[is])
      t0 == IF s.ok THEN s.type ELSE 0                                      \* the type most flipped images still declare
      kc0 == IF t0 = 0 THEN << >> ELSE SumKey(t0, key)
  IN { i \in 0..(8 * Len(b) - 1) : DecideWith(FlipBit(b, i), key, t0, kc0).accept }
AcceptedKeyFlips(b, key) == { i \in 0..(8 * Len(key) - 1) : Accepts(b, FlipBit(key, i)) }
=============================================================================
