------------------------------- MODULE GenC19 -------------------------------
(* role B.  (1) Self-validation of the specification against independent data: the layout rule of the writer reproduces the
   two captured sample PACs byte for byte, and the decision procedure accepts the PAC that a real KDC issued for the key of
   gokrb5's test keytab (and rejects it for that key with one bit changed).
   (2) The writer renders - and signs - the PAC models chosen by the driver (models.ndjson -> images.ndjson); the verdict the
   driver intended for each model is compared with the decision procedure (a disagreement is reported, the run is void). *)
EXTENDS PACVerify, Json, FiniteSets, SequencesExt
CONSTANT MaxExtra
Samples == ndJsonDeserialize("samples.ndjson")
Models == ndJsonDeserialize("models.ndjson")
H(s) == FromHex(s)
\* a captured image as a model whose buffers are all plain data
RawModel(b) == LET p == Parse(b) IN
  [version |-> SubSeq(b, 5, 8), items |-> [i \in 1..p.n |-> [kind |-> "data", type |-> p.ent[i].type, data |-> BufData(b, p.ent[i])]],
   skey |-> << >>, kkey |-> << >>, trail |-> << >>, cut |-> 0]
SampleOK(s) == s.pac = "" \/ LET b == H(s.pac) IN
                 /\ Parse(b).ok
                 /\ Render(RawModel(b)) = b
                 /\ s.key = "" \/ ( /\ Accepts(b, H(s.key))
                                    /\ ~Accepts(b, FlipBit(H(s.key), 77))
                                    /\ Decide(b, H(s.key)).vi = H(s.buffers[1][2]) )
ASSUME \A i \in 1..Len(Samples) : SampleOK(Samples[i]) \/ PrintT(<<"SAMPLEBAD", i>>)

Item2(it) == IF it.kind = "data" THEN [kind |-> "data", type |-> it.type, data |-> H(it.data)]
             ELSE [kind |-> "sig", role |-> it.role, decl |-> it.decl, alg |-> it.alg, rodc |-> H(it.rodc)]
ModelOf(m) == [version |-> m.version, items |-> [i \in 1..Len(m.items) |-> Item2(m.items[i])],
               skey |-> H(m.skey), kkey |-> H(m.kkey), trail |-> H(m.trail), cut |-> m.cut]
Images == [i \in 1..Len(Models) |-> Render(ModelOf(Models[i]))]
Verdicts == [i \in 1..Len(Models) |-> Decide(Images[i], H(Models[i].vkey))]
ASSUME ndJsonSerialize("images.ndjson", [i \in 1..Len(Models) |->
          [id |-> i, name |-> Models[i].name, image |-> ToHex(Images[i]), vkey |-> Models[i].vkey, vet |-> Models[i].vet,
           sweep |-> Models[i].sweep, decodable |-> Models[i].decodable, nbits |-> 8 * Len(Images[i])]])
ASSUME \A i \in 1..Len(Models) : (Verdicts[i].accept <=> Models[i].expect = "accept") \/ PrintT(<<"MISMATCH", i>>)
ASSUME \A i \in 1..Len(Models) : \A t \in SigTypes : ~Models[i].sweep \/ ~KeyFits(t, H(Models[i].vkey))
                                                        \/ SumFactored(t, H(Models[i].vkey), Images[i]) \/ PrintT(<<"SAMPLEBAD", 0 - i>>)
ASSUME PrintT(<<"COUNTS", Len(Models), Cardinality({ i \in 1..Len(Models) : Verdicts[i].accept }),
                Cardinality({ Images[i] : i \in 1..Len(Models) })>>)
\* (3) abstract validation infos for the group-membership rule (PACAttributes!GroupSIDs): group RIDs, extra SIDs that repeat a
\* group SID / each other / nothing, a resource domain that is or is not the logon domain, resource RIDs that repeat or not
D1 == "S-1-5-21-1-2-3"
D2 == "S-1-5-21-9-8-7"
RECURSIVE SeqsUpTo(_, _)
SeqsUpTo(S, n) == IF n = 0 THEN { << >> } ELSE LET r == SeqsUpTo(S, n - 1) IN r \cup { Append(q, a) : q \in { z \in r : Len(z) = n - 1 }, a \in S }
AbsVIs == [logonDomainID : {D1}, groupRIDs : { << >>, <<"513">>, <<"513", "600">>, <<"600", "513">> },
           extraSIDs : SeqsUpTo({D1 \o "-513", D1 \o "-700", D2 \o "-513", "S-1-18-1"}, MaxExtra),
           resourceDomainSID : {D1, D2}, resourceRIDs : SeqsUpTo({"513", "600", "4294967295"}, 2)]
AbsSeq == SetToSeq(AbsVIs)
ASSUME ndJsonSerialize("sids.ndjson", [i \in 1..Len(AbsSeq) |-> [id |-> i, vi |-> AbsSeq[i]]])
ASSUME PrintT(<<"SIDCASES", Len(AbsSeq)>>)
VARIABLE x
Init == x = 0
Next == UNCHANGED x
=============================================================================
