CONSTANT MaxExtra = 3
INIT Init
NEXT Next
