----------------------------- MODULE MCPACVerify -----------------------------
(* role A: the decision procedure checked against the writer on every small PAC.
   A PAC is composed buffer by buffer from a small alphabet (validation info V, client info C, an optional buffer X, the
   server signature S and the KDC signature K - each computed by the writer, at most once -, and stray buffers G6 / G7 of the
   signature types with arbitrary content); for every composition of at most MaxItems buffers and every signature type:
     - the reader accepts the writer's image with the service key iff the composition conforms (V, C, S, K present; S is the
       first buffer of type 6 and K the first of type 7: "additional buffers MUST be ignored"), never with another key;
   and for two conforming compositions, every single bit of the image is flipped:
     - the flipped image is accepted iff the bit lies in the value of the KDC signature (FlipTheorem). *)
EXTENDS PACVerify, FiniteSets
CONSTANTS MaxItems
Letters == {"V", "C", "X", "S", "K", "G6", "G7"}
Other(t) == CASE t = -138 -> 15 [] t = 15 -> 20 [] t = 16 -> -138 [] t = 19 -> 16 [] t = 20 -> 19      \* the KDC's type
Item(c, t) == CASE c = "V" -> [kind |-> "data", type |-> TypeLE(TLogonInfo), data |-> <<1, 16, 8, 0, 204, 204, 204, 204, 9>>]
                [] c = "C" -> [kind |-> "data", type |-> TypeLE(TClientInfo), data |-> <<10, 11, 12>>]
                [] c = "X" -> [kind |-> "data", type |-> TypeLE(12), data |-> << >>]
                [] c = "S" -> [kind |-> "sig", role |-> "server", decl |-> SigTypeLE(t), alg |-> t, rodc |-> << >>]
                [] c = "K" -> [kind |-> "sig", role |-> "kdc", decl |-> SigTypeLE(Other(t)), alg |-> Other(t), rodc |-> <<5, 0>>]
                [] c = "G6" -> [kind |-> "data", type |-> TypeLE(TServerSig), data |-> SigTypeLE(t) \o Rep(170, SigLen(t))]
                [] c = "G7" -> [kind |-> "data", type |-> TypeLE(TKdcSig), data |-> SigTypeLE(Other(t)) \o Rep(85, SigLen(Other(t)))]
SKey(t) == [i \in 1..KeyLen(CksumEtype[t]) |-> (37 * i) % 256]
KKey(t) == [i \in 1..KeyLen(CksumEtype[Other(t)]) |-> (91 * i) % 256]
Model(t, its) == [version |-> <<0, 0, 0, 0>>, items |-> [i \in 1..Len(its) |-> Item(its[i], t)],
                  skey |-> SKey(t), kkey |-> KKey(t), trail |-> << >>, cut |-> 0]
Range(s) == { s[i] : i \in 1..Len(s) }
FirstIn(its, set) == LET s == { i \in 1..Len(its) : its[i] \in set } IN IF s = {} THEN "" ELSE its[CHOOSE i \in s : \A j \in s : i <= j]
Conforms(its) == /\ "V" \in Range(its) /\ "C" \in Range(its)
                 /\ FirstIn(its, {"S", "G6"}) = "S" /\ FirstIn(its, {"K", "G7"}) = "K"
FlipBase == { <<"V", "C", "S", "K">>, <<"K", "X", "S", "C", "V">> }
VARIABLES t, its, bit
Init == t \in SigTypes /\ its = << >> /\ bit = -1
Next == \/ /\ bit = -1 /\ Len(its) < MaxItems
           /\ \E c \in Letters : (c \in {"S", "K"} => c \notin Range(its)) /\ its' = Append(its, c)
           /\ UNCHANGED <<t, bit>>
        \/ /\ bit = -1 /\ its \in FlipBase
           /\ bit' \in 0..(8 * Len(Render(Model(t, its))) - 1)
           /\ UNCHANGED <<t, its>>
ReaderAgreesWithWriter ==
  bit = -1 => LET b == Render(Model(t, its)) IN
              /\ Accepts(b, SKey(t)) <=> Conforms(its)
              /\ ~Accepts(b, FlipBit(SKey(t), 9))
              /\ ~Accepts(b, KKey(t))
              /\ SumFactored(t, SKey(t), b)
FlipsFail ==
  bit # -1 => LET b == Render(Model(t, its)) IN Accepts(b, SKey(t)) /\ FlipTheorem(b, SKey(t), bit)
=============================================================================
