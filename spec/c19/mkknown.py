#!/usr/bin/env python3
"""Provenance of spec/c19/samples.ndjson: takes the sample PACs / PAC buffers of gokrb5's test data and decodes the
KERB_VALIDATION_INFO (MS-PAC 2.5, NDR type serialization v1) with a small stand-alone walker (no gokrb5 code).  The values
were compared by hand with the values asserted in /repo/v8/pac/kerb_validation_info_test.go (which transcribe MS-PAC
section 4 for the MS sample).  Run once; the output is committed."""
import re, struct, glob, json, sys, datetime

txt = "".join(open(f).read() for f in glob.glob('/repo/v8/test/testdata/*.go'))
def const(n):
    return bytes.fromhex(re.search(n + r'\s*=\s*"([0-9a-fA-F]+)"', txt).group(1))

class R:
    def __init__(s, b): s.b, s.p = b, 0
    def al(s, n): s.p = (s.p + n - 1) // n * n
    def u8(s): v = s.b[s.p]; s.p += 1; return v
    def u16(s): s.al(2); v = struct.unpack_from('<H', s.b, s.p)[0]; s.p += 2; return v
    def u32(s): s.al(4); v = struct.unpack_from('<I', s.b, s.p)[0]; s.p += 4; return v
    def raw(s, n): v = s.b[s.p:s.p + n]; s.p += n; return v

def ft(lo, hi):
    t = (hi << 32) + lo
    if t == 0x7fffffffffffffff:
        return 'never'          # [MS-PAC] 2.5: "never"; what a time library makes of it is left open
    ns100 = t - 116444736000000000
    # Go: time.Unix(0, ns100*100) with int64 wrap-around; the "never" value 0x7fffffffffffffff wraps.
    ns = (ns100 * 100 + 2**63) % 2**64 - 2**63
    sec, nsec = divmod(ns, 10**9)
    d = datetime.datetime(1970, 1, 1) + datetime.timedelta(seconds=sec)
    return d.strftime('%Y-%m-%dT%H:%M:%S') + ('.%09d' % nsec).rstrip('0').rstrip('.') + 'Z'

def sid(r):
    n = r.u32(); rev = r.u8(); cnt = r.u8(); auth = r.raw(6); subs = [r.u32() for _ in range(n)]
    assert cnt == n and rev == 1
    a = int.from_bytes(auth, 'big')
    return 'S-1-' + (str(a) if a <= 0xffffffff else '0x' + auth.hex()) + ''.join('-%d' % x for x in subs)

def vi(b):
    assert b[:8] == bytes.fromhex('01100800cccccccc')
    r = R(b[16:])           # NDR alignment is relative to the start of the stream after the two headers
    assert r.u32() != 0     # top-level pointer
    times = [(r.u32(), r.u32()) for _ in range(6)]
    strs = [(r.u16(), r.u16(), r.u32()) for _ in range(6)]
    logonCount, badPw = r.u16(), r.u16()
    userID, pgid, gcount, gptr = r.u32(), r.u32(), r.u32(), r.u32()
    flags = r.u32(); r.raw(16)
    strs += [(r.u16(), r.u16(), r.u32()) for _ in range(2)]
    domptr = r.u32(); r.u32(); r.u32()
    uac, sub = r.u32(), r.u32()
    r.raw(16); r.u32(); r.u32()
    sidcount, esptr = r.u32(), r.u32()
    rgsidptr, rgcount, rgptr = r.u32(), r.u32(), r.u32()
    def ustr(s):
        ln, mx, p = s
        if p == 0: return ''
        m, o, a = r.u32(), r.u32(), r.u32()
        v = r.raw(2 * a).decode('utf-16-le'); assert 2 * a == ln and o == 0
        return v
    sv = [ustr(s) for s in strs[:6]]
    def groups(ptr, n):
        if ptr == 0: return []
        m = r.u32(); assert m == n
        return [(r.u32(), r.u32())[0] for _ in range(n)]
    gids = groups(gptr, gcount)
    sv += [ustr(s) for s in strs[6:]]
    dom = sid(r) if domptr else 'S-1-0'
    extras = []
    if esptr:
        m = r.u32(); assert m == sidcount
        ptrs = [(r.u32(), r.u32()) for _ in range(m)]
        extras = [sid(r) for p, a in ptrs if p]
    rgsid = sid(r) if rgsidptr else 'S-1-0'
    rg = groups(rgptr, rgcount)
    tn = ['logOnTime', 'logOffTime', 'kickOffTime', 'passwordLastSet', 'passwordCanChange', 'passwordMustChange']
    d = {tn[i]: ft(*times[i]) for i in range(6)}
    d["ft"] = {tn[i]: '%08x%08x' % (times[i][1], times[i][0]) for i in range(6)}     # raw FILETIME, high dword first
    d.update(effectiveName=sv[0], fullName=sv[1], logonServer=sv[6], logonDomainName=sv[7], userID=str(userID), primaryGroupID=str(pgid),
             groupRIDs=[str(g) for g in gids], logonDomainID=dom, extraSIDs=extras, resourceDomainSID=rgsid, resourceRIDs=[str(g) for g in rg])
    return d

def bufs(b):
    n, ver = struct.unpack_from('<II', b, 0)
    out = []
    for i in range(n):
        t, sz, off = struct.unpack_from('<IIQ', b, 8 + 16 * i)
        out.append((t, b[off:off + sz]))
    return out

gok = const('MarshaledPAC_AD_WIN2K_PAC')
msad = const('MarshaledPAC_AuthorizationData_MS')
ms = msad[msad.find(bytes.fromhex('0400000000000000')):]
samples = [
    {"name": "gokrb5", "pac": gok.hex(), "key": "43763702868978d1b6d91a36704b987e27e517250055bdfc40b8a6b3848d9aae",
     "note": "PAC issued by the gokrb5 test AD for sysHTTP@TEST.GOKRB5 (etype 18, kvno 2); the key is the one in KEYTAB_SYSHTTP_TEST_GOKRB5"},
    {"name": "ms", "pac": ms.hex(), "key": "", "note": "the example PAC of MS-PAC section 4 (key not published)"},
]
vis = {"gokrb5": const('MarshaledPAC_Kerb_Validation_Info'), "ms": const('MarshaledPAC_Kerb_Validation_Info_MS'), "trust": const('MarshaledPAC_Kerb_Validation_Info_Trust')}
assert bufs(gok)[0][1] == vis["gokrb5"] and bufs(ms)[0][1] == vis["ms"]
# In the captured buffers LogoffTime, KickOffTime (and mostly PasswordMustChange) are all "never".  A fourth validation info gives
# the six times six different finite values: the FILETIMEs are fixed-position fields (stream offsets 4..51 behind the 16 header
# bytes), patched in place in the gokrb5 buffer; nothing else changes.
def filetime(y, mo, d, h=0, mi=0, sec=0, ticks=0):
    t = int((datetime.datetime(y, mo, d, h, mi, sec) - datetime.datetime(1601, 1, 1)).total_seconds()) * 10**7 + ticks
    return struct.pack('<II', t & 0xffffffff, t >> 32)
tv = bytearray(vis["gokrb5"])
tv[20:68] = (filetime(2021, 2, 3, 4, 5, 6, 1234567) + filetime(2030, 1, 2, 3, 4, 5) + filetime(2031, 6, 7, 8, 9, 10, 5) +
             filetime(2020, 12, 24, 18, 0, 0) + filetime(2020, 12, 25, 18, 0, 0) + filetime(2022, 3, 4, 5, 6, 7, 9000000))
vis["times"] = bytes(tv)
# third sample: composed from stand-alone buffers of the test data (laid out and signed by the specification's writer)
parts = {"name": "trust", "pac": "", "key": "", "note": "composed: validation info of a cross-domain logon (extra SIDs + resource groups), client info, UPN/DNS info, client claims",
         "buffers": [[1, vis["trust"].hex()], [10, const('MarshaledPAC_Client_Info').hex()], [12, const('MarshaledPAC_UPN_DNS_Info').hex()],
                     [13, const('MarshaledPAC_ClientClaimsInfoStr').hex()]]}
samples.append(parts)
samples.append({"name": "times", "pac": "", "key": "", "lite": True, "note": "composed: the gokrb5 validation info with six different finite times, client info",
                "buffers": [[1, vis["times"].hex()], [10, const('MarshaledPAC_Client_Info').hex()]]})
for s in samples:
    s.setdefault("lite", False)
for s in samples[:2]:
    s["buffers"] = [[t, d.hex()] for t, d in bufs(bytes.fromhex(s["pac"]))]
known = [{"name": k, "vi": v.hex(), "attrs": vi(v)} for k, v in vis.items()]
out = sys.argv[1] if len(sys.argv) > 1 else '.'
with open(out + '/samples.ndjson', 'w') as f:
    for s in samples: f.write(json.dumps(s, separators=(',', ':')) + '\n')
with open(out + '/known.ndjson', 'w') as f:
    for s in known: f.write(json.dumps(s, separators=(',', ':')) + '\n')
for k in known: print(k["name"], json.dumps(k["attrs"], indent=1))
