CONSTANT MaxExtra = 2
INIT Init
NEXT Next
