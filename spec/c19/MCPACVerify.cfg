CONSTANT MaxItems = 4
INIT Init
NEXT Next
INVARIANT ReaderAgreesWithWriter
INVARIANT FlipsFail
CHECK_DEADLOCK FALSE
