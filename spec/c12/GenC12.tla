------------------------------- MODULE GenC12 -------------------------------
(* role B: every assignment of behaviours to the endpoints of NK KDCs x the three transport preference classes;
   assignments that differ only by a permutation of the KDCs are collapsed (the client shuffles the KDCs anyway). *)
EXTENDS KDCFailover, Json, SequencesExt
AllPairs == SetToSeq([udp : UDPB, tcp : TCPB])
Rank(b) == CHOOSE i \in 1..Len(AllPairs) : AllPairs[i] = b
Sorted(bs) == \A i \in 1..(Len(bs) - 1) : Rank(bs[i]) <= Rank(bs[i + 1])
Cases == { [beh |-> bs, limit |-> lm] : bs \in { b \in Behs : Sorted(b) }, lm \in {"tcpOnly", "udpFirst", "tcpFirst"} }
ASSUME ndJsonSerialize("cases.ndjson", SetToSeq(Cases))
ASSUME PrintT(<<"COUNTS", Cardinality(Cases)>>)
=============================================================================
