CONSTANTS NShards = 16  NK = 0  UDPB = {}  TCPB = {}
INIT TInit
NEXT TNext
INVARIANT Check
CHECK_DEADLOCK FALSE
