CONSTANTS NK = 3  UDPB = {"answers", "refuses"}  TCPB = {"answers", "refuses", "closesEarly"}
INIT Init
NEXT Next
CHECK_DEADLOCK FALSE
