CONSTANTS NK = 2  UDPB = {"answers", "refuses", "silent", "krbError", "tooBig"}  TCPB = {"answers", "refuses", "closesEarly", "krbError", "twoSegments"}
SPECIFICATION Spec
INVARIANTS MachineMatchesClosedForm BoundedAttempts TheoremHolds
PROPERTY Terminates
CHECK_DEADLOCK FALSE
