----------------------------- MODULE KDCFailover -----------------------------
(***************************************************************************)
(* C12: which result may a KDC exchange have, given how every (KDC,        *)
(* transport) endpoint behaves and the udp_preference_limit.               *)
(*   beh[k][tr]  behaviour of endpoint tr of KDC k                         *)
(*     udp: "answers" "refuses" "silent" "krbError" "tooBig"               *)
(*     tcp: "answers" "refuses" "closesEarly" "silent" "krbError"          *)
(*          "twoSegments" (length prefix and body in separate segments -   *)
(*           still a correct answer)                                        *)
(*   limit       "tcpOnly" (udp_preference_limit = 1), "udpFirst" (request *)
(*               not larger than the limit), "tcpFirst" (request larger)   *)
(* The client walks the KDCs of a transport in an arbitrary order (it      *)
(* shuffles them), so the result is a SET of admissible results.           *)
(* The exchange as a state machine (one action per connection attempt) is  *)
(* model checked to reach exactly the results of the closed form Allowed.  *)
(***************************************************************************)
EXTENDS Integers, Sequences, FiniteSets, TLC
Answering == {"answers", "twoSegments", "krbError", "tooBig"}     \* endpoints that return bytes: the first one decides
Perms(N) == { p \in [1..N -> 1..N] : \A i, j \in 1..N : i # j => p[i] # p[j] }
\* result of walking transport tr in order ord: the behaviour of the first endpoint that returns bytes
First(beh, N, tr, ord) == LET idx == { i \in 1..N : beh[ord[i]][tr] \in Answering } IN
                          IF idx = {} THEN "allFailed"
                          ELSE beh[ord[CHOOSE i \in idx : \A j \in idx : i <= j]][tr]
Good(b) == b \in {"answers", "twoSegments"}
Result(beh, N, limit, ou, ot) ==
  LET u == First(beh, N, "udp", ou)  t == First(beh, N, "tcp", ot) IN
  CASE limit = "tcpOnly" -> (IF Good(t) THEN "answer" ELSE IF t = "krbError" THEN "krbError" ELSE "fail")
    [] limit = "udpFirst" -> (IF Good(u) THEN "answer" ELSE IF u = "krbError" THEN "krbError"
                              ELSE \* response-too-big or nobody answered over UDP: TCP
                                   (IF Good(t) THEN "answer" ELSE IF t = "krbError" THEN "krbError" ELSE "fail"))
    [] limit = "tcpFirst" -> (IF Good(t) THEN "answer" ELSE IF t = "krbError" THEN "krbError"
                              ELSE (IF Good(u) THEN "answer" ELSE IF u \in {"krbError", "tooBig"} THEN "krbError" ELSE "fail"))
Allowed(beh, N, limit) == { Result(beh, N, limit, ou, ot) : ou \in Perms(N), ot \in Perms(N) }
Permitted(limit, tr) == limit # "tcpOnly" \/ tr = "tcp"
\* the first sentence of the property
SomeoneWorks(beh, N, limit) == \E k \in 1..N, tr \in {"udp", "tcp"} : Permitted(limit, tr) /\ Good(beh[k][tr])
NoErrors(beh, N) == \A k \in 1..N, tr \in {"udp", "tcp"} : beh[k][tr] \notin {"krbError", "tooBig"}
Theorem(beh, N, limit) == (SomeoneWorks(beh, N, limit) /\ NoErrors(beh, N)) => Allowed(beh, N, limit) = {"answer"}
\* if nobody returns bytes on a permitted transport the call fails
FailsWhenNobody(beh, N, limit) == (\A k \in 1..N, tr \in {"udp", "tcp"} : Permitted(limit, tr) => beh[k][tr] \notin Answering)
                                  => Allowed(beh, N, limit) = {"fail"}

\* ---- the exchange as a state machine: one action per connection attempt ----------------------------------------------------
CONSTANTS NK, UDPB, TCPB
VARIABLES cb, lim, phase, ordU, ordT, pos, errs, res, attempts
vars == <<cb, lim, phase, ordU, ordT, pos, errs, res, attempts>>
Behs == [1..NK -> [udp : UDPB, tcp : TCPB]]
Init == /\ cb \in Behs /\ lim \in {"tcpOnly", "udpFirst", "tcpFirst"} /\ ordU \in Perms(NK) /\ ordT \in Perms(NK)
        /\ phase = (IF lim = "udpFirst" THEN "udp" ELSE "tcp") /\ pos = 1 /\ errs = << >> /\ res = "pending" /\ attempts = 0
Other(tr) == IF tr = "udp" THEN "tcp" ELSE "udp"
\* try the next KDC of the current transport
Attempt == /\ res = "pending" /\ pos <= NK
           /\ attempts' = attempts + 1
           /\ LET k == (IF phase = "udp" THEN ordU ELSE ordT)[pos]  b == cb[k][phase] IN
              IF b \in Answering
              THEN /\ res' = (IF Good(b) THEN "answer"
                              ELSE IF b = "tooBig" /\ phase = "udp" /\ lim = "udpFirst" THEN "pending" ELSE "krbError")
                   \* response too big over UDP (UDP first): switch to TCP
                   /\ (IF b = "tooBig" /\ phase = "udp" /\ lim = "udpFirst" THEN phase' = "tcp" /\ pos' = 1 ELSE UNCHANGED <<phase, pos>>)
                   /\ UNCHANGED errs
              ELSE /\ pos' = pos + 1 /\ UNCHANGED <<res, phase>> /\ errs' = Append(errs, <<k, phase>>)
           /\ UNCHANGED <<cb, lim, ordU, ordT>>
\* all KDCs of the transport failed: fall back to the other transport once, else fail
Exhausted == /\ res = "pending" /\ pos > NK
             /\ IF lim # "tcpOnly" /\ phase = (IF lim = "udpFirst" THEN "udp" ELSE "tcp")
                THEN phase' = Other(phase) /\ pos' = 1 /\ UNCHANGED res
                ELSE res' = "fail" /\ UNCHANGED <<phase, pos>>
             /\ UNCHANGED <<cb, lim, ordU, ordT, errs, attempts>>
Next == Attempt \/ Exhausted
Spec == Init /\ [][Next]_vars /\ WF_vars(Next)
MachineMatchesClosedForm == res # "pending" => res = Result(cb, NK, lim, ordU, ordT)
BoundedAttempts == attempts <= 2 * NK
Terminates == <>(res # "pending")
TheoremHolds == Theorem(cb, NK, lim) /\ FailsWhenNobody(cb, NK, lim)
=============================================================================
