------------------------------ MODULE TraceC12 ------------------------------
(* C12 trace validation: one line = one Client.Login against N scripted (KDC, transport) endpoints on loopback.
   x.beh[k] = [udp, tcp] behaviours, x.limit the transport preference class, x.obs the observed result and the
   connection attempts the endpoints saw. *)
EXTENDS KDCFailover, Json
CONSTANTS NShards
Tr == ndJsonDeserialize("trace.ndjson")
NLines == Len(Tr)
VARIABLES sh, l
LT == INSTANCE LineTrace
LineOK(x) == LET N == Len(x.beh) IN
             /\ x.obs.panic = ""
             /\ x.obs.result \in Allowed(x.beh, N, x.limit)
             /\ x.obs.seen <= 2 * N                                   \* a bounded number of attempts
             /\ x.obs.classOK                                         \* the request size really is on the side of the limit the case says
TInit == LT!Init /\ cb = << >> /\ lim = "" /\ phase = "" /\ ordU = << >> /\ ordT = << >> /\ pos = 0 /\ errs = << >> /\ res = "" /\ attempts = 0
TNext == LT!Next /\ UNCHANGED vars
Check == ~LT!Active \/ LineOK(Tr[l]) \/ PrintT(<<"BADLINE", l>>)
=============================================================================
