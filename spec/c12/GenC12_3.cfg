CONSTANTS NK = 3  UDPB = {"answers", "refuses", "silent", "krbError", "tooBig"}  TCPB = {"answers", "refuses", "closesEarly", "silent", "krbError", "twoSegments"}
INIT Init
NEXT Next
CHECK_DEADLOCK FALSE
