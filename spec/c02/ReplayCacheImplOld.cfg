CONSTANTS G = {g1, g2}  Clients = {c1}  Times = {0}  Services = {s1}  MaxMaps = 2  MaxNow = 0  Skew = 1
SPECIFICATION Spec
INVARIANT NoDoubleAccept
CONSTRAINT Bound
CHECK_DEADLOCK FALSE
