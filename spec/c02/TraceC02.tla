------------------------------ MODULE TraceC02 ------------------------------
(***************************************************************************)
(* Linearizability of recorded histories of the real replay cache w.r.t.   *)
(* ReplayCacheAbs.  Events (in log order, which respects real time):       *)
(*   reset                 start of an independent history (fresh names)   *)
(*   inv  op a now         the harness is about to call IsReplay/VerifyAPREQ*)
(*   ret  op r now         the call returned r                             *)
(* Times are in units of skew/1000, relative to the start of the history.  *)
(* The linearization point of a call lies between its inv and ret; the     *)
(* call is judged only if the authenticator is inside the window at both   *)
(* instants (then it is inside at the linearization point, whenever that   *)
(* was), otherwise any verdict is accepted and the op is counted as        *)
(* time-ambiguous.  Clean-up can only forget authenticators that are past  *)
(* the window, which never changes a judged verdict, so it needs no event. *)
(***************************************************************************)
EXTENDS ReplayCacheAbs, Json, TLCExt
Tr == ndJsonDeserialize("trace.ndjson")
VARIABLE l, t1   \* position in Tr; return times of pending ops
tvars == <<vars, l, t1>>
AuthOf(x) == [c |-> x.a.c, t |-> x.a.t, s |-> x.a.s, u |-> x.a.u]   \* u: extra microseconds, identity only
RetTime(op, from) == Tr[CHOOSE j \in from..Len(Tr) : Tr[j].ev = "ret" /\ Tr[j].op = op].now
IsEv(e) == l <= Len(Tr) /\ Tr[l].ev = e
Consume == l' = l + 1
TInit == Init /\ l = 1 /\ t1 = << >> /\ TLCSet(1, 1) /\ TLCSet(2, 0)
TReset == IsEv("reset") /\ Consume /\ seen' = {} /\ pend' = << >> /\ now' = 0 /\ hist' = << >> /\ t1' = << >>
\* the service clock follows the recorded instants
TInv == /\ IsEv("inv") /\ Consume
        /\ LET x == Tr[l] IN
           /\ x.op \notin DOMAIN pend
           /\ pend' = pend @@ (x.op :> [auth |-> AuthOf(x), lin |-> "no", t0 |-> x.now])
           /\ t1' = t1 @@ (x.op :> RetTime(x.op, l))
           /\ now' = x.now
        /\ UNCHANGED <<seen, hist>>
Definitely(i) == InWindow(pend[i].auth, pend[i].t0) /\ InWindow(pend[i].auth, t1[i])
\* Just-in-time linearization (a sound and complete reduction for this object, which keeps the search linear):
\* a call is linearized only when a return of a call on the SAME authenticator is the next event - either that
\* call itself, or, if the authenticator is not remembered yet, any pending call on it (the one that goes first and
\* is "fresh").  Completeness: in any linearization the first call f on an authenticator satisfies
\* inv(f) <= lin(f) <= lin(j) <= ret(j) for every other call j on it, so f can be moved to just before the earliest
\* such return and every other call to just before its own return; calls on different authenticators commute.
TLin == /\ IsEv("ret") /\ Tr[l].op \in DOMAIN pend
        /\ LET j == Tr[l].op IN
           \E i \in DOMAIN pend : /\ pend[i].auth = pend[j].auth
                                  /\ (i = j \/ (pend[j].auth \notin seen /\ pend[j].lin = "no"))
                                  /\ LinearizeW(i, Definitely(i))
        /\ UNCHANGED <<l, t1>>
TRet == /\ IsEv("ret") /\ Consume
        /\ LET x == Tr[l] IN
           /\ x.op \in DOMAIN pend /\ pend[x.op].lin = x.r
           /\ pend' = [j \in DOMAIN pend \ {x.op} |-> pend[j]]
           /\ t1' = [j \in DOMAIN t1 \ {x.op} |-> t1[j]]
           /\ now' = x.now
        /\ UNCHANGED <<seen, hist>>
\* an explicit clean-up call returned (informational: forgetting needs no step, see above)
TClear == IsEv("clear") /\ Consume /\ now' = Tr[l].now /\ UNCHANGED <<seen, pend, hist, t1>>
TNext == TReset \/ TInv \/ TLin \/ TRet \/ TClear
TSpec == TInit /\ [][TNext]_tvars
\* high-water mark: the longest prefix of the trace some behaviour of the specification explains
Mark == IF l > TLCGet(1) THEN TLCSet(1, l) ELSE TRUE
Accepted == IF TLCGet(1) = Len(Tr) + 1 THEN TRUE
            ELSE PrintT(<<"REJECTED", TLCGet(1)>>)
\* the component invariants are evaluated in every state of every validated history
=============================================================================
