---- MODULE ReplayCacheImplOld ----
\* Fine-grained model of service/cache.go AS IT WAS at the pinned commit b6fb3bb (before the fix: commits 24429cb, be62057, 48af038).
\* Kept as a regression self-test of the machinery: TLC must find the double acceptance (selftest).  One action per lock section.
EXTENDS Integers, Sequences, FiniteSets, TLC
CONSTANTS G, Clients, Times, Services, MaxMaps, MaxNow, Skew
VARIABLES entries,   \* Clients -> map id or 0
          heap,      \* map id -> [Times -> entry or <<>>]   (inner replayMap objects are shared by reference)
          nextMap, pc, arg, ce, now, accepted, replays
vars == <<entries, heap, nextMap, pc, arg, ce, now, accepted, replays>>
Auths == [c : Clients, t : Times, s : Services]
None == [s |-> "none", p |-> -1]
EmptyMap == [t \in Times |-> None]
InWindow(a) == (now - a.t <= Skew) /\ (a.t - now <= Skew)
Init == /\ entries = [c \in Clients |-> 0] /\ heap = [m \in 1..MaxMaps |-> EmptyMap] /\ nextMap = 1
        /\ pc = [g \in G |-> "idle"] /\ arg = [g \in G |-> CHOOSE a \in Auths : TRUE] /\ ce = [g \in G |-> 0]
        /\ now = 0 /\ accepted = <<>> /\ replays = {}
\* IsReplay entry: only presentations inside the skew window reach the cache (APReq.Verify checks skew first)
Begin(g) == /\ pc[g] = "idle" /\ \E a \in Auths : InWindow(a) /\ arg' = [arg EXCEPT ![g] = a]
            /\ pc' = [pc EXCEPT ![g] = "L1"] /\ UNCHANGED <<entries, heap, nextMap, ce, now, accepted, replays>>
\* getClientEntry -> getClientEntries (RLock section 1)
L1(g) == /\ pc[g] = "L1" /\ ce' = [ce EXCEPT ![g] = entries[arg[g].c]]
         /\ pc' = [pc EXCEPT ![g] = IF entries[arg[g].c] = 0 THEN "A1" ELSE "L2"]
         /\ UNCHANGED <<entries, heap, nextMap, arg, now, accepted, replays>>
\* getClientEntry second RLock section: read ce.replayMap[t]; then sName compare
L2(g) == /\ pc[g] = "L2"
         /\ LET e == heap[ce[g]][arg[g].t] IN
            IF e # None /\ e.s = arg[g].s
            THEN /\ pc' = [pc EXCEPT ![g] = "idle"] /\ replays' = replays \cup {arg[g]}
            ELSE /\ pc' = [pc EXCEPT ![g] = "A1"] /\ UNCHANGED replays
         /\ UNCHANGED <<entries, heap, nextMap, arg, ce, now, accepted>>
\* AddEntry: getClientEntries (RLock)
A1(g) == /\ pc[g] = "A1" /\ ce' = [ce EXCEPT ![g] = entries[arg[g].c]]
         /\ pc' = [pc EXCEPT ![g] = "A2"] /\ UNCHANGED <<entries, heap, nextMap, arg, now, accepted, replays>>
\* AddEntry: write section (Lock)
A2(g) == /\ pc[g] = "A2"
         /\ IF ce[g] # 0
            THEN /\ heap' = [heap EXCEPT ![ce[g]][arg[g].t] = [s |-> arg[g].s, p |-> now]]
                 /\ UNCHANGED <<entries, nextMap>>
            ELSE /\ nextMap <= MaxMaps
                 /\ heap' = [heap EXCEPT ![nextMap] = [EmptyMap EXCEPT ![arg[g].t] = [s |-> arg[g].s, p |-> now]]]
                 /\ entries' = [entries EXCEPT ![arg[g].c] = nextMap] /\ nextMap' = nextMap + 1
         /\ accepted' = Append(accepted, arg[g])
         /\ pc' = [pc EXCEPT ![g] = "idle"] /\ UNCHANGED <<arg, ce, now, replays>>
\* ClearOldEntries(d) (Lock section)
Clear == /\ heap' = [m \in 1..MaxMaps |-> [t \in Times |-> IF heap[m][t] # None /\ now - heap[m][t].p > Skew THEN None ELSE heap[m][t]]]
         /\ entries' = [c \in Clients |-> IF entries[c] # 0 /\ \A t \in Times : heap'[entries[c]][t] = None THEN 0 ELSE entries[c]]
         /\ UNCHANGED <<nextMap, pc, arg, ce, now, accepted, replays>>
Tick == /\ now < MaxNow /\ now' = now + 1 /\ UNCHANGED <<entries, heap, nextMap, pc, arg, ce, accepted, replays>>
Next == (\E g \in G : Begin(g) \/ L1(g) \/ L2(g) \/ A1(g) \/ A2(g)) \/ Clear \/ Tick
Spec == Init /\ [][Next]_vars
Count(a) == Cardinality({i \in 1..Len(accepted) : accepted[i] = a})
NoDoubleAccept == \A a \in Auths : Count(a) <= 1
NoFalseReplay == \A a \in replays : Count(a) >= 1
Bound == Len(accepted) <= 3
====
