--------------------------- MODULE ReplayCacheImpl ---------------------------
(***************************************************************************)
(* service/cache.go as repaired (fix: 24429cb, be62057, 48af038), at the   *)
(* granularity of its lock sections.  One action per critical section; the *)
(* program counter values are the labels of the guarded yield points       *)
(* (verifYield) that precede each lock acquisition, so a schedule of this  *)
(* model is a schedule of the cooperative scheduler of the harness.        *)
(*   entries : client (name@realm) -> set of <<cTime, sName>>              *)
(* The module checks that it refines ReplayCacheAbs.                       *)
(***************************************************************************)
EXTENDS Integers, Sequences, FiniteSets, TLC
CONSTANTS G, Clients, Times, Services, Skew, MaxNow
VARIABLES entries, pc, arg, res, cpc, now, hist
vars == <<entries, pc, arg, res, cpc, now, hist>>
Auth == [c : Clients, t : Times, s : Services]
InWindow(a, t) == (a.t - t <= Skew) /\ (t - a.t <= Skew)
NoAuth == CHOOSE a \in Auth : TRUE
Init == /\ entries = [c \in Clients |-> {}] /\ pc = [g \in G |-> "idle"] /\ arg = [g \in G |-> NoAuth]
        /\ res = [g \in G |-> "no"] /\ cpc = "idle" /\ now = 0 /\ hist = << >>
\* VerifyAPREQ admits the authenticator (skew test) and calls IsReplay, which computes ct and reaches its yield point
Call(g, a) == /\ pc[g] = "idle" /\ InWindow(a, now)
              /\ pc' = [pc EXCEPT ![g] = "IsReplay.lock"] /\ arg' = [arg EXCEPT ![g] = a] /\ res' = [res EXCEPT ![g] = "no"]
              /\ UNCHANGED <<entries, cpc, now, hist>>
\* IsReplay: Lock; look-up; addEntry; Unlock - one critical section
IsReplayCS(g) == /\ pc[g] = "IsReplay.lock"
                 /\ LET a == arg[g]
                        hit == <<a.t, a.s>> \in entries[a.c]
                        r == IF hit THEN "replay" ELSE "fresh"
                        tag == IF InWindow(a, now) THEN r ELSE "late"
                    IN /\ entries' = [entries EXCEPT ![a.c] = @ \cup {<<a.t, a.s>>}]
                       /\ res' = [res EXCEPT ![g] = r]
                       /\ hist' = Append(hist, <<a, tag>>)
                 /\ pc' = [pc EXCEPT ![g] = "ret"]
                 /\ UNCHANGED <<arg, cpc, now>>
Ret(g) == /\ pc[g] = "ret" /\ pc' = [pc EXCEPT ![g] = "idle"] /\ UNCHANGED <<entries, arg, res, cpc, now, hist>>
\* the clean-up goroutine: reaches its yield point, then one critical section deleting entries whose CLIENT time is
\* older than the skew (and client keys left without entries)
ClearCall == cpc = "idle" /\ cpc' = "ClearOldEntries.lock" /\ UNCHANGED <<entries, pc, arg, res, now, hist>>
ClearCS == /\ cpc = "ClearOldEntries.lock" /\ cpc' = "idle"
           /\ entries' = [c \in Clients |-> { e \in entries[c] : ~(now - e[1] > Skew) }]
           /\ UNCHANGED <<pc, arg, res, now, hist>>
Tick == now < MaxNow /\ now' = now + 1 /\ UNCHANGED <<entries, pc, arg, res, cpc, hist>>
Next == (\E g \in G : (\E a \in Auth : Call(g, a)) \/ IsReplayCS(g) \/ Ret(g)) \/ ClearCall \/ ClearCS \/ Tick
Spec == Init /\ [][Next]_vars
\* --- refinement -----------------------------------------------------------------------------------------------
Busy == { g \in G : pc[g] # "idle" }
ABS == INSTANCE ReplayCacheAbs WITH
         Ops <- G,
         seen <- { a \in Auth : <<a.t, a.s>> \in entries[a.c] },
         pend <- [g \in Busy |-> [auth |-> arg[g], lin |-> res[g]]]
Refines == ABS!Spec
AtMostOnce == ABS!AtMostOnce
NoFalseReplay == ABS!NoFalseReplay
HistBound == Len(hist) <= 4
=============================================================================
