--------------------------- MODULE ReplayCacheAbs ---------------------------
(***************************************************************************)
(* C02, the property itself.  An authenticator is the triple (client       *)
(* principal incl. realm, client time incl. microseconds, target service). *)
(* The replay check is ATOMIC: Linearize(i) tests membership and inserts   *)
(* in one step.  Calls are split into Invoke / Linearize / Return so that  *)
(* concurrent histories of the real cache can be validated for             *)
(* linearizability against this machine (TraceC02).                        *)
(* Only authenticators inside the clock-skew window reach the cache        *)
(* (RFC 4120 3.2.3: the skew test precedes the replay test), and the cache *)
(* may forget an authenticator only once it is outside the window.         *)
(***************************************************************************)
EXTENDS Integers, Sequences, FiniteSets, TLC
CONSTANTS Clients, Times, Services, Ops, Skew, MaxNow
VARIABLES seen,   \* set of authenticators remembered
          pend,   \* op id -> [auth, lin]   lin \in {"no", "fresh", "replay"}
          now,    \* service clock
          hist    \* history variable: sequence of <<auth, result>> in linearization order
vars == <<seen, pend, now, hist>>
Auth == [c : Clients, t : Times, s : Services]
InWindow(a, t) == (a.t - t <= Skew) /\ (t - a.t <= Skew)
Init == seen = {} /\ pend = << >> /\ now = 0 /\ hist = << >>
Invoke(i, a) == /\ i \notin DOMAIN pend /\ InWindow(a, now)
                /\ pend' = pend @@ (i :> [auth |-> a, lin |-> "no"])
                /\ UNCHANGED <<seen, now, hist>>
\* The linearization point.  A call that was admitted inside the window but reaches the cache only after the
\* authenticator left it (the caller stalled across the edge of the window) is outside the statement
\* ("for as long as its timestamp would still pass the clock-skew check"): its verdict is unconstrained ("late").
\* inw says whether the call is inside the window at its linearization point.
LinearizeW(i, inw) ==
                /\ i \in DOMAIN pend /\ pend[i].lin = "no"
                /\ IF inw
                   THEN LET r == IF pend[i].auth \in seen THEN "replay" ELSE "fresh" IN
                        /\ pend' = [pend EXCEPT ![i].lin = r]
                        /\ hist' = Append(hist, <<pend[i].auth, r>>)
                        /\ seen' = seen \cup {pend[i].auth}
                   ELSE \E r \in {"fresh", "replay"} :
                        /\ pend' = [pend EXCEPT ![i].lin = r]
                        /\ hist' = Append(hist, <<pend[i].auth, "late">>)
                        /\ seen' \in {seen, seen \cup {pend[i].auth}}
                /\ UNCHANGED now
Linearize(i) == LinearizeW(i, InWindow(pend[i].auth, now))
Return(i, r) == /\ i \in DOMAIN pend /\ pend[i].lin = r /\ r # "no"
                /\ pend' = [j \in DOMAIN pend \ {i} |-> pend[j]]
                /\ UNCHANGED <<seen, now, hist>>
\* clean-up may forget any set of authenticators that are past the window
Forget(S) == /\ S # {} /\ S \subseteq seen /\ \A a \in S : now - a.t > Skew
             /\ seen' = seen \ S /\ UNCHANGED <<pend, now, hist>>
Tick == now < MaxNow /\ now' = now + 1 /\ UNCHANGED <<seen, pend, hist>>
Next == \/ \E i \in Ops, a \in Auth : Invoke(i, a)
        \/ \E i \in Ops : Linearize(i)
        \/ \E i \in Ops, r \in {"fresh", "replay"} : Return(i, r)
        \/ \E S \in SUBSET seen : Forget(S)
        \/ Tick
Spec == Init /\ [][Next]_vars
\* --- the property -------------------------------------------------------------------------------------------
\* between two "fresh" verdicts for the same authenticator it must have left the window: impossible while time is
\* monotonic and the window is symmetric around the client time, once it was inside and not yet expired.
\* stated on the history: no authenticator gets the verdict "fresh" twice
AtMostOnce == \A j, k \in 1..Len(hist) : (j < k /\ hist[j][1] = hist[k][1] /\ hist[j][2] = "fresh") => hist[k][2] # "fresh"
\* a "replay" verdict is only given to an authenticator that was accepted before
NoFalseReplay == \A k \in 1..Len(hist) : hist[k][2] = "replay" => \E j \in 1..(k - 1) : hist[j] = <<hist[k][1], "fresh">>
\* remembered while acceptable
RememberedWhileAcceptable == \A k \in 1..Len(hist) : InWindow(hist[k][1], now) => hist[k][1] \in seen
TypeOK == seen \subseteq Auth /\ now \in 0..MaxNow
=============================================================================
