CONSTANTS Clients = {}  Times = {}  Services = {}  Ops = {}  Skew = 1000  MaxNow = 0
SPECIFICATION TSpec
CONSTRAINT Mark
INVARIANTS AtMostOnce NoFalseReplay
POSTCONDITION Accepted
CHECK_DEADLOCK FALSE
