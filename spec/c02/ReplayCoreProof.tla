-------------------------- MODULE ReplayCoreProof --------------------------
(***************************************************************************)
(* The core of C02 for UNBOUNDED sets of clients, times and calls, proved   *)
(* with TLAPS (the model checked ReplayCacheAbs is the same machine with    *)
(* calls split into invoke / linearize / return and a history variable).   *)
(* An authenticator (c, t) is presented at service time now; it reaches the *)
(* cache only inside the clock-skew window; the cache answers "fresh" and   *)
(* remembers it, or "replay"; it may forget what has left the window; the   *)
(* clock never goes back.  twice records that some authenticator was given  *)
(* the verdict "fresh" a second time.                                       *)
(***************************************************************************)
EXTENDS Integers, TLAPS
CONSTANTS Clients, Skew
ASSUME SkewNat == Skew \in Nat
VARIABLES seen, fresh, now, twice
vars == <<seen, fresh, now, twice>>
Auth == Clients \X Int
InWindow(a, t) == a[2] - t <= Skew /\ t - a[2] <= Skew
Init == seen = {} /\ fresh = {} /\ now \in Int /\ twice = FALSE
Present(a) == /\ a \in Auth /\ InWindow(a, now)
              /\ IF a \in seen
                 THEN UNCHANGED <<seen, fresh, twice>>                          \* verdict "replay"
                 ELSE /\ seen' = seen \cup {a}                                  \* verdict "fresh"
                      /\ fresh' = fresh \cup {a}
                      /\ twice' = (twice \/ a \in fresh)
              /\ UNCHANGED now
Forget(S) == /\ S \subseteq seen /\ \A a \in S : now - a[2] > Skew
             /\ seen' = seen \ S /\ UNCHANGED <<fresh, now, twice>>
Tick(d) == d \in Nat /\ now' = now + d /\ UNCHANGED <<seen, fresh, twice>>
Next == (\E a \in Auth : Present(a)) \/ (\E S \in SUBSET seen : Forget(S)) \/ (\E d \in Nat : Tick(d))
Spec == Init /\ [][Next]_vars
AtMostOnce == twice = FALSE
\* what has been accepted and has not yet left the window is remembered
IndInv == /\ twice = FALSE /\ now \in Int
          /\ seen \subseteq Auth /\ fresh \subseteq Auth
          /\ \A a \in fresh : now - a[2] <= Skew => a \in seen
THEOREM Safety == Spec => []AtMostOnce
<1>1. Init => IndInv
  BY SkewNat DEF Init, IndInv, Auth
<1>2. IndInv /\ [Next]_vars => IndInv'
  <2> SUFFICES ASSUME IndInv, [Next]_vars PROVE IndInv'
    OBVIOUS
  <2>1. ASSUME NEW a \in Auth, Present(a) PROVE IndInv'
    BY <2>1, SkewNat DEF IndInv, Present, InWindow, Auth
  <2>2. ASSUME NEW S \in SUBSET seen, Forget(S) PROVE IndInv'
    BY <2>2, SkewNat DEF IndInv, Forget, Auth
  <2>3. ASSUME NEW d \in Nat, Tick(d) PROVE IndInv'
    BY <2>3, SkewNat DEF IndInv, Tick, Auth
  <2>4. CASE UNCHANGED vars
    BY <2>4 DEF IndInv, vars
  <2> QED BY <2>1, <2>2, <2>3, <2>4 DEF Next
<1>3. IndInv => AtMostOnce
  BY DEF IndInv, AtMostOnce
<1> QED BY <1>1, <1>2, <1>3, PTL DEF Spec
=============================================================================
