CONSTANTS G = {g1, g2, g3}  Clients = {c1}  Times = {0, 1}  Services = {s1, s2}  Skew = 1  MaxNow = 3
SPECIFICATION Spec
INVARIANTS AtMostOnce NoFalseReplay
PROPERTY Refines
CONSTRAINT HistBound
CHECK_DEADLOCK FALSE
