CONSTANTS Clients = {c1, c2}  Times = {0, 1}  Services = {s1}  Ops = {o1, o2}  Skew = 1  MaxNow = 3
SPECIFICATION Spec
INVARIANTS TypeOK AtMostOnce NoFalseReplay RememberedWhileAcceptable
CONSTRAINT HistBound
CHECK_DEADLOCK FALSE
