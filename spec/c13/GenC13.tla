------------------------------- MODULE GenC13 -------------------------------
(* role B: the specification encodes the abstract values chosen by the driver (cases_<s>.ndjson), the plaintext parts of
   the operation cases (ops_<s>.ndjson), the length octets of the length cases (lens_<s>.ndjson) and the values with one
   very long octet string (bigs_<s>.ndjson).  The driver splits the work over several TLC processes; Shard names the
   files of this one.  Every encoding is also decoded again with the specification's own decoder (a self-check of the
   specification: SPECFAIL lines make the run inconclusive, they say nothing about gokrb5). *)
EXTENDS KrbASN1, Json
CONSTANT Shard
File(stem) == stem \o "_" \o ToString(Shard) \o ".ndjson"
Cases == ndJsonDeserialize(File("cases"))
EncChecked(c) == LET k == Kind(c.type)
                     b == Enc(k, c.v)
                     d == Dec(k, b) IN
                 IF d.ok /\ d.v = c.v THEN ToHex(b) ELSE IF PrintT(<<"SPECFAIL", c.id>>) THEN ToHex(b) ELSE ""
ASSUME ndJsonSerialize(File("cases_out"), [i \in 1..Len(Cases) |-> [id |-> Cases[i].id, spec |-> EncChecked(Cases[i])]])
Ops == ndJsonDeserialize(File("ops"))
ASSUME ndJsonSerialize(File("ops_out"), [i \in 1..Len(Ops) |->
         [id |-> Ops[i].id, plains |-> [j \in 1..Len(Ops[i].parts) |-> ToHex(Enc(Kind(Ops[i].parts[j].type), Ops[i].parts[j].v))]]])
Lens == ndJsonDeserialize(File("lens"))
ASSUME ndJsonSerialize(File("lens_out"), [i \in 1..Len(Lens) |->
         [hdrs |-> [j \in 1..Len(Lens[i].ns) |-> ToHex(<<48>> \o DERLen(Lens[i].ns[j]))]]])
\* cases whose value has one very long octet string as its LAST field, given as a fill octet and a length; the encoding
\* is handed over as its head (everything before the long run of the fill octet)
Bigs == ndJsonDeserialize(File("bigs"))
RECURSIVE HexRep(_, _)
HexRep(h, n) == IF n = 0 THEN "" ELSE LET half == HexRep(h, n \div 2) IN half \o half \o (IF n % 2 = 1 THEN h ELSE "")
BigEnc(c) == Enc(Kind(c.type), [c.v EXCEPT ![c.field] = HexRep(c.fillhex, c.n)])
BigHead(c) == LET e == BigEnc(c) IN
              IF FromHex(c.fillhex) = <<c.fill>> /\ SubSeq(e, Len(e) - c.n + 1, Len(e)) = Rep(c.fill, c.n)
              THEN ToHex(SubSeq(e, 1, Len(e) - c.n)) ELSE IF PrintT(<<"SPECFAIL", "big">>) THEN "" ELSE ""
ASSUME ndJsonSerialize(File("bigs_out"), [i \in 1..Len(Bigs) |-> [id |-> Bigs[i].id, head |-> BigHead(Bigs[i])]])
ASSUME PrintT(<<"COUNTS", Len(Cases), Len(Ops), Len(Lens), Len(Bigs)>>)
VARIABLE x
Init == x = 0
Next == UNCHANGED x
=============================================================================
