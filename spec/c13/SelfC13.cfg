INIT Init
NEXT Next
