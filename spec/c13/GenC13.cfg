CONSTANT Shard = 0
INIT Init
NEXT Next
