------------------------------- MODULE MCDER --------------------------------
(* role A for the encoding rules themselves: the primitives of DER.tla / KrbASN1.tla are checked against their
   declarative definitions (X.690 8.1.3, 8.3, 8.19, 10.1) for EVERY n in 0..MaxN and every 2^k-1, 2^k, 2^k+1 (k <= 30):
   length octets are the shortest definite form and denote n; INTEGER contents of n, -n, -n-1 are the shortest two's
   complement and denote the number, whatever the width they are given in; an object identifier with the arc n
   decodes to itself; ParseTLV inverts TLV.  One TLC state per n. *)
EXTENDS KrbASN1
CONSTANT MaxN
VARIABLE n
Init == n \in (0..MaxN) \cup UNION { {(2 ^ k) - 1, 2 ^ k, (2 ^ k) + 1} : k \in 1..30 }
Next == UNCHANGED n
\* the number a two's complement byte string denotes (must fit a TLC integer)
TCVal(b) == IF b[1] < 128 THEN BEVal(b) ELSE (0 - BEVal([i \in 1..Len(b) |-> 255 - b[i]])) - 1
Shortest(c) == Len(c) = 1 \/ ~((c[1] = 0 /\ c[2] < 128) \/ (c[1] = 255 /\ c[2] >= 128))
IntOK(i) == LET c == IntContent(i) IN
            /\ TCVal(c) = i /\ Shortest(c)
            /\ MinTC(SignExt8(c)) = c /\ MinTC(SignExt8(TC32(i))) = c          \* the width of the input does not matter
            /\ FromHex(DecAt(I32, Encode(DInt(i)), 1, Len(Encode(DInt(i))) + 1).v) = SignExt8(c)
LenOK == LET d == DERLen(n) IN
         IF n < 128 THEN d = <<n>>
         ELSE d[1] = 128 + (Len(d) - 1) /\ d[2] # 0 /\ BEVal(Tail(d)) = n /\ Len(d) <= 5
OIDOK == /\ OIDArcs(OIDContent(<<1, 2, n>>)) = <<1, 2, n>>
         /\ (n < 40 => OIDArcs(OIDContent(<<1, n>>)) = <<1, n>>)
         /\ OIDArcs(OIDContent(<<2, n % 1000000, 0, n>>)) = <<2, n % 1000000, 0, n>>
TLVOK == n > 2000 \/
         LET b == TLV(n % 4, n % 2 = 1, n % 31, Rep(n % 256, n))
             t == ParseTLV(b, 1) IN
         /\ t = [ok |-> TRUE, class |-> n % 4, cons |-> n % 2 = 1, tag |-> n % 31, len |-> n, from |-> 2 + Len(DERLen(n)), next |-> Len(b) + 1]
         /\ ~ParseTLV(SubSeq(b, 1, Len(b) - 1), 1).ok                          \* truncated
Inv == LenOK /\ IntOK(n) /\ IntOK(0 - n) /\ IntOK((0 - n) - 1) /\ OIDOK /\ TLVOK
=============================================================================
