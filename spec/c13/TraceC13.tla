------------------------------ MODULE TraceC13 ------------------------------
(* C13 trace validation (LineTrace shape: one TLC state per recorded line).
   ev = "codec": an abstract value v of a type, the bytes this specification encoded for it (re-derived here), the bytes
                 gokrb5's Marshal produced for the struct populated from v (and what gokrb5 decodes them to), the
                 projection of the struct gokrb5's Unmarshal filled from the SPECIFICATION's bytes, and the bytes of
                 marshalling that struct again.
   ev = "op":    a message whose encrypted parts are encodings made by this specification; the bytes before and after the
                 library decrypted it ("whatever else was done to the object in between"), and the decrypted parts.
   ev = "made":  bytes the library produced through its own constructors (NewKRBError, NewTicket, NewAPReq, NewASReq,
                 NewTGSReq, ChangePasswdMsg, NewNegTokenInitKRB5, ...) with the projection of the struct they were made from.
   ev = "big":   like codec, for a value with one octet string of about 2^24 octets (four length octets); digests only.
   ev = "lens":  MarshalLengthBytes / GetNumberBytesInLengthHeader / GetLengthFromASN against DERLen. *)
EXTENDS KrbASN1, Json
CONSTANTS NShards
Tr == ndJsonDeserialize("trace.ndjson")
NLines == Len(Tr)
VARIABLES sh, l
LT == INSTANCE LineTrace
\* types gokrb5 only decodes / only encodes
NoMarshal == {"EncTicketPart", "EncryptionKey", "Checksum", "PAData", "PADataSequence", "AuthorizationData", "APRep", "EncAPRepPart",
              "KRBSafe", "EncKrbPrivPart", "KRBCred", "EncKrbCredPart"}
NoUnmarshal == {"ChangePasswdData"}
\* gokrb5 has one type, EncKDCRepPart, for EncASRepPart and EncTGSRepPart; its Marshal writes EncASRepPart (documented deviation)
MarshalKind(type) == IF type = "EncTGSRepPart" THEN EncASRepPart ELSE Kind(type)
\* gokrb5 documents that it marshals KRB5 mechanism tokens only around an AP-REQ
CanMarshal(x) == x.hasMarshal /\ ~(x.type = "KRB5Token" /\ x.v.TokID # "0100")
\* a named clause: all clauses of a line are evaluated, each failing one is printed.  Clauses named "input ..." re-derive
\* what the driver fed to the harness from this specification; their failure says the run is broken, not gokrb5.
C(name, ok) == ok \/ (PrintT(<<"WHY", l, name>>) /\ FALSE)
All(cs) == \A i \in 1..Len(cs) : cs[i]

CodecOK(x) ==
  LET k == Kind(x.type)
      mk == MarshalKind(x.type)
      spec == ToHex(Enc(k, x.v))
      mspec == IF x.type = "EncTGSRepPart" THEN ToHex(Enc(mk, x.v)) ELSE spec
      hz == HasZeroOpt(k, x.v)
      \* bytes h are an acceptable encoding of v: exactly the specification's, or - when an OPTIONAL field was sent with a
      \* zero or empty value, the caveat of the property - any DER encoding that an independent decoder maps to the same
      \* field values
      Acc(h) == IF ~hz THEN h = mspec
                ELSE LET d == Dec(mk, FromHex(h)) IN d.ok /\ Norm(mk, TRUE, d.v) = Norm(mk, TRUE, x.v) /\ ToHex(Enc(mk, d.v)) = h
  IN All(<<C("input spec", x.spec = spec),
           C("panic", x.panicM = "" /\ x.panicU = "" /\ x.panicO = ""),
           C("api", x.hasMarshal = (x.type \notin NoMarshal) /\ x.hasUnmarshal = (x.type \notin NoUnmarshal)),
           C("marshal", ~CanMarshal(x) \/ (x.liberr = "" /\ Acc(x.lib))),
           C("decodeown", ~x.own \/ (x.oerr = "" /\ x.projOwn = Norm(k, TRUE, x.v))),
           C("unmarshal", ~x.hasUnmarshal \/ (x.uerr = "" /\ x.proj = Norm(k, TRUE, x.v))),
           \* (decoding into a value that held another message of the type before - x.reused, x.projReused - is recorded and counted, not
           \* judged: encoding/asn1 leaves absent OPTIONAL fields of its target alone, a third of the types show that on the unchanged tree,
           \* and the property speaks of decoding an encoding, not of recycling a receiver)
           C("remarshal", ~x.hasUnmarshal \/ ~CanMarshal(x) \/ x.uerr # "" \/ (x.reerr = "" /\ Acc(x.re)))>>)

OpOK(x) ==
  LET noerr == \A i \in 1..Len(x.errs) : x.errs[i] = "" IN
  All(<<C("panic", x.panic = ""),
        C("errors", noerr),
        C("input parts", \A j \in 1..Len(x.parts) : x.parts[j].plain = ToHex(Enc(Kind(x.parts[j].type), x.parts[j].v))),
        C("original", x.errs[1] # "" \/ x.orig = ToHex(Enc(Kind(x.type), x.v))),
        C("decrypted", ~noerr \/ (Len(x.projs) = Len(x.parts)
                                  /\ \A j \in 1..Len(x.parts) : x.projs[j] = Norm(Kind(x.parts[j].type), TRUE, x.parts[j].v))),
        C("after", ~noerr \/ x.after = x.orig)>>)

LensOK(x) ==
  All(<<C("panic", x.panic = ""),
        C("input hdrs", \A i \in 1..Len(x.ns) : x.hdrs[i] = ToHex(<<48>> \o DERLen(x.ns[i]))),
        C("MarshalLengthBytes", \A i \in 1..Len(x.ns) : x.marshal[i] = ToHex(DERLen(x.ns[i]))),
        C("GetNumberBytesInLengthHeader", \A i \in 1..Len(x.ns) : x.numbytes[i] = Len(DERLen(x.ns[i]))),
        C("GetLengthFromASN", \A i \in 1..Len(x.ns) : x.getlen[i] = x.ns[i])>>)

\* RFC 3961 6.3: a decrypted plaintext may be followed by the padding of the cipher (des3: up to 7 zero octets)
Unpadded(b) == LET t == ParseTLV(b, 1) IN
               IF t.ok /\ Len(b) - t.next + 1 < 8 /\ \A i \in t.next..Len(b) : b[i] = 0 THEN SubSeq(b, 1, t.next - 1) ELSE b
\* an encoding the library made through its own constructors: it is the DER encoding of some value of the RFC type, and
\* that value has the field values of the struct it was made from (or of the struct the library decodes it to)
MadeOK(x) ==
  LET k == Kind(x.type)
      b == IF x.decrypted THEN Unpadded(FromHex(x.bytes)) ELSE FromHex(x.bytes)
      d == Dec(k, b) IN
  x.skipped \/
  All(<<C("error", x.err = ""),
        C("conforms", x.err # "" \/ d.ok),
        C("canonical", x.err # "" \/ ~d.ok \/ Enc(k, d.v) = b),
        C("fields", x.err # "" \/ ~d.ok \/ ~x.hasproj \/ Norm(k, TRUE, d.v) = x.proj)>>)

\* a value with one very long octet string (a fill octet repeated n times): digests instead of bytes
RECURSIVE HexRep(_, _)
HexRep(h, n) == IF n = 0 THEN "" ELSE LET half == HexRep(h, n \div 2) IN half \o half \o (IF n % 2 = 1 THEN h ELSE "")
BigOK(x) ==
  LET k == Kind(x.type)
      long == Rep(x.fill, x.n)
      e == Enc(k, [x.v EXCEPT ![x.field] = HexRep(x.fillhex, x.n)])
      h == ToHex(Hash("SHA-256", e)) IN
  All(<<C("panic", x.panic = ""),
        C("input spec", FromHex(x.fillhex) = <<x.fill>> /\ x.speclen = Len(e) /\ x.specsha = h),
        C("marshal", x.liberr = "" /\ x.liblen = Len(e) /\ x.libsha = h),
        C("unmarshal", x.uerr = "" /\ x.fieldlen = x.n
                       /\ x.proj = Norm(k, TRUE, [x.v EXCEPT ![x.field] = ToHex(Hash("SHA-256", long))])),
        C("remarshal", x.uerr # "" \/ (x.reerr = "" /\ x.relen = Len(e) /\ x.resha = h))>>)

LineOK(x) == CASE x.ev = "big" -> BigOK(x) [] x.ev = "codec" -> CodecOK(x) [] x.ev = "op" -> OpOK(x) [] x.ev = "lens" -> LensOK(x) [] x.ev = "made" -> MadeOK(x)
Init == LT!Init
Next == LT!Next
Check == ~LT!Active \/ LineOK(Tr[l]) \/ PrintT(<<"BADLINE", l>>)
=============================================================================
