-------------------------------- MODULE DER ---------------------------------
(***************************************************************************)
(* The Distinguished Encoding Rules (X.690) for the small value algebra    *)
(* Kerberos and SPNEGO need.  A value is a record with a field t:          *)
(*   DInt(n)       INTEGER given as a TLC integer (-2^31 .. 2^31-1)        *)
(*   DIntB(b)      INTEGER given as a two's complement byte string of any  *)
(*                 width (not necessarily minimal)                         *)
(*   DEnum(n)      ENUMERATED                                              *)
(*   DOct(b)       OCTET STRING          DGStr(b)  GeneralString           *)
(*   DIA5(b)       IA5String             DGTime(b) GeneralizedTime (bytes) *)
(*   DBits(b, u)   BIT STRING with u unused bits in the last octet         *)
(*   DOID(arcs)    OBJECT IDENTIFIER                                       *)
(*   DSeq(els)     SEQUENCE / SEQUENCE OF (els: a tuple of values)         *)
(*   DCtx(n, v)    [n] EXPLICIT v        DApp(n, v)  [APPLICATION n] v     *)
(*   DAppI(n, els) [APPLICATION n] IMPLICIT SEQUENCE (RFC 2743 framing)    *)
(*   DRaw(b)       bytes spliced in as they are (ANY / already encoded)    *)
(* Encode(v) gives the bytes: identifier octets, minimal definite length,  *)
(* contents.  ParseTLV reads one tag-length-value back (for the places     *)
(* where a specification has to look inside bytes produced by the code),   *)
(* and insists on the minimal length form.                                 *)
(***************************************************************************)
EXTENDS Bytes

DInt(n) == [t |-> "int", n |-> n]
DIntB(b) == [t |-> "intb", b |-> b]
DEnum(n) == [t |-> "enum", n |-> n]
DOct(b) == [t |-> "oct", b |-> b]
DGStr(b) == [t |-> "gstr", b |-> b]
DIA5(b) == [t |-> "ia5", b |-> b]
DGTime(b) == [t |-> "gtime", b |-> b]
DBits(b, u) == [t |-> "bits", b |-> b, u |-> u]
DOID(arcs) == [t |-> "oid", arcs |-> arcs]
DSeq(els) == [t |-> "seq", els |-> els]
DCtx(n, v) == [t |-> "ctx", tag |-> n, v |-> v]
DApp(n, v) == [t |-> "app", tag |-> n, v |-> v]
DAppI(n, els) == [t |-> "appi", tag |-> n, els |-> els]
DRaw(b) == [t |-> "raw", b |-> b]

\* ---- length octets (X.690 8.1.3, DER 10.1: the definite form with the fewest octets)
RECURSIVE Base256(_)
Base256(n) == IF n < 256 THEN <<n>> ELSE Base256(n \div 256) \o <<n % 256>>
DERLen(n) == IF n < 128 THEN <<n>> ELSE LET d == Base256(n) IN <<128 + Len(d)>> \o d

\* ---- identifier octets (8.1.2); class 0 universal, 1 application, 2 context-specific, 3 private
RECURSIVE B128(_, _)
B128(n, last) == LET d == (n % 128) + (IF last THEN 0 ELSE 128)
                 IN IF n < 128 THEN <<d>> ELSE B128(n \div 128, FALSE) \o <<d>>
Ident(class, constructed, tag) ==
  LET c == (class * 64) + (IF constructed THEN 32 ELSE 0)
  IN IF tag < 31 THEN <<c + tag>> ELSE <<c + 31>> \o B128(tag, TRUE)
TLV(class, constructed, tag, content) == Ident(class, constructed, tag) \o DERLen(Len(content)) \o content

\* ---- INTEGER contents (8.3): two's complement, fewest octets
RECURSIVE MinTC(_)
MinTC(b) == IF Len(b) > 1 /\ ((b[1] = 0 /\ b[2] < 128) \/ (b[1] = 255 /\ b[2] >= 128)) THEN MinTC(Tail(b)) ELSE b
\* 32-bit two's complement of a TLC integer
TC32(n) == IF n >= 0 THEN BE32(n)
           ELSE LET m == (n + 2147483647) + 1 IN <<128 + (m \div 16777216), (m \div 65536) % 256, (m \div 256) % 256, m % 256>>
IntContent(n) == MinTC(TC32(n))

\* ---- OBJECT IDENTIFIER contents (8.19)
RECURSIVE Arcs(_)
Arcs(a) == IF a = << >> THEN << >> ELSE B128(Head(a), TRUE) \o Arcs(Tail(a))
OIDContent(a) == B128((40 * a[1]) + a[2], TRUE) \o Arcs(SubSeq(a, 3, Len(a)))

RECURSIVE Encode(_), EncodeAll(_)
EncodeAll(els) == IF els = << >> THEN << >> ELSE Encode(Head(els)) \o EncodeAll(Tail(els))
Encode(x) ==
  CASE x.t = "int" -> TLV(0, FALSE, 2, IntContent(x.n))
    [] x.t = "intb" -> TLV(0, FALSE, 2, MinTC(x.b))
    [] x.t = "enum" -> TLV(0, FALSE, 10, IntContent(x.n))
    [] x.t = "oct" -> TLV(0, FALSE, 4, x.b)
    [] x.t = "gstr" -> TLV(0, FALSE, 27, x.b)
    [] x.t = "ia5" -> TLV(0, FALSE, 22, x.b)
    [] x.t = "gtime" -> TLV(0, FALSE, 24, x.b)
    [] x.t = "bits" -> TLV(0, FALSE, 3, <<x.u>> \o x.b)
    [] x.t = "oid" -> TLV(0, FALSE, 6, OIDContent(x.arcs))
    [] x.t = "seq" -> TLV(0, TRUE, 16, EncodeAll(x.els))
    [] x.t = "ctx" -> TLV(2, TRUE, x.tag, Encode(x.v))
    [] x.t = "app" -> TLV(1, TRUE, x.tag, Encode(x.v))
    [] x.t = "appi" -> TLV(1, TRUE, x.tag, EncodeAll(x.els))
    [] x.t = "raw" -> x.b

\* ---- reader: the tag-length-value that starts at position p (1-based) of b.
\* ok is FALSE when the bytes are truncated, use the indefinite form, a non-minimal length or a high tag number.
ParseTLV(b, p) ==
  LET n == Len(b)
      bad == [ok |-> FALSE, class |-> 0, cons |-> FALSE, tag |-> 0, len |-> 0, from |-> 0, next |-> 0]
  IN IF p + 1 > n THEN bad
     ELSE LET id == b[p]  l0 == b[p + 1] IN
          IF id % 32 = 31 THEN bad
          ELSE LET k == IF l0 < 128 THEN 0 ELSE l0 - 128 IN
               IF l0 = 128 \/ k > 4 \/ p + 1 + k > n THEN bad
               ELSE IF k = 4 /\ b[p + 2] >= 128 THEN bad                       \* beyond what a TLC integer holds
               ELSE LET len == IF k = 0 THEN l0 ELSE BEVal(SubSeq(b, p + 2, p + 1 + k))
                        from == p + 2 + k IN
                    IF DERLen(len) # SubSeq(b, p + 1, p + 1 + k) \/ from + len - 1 > n THEN bad
                    ELSE [ok |-> TRUE, class |-> id \div 64, cons |-> (id \div 32) % 2 = 1, tag |-> id % 32,
                          len |-> len, from |-> from, next |-> from + len]
Content(b, tlv) == SubSeq(b, tlv.from, tlv.next - 1)
=============================================================================
