------------------------------ MODULE KrbASN1 -------------------------------
(***************************************************************************)
(* The ASN.1 module of RFC 4120 Appendix A (with RFC 6806's                *)
(* encrypted-pa-data), RFC 3244's ChangePasswdData, the NegotiationToken   *)
(* of RFC 4178 4.2 and the initial-context-token framing of RFC 2743 3.1 / *)
(* RFC 4121 4.1, written as a table of KINDS, and generic functions         *)
(* over kinds:                                                             *)
(*   ToDER(kind, v)   the DER value (module DER) of the abstract value v   *)
(*   Enc(kind, v)     its bytes                                            *)
(*   Norm(kind, p, v) what a decoder that has no notion of "absent" (one   *)
(*                    that fills absent OPTIONAL fields with zero values,  *)
(*                    as gokrb5's structs do) must hold after decoding     *)
(*   HasZeroOpt(kind, v)  some OPTIONAL field is present with a zero/empty *)
(*                    value (the caveat of property C13)                   *)
(*   Dec(kind, b)     an independent decoder: [ok, v]                      *)
(*                                                                         *)
(* Abstract values (they arrive as JSON):                                  *)
(*   int      a 16-digit hex string: the 64-bit two's complement           *)
(*   gstr/oct a hex string of the bytes        time  "YYYYMMDDHHMMSS" (UTC)*)
(*   kflags   KerberosFlags (32 bits): the tuple of RFC bit numbers set,   *)
(*            ascending; bit 0 is the most significant bit of octet 1      *)
(*   bits     [Bytes |-> hex, BitLength |-> n]    oid  tuple of arcs       *)
(*   enum     a TLC integer        seqof  a tuple                          *)
(*   struct   a record; an OPTIONAL field is absent iff its name is not in *)
(*            the record's domain.  Field names are those of gokrb5's      *)
(*            structs, tags and types those of the RFCs.                   *)
(***************************************************************************)
EXTENDS DER, KrbPrims

I32 == [k |-> "int", r |-> "i32", c |-> 0]            \* Int32
U32 == [k |-> "int", r |-> "u32", c |-> 0]            \* UInt32
USec == [k |-> "int", r |-> "usec", c |-> 0]          \* Microseconds (0..999999)
Const(n) == [k |-> "int", r |-> "const", c |-> n]     \* INTEGER (n)
KStr == [k |-> "gstr"]                                 \* KerberosString, Realm: GeneralString
OctS == [k |-> "oct"]
KTime == [k |-> "time"]                                \* KerberosTime: GeneralizedTime, no fractional seconds
KFlags == [k |-> "kflags"]                             \* KerberosFlags: BIT STRING (SIZE (32..MAX))
BitS == [k |-> "bits"]
OIDk == [k |-> "oid"]
Enumk == [k |-> "enum"]
SeqOf(e) == [k |-> "seqof", e |-> e]
Struct(fs) == [k |-> "struct", fs |-> fs]
AppT(n, kind) == [k |-> "app", tag |-> n, of |-> kind]
CtxT(n, kind) == [k |-> "ctx", tag |-> n, of |-> kind]
F(name, tag, kind) == [name |-> name, tag |-> tag, kind |-> kind, opt |-> FALSE]
O(name, tag, kind) == [name |-> name, tag |-> tag, kind |-> kind, opt |-> TRUE]

\* ---------------------------------------------------------------- RFC 4120 5.2
PrincipalName == Struct(<<F("NameType", 0, I32), F("NameString", 1, SeqOf(KStr))>>)
HostAddress == Struct(<<F("AddrType", 0, I32), F("Address", 1, OctS)>>)
HostAddresses == SeqOf(HostAddress)
ADEntry == Struct(<<F("ADType", 0, I32), F("ADData", 1, OctS)>>)
AuthorizationData == SeqOf(ADEntry)
PAData == Struct(<<F("PADataType", 1, I32), F("PADataValue", 2, OctS)>>)
EncryptedData == Struct(<<F("EType", 0, I32), O("KVNO", 1, U32), F("Cipher", 2, OctS)>>)
EncryptionKey == Struct(<<F("KeyType", 0, I32), F("KeyValue", 1, OctS)>>)
Checksum == Struct(<<F("CksumType", 0, I32), F("Checksum", 1, OctS)>>)
\* ---------------------------------------------------------------- 5.3
Ticket == AppT(1, Struct(<<F("TktVNO", 0, Const(5)), F("Realm", 1, KStr), F("SName", 2, PrincipalName),
                           F("EncPart", 3, EncryptedData)>>))
TransitedEncoding == Struct(<<F("TRType", 0, I32), F("Contents", 1, OctS)>>)
EncTicketPart == AppT(3, Struct(<<F("Flags", 0, KFlags), F("Key", 1, EncryptionKey), F("CRealm", 2, KStr),
                                  F("CName", 3, PrincipalName), F("Transited", 4, TransitedEncoding),
                                  F("AuthTime", 5, KTime), O("StartTime", 6, KTime), F("EndTime", 7, KTime),
                                  O("RenewTill", 8, KTime), O("CAddr", 9, HostAddresses),
                                  O("AuthorizationData", 10, AuthorizationData)>>))
\* ---------------------------------------------------------------- 5.4
KDCReqBody == Struct(<<F("KDCOptions", 0, KFlags), O("CName", 1, PrincipalName), F("Realm", 2, KStr),
                       O("SName", 3, PrincipalName), O("From", 4, KTime), F("Till", 5, KTime), O("RTime", 6, KTime),
                       F("Nonce", 7, U32), F("EType", 8, SeqOf(I32)), O("Addresses", 9, HostAddresses),
                       O("EncAuthData", 10, EncryptedData), O("AdditionalTickets", 11, SeqOf(Ticket))>>)
KDCReq(app, mt) == AppT(app, Struct(<<F("PVNO", 1, Const(5)), F("MsgType", 2, Const(mt)), O("PAData", 3, SeqOf(PAData)),
                                      F("ReqBody", 4, KDCReqBody)>>))
ASReq == KDCReq(10, 10)
TGSReq == KDCReq(12, 12)
KDCRep(app, mt) == AppT(app, Struct(<<F("PVNO", 0, Const(5)), F("MsgType", 1, Const(mt)), O("PAData", 2, SeqOf(PAData)),
                                      F("CRealm", 3, KStr), F("CName", 4, PrincipalName), F("Ticket", 5, Ticket),
                                      F("EncPart", 6, EncryptedData)>>))
ASRep == KDCRep(11, 11)
TGSRep == KDCRep(13, 13)
LastReq == Struct(<<F("LRType", 0, I32), F("LRValue", 1, KTime)>>)
EncKDCRepPartSeq == Struct(<<F("Key", 0, EncryptionKey), F("LastReqs", 1, SeqOf(LastReq)), F("Nonce", 2, U32),
                             O("KeyExpiration", 3, KTime), F("Flags", 4, KFlags), F("AuthTime", 5, KTime),
                             O("StartTime", 6, KTime), F("EndTime", 7, KTime), O("RenewTill", 8, KTime),
                             F("SRealm", 9, KStr), F("SName", 10, PrincipalName), O("CAddr", 11, HostAddresses),
                             O("EncPAData", 12, SeqOf(PAData))>>)                   \* [12]: RFC 6806 11
EncASRepPart == AppT(25, EncKDCRepPartSeq)
EncTGSRepPart == AppT(26, EncKDCRepPartSeq)
\* ---------------------------------------------------------------- 5.5
APReq == AppT(14, Struct(<<F("PVNO", 0, Const(5)), F("MsgType", 1, Const(14)), F("APOptions", 2, KFlags),
                           F("Ticket", 3, Ticket), F("EncryptedAuthenticator", 4, EncryptedData)>>))
Authenticator == AppT(2, Struct(<<F("AVNO", 0, Const(5)), F("CRealm", 1, KStr), F("CName", 2, PrincipalName),
                                  O("Cksum", 3, Checksum), F("Cusec", 4, USec), F("CTime", 5, KTime),
                                  O("SubKey", 6, EncryptionKey), O("SeqNumber", 7, U32),
                                  O("AuthorizationData", 8, AuthorizationData)>>))
APRep == AppT(15, Struct(<<F("PVNO", 0, Const(5)), F("MsgType", 1, Const(15)), F("EncPart", 2, EncryptedData)>>))
EncAPRepPart == AppT(27, Struct(<<F("CTime", 0, KTime), F("Cusec", 1, USec), O("Subkey", 2, EncryptionKey),
                                  O("SequenceNumber", 3, U32)>>))
\* ---------------------------------------------------------------- 5.6 - 5.9
SafeBody == Struct(<<F("UserData", 0, OctS), O("Timestamp", 1, KTime), O("Usec", 2, USec), O("SequenceNumber", 3, U32),
                     F("SAddress", 4, HostAddress), O("RAddress", 5, HostAddress)>>)
KRBSafe == AppT(20, Struct(<<F("PVNO", 0, Const(5)), F("MsgType", 1, Const(20)), F("SafeBody", 2, SafeBody),
                             F("Cksum", 3, Checksum)>>))
KRBPriv == AppT(21, Struct(<<F("PVNO", 0, Const(5)), F("MsgType", 1, Const(21)), F("EncPart", 3, EncryptedData)>>))   \* no [2]
EncKrbPrivPart == AppT(28, SafeBody)
KrbCredInfo == Struct(<<F("Key", 0, EncryptionKey), O("PRealm", 1, KStr), O("PName", 2, PrincipalName), O("Flags", 3, KFlags),
                        O("AuthTime", 4, KTime), O("StartTime", 5, KTime), O("EndTime", 6, KTime), O("RenewTill", 7, KTime),
                        O("SRealm", 8, KStr), O("SName", 9, PrincipalName), O("CAddr", 10, HostAddresses)>>)
KRBCred == AppT(22, Struct(<<F("PVNO", 0, Const(5)), F("MsgType", 1, Const(22)), F("Tickets", 2, SeqOf(Ticket)),
                             F("EncPart", 3, EncryptedData)>>))
EncKrbCredPart == AppT(29, Struct(<<F("TicketInfo", 0, SeqOf(KrbCredInfo)), O("Nouce", 1, U32), O("Timestamp", 2, KTime),
                                    O("Usec", 3, USec), O("SAddress", 4, HostAddress), O("RAddress", 5, HostAddress)>>))   \* "Nouce": gokrb5's spelling
KRBError == AppT(30, Struct(<<F("PVNO", 0, Const(5)), F("MsgType", 1, Const(30)), O("CTime", 2, KTime), O("Cusec", 3, USec),
                              F("STime", 4, KTime), F("Susec", 5, USec), F("ErrorCode", 6, I32), O("CRealm", 7, KStr),
                              O("CName", 8, PrincipalName), F("Realm", 9, KStr), F("SName", 10, PrincipalName),
                              O("EText", 11, KStr), O("EData", 12, OctS)>>))
\* ---------------------------------------------------------------- RFC 3244 2
ChangePasswdData == Struct(<<F("NewPasswd", 0, OctS), O("TargName", 1, PrincipalName), O("TargRealm", 2, KStr)>>)
\* ---------------------------------------------------------------- RFC 4178 4.2 (NegotiationToken is a CHOICE of [0] and [1])
NegTokenInit == CtxT(0, Struct(<<F("MechTypes", 0, SeqOf(OIDk)), O("ReqFlags", 1, BitS), O("MechTokenBytes", 2, OctS),
                                 O("MechListMIC", 3, OctS)>>))
\* negState is OPTIONAL in the RFC; gokrb5's struct cannot express its absence, so the abstract values always carry it
NegTokenResp == CtxT(1, Struct(<<F("NegState", 0, Enumk), O("SupportedMech", 1, OIDk), O("ResponseToken", 2, OctS),
                                 O("MechListMIC", 3, OctS)>>))
\* ---------------------------------------------------------------- RFC 2743 3.1 / RFC 4121 4.1 / RFC 4178 4.2
\* InitialContextToken ::= [APPLICATION 0] IMPLICIT SEQUENCE { thisMech OBJECT IDENTIFIER, innerContextToken ANY }
OIDSPNEGO == <<1, 3, 6, 1, 5, 5, 2>>
OIDKRB5 == <<1, 2, 840, 113554, 1, 2, 2>>
\* SPNEGOToken: [Init, Resp, NegTokenInit | NegTokenResp]: the first token is framed, the others are bare NegotiationTokens
SPNEGOToken == [k |-> "spnego"]
\* KRB5Token: [OID, TokID (hex of the two TOK_ID octets), APReq | APRep | KRBError]
KRB5Token == [k |-> "krb5tok"]

Kind(name) ==
  CASE name = "PrincipalName" -> PrincipalName [] name = "HostAddress" -> HostAddress [] name = "PAData" -> PAData
    [] name = "EncryptedData" -> EncryptedData [] name = "EncryptionKey" -> EncryptionKey [] name = "Checksum" -> Checksum
    [] name = "AuthorizationData" -> AuthorizationData [] name = "PADataSequence" -> SeqOf(PAData)
    [] name = "Ticket" -> Ticket [] name = "EncTicketPart" -> EncTicketPart
    [] name = "KDCReqBody" -> KDCReqBody [] name = "ASReq" -> ASReq [] name = "TGSReq" -> TGSReq
    [] name = "ASRep" -> ASRep [] name = "TGSRep" -> TGSRep
    [] name = "EncASRepPart" -> EncASRepPart [] name = "EncTGSRepPart" -> EncTGSRepPart
    [] name = "APReq" -> APReq [] name = "Authenticator" -> Authenticator
    [] name = "APRep" -> APRep [] name = "EncAPRepPart" -> EncAPRepPart
    [] name = "KRBSafe" -> KRBSafe [] name = "KRBPriv" -> KRBPriv [] name = "EncKrbPrivPart" -> EncKrbPrivPart
    [] name = "KRBCred" -> KRBCred [] name = "EncKrbCredPart" -> EncKrbCredPart
    [] name = "KRBError" -> KRBError [] name = "ChangePasswdData" -> ChangePasswdData
    [] name = "NegTokenInit" -> NegTokenInit [] name = "NegTokenResp" -> NegTokenResp
    [] name = "SPNEGOToken" -> SPNEGOToken [] name = "KRB5Token" -> KRB5Token
TypeNames == <<"PrincipalName", "HostAddress", "PAData", "EncryptedData", "EncryptionKey", "Checksum", "AuthorizationData",
               "PADataSequence", "Ticket", "EncTicketPart", "KDCReqBody", "ASReq", "TGSReq", "ASRep", "TGSRep", "EncASRepPart",
               "EncTGSRepPart", "APReq", "Authenticator", "APRep", "EncAPRepPart", "KRBSafe", "KRBPriv", "EncKrbPrivPart",
               "KRBCred", "EncKrbCredPart", "KRBError", "ChangePasswdData", "NegTokenInit", "NegTokenResp">>

\* ---------------------------------------------------------------- abstract value -> DER value
Has(v, name) == name \in DOMAIN v
RECURSIVE SumSeq(_)
SumSeq(s) == IF s = << >> THEN 0 ELSE Head(s) + SumSeq(Tail(s))
\* the four octets of a 32-bit KerberosFlags value: RFC bit i is bit (7 - i mod 8) of octet (i div 8) + 1
FlagBytes(bits) == [j \in 1..4 |-> SumSeq([i \in 1..Len(bits) |-> IF bits[i] \div 8 = j - 1 THEN 2 ^ (7 - (bits[i] % 8)) ELSE 0])]
\* the bit numbers set in the first n bits of b, ascending
SetBits(b, n) == SelectSeq([i \in 1..n |-> i - 1], LAMBDA i : Bit(b, i) = 1)
TokKind(tokid) == CASE tokid = "0100" -> APReq [] tokid = "0200" -> APRep [] tokid = "0300" -> KRBError

RECURSIVE ToDER(_, _)
ToDER(kind, v) ==
  CASE kind.k = "int" -> DIntB(FromHex(v))
    [] kind.k = "gstr" -> DGStr(FromHex(v))
    [] kind.k = "oct" -> DOct(FromHex(v))
    [] kind.k = "time" -> DGTime(StrBytes(v) \o <<90>>)                       \* "Z"
    [] kind.k = "kflags" -> DBits(FlagBytes(v), 0)
    [] kind.k = "bits" -> LET b == FromHex(v.Bytes) IN DBits(b, (8 * Len(b)) - v.BitLength)
    [] kind.k = "oid" -> DOID(v)
    [] kind.k = "enum" -> DEnum(v)
    [] kind.k = "seqof" -> DSeq([i \in 1..Len(v) |-> ToDER(kind.e, v[i])])
    [] kind.k = "struct" -> LET present == SelectSeq(kind.fs, LAMBDA f : Has(v, f.name))
                            IN DSeq([i \in 1..Len(present) |-> DCtx(present[i].tag, ToDER(present[i].kind, v[present[i].name]))])
    [] kind.k = "app" -> DApp(kind.tag, ToDER(kind.of, v))
    [] kind.k = "ctx" -> DCtx(kind.tag, ToDER(kind.of, v))
    [] kind.k = "spnego" -> IF v.Init THEN DAppI(0, <<DOID(OIDSPNEGO), ToDER(NegTokenInit, v.NegTokenInit)>>)
                            ELSE ToDER(NegTokenResp, v.NegTokenResp)
    [] kind.k = "krb5tok" -> DAppI(0, <<DOID(v.OID), DRaw(FromHex(v.TokID)), ToDER(TokKind(v.TokID), v.Msg)>>)
Enc(kind, v) == Encode(ToDER(kind, v))

\* ---------------------------------------------------------------- what a decoder without "absent" holds
ZeroInt == "0000000000000000"
ZeroTime == "00010101000000"        \* the instant such a decoder uses for "no time"
RECURSIVE Norm(_, _, _)
Norm(kind, p, v) ==
  CASE kind.k = "int" -> IF p THEN v ELSE ZeroInt
    [] kind.k \in {"gstr", "oct"} -> IF p THEN v ELSE ""
    [] kind.k = "time" -> IF p /\ v # ZeroTime THEN v ELSE ""
    [] kind.k = "kflags" -> IF p THEN [Bytes |-> ToHex(FlagBytes(v)), BitLength |-> 32, Set |-> v]
                            ELSE [Bytes |-> "", BitLength |-> 0, Set |-> << >>]
    [] kind.k = "bits" -> IF p THEN [Bytes |-> v.Bytes, BitLength |-> v.BitLength, Set |-> SetBits(FromHex(v.Bytes), v.BitLength)]
                          ELSE [Bytes |-> "", BitLength |-> 0, Set |-> << >>]
    [] kind.k = "oid" -> IF p THEN v ELSE << >>
    [] kind.k = "enum" -> IF p THEN v ELSE 0
    [] kind.k = "seqof" -> IF p THEN [i \in 1..Len(v) |-> Norm(kind.e, TRUE, v[i])] ELSE << >>
    [] kind.k = "struct" -> [n \in { kind.fs[i].name : i \in 1..Len(kind.fs) } |->
                              LET f == kind.fs[CHOOSE i \in 1..Len(kind.fs) : kind.fs[i].name = n]
                                  q == p /\ Has(v, n)
                              IN Norm(f.kind, q, IF q THEN v[n] ELSE << >>)]
    [] kind.k \in {"app", "ctx"} -> Norm(kind.of, p, v)
    [] kind.k = "spnego" -> IF v.Init THEN [Init |-> TRUE, Resp |-> FALSE, Tok |-> Norm(NegTokenInit, TRUE, v.NegTokenInit)]
                            ELSE [Init |-> FALSE, Resp |-> TRUE, Tok |-> Norm(NegTokenResp, TRUE, v.NegTokenResp)]
    [] kind.k = "krb5tok" -> [OID |-> v.OID, TokID |-> v.TokID, Msg |-> Norm(TokKind(v.TokID), TRUE, v.Msg)]

\* ---------------------------------------------------------------- the caveat of C13
RECURSIVE IsZero(_, _), HasZeroOpt(_, _)
IsZero(kind, v) ==
  CASE kind.k = "int" -> v = ZeroInt
    [] kind.k \in {"gstr", "oct"} -> v = ""
    [] kind.k = "time" -> v = ZeroTime
    [] kind.k = "kflags" -> FALSE
    [] kind.k = "bits" -> v.BitLength = 0
    [] kind.k = "oid" -> v = << >>
    [] kind.k = "enum" -> v = 0
    [] kind.k = "seqof" -> v = << >>
    [] kind.k = "struct" -> \A i \in 1..Len(kind.fs) : ~Has(v, kind.fs[i].name) \/ IsZero(kind.fs[i].kind, v[kind.fs[i].name])
    [] kind.k \in {"app", "ctx"} -> IsZero(kind.of, v)
    [] OTHER -> FALSE
HasZeroOpt(kind, v) ==
  CASE kind.k = "seqof" -> \E i \in 1..Len(v) : HasZeroOpt(kind.e, v[i])
    [] kind.k = "struct" -> \E i \in 1..Len(kind.fs) : LET f == kind.fs[i] IN
                               Has(v, f.name) /\ ((f.opt /\ IsZero(f.kind, v[f.name])) \/ HasZeroOpt(f.kind, v[f.name]))
    [] kind.k \in {"app", "ctx"} -> HasZeroOpt(kind.of, v)
    [] kind.k = "spnego" -> IF v.Init THEN HasZeroOpt(NegTokenInit, v.NegTokenInit) ELSE HasZeroOpt(NegTokenResp, v.NegTokenResp)
    [] kind.k = "krb5tok" -> HasZeroOpt(TokKind(v.TokID), v.Msg)
    [] OTHER -> FALSE

\* ---------------------------------------------------------------- an independent decoder (strict DER)
\* DecAt(kind, b, p, e): the value of the given kind whose encoding starts at position p of b and lies before e.
\* Result [ok, v, next].  Anything that is not the DER encoding of a value of the kind gives ok = FALSE.
Fail == [ok |-> FALSE, v |-> << >>, next |-> 0]
Ok(v, next) == [ok |-> TRUE, v |-> v, next |-> next]
SignExt8(c) == Rep(IF c[1] >= 128 THEN 255 ELSE 0, 8 - Len(c)) \o c
DigitStr(d) == CASE d = 48 -> "0" [] d = 49 -> "1" [] d = 50 -> "2" [] d = 51 -> "3" [] d = 52 -> "4"
                 [] d = 53 -> "5" [] d = 54 -> "6" [] d = 55 -> "7" [] d = 56 -> "8" [] d = 57 -> "9"
RECURSIVE Digits(_)
Digits(c) == IF c = << >> THEN "" ELSE DigitStr(Head(c)) \o Digits(Tail(c))
\* the arcs after the first octet group: i is the position in c, acc the value collected so far
RECURSIVE ArcsDec(_, _, _)
ArcsDec(c, i, acc) == IF i > Len(c) THEN << >>
                      ELSE IF c[i] >= 128 THEN ArcsDec(c, i + 1, (acc * 128) + (c[i] - 128))
                      ELSE <<(acc * 128) + c[i]>> \o ArcsDec(c, i + 1, 0)
OIDArcs(c) == LET a == ArcsDec(c, 1, 0)
                  x == a[1] IN
              (IF x < 40 THEN <<0, x>> ELSE IF x < 80 THEN <<1, x - 40>> ELSE <<2, x - 80>>) \o Tail(a)
\* a primitive universal TLV with the given tag in [p, e)
Prim(b, p, e, tag) == LET t == ParseTLV(b, p) IN
                      IF p < e /\ t.ok /\ t.class = 0 /\ ~t.cons /\ t.tag = tag /\ t.next <= e THEN t ELSE [ok |-> FALSE]
\* a constructed TLV of the given class and tag in [p, e)
Cons(b, p, e, class, tag) == LET t == ParseTLV(b, p) IN
                             IF p < e /\ t.ok /\ t.class = class /\ t.cons /\ t.tag = tag /\ t.next <= e THEN t ELSE [ok |-> FALSE]

RECURSIVE DecAt(_, _, _, _), DecElems(_, _, _, _), DecFields(_, _, _, _, _, _)
\* the elements of a SEQUENCE OF in [p, e)
DecElems(ek, b, p, e) == IF p = e THEN Ok(<< >>, e)
                         ELSE LET x == DecAt(ek, b, p, e) IN
                              IF ~x.ok THEN Fail
                              ELSE LET r == DecElems(ek, b, x.next, e) IN IF r.ok THEN Ok(<<x.v>> \o r.v, e) ELSE Fail
\* fields i.. of a SEQUENCE in [p, e); acc is the record collected so far
DecFields(fs, i, b, p, e, acc) ==
  IF i > Len(fs) THEN (IF p = e THEN Ok(acc, e) ELSE Fail)
  ELSE LET f == fs[i]
           t == Cons(b, p, e, 2, f.tag) IN
       IF t.ok THEN LET x == DecAt(f.kind, b, t.from, t.next) IN
                    IF x.ok /\ x.next = t.next THEN DecFields(fs, i + 1, b, t.next, e, acc @@ (f.name :> x.v)) ELSE Fail
       ELSE IF f.opt THEN DecFields(fs, i + 1, b, p, e, acc) ELSE Fail
EmptyRec == [n \in {} |-> 0]
DecAt(kind, b, p, e) ==
  CASE kind.k = "int" -> LET t == Prim(b, p, e, 2) IN
         IF t.ok /\ t.len >= 1 /\ t.len <= 8 /\ MinTC(Content(b, t)) = Content(b, t) THEN Ok(ToHex(SignExt8(Content(b, t))), t.next) ELSE Fail
    [] kind.k = "gstr" -> LET t == Prim(b, p, e, 27) IN IF t.ok THEN Ok(ToHex(Content(b, t)), t.next) ELSE Fail
    [] kind.k = "oct" -> LET t == Prim(b, p, e, 4) IN IF t.ok THEN Ok(ToHex(Content(b, t)), t.next) ELSE Fail
    [] kind.k = "time" -> LET t == Prim(b, p, e, 24) IN
         IF t.ok /\ t.len = 15 /\ b[t.next - 1] = 90 /\ \A i \in t.from..(t.next - 2) : b[i] \in 48..57
         THEN Ok(Digits(SubSeq(b, t.from, t.next - 2)), t.next) ELSE Fail
    [] kind.k = "kflags" -> LET t == Prim(b, p, e, 3) IN
         IF t.ok /\ t.len = 5 /\ b[t.from] = 0 THEN Ok(SetBits(SubSeq(b, t.from + 1, t.next - 1), 32), t.next) ELSE Fail
    [] kind.k = "bits" -> LET t == Prim(b, p, e, 3) IN
         IF t.ok /\ t.len >= 1 /\ b[t.from] <= 7 /\ (t.len > 1 \/ b[t.from] = 0)
            /\ (t.len = 1 \/ b[t.next - 1] % (2 ^ b[t.from]) = 0)
         THEN Ok([Bytes |-> ToHex(SubSeq(b, t.from + 1, t.next - 1)), BitLength |-> (8 * (t.len - 1)) - b[t.from]], t.next) ELSE Fail
    [] kind.k = "oid" -> LET t == Prim(b, p, e, 6) IN
         IF t.ok /\ t.len >= 1 /\ b[t.next - 1] < 128 /\ OIDContent(OIDArcs(Content(b, t))) = Content(b, t)
         THEN Ok(OIDArcs(Content(b, t)), t.next) ELSE Fail
    [] kind.k = "enum" -> LET t == Prim(b, p, e, 10) IN
         IF t.ok /\ t.len >= 1 /\ t.len <= 3 /\ b[t.from] < 128 /\ MinTC(Content(b, t)) = Content(b, t)
         THEN Ok(BEVal(Content(b, t)), t.next) ELSE Fail
    [] kind.k = "seqof" -> LET t == Cons(b, p, e, 0, 16) IN
         IF t.ok THEN LET r == DecElems(kind.e, b, t.from, t.next) IN IF r.ok THEN Ok(r.v, t.next) ELSE Fail ELSE Fail
    [] kind.k = "struct" -> LET t == Cons(b, p, e, 0, 16) IN
         IF t.ok THEN LET r == DecFields(kind.fs, 1, b, t.from, t.next, EmptyRec) IN IF r.ok THEN Ok(r.v, t.next) ELSE Fail ELSE Fail
    [] kind.k \in {"app", "ctx"} -> LET t == Cons(b, p, e, IF kind.k = "app" THEN 1 ELSE 2, kind.tag) IN
         IF t.ok THEN LET x == DecAt(kind.of, b, t.from, t.next) IN IF x.ok /\ x.next = t.next THEN Ok(x.v, t.next) ELSE Fail ELSE Fail
    [] kind.k = "spnego" ->
         IF p < e /\ b[p] = 96
         THEN LET t == Cons(b, p, e, 1, 0) IN
              IF ~t.ok THEN Fail
              ELSE LET o == DecAt(OIDk, b, t.from, t.next) IN
                   IF ~o.ok \/ o.v # OIDSPNEGO THEN Fail
                   ELSE LET x == DecAt(NegTokenInit, b, o.next, t.next) IN
                        IF x.ok /\ x.next = t.next THEN Ok([Init |-> TRUE, Resp |-> FALSE, NegTokenInit |-> x.v], t.next) ELSE Fail
         ELSE LET x == DecAt(NegTokenResp, b, p, e) IN
              IF x.ok THEN Ok([Init |-> FALSE, Resp |-> TRUE, NegTokenResp |-> x.v], x.next) ELSE Fail
    [] kind.k = "krb5tok" ->
         LET t == Cons(b, p, e, 1, 0) IN
         IF ~t.ok THEN Fail
         ELSE LET o == DecAt(OIDk, b, t.from, t.next) IN
              IF ~o.ok \/ o.next + 2 > t.next THEN Fail
              ELSE LET id == ToHex(SubSeq(b, o.next, o.next + 1)) IN
                   IF id \notin {"0100", "0200", "0300"} THEN Fail
                   ELSE LET x == DecAt(TokKind(id), b, o.next + 2, t.next) IN
                        IF x.ok /\ x.next = t.next THEN Ok([OID |-> o.v, TokID |-> id, Msg |-> x.v], t.next) ELSE Fail
Dec(kind, b) == LET r == DecAt(kind, b, 1, Len(b) + 1) IN
                IF r.ok /\ r.next = Len(b) + 1 THEN [ok |-> TRUE, v |-> r.v] ELSE [ok |-> FALSE, v |-> << >>]
=============================================================================
