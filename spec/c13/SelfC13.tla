------------------------------ MODULE SelfC13 -------------------------------
(* Validation of the specification itself, and export of its type table for the case generator.
   (1) The MIT krb5 reference encodings that gokrb5 ships in v8/test/testdata/test_vectors.go (the driver extracts the hex
       strings from that file; the abstract sample values are written down independently, from MIT's ktest.c): the
       encoder must reproduce every reference byte for byte, the decoder must return exactly the sample value.
   (2) X.690's own examples for lengths, integers and object identifiers.
   (3) schema.json: the kinds of KrbASN1, from which the driver derives its value generator. *)
EXTENDS KrbASN1, Json
Samples == ndJsonDeserialize("mit.ndjson")
T(name, ok) == ok \/ PrintT(<<"VECTORFAIL", name>>)
SampleOK(s) == LET k == Kind(s.type)
                   b == FromHex(s.ref)
                   d == Dec(k, b) IN
               /\ T(s.name \o " encode", Enc(k, s.v) = b)
               /\ T(s.name \o " decode", d.ok /\ d.v = s.v)
               /\ T(s.name \o " norm", d.ok /\ Norm(k, TRUE, d.v) = Norm(k, TRUE, s.v))
ASSUME \A i \in 1..Len(Samples) : SampleOK(Samples[i])
\* X.690 8.1.3.5 example (length 201), 8.19.5 example ({2 100 3} = 0x813403), DER lengths and integers
ASSUME T("len38", DERLen(38) = <<38>>) /\ T("len201", DERLen(201) = <<129, 201>>) /\ T("len435", DERLen(435) = <<130, 1, 179>>)
ASSUME T("len127", DERLen(127) = <<127>>) /\ T("len128", DERLen(128) = <<129, 128>>) /\ T("len65536", DERLen(65536) = <<131, 1, 0, 0>>)
ASSUME T("len2^24", DERLen(16777216) = <<132, 1, 0, 0, 0>>)
ASSUME T("oid2.100.3", Encode(DOID(<<2, 100, 3>>)) = <<6, 3, 129, 52, 3>>)
ASSUME T("oidkrb5", Encode(DOID(OIDKRB5)) = FromHex("06092a864886f712010202"))
ASSUME T("oidspnego", Encode(DOID(OIDSPNEGO)) = FromHex("06062b0601050502"))
ASSUME T("int0", Encode(DInt(0)) = <<2, 1, 0>>) /\ T("int127", Encode(DInt(127)) = <<2, 1, 127>>)
ASSUME T("int128", Encode(DInt(128)) = <<2, 2, 0, 128>>) /\ T("int256", Encode(DInt(256)) = <<2, 2, 1, 0>>)
ASSUME T("int-128", Encode(DInt(-128)) = <<2, 1, 128>>) /\ T("int-129", Encode(DInt(-129)) = <<2, 2, 255, 127>>)
ASSUME T("intmin", Encode(DInt(-2147483647 - 1)) = <<2, 4, 128, 0, 0, 0>>) /\ T("intmax", Encode(DInt(2147483647)) = <<2, 4, 127, 255, 255, 255>>)
ASSUME T("intb", Encode(DIntB(FromHex("00000000ffffffff"))) = <<2, 5, 0, 255, 255, 255, 255>>)
ASSUME T("intbneg", Encode(DIntB(FromHex("ffffffffffffff7f"))) = <<2, 2, 255, 127>>)
\* RFC 4120 5.2.8: bit 0 is the most significant bit; reserved(0) forwardable(1) ... : forwardable alone is 0x40000000
ASSUME T("flags", FlagBytes(<<1>>) = <<64, 0, 0, 0>>) /\ T("flags31", FlagBytes(<<0, 31>>) = <<128, 0, 0, 1>>)
\* ParseTLV rejects non-minimal and indefinite lengths
ASSUME T("tlv1", ParseTLV(<<4, 129, 5, 1, 2, 3, 4, 5>>, 1).ok = FALSE) /\ T("tlv2", ParseTLV(<<48, 128, 0, 0>>, 1).ok = FALSE)
ASSUME T("tlv3", ParseTLV(<<4, 2, 7, 8>>, 1) = [ok |-> TRUE, class |-> 0, cons |-> FALSE, tag |-> 4, len |-> 2, from |-> 3, next |-> 5])
ASSUME JsonSerialize("schema.json", [n \in { TypeNames[i] : i \in 1..Len(TypeNames) } |-> Kind(n)])
ASSUME PrintT(<<"SAMPLES", Len(Samples)>>)
VARIABLE x
Init == x = 0
Next == UNCHANGED x
=============================================================================
