CONSTANT MaxN = 20000
INIT Init
NEXT Next
INVARIANT Inv
CHECK_DEADLOCK FALSE
