------------------------------- MODULE TraceMIT -------------------------------
(***************************************************************************)
(* Validation of the SPECIFICATION (not of gokrb5) against an independent   *)
(* implementation: MIT Kerberos 1.20 (libk5crypto / libkrb5 through         *)
(* spec/mit/mitref.c).  Each line is one operation MIT performed on seeded  *)
(* inputs; the RFC transcription KrbCrypto must give the same result:       *)
(*   s2k    string-to-key                 equal keys                        *)
(*   cksum  keyed checksum                equal values                      *)
(*   dec    MIT decrypts a ciphertext this specification minted             *)
(*   enc    this specification decrypts a ciphertext MIT produced           *)
(*   kt     MIT reads a keytab file this specification (KeytabFormat)       *)
(*          rendered: same entries                                          *)
(* The 38 RFC vectors of selftest/RFCVectors fix the transcription at a few *)
(* points; this fixes it on thousands of seeded ones, for all six etypes.   *)
(***************************************************************************)
EXTENDS KrbCrypto, Json
CONSTANTS NShards
Tr == ndJsonDeserialize("trace.ndjson")
NLines == Len(Tr)
VARIABLES sh, l
LT == INSTANCE LineTrace
IterOf(et, p) == IF p = "-" THEN DefaultIter(et) ELSE BEVal(FromHex(p))
S2K(x) == x.rc = 0 /\ FromHex(x.out) = StringToKey(x.et, FromHex(x.pw), x.cps, FromHex(x.salt), IterOf(x.et, x.params))
Cksum(x) == x.rc = 0 /\ x.et = CksumEtype[x.ct] /\ FromHex(x.out) = Checksum(x.et, FromHex(x.key), x.u, FromHex(x.data))
\* the ciphertext is the one this specification makes of (key, usage, confounder, plaintext); MIT must recover the plaintext
Dec(x) == LET key == FromHex(x.key)  plain == FromHex(x.plain)  conf == FromHex(x.conf) IN
          /\ Encrypt(x.et, key, x.u, conf, plain) = FromHex(x.cipher)
          /\ x.rc = 0 /\ FromHex(x.out) = PaddedPlain(x.et, conf, plain)
\* MIT's ciphertext (its own random confounder) must decrypt under the transcription to the plaintext, and re-encrypting with
\* the confounder it used must reproduce MIT's octets
Enc(x) == LET key == FromHex(x.key)  plain == FromHex(x.plain)  c == FromHex(x.out)  d == Decrypt(x.et, key, x.u, c) IN
          /\ x.rc = 0 /\ d.ok /\ d.plain = PaddedPlain(x.et, d.conf, plain)
          /\ Encrypt(x.et, key, x.u, d.conf, plain) = c
LineOK(x) == CASE x.op = "s2k" -> S2K(x) [] x.op = "cksum" -> Cksum(x) [] x.op = "dec" -> Dec(x) [] x.op = "enc" -> Enc(x)
Init == LT!Init
Next == LT!Next
Check == ~LT!Active \/ LineOK(Tr[l]) \/ PrintT(<<"BADLINE", l>>)
=============================================================================
