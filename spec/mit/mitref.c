/* mitref: MIT Kerberos (libkrb5 / libk5crypto) as an independent reference for validating the TLA+ specification.
 * Reads one request per line from stdin, writes one JSON object per line to stdout.  Fields are hex strings.
 *   s2k   <etype> <pw> <salt> <params|->                 string-to-key
 *   cksum <cksumtype> <etype> <key> <usage> <data>       keyed checksum
 *   dec   <etype> <key> <usage> <cipher>                 decrypt
 *   enc   <etype> <key> <usage> <plain>                  encrypt (random confounder)
 *   prf   <etype> <key> <data>                           pseudo-random function
 *   kt    <path>                                         entries of a keytab file
 *   cc    <path>                                         contents of a credential cache file
 * Nothing here knows the specification; the comparison is made by TLC (spec/mit/TraceMIT.tla). */
#include <krb5.h>
#include <profile.h>
#include <gssapi/gssapi.h>
#include <gssapi/gssapi_krb5.h>
#include <gssapi/gssapi_ext.h>
#include <stdio.h>
#include <stdlib.h>
#include <string.h>
#include <sys/time.h>

static int unhex(const char *s, unsigned char **out) {
    if (strcmp(s, "-") == 0) { *out = malloc(1); return 0; }
    size_t n = strlen(s) / 2;
    unsigned char *b = malloc(n + 1);
    for (size_t i = 0; i < n; i++) { unsigned int v; sscanf(s + 2 * i, "%2x", &v); b[i] = (unsigned char)v; }
    *out = b;
    return (int)n;
}
static void puthex(const char *name, const unsigned char *b, size_t n) {
    printf("\"%s\":\"", name);
    for (size_t i = 0; i < n; i++) printf("%02x", b[i]);
    printf("\"");
}

static gss_ctx_id_t gss_ictx = GSS_C_NO_CONTEXT, gss_actx = GSS_C_NO_CONTEXT;

int main(void) {
    krb5_context ctx;
    if (krb5_init_context(&ctx)) { fprintf(stderr, "krb5_init_context failed\n"); return 2; }
    static char line[1 << 22];
    while (fgets(line, sizeof line, stdin)) {
        char *tok[64]; int nt = 0; char *save = NULL;
        for (char *p = strtok_r(line, " \n", &save); p && nt < 64; p = strtok_r(NULL, " \n", &save)) tok[nt++] = p;
        if (nt == 0) continue;
        if (!strcmp(tok[0], "s2k") && nt == 5) {
            unsigned char *pw, *salt, *par; int np = unhex(tok[2], &pw), ns = unhex(tok[3], &salt), npar = unhex(tok[4], &par);
            krb5_data dpw = {0, np, (char *)pw}, dsalt = {0, ns, (char *)salt}, dpar = {0, npar, (char *)par};
            krb5_keyblock key; memset(&key, 0, sizeof key);
            krb5_error_code rc = krb5_c_string_to_key_with_params(ctx, atoi(tok[1]), &dpw, &dsalt, strcmp(tok[4], "-") ? &dpar : NULL, &key);
            printf("{\"rc\":%d,", (int)rc); puthex("out", rc ? (unsigned char *)"" : key.contents, rc ? 0 : key.length); printf("}\n");
            if (!rc) krb5_free_keyblock_contents(ctx, &key);
        } else if (!strcmp(tok[0], "cksum") && nt == 6) {
            unsigned char *k, *d; int nk = unhex(tok[3], &k), nd = unhex(tok[5], &d);
            krb5_keyblock key = {0, atoi(tok[2]), nk, k}; krb5_data data = {0, nd, (char *)d}; krb5_checksum ck; memset(&ck, 0, sizeof ck);
            krb5_error_code rc = krb5_c_make_checksum(ctx, atoi(tok[1]), &key, atoi(tok[4]), &data, &ck);
            printf("{\"rc\":%d,", (int)rc); puthex("out", rc ? (unsigned char *)"" : ck.contents, rc ? 0 : ck.length); printf("}\n");
            if (!rc) krb5_free_checksum_contents(ctx, &ck);
        } else if (!strcmp(tok[0], "dec") && nt == 5) {
            unsigned char *k, *c; int nk = unhex(tok[2], &k), nc = unhex(tok[4], &c);
            krb5_keyblock key = {0, atoi(tok[1]), nk, k};
            krb5_enc_data in; memset(&in, 0, sizeof in); in.enctype = atoi(tok[1]); in.ciphertext.length = nc; in.ciphertext.data = (char *)c;
            krb5_data out; out.length = nc + 64; out.data = malloc(out.length);
            krb5_error_code rc = krb5_c_decrypt(ctx, &key, atoi(tok[3]), NULL, &in, &out);
            printf("{\"rc\":%d,", (int)rc); puthex("out", (unsigned char *)out.data, rc ? 0 : out.length); printf("}\n");
        } else if (!strcmp(tok[0], "enc") && nt == 5) {
            unsigned char *k, *p; int nk = unhex(tok[2], &k), np = unhex(tok[4], &p);
            krb5_keyblock key = {0, atoi(tok[1]), nk, k}; krb5_data in = {0, np, (char *)p};
            size_t len = 0; krb5_c_encrypt_length(ctx, atoi(tok[1]), np, &len);
            krb5_enc_data out; memset(&out, 0, sizeof out); out.ciphertext.length = len; out.ciphertext.data = malloc(len + 1);
            krb5_error_code rc = krb5_c_encrypt(ctx, &key, atoi(tok[3]), NULL, &in, &out);
            printf("{\"rc\":%d,", (int)rc); puthex("out", (unsigned char *)out.ciphertext.data, rc ? 0 : out.ciphertext.length); printf("}\n");
        } else if (!strcmp(tok[0], "prf") && nt == 4) {
            unsigned char *k, *d; int nk = unhex(tok[2], &k), nd = unhex(tok[3], &d);
            krb5_keyblock key = {0, atoi(tok[1]), nk, k}; krb5_data in = {0, nd, (char *)d};
            size_t len = 0; krb5_c_prf_length(ctx, atoi(tok[1]), &len);
            krb5_data out; out.length = len; out.data = malloc(len + 1);
            krb5_error_code rc = krb5_c_prf(ctx, &key, &in, &out);
            printf("{\"rc\":%d,", (int)rc); puthex("out", (unsigned char *)out.data, rc ? 0 : out.length); printf("}\n");
        } else if (!strcmp(tok[0], "kt") && nt == 2) {
            char name[4200]; snprintf(name, sizeof name, "FILE:%s", tok[1]);
            krb5_keytab kt; krb5_kt_cursor cur; krb5_keytab_entry e;
            krb5_error_code rc = krb5_kt_resolve(ctx, name, &kt);
            if (!rc) rc = krb5_kt_start_seq_get(ctx, kt, &cur);
            printf("{\"rc\":%d,\"entries\":[", (int)rc);
            int first = 1;
            krb5_error_code stop = 0;
            while (!rc && (stop = krb5_kt_next_entry(ctx, kt, &e, &cur)) == 0) {
                printf("%s{", first ? "" : ","); first = 0;
                puthex("realm", (unsigned char *)e.principal->realm.data, e.principal->realm.length);
                printf(",\"nameType\":\"%08x\",\"comps\":[", (unsigned)e.principal->type);
                for (int i = 0; i < e.principal->length; i++) { printf("%s\"", i ? "," : ""); for (unsigned j = 0; j < e.principal->data[i].length; j++) printf("%02x", (unsigned char)e.principal->data[i].data[j]); printf("\""); }
                printf("],\"kvno\":\"%08x\",\"ts\":\"%08x\",\"ktype\":%d,", (unsigned)e.vno, (unsigned)e.timestamp, (int)e.key.enctype);
                puthex("key", e.key.contents, e.key.length); printf("}");
                krb5_free_keytab_entry_contents(ctx, &e);
            }
            if (!rc) krb5_kt_end_seq_get(ctx, kt, &cur);
            printf("],\"stop\":%d}\n", (int)stop);
        } else if (!strcmp(tok[0], "rdreq") && nt == 5) {
            /* rdreq <keytab path> <AP-REQ> <server principal> <client address | ->  : krb5_rd_req as a service would call it */
            unsigned char *ap, *ad; int nap = unhex(tok[2], &ap), nad = unhex(tok[4], &ad);
            char name[4200]; snprintf(name, sizeof name, "FILE:%s", tok[1]);
            krb5_keytab kt; krb5_auth_context ac = NULL; krb5_principal server = NULL; krb5_ticket *tkt = NULL;
            krb5_error_code rc = krb5_kt_resolve(ctx, name, &kt);
            if (!rc) rc = krb5_parse_name(ctx, tok[3], &server);
            if (!rc) rc = krb5_auth_con_init(ctx, &ac);
            if (!rc && strcmp(tok[4], "-")) { krb5_address a; a.magic = 0; a.addrtype = ADDRTYPE_INET; a.length = nad; a.contents = ad; rc = krb5_auth_con_setaddrs(ctx, ac, NULL, &a); }
            krb5_data in = {0, nap, (char *)ap};
            struct timeval t0, t1; gettimeofday(&t0, NULL);
            if (!rc) rc = krb5_rd_req(ctx, &ac, &in, server, kt, NULL, &tkt);
            gettimeofday(&t1, NULL);
            printf("{\"rc\":%d,\"t0\":%lld,\"t1\":%lld,\"out\":\"\"}\n", (int)rc, (long long)t0.tv_sec * 1000 + t0.tv_usec / 1000, (long long)t1.tv_sec * 1000 + t1.tv_usec / 1000 + 1);
            if (tkt) krb5_free_ticket(ctx, tkt);
            if (ac) krb5_auth_con_free(ctx, ac);
            if (server) krb5_free_principal(ctx, server);
            if (!rc || kt) krb5_kt_close(ctx, kt);
        } else if (!strcmp(tok[0], "gss") && nt == 5) {
            /* gss <user@REALM> <password> <service name as host-based: service@host> <message> : log in, then establish a GSS-API context
             * between an initiator (the user's credentials) and an acceptor (KRB5_KTNAME) in this process, and protect the message in both
             * directions with gss_get_mic and gss_wrap (integrity only).  The contexts stay alive for "gssverify". */
            krb5_principal me = NULL; krb5_creds tgt; krb5_ccache cc = NULL; krb5_get_init_creds_opt *opt = NULL; memset(&tgt, 0, sizeof tgt);
            krb5_error_code rc = krb5_parse_name(ctx, tok[1], &me); int stage = 0;
            if (!rc) rc = krb5_get_init_creds_opt_alloc(ctx, &opt);
            if (!rc) { stage = 1; rc = krb5_get_init_creds_password(ctx, &tgt, me, tok[2], NULL, NULL, 0, NULL, opt); }
            if (!rc) { stage = 2; rc = krb5_cc_default(ctx, &cc); }
            if (!rc) rc = krb5_cc_initialize(ctx, cc, me);
            if (!rc) rc = krb5_cc_store_cred(ctx, cc, &tgt);
            OM_uint32 maj = 0, min = 0, amaj = 0, ret_flags = 0; gss_name_t target = GSS_C_NO_NAME;
            gss_buffer_desc nb = {strlen(tok[3]), tok[3]}, itok = {0, NULL}, atok = {0, NULL};
            if (!rc) { stage = 3; maj = gss_import_name(&min, &nb, GSS_C_NT_HOSTBASED_SERVICE, &target); if (GSS_ERROR(maj)) rc = -2; }
            gss_ictx = GSS_C_NO_CONTEXT; gss_actx = GSS_C_NO_CONTEXT;
            int rounds = 0;
            while (!rc && rounds++ < 4) {
                stage = 4;
                maj = gss_init_sec_context(&min, GSS_C_NO_CREDENTIAL, &gss_ictx, target, (gss_OID)gss_mech_krb5, GSS_C_MUTUAL_FLAG | GSS_C_INTEG_FLAG, 0, GSS_C_NO_CHANNEL_BINDINGS,
                                           atok.length ? &atok : GSS_C_NO_BUFFER, NULL, &itok, &ret_flags, NULL);
                if (GSS_ERROR(maj)) { rc = -3; break; }
                if (itok.length) {
                    stage = 5;
                    amaj = gss_accept_sec_context(&min, &gss_actx, GSS_C_NO_CREDENTIAL, &itok, GSS_C_NO_CHANNEL_BINDINGS, NULL, NULL, &atok, NULL, NULL, NULL);
                    if (GSS_ERROR(amaj)) { rc = -4; break; }
                }
                if (maj == GSS_S_COMPLETE && amaj == GSS_S_COMPLETE) { stage = 6; break; }
            }
            printf("{\"rc\":%d,\"stage\":%d,\"min\":%u", (int)rc, stage, (unsigned)min);
            if (!rc && stage == 6) {
                gss_buffer_set_t ks = GSS_C_NO_BUFFER_SET;
                maj = gss_inquire_sec_context_by_oid(&min, gss_ictx, GSS_C_INQ_SSPI_SESSION_KEY, &ks);
                if (!GSS_ERROR(maj) && ks && ks->count >= 1) { printf(","); puthex("key", ks->elements[0].value, ks->elements[0].length); }
                /* which key the per-message tokens use: with an acceptor subkey the flag AcceptorSubkey is set in them */
                unsigned char *msg; int nm = unhex(tok[4], &msg); gss_buffer_desc mb = {nm, msg}, o = {0, NULL}; int conf = 0;
                const char *names[4] = {"micI", "wrapI", "micA", "wrapA"}; gss_ctx_id_t cs[2] = {gss_ictx, gss_actx};
                for (int k = 0; k < 4; k++) {
                    if (k % 2 == 0) maj = gss_get_mic(&min, cs[k / 2], GSS_C_QOP_DEFAULT, &mb, &o); else maj = gss_wrap(&min, cs[k / 2], 0, GSS_C_QOP_DEFAULT, &mb, &conf, &o);
                    printf(","); puthex(names[k], GSS_ERROR(maj) ? (unsigned char *)"" : o.value, GSS_ERROR(maj) ? 0 : o.length);
                }
            }
            printf(",\"out\":\"\"}\n");
        } else if (!strcmp(tok[0], "gssverify") && nt == 5) {
            /* gssverify <by: I|A> <message> <MIC token> <Wrap token> : the named side of the established context verifies tokens the peer built */
            gss_ctx_id_t c = tok[1][0] == 'I' ? gss_ictx : gss_actx;
            unsigned char *msg, *mic, *wr; int nm = unhex(tok[2], &msg), nmic = unhex(tok[3], &mic), nw = unhex(tok[4], &wr);
            gss_buffer_desc mb = {nm, msg}, tb = {nmic, mic}, wb = {nw, wr}, o = {0, NULL}; OM_uint32 min = 0, m1, m2; int conf = 0; gss_qop_t q = 0;
            m1 = gss_verify_mic(&min, c, &mb, &tb, &q);
            m2 = gss_unwrap(&min, c, &wb, &o, &conf, &q);
            printf("{\"rc\":0,\"mic\":%u,\"unwrap\":%u,", (unsigned)m1, (unsigned)m2); puthex("plain", GSS_ERROR(m2) ? (unsigned char *)"" : o.value, GSS_ERROR(m2) ? 0 : o.length);
            printf(",\"out\":\"\"}\n");
        } else if (!strcmp(tok[0], "conf") && nt >= 2) {
            /* conf <krb5.conf path> [<kind>:<section>:<name>[:<sub>]]... : what MIT's profile library reads from the file.
             * kind b = boolean (value or "unset"/"bad"), d = duration in seconds via krb5_string_to_deltat, s = string, v = list of values */
            profile_t prof = NULL; const char *files[2] = {tok[1], NULL};
            long prc = profile_init(files, &prof);
            printf("{\"rc\":%ld,\"vals\":[", prc);
            for (int i = 2; !prc && i < nt; i++) {
                char kind = tok[i][0]; char *spec = tok[i] + 2; char *parts[3] = {NULL, NULL, NULL}; int np2 = 0;
                for (char *p = strtok(spec, ":"); p && np2 < 3; p = strtok(NULL, ":")) parts[np2++] = p;
                printf("%s", i > 2 ? "," : "");
                if (kind == 'v') {
                    const char *names[4] = {parts[0], parts[1], parts[2], NULL}; char **vals = NULL;
                    long r = profile_get_values(prof, names, &vals);
                    printf("[");
                    for (int k = 0; !r && vals && vals[k]; k++) printf("%s\"%s\"", k ? "," : "", vals[k]);
                    printf("]");
                    if (!r && vals) profile_free_list(vals);
                } else {
                    char *val = NULL; long r = profile_get_string(prof, parts[0], parts[1], parts[2], NULL, &val);
                    if (r || !val) printf("\"unset\"");
                    else if (kind == 'b') { int b = 0; long br = profile_get_boolean(prof, parts[0], parts[1], parts[2], -1, &b); printf(br ? "\"bad\"" : (b ? "\"true\"" : "\"false\"")); }
                    else if (kind == 'd') { krb5_deltat dt = 0; krb5_error_code dr = krb5_string_to_deltat(val, &dt); if (dr) printf("\"bad\""); else printf("\"%d\"", (int)dt); }
                    else { printf("\""); for (char *p = val; *p; p++) if (*p != '"' && *p != '\\' && (unsigned char)*p >= 32) putchar(*p); printf("\""); }
                    if (val) profile_release_string(val);
                }
            }
            printf("],\"out\":\"\"}\n");
            if (prof) profile_release(prof);
        } else if (!strcmp(tok[0], "chpw") && nt == 4) {
            /* chpw <user@REALM> <old password> <new password> : MIT's client changes the password at the kpasswd service of KRB5_CONFIG */
            krb5_principal me = NULL; krb5_creds cr; krb5_get_init_creds_opt *opt = NULL; memset(&cr, 0, sizeof cr);
            int result_code = -1; krb5_data code_string = {0, 0, NULL}, result_string = {0, 0, NULL};
            krb5_error_code rc = krb5_parse_name(ctx, tok[1], &me); int stage = 0;
            if (!rc) rc = krb5_get_init_creds_opt_alloc(ctx, &opt);
            if (!rc) { krb5_get_init_creds_opt_set_tkt_life(opt, 300); krb5_get_init_creds_opt_set_forwardable(opt, 0); krb5_get_init_creds_opt_set_proxiable(opt, 0);
                       stage = 1; rc = krb5_get_init_creds_password(ctx, &cr, me, tok[2], NULL, NULL, 0, "kadmin/changepw", opt); }
            if (!rc) { stage = 2; rc = krb5_change_password(ctx, &cr, tok[3], &result_code, &code_string, &result_string); }
            if (!rc) stage = 3;
            printf("{\"rc\":%d,\"stage\":%d,\"result\":%d,\"out\":\"\"}\n", (int)rc, stage, result_code);
        } else if (!strcmp(tok[0], "hostrealm") && nt == 3) {
            /* hostrealm <krb5.conf path> <host name> : the realm MIT's [domain_realm] resolution gives the host ("" = none) */
            setenv("KRB5_CONFIG", tok[1], 1);
            krb5_context c2; char **realms = NULL; krb5_error_code rc = krb5_init_context(&c2);
            if (!rc) rc = krb5_get_host_realm(c2, tok[2], &realms);
            printf("{\"rc\":%d,\"realm\":\"%s\",\"out\":\"\"}\n", (int)rc, (!rc && realms && realms[0]) ? realms[0] : "");
            if (!rc && realms) krb5_free_host_realm(c2, realms);
            if (c2) krb5_free_context(c2);
        } else if (!strcmp(tok[0], "gssinit") && nt == 5) {
            /* gssinit <user@REALM> <password> <service@host> <spnego|krb5> : log in and print the initiator's first context token */
            krb5_principal me = NULL; krb5_creds tgt; krb5_ccache cc = NULL; krb5_get_init_creds_opt *opt = NULL; memset(&tgt, 0, sizeof tgt);
            krb5_error_code rc = krb5_parse_name(ctx, tok[1], &me);
            if (!rc) rc = krb5_get_init_creds_opt_alloc(ctx, &opt);
            if (!rc) rc = krb5_get_init_creds_password(ctx, &tgt, me, tok[2], NULL, NULL, 0, NULL, opt);
            if (!rc) rc = krb5_cc_default(ctx, &cc);
            if (!rc) rc = krb5_cc_initialize(ctx, cc, me);
            if (!rc) rc = krb5_cc_store_cred(ctx, cc, &tgt);
            OM_uint32 maj = 0, min = 0; gss_name_t target = GSS_C_NO_NAME; gss_ctx_id_t c = GSS_C_NO_CONTEXT;
            gss_buffer_desc nb = {strlen(tok[3]), tok[3]}, itok = {0, NULL};
            static gss_OID_desc spnego_oid = {6, (void *)"\x2b\x06\x01\x05\x05\x02"};
            if (!rc) { maj = gss_import_name(&min, &nb, GSS_C_NT_HOSTBASED_SERVICE, &target); if (GSS_ERROR(maj)) rc = -2; }
            if (!rc) {
                maj = gss_init_sec_context(&min, GSS_C_NO_CREDENTIAL, &c, target, !strcmp(tok[4], "spnego") ? &spnego_oid : (gss_OID)gss_mech_krb5, GSS_C_INTEG_FLAG, 0,
                                           GSS_C_NO_CHANNEL_BINDINGS, GSS_C_NO_BUFFER, NULL, &itok, NULL, NULL);
                if (GSS_ERROR(maj)) rc = -3;
            }
            printf("{\"rc\":%d,\"major\":%u,\"minor\":%u,", (int)rc, (unsigned)maj, (unsigned)min); puthex("token", rc ? (unsigned char *)"" : itok.value, rc ? 0 : itok.length);
            printf(",\"out\":\"\"}\n");
        } else if (!strcmp(tok[0], "gssaccept") && nt == 2) {
            /* gssaccept <token> : a fresh acceptor (keytab KRB5_KTNAME, any principal in it) is given an initial context token (SPNEGO or raw
             * Kerberos); prints whether it was accepted, the client's name and the service principal the ticket was issued for */
            unsigned char *t; int n = unhex(tok[1], &t); gss_buffer_desc in = {n, t}, outb = {0, NULL}, cn = {0, NULL}, sn = {0, NULL};
            gss_ctx_id_t c = GSS_C_NO_CONTEXT; gss_name_t client = GSS_C_NO_NAME, targ = GSS_C_NO_NAME; OM_uint32 min = 0, maj, m2;
            maj = gss_accept_sec_context(&min, &c, GSS_C_NO_CREDENTIAL, &in, GSS_C_NO_CHANNEL_BINDINGS, &client, NULL, &outb, NULL, NULL, NULL);
            if (!GSS_ERROR(maj) && client != GSS_C_NO_NAME) gss_display_name(&m2, client, &cn, NULL);
            if (!GSS_ERROR(maj) && c != GSS_C_NO_CONTEXT && !GSS_ERROR(gss_inquire_context(&m2, c, NULL, &targ, NULL, NULL, NULL, NULL, NULL)) && targ != GSS_C_NO_NAME) gss_display_name(&m2, targ, &sn, NULL);
            printf("{\"rc\":0,\"major\":%u,\"minor\":%u,\"complete\":%s,\"client\":\"", (unsigned)maj, (unsigned)min, maj == GSS_S_COMPLETE ? "true" : "false");
            for (size_t i = 0; i < cn.length; i++) { char ch = ((char *)cn.value)[i]; if (ch != '"' && ch != '\\' && (unsigned char)ch >= 32) putchar(ch); }
            printf("\",\"service\":\"");
            for (size_t i = 0; i < sn.length; i++) { char ch = ((char *)sn.value)[i]; if (ch != '"' && ch != '\\' && (unsigned char)ch >= 32) putchar(ch); }
            printf("\",\"out\":\"\"}\n");
            if (c != GSS_C_NO_CONTEXT) gss_delete_sec_context(&m2, &c, GSS_C_NO_BUFFER);
        } else if (!strcmp(tok[0], "pac") && nt == 4) {
            /* pac <PAC> <etype of the key> <key> : parse the PAC and verify its server signature with the service key */
            unsigned char *pb, *kb; int np = unhex(tok[1], &pb), nk = unhex(tok[3], &kb);
            krb5_pac pac = NULL; krb5_keyblock key = {0, atoi(tok[2]), nk, kb};
            krb5_error_code prc = krb5_pac_parse(ctx, pb, np, &pac), vrc = -1;
            if (!prc) vrc = krb5_pac_verify(ctx, pac, 0, NULL, &key, NULL);
            printf("{\"rc\":%d,\"parse\":%d,\"out\":\"\"}\n", (int)vrc, (int)prc);
            if (pac) krb5_pac_free(ctx, pac);
        } else if (!strcmp(tok[0], "client") && nt == 4) {
            /* client <user@REALM> <password> <service@REALM> : MIT's client gets a TGT with the password and a service ticket from the KDC
             * of KRB5_CONFIG, then builds an AP-REQ for the service (krb5_mk_req_extended) */
            krb5_principal me = NULL, svc = NULL; krb5_creds tgt, in, *out = NULL; krb5_ccache cc = NULL; krb5_auth_context ac = NULL; krb5_data ap = {0, 0, NULL};
            memset(&tgt, 0, sizeof tgt); memset(&in, 0, sizeof in);
            krb5_get_init_creds_opt *opt = NULL;
            krb5_error_code rc = krb5_parse_name(ctx, tok[1], &me); int stage = 0;
            if (!rc) { stage = 1; rc = krb5_get_init_creds_opt_alloc(ctx, &opt); }
            if (!rc) { stage = 2; rc = krb5_get_init_creds_password(ctx, &tgt, me, tok[2], NULL, NULL, 0, NULL, opt); }
            if (!rc) { stage = 3; rc = krb5_cc_new_unique(ctx, "MEMORY", NULL, &cc); }
            if (!rc) rc = krb5_cc_initialize(ctx, cc, me);
            if (!rc) rc = krb5_cc_store_cred(ctx, cc, &tgt);
            if (!rc) { stage = 4; rc = krb5_parse_name(ctx, tok[3], &svc); }
            if (!rc) { in.client = me; in.server = svc; stage = 5; rc = krb5_get_credentials(ctx, 0, cc, &in, &out); }
            if (!rc) { stage = 6; rc = krb5_mk_req_extended(ctx, &ac, 0, NULL, out, &ap); }
            if (!rc) stage = 7;
            printf("{\"rc\":%d,\"stage\":%d,", (int)rc, stage); puthex("apreq", (unsigned char *)ap.data, rc ? 0 : ap.length);
            printf(",\"tgtEtype\":%d,\"svcEtype\":%d,", (int)tgt.keyblock.enctype, out ? (int)out->keyblock.enctype : 0);
            puthex("svcKey", out ? out->keyblock.contents : (unsigned char *)"", out ? out->keyblock.length : 0);
            const char *msg = rc ? krb5_get_error_message(ctx, rc) : "";
            printf(",\"msg\":\""); for (const char *p = msg; *p; p++) if (*p != '"' && *p != '\\' && (unsigned char)*p >= 32) putchar(*p); printf("\",\"out\":\"\"}\n");
        } else if (!strcmp(tok[0], "cc") && nt == 2) {
            char name[4200]; snprintf(name, sizeof name, "FILE:%s", tok[1]);
            krb5_ccache cc; krb5_cc_cursor cur; krb5_creds c; krb5_principal dp = NULL;
            krb5_error_code rc = krb5_cc_resolve(ctx, name, &cc);
            if (!rc) rc = krb5_cc_get_principal(ctx, cc, &dp);
            printf("{\"rc\":%d", (int)rc);
            if (!rc) {
                printf(",\"princ\":{"); puthex("realm", (unsigned char *)dp->realm.data, dp->realm.length);
                printf(",\"nt\":\"%08x\",\"comps\":[", (unsigned)dp->type);
                for (int i = 0; i < dp->length; i++) { printf("%s\"", i ? "," : ""); for (unsigned j = 0; j < dp->data[i].length; j++) printf("%02x", (unsigned char)dp->data[i].data[j]); printf("\""); }
                printf("]}");
                rc = krb5_cc_start_seq_get(ctx, cc, &cur);
            }
            printf(",\"creds\":[");
            int first = 1; krb5_error_code stop = 0;
            while (!rc && (stop = krb5_cc_next_cred(ctx, cc, &cur, &c)) == 0) {
                printf("%s{", first ? "" : ","); first = 0;
                krb5_principal ps[2] = {c.client, c.server}; const char *nm[2] = {"client", "server"};
                for (int k = 0; k < 2; k++) {
                    printf("\"%s\":{", nm[k]); puthex("realm", (unsigned char *)ps[k]->realm.data, ps[k]->realm.length);
                    printf(",\"nt\":\"%08x\",\"comps\":[", (unsigned)ps[k]->type);
                    for (int i = 0; i < ps[k]->length; i++) { printf("%s\"", i ? "," : ""); for (unsigned j = 0; j < ps[k]->data[i].length; j++) printf("%02x", (unsigned char)ps[k]->data[i].data[j]); printf("\""); }
                    printf("]},");
                }
                printf("\"ktype\":%d,", (int)c.keyblock.enctype); puthex("key", c.keyblock.contents, c.keyblock.length);
                printf(",\"auth\":\"%08x\",\"start\":\"%08x\",\"end\":\"%08x\",\"renew\":\"%08x\",\"skey\":%d,\"flags\":\"%08x\",",
                       (unsigned)c.times.authtime, (unsigned)c.times.starttime, (unsigned)c.times.endtime, (unsigned)c.times.renew_till, (int)c.is_skey, (unsigned)c.ticket_flags);
                printf("\"addrs\":[");
                for (int i = 0; c.addresses && c.addresses[i]; i++) { printf("%s{\"t\":%d,", i ? "," : "", (int)c.addresses[i]->addrtype); puthex("d", c.addresses[i]->contents, c.addresses[i]->length); printf("}"); }
                printf("],\"ad\":[");
                for (int i = 0; c.authdata && c.authdata[i]; i++) { printf("%s{\"t\":%d,", i ? "," : "", (int)c.authdata[i]->ad_type); puthex("d", c.authdata[i]->contents, c.authdata[i]->length); printf("}"); }
                printf("],"); puthex("ticket", (unsigned char *)c.ticket.data, c.ticket.length); printf(","); puthex("ticket2", (unsigned char *)c.second_ticket.data, c.second_ticket.length);
                printf("}");
                krb5_free_cred_contents(ctx, &c);
            }
            printf("],\"stop\":%d}\n", (int)stop);
        } else {
            printf("{\"rc\":-1,\"out\":\"\"}\n");
        }
        fflush(stdout);
    }
    return 0;
}
