---------------------------- MODULE MCAPExchange ----------------------------
EXTENDS APExchange
\* requests: the nominal one and every single-field deviation of it
Singles == { <<f, v>> : f \in Fields, v \in UNION { Domain[g] : g \in Fields } } \cap
           { fv \in (Fields \X UNION { Domain[g] : g \in Fields }) : fv[2] \in Domain[fv[1]] /\ fv[2] # Nominal[fv[1]] }
MCRequests == [ fv \in Singles \cup {<<"nominal", "nominal">>} |->
                  IF fv[1] = "nominal" THEN Nominal ELSE [Nominal EXCEPT ![fv[1]] = fv[2]] ]
MCSettings == { s \in SettingsSpace : s.skew = "default" }
RcBound == Cardinality(rc) <= 1
=============================================================================
