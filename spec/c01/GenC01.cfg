CONSTANTS Requests <- NoReq  Settings = {}
INIT Init
NEXT Next
CHECK_DEADLOCK FALSE
