----------------------------- MODULE TraceMITAP -----------------------------
(***************************************************************************)
(* Validation of the SPECIFICATION APExchange (the oracle of C01 and C03)   *)
(* against MIT Kerberos' acceptor: the AP-REQs the C01 harness minted for   *)
(* the abstract cases are given, with the same keytab, to krb5_rd_req       *)
(* (spec/mit/mitref.c); MIT must accept exactly the requests for which      *)
(* Accept holds at the instant MIT looked at them.                          *)
(* Compared is the part of the case space an RFC 4120 acceptor without      *)
(* gokrb5's options decides too: default clock skew, no keytab principal    *)
(* override, no required address, no PAC decoding; the service principal    *)
(* is the one the ticket names; ticket key version stated (MIT resolves     *)
(* "any version" by the highest number, gokrb5 by the newest time stamp).   *)
(* MIT's replay cache is switched off (KRB5RCACHETYPE=none): replays are    *)
(* C02's subject.                                                          *)
(***************************************************************************)
EXTENDS APExchange, Json
CONSTANTS NShards
Tr == ndJsonDeserialize("trace.ndjson")
NLines == Len(Tr)
VARIABLES sh, l
LT == INSTANCE LineTrace
NoReq == << >>
\* instants are milliseconds relative to the origin of the harness run; MIT reported epoch milliseconds.
\* Kerberos times have a resolution of one second and MIT compares whole seconds, each time field on its own: a bound that is within
\* 1.5 s of being met or missed may go either way, independently for the ticket's start, its end and the authenticator's time.  So the
\* verdict is required only when it is the same with every time bound tightened by 1.5 s (then MIT must accept what Accept accepts)
\* and with every bound relaxed by 1.5 s (then MIT must refuse what Accept still refuses).
TFs(x, t, sk) == [startOK |-> x.case.start = "absent" \/ x.conc.start - t <= sk,
                  endOK   |-> t - x.conc.end <= sk,
                  skewOK  |-> x.conc.ctime - t <= sk /\ t - x.conc.ctime <= sk]
AccWith(x, t, sk) == Accept(x.case, x.settings, TFs(x, t, sk), FALSE)
Slack == 1500
LineOK(x) == LET t0 == x.t0 - x.origin  t1 == x.t1 - x.origin IN
             /\ (AccWith(x, t0, x.conc.skew - Slack) /\ AccWith(x, t1, x.conc.skew - Slack)) => x.rc = 0
             /\ (~AccWith(x, t0, x.conc.skew + Slack) /\ ~AccWith(x, t1, x.conc.skew + Slack)) => x.rc # 0
TInit == LT!Init /\ Init
TNext == LT!Next /\ UNCHANGED vars
Check == ~LT!Active \/ LineOK(Tr[l]) \/ PrintT(<<"BADLINE", l>>)
=============================================================================
