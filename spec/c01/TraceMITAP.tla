----------------------------- MODULE TraceMITAP -----------------------------
(***************************************************************************)
(* Validation of the SPECIFICATION APExchange (the oracle of C01 and C03)   *)
(* against MIT Kerberos' acceptor: the AP-REQs the C01 harness minted for   *)
(* the abstract cases are given, with the same keytab, to krb5_rd_req       *)
(* (spec/mit/mitref.c); MIT must accept exactly the requests for which      *)
(* Accept holds at the instant MIT looked at them.                          *)
(* Compared is the part of the case space an RFC 4120 acceptor without      *)
(* gokrb5's options decides too: default clock skew, no keytab principal    *)
(* override, no required address, no PAC decoding; the service principal    *)
(* is the one the ticket names; ticket key version stated (MIT resolves     *)
(* "any version" by the highest number, gokrb5 by the newest time stamp).   *)
(* MIT's replay cache is switched off (KRB5RCACHETYPE=none): replays are    *)
(* C02's subject.                                                          *)
(***************************************************************************)
EXTENDS APExchange, Json
CONSTANTS NShards
Tr == ndJsonDeserialize("trace.ndjson")
NLines == Len(Tr)
VARIABLES sh, l
LT == INSTANCE LineTrace
NoReq == << >>
\* instants are milliseconds relative to the origin of the harness run; MIT reported epoch milliseconds
TF(x, t) == [startOK |-> x.case.start = "absent" \/ x.conc.start - t <= x.conc.skew,
             endOK   |-> t - x.conc.end <= x.conc.skew,
             skewOK  |-> x.conc.ctime - t <= x.conc.skew /\ t - x.conc.ctime <= x.conc.skew]
Acc(x, t) == Accept(x.case, x.settings, TF(x, t), FALSE)
\* Kerberos times have a resolution of one second (MIT compares whole seconds): the verdict is required only when it is the same
\* over the whole interval from one second before to one second after MIT's call
LineOK(x) == LET t0 == x.t0 - x.origin - 1000  t1 == x.t1 - x.origin + 1000  tm == (t0 + t1) \div 2 IN
             /\ (Acc(x, t0) /\ Acc(x, tm) /\ Acc(x, t1)) => x.rc = 0
             /\ (~Acc(x, t0) /\ ~Acc(x, tm) /\ ~Acc(x, t1)) => x.rc # 0
TInit == LT!Init /\ Init
TNext == LT!Next /\ UNCHANGED vars
Check == ~LT!Active \/ LineOK(Tr[l]) \/ PrintT(<<"BADLINE", l>>)
=============================================================================
