------------------------------- MODULE GenC01 -------------------------------
(* role B: the abstract case space of C01 - the nominal request, every single deviation, every pair of deviations -
   and the settings space, written as JSON for the harness, which concretises (keys, names, instants) and crosses
   them with the six etypes. *)
EXTENDS APExchange, Json, SequencesExt
Dev == UNION { { <<f, v>> : v \in Domain[f] \ {Nominal[f]} } : f \in Fields }
Single(d) == [Nominal EXCEPT ![d[1]] = d[2]]
Pair(d, e) == [Single(d) EXCEPT ![e[1]] = e[2]]
NoReq == << >>
FieldOrder == SetToSeq(Fields)
Idx(f) == CHOOSE i \in 1..Len(FieldOrder) : FieldOrder[i] = f
Singles == { [case |-> Single(d), devs |-> <<d[1]>>] : d \in Dev }
Pairs == { [case |-> Pair(de[1], de[2]), devs |-> <<de[1][1], de[2][1]>>] : de \in { x \in Dev \X Dev : Idx(x[1][1]) < Idx(x[2][1]) } }
ASSUME ndJsonSerialize("cases.ndjson", <<[case |-> Nominal, devs |-> << >>]>> \o SetToSeq(Singles) \o SetToSeq(Pairs))
ASSUME ndJsonSerialize("settings.ndjson", SetToSeq(SettingsSpace))
ASSUME PrintT(<<"COUNTS", Cardinality(Singles), Cardinality(Pairs), Cardinality(SettingsSpace)>>)
=============================================================================
