----------------------------- MODULE APExchange -----------------------------
(***************************************************************************)
(* C01: RFC 4120 section 3.2.3 - when does a service accept an AP-REQ, and *)
(* which identity does it report.                                          *)
(*                                                                         *)
(* A request r is described relative to the service's keytab KT, clock and *)
(* settings s.  The keytab is adversarial: next to the entry the ticket's  *)
(* labels should select there is a neighbouring entry for every criterion  *)
(* (other realm, other kvno, other principal, other etype, a prefix of the *)
(* principal), each newer than the selected one, so that a look-up that    *)
(* ignores a criterion finds a key and flips the verdict.                  *)
(***************************************************************************)
EXTENDS Integers, Sequences, FiniteSets, TLC

\* ---- the keytab model (the harness builds exactly these entries, per etype E and a second etype E2) -------------
KT == { [id |-> "sel",    princ |-> "P",  realm |-> "R",  kvno |-> 2, et |-> "E",  ts |-> 1],
        [id |-> "oRealm", princ |-> "P",  realm |-> "R2", kvno |-> 2, et |-> "E",  ts |-> 2],
        [id |-> "oKvno",  princ |-> "P",  realm |-> "R",  kvno |-> 3, et |-> "E",  ts |-> 2],
        [id |-> "oPrinc", princ |-> "Q",  realm |-> "R",  kvno |-> 2, et |-> "E",  ts |-> 2],
        [id |-> "oEtype", princ |-> "P",  realm |-> "R",  kvno |-> 2, et |-> "E2", ts |-> 2],
        [id |-> "prefix", princ |-> "P1", realm |-> "R",  kvno |-> 2, et |-> "E",  ts |-> 2] }   \* P1: first component of P only
NoEntry == [id |-> "none"]

PacValues == {"none", "valid", "badServerSig", "noClientInfo", "malformed"}   \* PACs minted from the sample PAC, re-signed for the service key (C19's minting)
\* ---- abstract request fields and their nominal values ------------------------------------------------------------
Domain == [ sealedBy   |-> {"sel", "oRealm", "oKvno", "oPrinc", "oEtype", "prefix", "none"},  \* whose key sealed the ticket
            kvnoLabel  |-> {"k2", "k0", "k3", "k258"},               \* k258 = 2 + 256: equal to the entry only modulo 256
            realmLabel |-> {"R", "R2"},
            snameLabel |-> {"P", "Q", "Z", "empty"},          \* Z: not in the keytab; empty: no name components
            etLabel    |-> {"E", "E2"},
            tktCipher  |-> {"intact", "flippedBody", "flippedMac", "truncated"},
            tktUsage   |-> {"right", "other"},
            trailer    |-> {"none", "clearCopy"},   \* a cleartext copy of the EncTicketPart appended to the Ticket SEQUENCE: unauthenticated, must be ignored
            start      |-> {"absent", "past", "futureInside", "futureOutside"},
            end        |-> {"future", "pastInside", "pastOutside"},
            invalid    |-> {"no", "yes"},
            caddr      |-> {"none", "containsClient", "otherOnly"},
            authKey    |-> {"session", "other"},
            authUsage  |-> {"right", "other"},
            authCipher |-> {"intact", "flipped", "truncated"},
            cname      |-> {"match", "differs", "empty", "caseOnly"},      \* caseOnly: the same letters in another case (names are case sensitive)
            crealm     |-> {"match", "differs", "caseOnly"},
            ctime      |-> {"now", "pastInside", "pastOutside", "futureInside", "futureOutside"},
            pac        |-> PacValues ]
Fields == DOMAIN Domain
Nominal == [ sealedBy |-> "sel", kvnoLabel |-> "k2", realmLabel |-> "R", snameLabel |-> "P", etLabel |-> "E",
             tktCipher |-> "intact", tktUsage |-> "right", trailer |-> "none", start |-> "past", end |-> "future", invalid |-> "no",
             caddr |-> "none", authKey |-> "session", authUsage |-> "right", authCipher |-> "intact",
             cname |-> "match", crealm |-> "match", ctime |-> "now", pac |-> "none" ]
\* settings
SettingsSpace == [ skew : {"default", "s60", "s10"}, requireHostAddr : BOOLEAN, clientAddr : {"unset", "set"},
                   override : {"none", "P", "Q", "Z"}, decodePAC : BOOLEAN ]

\* ---- the decision procedure, condition by condition ----------------------------------------------------------------
\* the principal the key is looked up for: the configured override, else the ticket's sname
LookupPrinc(r, s) == IF s.override = "none" THEN r.snameLabel ELSE s.override
KvnoOf == [k2 |-> 2, k0 |-> 0, k3 |-> 3, k258 |-> 258]
\* Keytab look-up (see C14): equal principal, realm, etype, and kvno (any kvno if 0); the newest such entry
Candidates(r, s) == { e \in KT : /\ e.princ = LookupPrinc(r, s) /\ e.realm = r.realmLabel /\ e.et = r.etLabel
                                 /\ (r.kvnoLabel = "k0" \/ e.kvno = KvnoOf[r.kvnoLabel]) }
SelectedEntry(r, s) == IF Candidates(r, s) = {} THEN NoEntry
                       ELSE CHOOSE e \in Candidates(r, s) : \A f \in Candidates(r, s) : f.ts <= e.ts
TicketDecrypts(r, s) == /\ SelectedEntry(r, s).id = r.sealedBy /\ r.sealedBy # "none"
                        /\ r.tktCipher = "intact" /\ r.tktUsage = "right"
\* "if the ticket lists addresses, the sender's must be among them" - an unconfigured client address is among none
AddrOK(r, s) == (r.caddr # "none") => (r.caddr = "containsClient" /\ s.clientAddr = "set")
AuthOK(r) == r.authKey = "session" /\ r.authUsage = "right" /\ r.authCipher = "intact"
MatchOK(r) == r.cname = "match" /\ r.crealm = "match"
HostAddrOK(r, s) == s.requireHostAddr => r.caddr # "none"
\* tf = [startOK, endOK, skewOK]: the time-dependent facts at the instant of verification
ReachesReplayCheck(r, s, tf) == /\ TicketDecrypts(r, s) /\ r.invalid = "no" /\ tf.startOK /\ tf.endOK /\ AddrOK(r, s)
                                /\ AuthOK(r) /\ MatchOK(r) /\ tf.skewOK /\ HostAddrOK(r, s)
PacOK(r, s) == (s.decodePAC /\ r.pac # "none") => r.pac = "valid"
Accept(r, s, tf, replayed) == ReachesReplayCheck(r, s, tf) /\ ~replayed /\ PacOK(r, s)
\* time facts from the abstract labels (used by the state machine; traces use recorded instants instead)
LabelTF(r) == [startOK |-> r.start # "futureOutside", endOK |-> r.end # "pastOutside",
               skewOK |-> r.ctime \notin {"pastOutside", "futureOutside"}]

\* ---- a small state machine: the service presents requests; rc is the replay cache (C02's abstract cache) --------------
CONSTANTS Requests, Settings       \* finite sets of request ids -> records; supplied by the model config
VARIABLES rc, result
vars == <<rc, result>>
Init == rc = {} /\ result = [ok |-> FALSE, id |-> "none", req |-> "none"]
Present(q, s) == LET r == Requests[q] IN
                 /\ result' = [ok |-> Accept(r, s, LabelTF(r), q \in rc), id |-> IF Accept(r, s, LabelTF(r), q \in rc) THEN "sealed" ELSE "none", req |-> q]
                 /\ rc' = IF ReachesReplayCheck(r, s, LabelTF(r)) THEN rc \cup {q} ELSE rc
Next == \E q \in DOMAIN Requests, s \in Settings : Present(q, s)
Spec == Init /\ [][Next]_vars
\* sanity of the specification: acceptance implies every RFC 4120 3.2.3 condition
AcceptImplies == \A q \in DOMAIN Requests, s \in Settings :
  LET r == Requests[q] IN Accept(r, s, LabelTF(r), FALSE) =>
     /\ r.sealedBy \in {e.id : e \in KT} /\ r.tktCipher = "intact" /\ r.invalid = "no"
     /\ r.start # "futureOutside" /\ r.end # "pastOutside" /\ r.authKey = "session" /\ r.authCipher = "intact"
     /\ r.cname = "match" /\ r.crealm = "match" /\ r.ctime \in {"now", "pastInside", "futureInside"}
     /\ (r.caddr = "otherOnly" => FALSE) /\ (s.requireHostAddr => r.caddr = "containsClient")
\* a request id is accepted at most once (with C02's atomic cache)
AcceptedOnce == [][\A q \in DOMAIN Requests : (result'.ok /\ result'.req = q) => q \notin rc]_vars
IdentityIsSealed == result.ok => result.id = "sealed"
=============================================================================
