--------------------------- MODULE TraceMITClient ---------------------------
(***************************************************************************)
(* Interoperability with an independent implementation (vh mitclient): one  *)
(* line per scenario (etype x with/without pre-authentication x service in  *)
(* the client's realm / reached through a referral).  MIT Kerberos' client  *)
(* library logs in at the simulated KDC, obtains the service ticket and     *)
(* builds an AP-REQ (stage 7 = all of that succeeded); gokrb5's service     *)
(* side is given that AP-REQ - a valid request for its principal, sealed by *)
(* the KDC with its key: APExchange!Accept holds for it - and must accept   *)
(* it and report the client the KDC sealed into the ticket.                 *)
(***************************************************************************)
EXTENDS Integers, Sequences, TLC, Json
CONSTANTS NShards
Tr == ndJsonDeserialize("trace.ndjson")
NLines == Len(Tr)
VARIABLES sh, l
LT == INSTANCE LineTrace
LineOK(x) == /\ x.mitStage = 7 /\ x.mitRC = 0            \* the independent client accepts the simulated KDC's replies
             /\ x.panic = "" /\ x.accepted                \* gokrb5 accepts the independent client's request
             /\ x.idName = x.user /\ x.idRealm = x.realm  \* and reports the sealed identity
Init == LT!Init
Next == LT!Next
Check == ~LT!Active \/ LineOK(Tr[l]) \/ PrintT(<<"BADLINE", l>>)
=============================================================================
