--------------------------- MODULE TraceMITClient ---------------------------
(***************************************************************************)
(* Interoperability with an independent implementation (vh mitclient): one  *)
(* line per scenario (etype x with/without pre-authentication x service in  *)
(* the client's realm / reached through a referral).  MIT Kerberos' client  *)
(* library logs in at the simulated KDC, obtains the service ticket and     *)
(* builds an AP-REQ (stage 7 = all of that succeeded); gokrb5's service     *)
(* side is given that AP-REQ - a valid request for its principal, sealed by *)
(* the KDC with its key: APExchange!Accept holds for it - and must accept   *)
(* it and report the client the KDC sealed into the ticket.                 *)
(***************************************************************************)
EXTENDS Integers, Sequences, TLC, Json
CONSTANTS NShards
Tr == ndJsonDeserialize("trace.ndjson")
NLines == Len(Tr)
VARIABLES sh, l
LT == INSTANCE LineTrace
LineOK(x) == /\ x.mitStage = 7 /\ x.mitRC = 0            \* the independent client accepts the simulated KDC's replies
             /\ x.panic = "" /\ x.accepted                \* gokrb5 accepts the independent client's request
             /\ x.idName = x.user /\ x.idRealm = x.realm  \* and reports the sealed identity
             \* MIT's initiator through gokrb5's HTTP wrapper (C03, positive direction): its SPNEGO token is served with the user's identity;
             \* its raw Kerberos mechanism token may be served or refused, but only with that identity and never with a panic
             /\ x.http_spnego.tried => (x.http_spnego.panic = "" /\ x.http_spnego.served /\ x.http_spnego.identity = x.who)
             \* the credential cache MIT wrote is read by gokrb5 (C15 with a file MIT made): the default principal is the user, and a client
             \* built from it obtains a service ticket from the simulated KDC with MIT's ticket granting ticket
             /\ x.mitCCache.tried => (x.mitCCache.panic = "" /\ x.mitCCache.loaded /\ x.mitCCache.principal = x.who /\ x.mitCCache.clientBuilt /\ x.mitCCache.ticket)
             /\ x.http_krb5.tried => (x.http_krb5.panic = "" /\ (x.http_krb5.served => x.http_krb5.identity = x.who))
Init == LT!Init
Next == LT!Next
Check == ~LT!Active \/ LineOK(Tr[l]) \/ PrintT(<<"BADLINE", l>>)
=============================================================================
