CONSTANTS NShards = 16  Requests <- NoReq  Settings = {}
INIT TInit
NEXT TNext
INVARIANT Check
CHECK_DEADLOCK FALSE
