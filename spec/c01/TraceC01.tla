------------------------------ MODULE TraceC01 ------------------------------
(* C01 trace validation.  One line = one abstract case (x.case, x.settings), its concretisation (x.conc: instants in
   ms relative to the trace origin, skew in ms) and the observation of two consecutive presentations of the minted
   AP-REQ to service.VerifyAPREQ (x.p1, x.p2: ok, panic, identity relations, t0/t1 = instants immediately before and
   after the call).  Time-dependent conjuncts are evaluated from the recorded instants at both t0 and t1; a line whose
   verdict differs between them is time-ambiguous and either outcome is accepted. *)
EXTENDS APExchange, Json
CONSTANTS NShards
Tr == ndJsonDeserialize("trace.ndjson")
NLines == Len(Tr)
VARIABLES sh, l
LT == INSTANCE LineTrace
NoReq == << >>
TF(x, t) == [startOK |-> x.case.start = "absent" \/ x.conc.start - t <= x.conc.skew,
             endOK   |-> t - x.conc.end <= x.conc.skew,
             skewOK  |-> x.conc.ctime - t <= x.conc.skew /\ t - x.conc.ctime <= x.conc.skew]
Acc(x, t) == Accept(x.case, x.settings, TF(x, t), FALSE)
Reach(x, t) == ReachesReplayCheck(x.case, x.settings, TF(x, t))
Instants(x) == {x.p1.t0, x.p1.t1, x.p2.t0, x.p2.t1}
\* the identity reported on success: the client principal is the ticket's; the user name is the ticket's cname, or - when
\* the ticket carries a PAC that was verified - the account name inside that PAC (also sealed in the ticket by the KDC)
NameOK(x, p) == /\ p.cnameIsTickets
                /\ \/ p.userNameSrc = "ticket"
                   \/ p.userNameSrc = "pac" /\ x.case.pac = "valid" /\ x.settings.decodePAC
FirstOK(x) ==
  /\ x.p1.panic = ""
  /\ (Acc(x, x.p1.t0) /\ Acc(x, x.p1.t1)) => (x.p1.ok /\ NameOK(x, x.p1) /\ x.p1.realmIsTickets /\ x.p1.untilIsTicketsEnd)
  /\ (~Acc(x, x.p1.t0) /\ ~Acc(x, x.p1.t1)) => ~x.p1.ok
  \* whatever the verdict: an identity is reported only on success, and then it is the sealed one
  /\ x.p1.ok => (NameOK(x, x.p1) /\ x.p1.realmIsTickets /\ x.p1.untilIsTicketsEnd)
\* the second presentation of the same AP-REQ: a replay if the first reached the replay check, else the same verdict
SecondOK(x) ==
  /\ x.p2.panic = ""
  /\ x.p2.ok => /\ (\E t \in Instants(x) : ~Reach(x, t)) /\ (\E t \in Instants(x) : Acc(x, t))   \* only explainable by time
                /\ NameOK(x, x.p2) /\ x.p2.realmIsTickets /\ x.p2.untilIsTicketsEnd
LineOK(x) == FirstOK(x) /\ SecondOK(x)
TInit == LT!Init /\ Init
TNext == LT!Next /\ UNCHANGED vars
Check == ~LT!Active \/ LineOK(Tr[l]) \/ PrintT(<<"BADLINE", l>>)
=============================================================================
