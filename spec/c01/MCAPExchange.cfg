CONSTANTS Requests <- MCRequests  Settings <- MCSettings
SPECIFICATION Spec
INVARIANTS AcceptImplies IdentityIsSealed
PROPERTY AcceptedOnce
CONSTRAINT RcBound
CHECK_DEADLOCK FALSE
