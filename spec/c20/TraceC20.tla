------------------------------ MODULE TraceC20 ------------------------------
(* C20 trace validation.  ev = "surface": after an operation sequence, one output of one surface and the list of marker
   secrets found in it (kind of secret, encoding); ev = "truncation": the error returned for a secret-bearing keytab /
   ccache image cut at one offset and the markers found in its text.  The model allows no label on any output. *)
EXTENDS SecretFlow, Json
CONSTANTS NShards
Tr == ndJsonDeserialize("trace.ndjson")
NLines == Len(Tr)
VARIABLES sh, l
LT == INSTANCE LineTrace
LineOK(x) == x.hits = << >> /\ x.panic = ""
TInit == LT!Init /\ Init
TNext == LT!Next /\ UNCHANGED vars
Check == ~LT!Active \/ LineOK(Tr[l]) \/ PrintT(<<"BADLINE", l>>)
=============================================================================
