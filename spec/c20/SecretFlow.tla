------------------------------ MODULE SecretFlow ------------------------------
(***************************************************************************)
(* C20: where secrets live and where they must never show.                 *)
(* Objects of the library hold secret LABELS:                              *)
(*   password   the user's password            ltkey    long-term keys     *)
(*   tgtkey     TGT session key                svckey   service session key*)
(*   subkey     authenticator subkey                                       *)
(* Operations move labels between objects (login derives ltkey from        *)
(* password and stores tgtkey in the session; a ticket request stores      *)
(* svckey in the cache; decrypting a ticket / KRB-PRIV puts the plaintext  *)
(* labels into the message object ...).  An OUTPUT operation renders an    *)
(* object on a diagnostic surface or on the wire.  The property: no output *)
(* ever carries a label - the renderings have to drop them.  The model     *)
(* checks that the intended renderings (Filter) satisfy this for every     *)
(* operation sequence, and enumerates the sequences the harness executes   *)
(* with high-entropy marker secrets; every output of the real code is then *)
(* searched for each marker in raw, hex and base64 form.                   *)
(***************************************************************************)
EXTENDS Integers, Sequences, FiniteSets, TLC
Labels == {"password", "ltkey", "tgtkey", "svckey", "subkey"}
Objects == {"credentials", "keytab", "session", "cache", "ticket", "apreq", "krbpriv", "config", "error", "log"}
Surfaces == {"json", "print", "diagnostics", "gob", "wire", "errortext", "logline"}
Ops == {"login", "loginBadPassword", "getTicket", "getTicketUnknown", "serviceVerify", "decryptTicket", "krbPrivRoundTrip", "destroy",
        "keyLookupMiss",        \* key look-ups that fail although the keytab holds keys of that principal (other kvno / etype), directly and through the service
        "embedTicket",
        "basicAuth",            \* service.KRB5BasicAuthenticator on right and wrong passwords, passwords with ':' '@' and a backslash in them, values that are no pair
        "loginOddKDC",          \* logins at KDCs that answer with client referrals (also in a loop), every pre-authentication error, other KRB-ERRORs, a reply to another request, a dead connection
        "diagnoseMisfit",       \* Client.Diagnostics / Print of clients whose keytab does not fit their realm or configuration (another realm, another spelling, another etype, no KDC, no entries)
        "changePassword"}       \* Client.ChangePasswd against the password-change service, answered by the service or by an attacker (refusal, reflection of the request, forged and damaged replies)          \* a ticket that was decrypted in place is embedded in other messages (additional tickets, KDC replies, ticket sequences) and encoded
CONSTANTS MaxOps
VARIABLES holds, trail, out
vars == <<holds, trail, out>>
Init == /\ holds = [o \in Objects |-> IF o = "credentials" THEN {"password"} ELSE IF o = "keytab" THEN {"ltkey"} ELSE {}]
        /\ trail = << >> /\ out = {}
Add(h, o, L) == [h EXCEPT ![o] = @ \cup L]
\* what each operation does to the labels held by the objects
Effect(op, h) ==
  CASE op = "login" -> Add(Add(h, "session", {"tgtkey"}), "credentials", {"ltkey"})
    [] op = "loginBadPassword" -> Add(h, "error", {})                       \* the error must not quote the password it was given
    [] op = "getTicket" -> Add(Add(h, "cache", {"svckey"}), "apreq", {"subkey"})
    [] op = "getTicketUnknown" -> h
    [] op = "serviceVerify" -> Add(Add(h, "ticket", {"svckey"}), "apreq", {"svckey", "subkey"})   \* the service decrypts ticket and authenticator
    [] op = "decryptTicket" -> Add(h, "ticket", {"svckey"})
    [] op = "krbPrivRoundTrip" -> Add(h, "krbpriv", {"subkey"})
    [] op = "keyLookupMiss" -> Add(h, "error", {})                          \* the error names what was asked for, never what the keytab holds
    [] op = "basicAuth" -> Add(Add(h, "error", {}), "log", {})                   \* what it says about a refused pair never quotes the pair
    [] op = "loginOddKDC" -> Add(Add(h, "error", {}), "log", {})                 \* what the library says about such answers names realms and codes, never what the credentials hold
    [] op = "embedTicket" -> Add(h, "ticket", {"svckey"})
    [] op = "diagnoseMisfit" -> Add(h, "error", {})                         \* the complaints name what is missing, never what the keytab holds
    [] op = "changePassword" -> Add(Add(h, "credentials", {"password"}), "error", {})   \* the new password is a secret from the moment it is passed in
    [] op = "destroy" -> [h EXCEPT !["session"] = {}, !["cache"] = {}, !["credentials"] = {}]
Do(op) == /\ Len(trail) < MaxOps /\ holds' = Effect(op, holds) /\ trail' = Append(trail, op) /\ UNCHANGED out
\* the intended rendering: every surface drops every label (keys are json:"-", gob stores booleans, the wire form of a
\* decrypted message is the four/three fields of its ASN.1 type, errors and log lines never format key material)
Filter(o, s) == {}
Output(o, s) == out' = out \cup { <<o, s, l>> : l \in (holds[o] \cap Filter(o, s)) } /\ UNCHANGED <<holds, trail>>
Next == (\E op \in Ops : Do(op)) \/ (\E o \in Objects, s \in Surfaces : Output(o, s))
Spec == Init /\ [][Next]_vars
NoLeak == out = {}
\* secrets do reach the objects (the property is not vacuous: there is something to leak)
SomethingToLeak == <>(\E o \in Objects \ {"credentials", "keytab"} : holds[o] # {})
Sequences == UNION { [1..n -> Ops] : n \in 1..MaxOps }
=============================================================================
