CONSTANTS NShards = 16  MaxOps = 0
INIT TInit
NEXT TNext
INVARIANT Check
CHECK_DEADLOCK FALSE
