------------------------------- MODULE GenC20 -------------------------------
EXTENDS SecretFlow, Json, SequencesExt
\* a destroyed client cannot do anything more: sequences continue after destroy only with service-side operations
Sensible(s) == \A i \in 1..Len(s) : s[i] = "destroy" => \A j \in (i + 1)..Len(s) : s[j] \in {"serviceVerify", "decryptTicket", "krbPrivRoundTrip", "keyLookupMiss", "embedTicket", "diagnoseMisfit", "basicAuth"}
ASSUME ndJsonSerialize("sequences.ndjson", SetToSeq({ [ops |-> s] : s \in { q \in Sequences : Sensible(q) } }))
ASSUME PrintT(<<"COUNTS", Cardinality({ q \in Sequences : Sensible(q) })>>)
=============================================================================
