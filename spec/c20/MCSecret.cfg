CONSTANTS MaxOps = 3
SPECIFICATION Spec
INVARIANT NoLeak
CHECK_DEADLOCK FALSE
