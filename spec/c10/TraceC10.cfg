CONSTANTS NShards = 16  SPNs = {}  TktLife = 0  TGTLife = 0  MaxClock = 0
INIT TInit
NEXT TNext
INVARIANT Check
CHECK_DEADLOCK FALSE
