CONSTANTS SPNs = {"s1", "s2"}  TktLife = 2  TGTLife = 3  MaxClock = 4
SPECIFICATION Spec
INVARIANTS RightTicket ServedOnlyWhileValid CacheConsistent
CONSTRAINT Bound
CHECK_DEADLOCK FALSE
