---------------------------- MODULE ClientTickets ----------------------------
(***************************************************************************)
(* C10: the client's ticket handling over time, against a conformant KDC.  *)
(* State: a clock; the KDC's log of issued tickets; the client's TGT       *)
(* session and service-ticket cache.  Client operations: Login,            *)
(* Get(spn) (from the cache while valid, else renewed or requested         *)
(* afresh), Wait, Destroy; a silent AutoRenew.  The properties are stated  *)
(* on what an operation RETURNS:                                           *)
(*   RightTicket          a returned (ticket, key) is one issue record of  *)
(*                        the KDC for the requested spn                    *)
(*   ServedOnlyWhileValid and clock < end of that ticket at return         *)
(* The same predicates (IssuedFor, ValidAt, WellFormedReq, ReferralBound)  *)
(* judge the recorded traces of the real client (TraceC10).                *)
(***************************************************************************)
EXTENDS Integers, Sequences, FiniteSets, TLC
CONSTANTS SPNs, TktLife, TGTLife, MaxClock
VARIABLES clock, issued, session, cache, ret, destroyed,
          up          \* FALSE during an outage of the KDC: nothing is issued then, what is cached and valid is still served
vars == <<clock, issued, session, cache, ret, destroyed, up>>
NoTkt == [id |-> 0, spn |-> "none", end |-> 0]
Init == clock = 0 /\ issued = << >> /\ session = NoTkt /\ cache = [s \in SPNs |-> NoTkt] /\ ret = NoTkt /\ destroyed = FALSE /\ up = TRUE
Issue(spn, life) == [id |-> Len(issued) + 1, spn |-> spn, end |-> clock + life]
ValidAt(t, now) == t.id # 0 /\ now < t.end
Login == /\ ~destroyed /\ up /\ LET t == Issue("krbtgt", TGTLife) IN issued' = Append(issued, t) /\ session' = t
         /\ UNCHANGED <<clock, cache, destroyed, up>> /\ ret' = NoTkt
\* a service ticket: from the cache while valid, otherwise a fresh one (needs a valid TGT, obtained on demand)
Get(spn) == /\ ~destroyed
            /\ IF ValidAt(cache[spn], clock)
               THEN ret' = cache[spn] /\ UNCHANGED <<issued, session, cache>>
               ELSE IF ~up THEN ret' = NoTkt /\ UNCHANGED <<issued, session, cache>>       \* the request fails
               ELSE LET needTGT == ~ValidAt(session, clock)
                        tgt == Issue("krbtgt", TGTLife)
                        iss1 == IF needTGT THEN Append(issued, tgt) ELSE issued
                        st == [id |-> Len(iss1) + 1, spn |-> spn, end |-> clock + TktLife]
                    IN /\ issued' = Append(iss1, st) /\ session' = (IF needTGT THEN tgt ELSE session)
                       /\ cache' = [cache EXCEPT ![spn] = st] /\ ret' = st
            /\ UNCHANGED <<clock, destroyed, up>>
AutoRenew == /\ ~destroyed /\ up /\ session.id # 0 /\ LET t == Issue("krbtgt", TGTLife) IN issued' = Append(issued, t) /\ session' = t
             /\ UNCHANGED <<clock, cache, destroyed, up>> /\ ret' = NoTkt
Wait == clock < MaxClock /\ clock' = clock + 1 /\ ret' = NoTkt /\ UNCHANGED <<issued, session, cache, destroyed, up>>
Outage == up' = ~up /\ ret' = NoTkt /\ UNCHANGED <<clock, issued, session, cache, destroyed>>       \* begins or ends
Destroy == /\ destroyed' = TRUE /\ session' = NoTkt /\ cache' = [s \in SPNs |-> NoTkt] /\ ret' = NoTkt /\ UNCHANGED <<clock, issued, up>>
Next == Outage \/ Login \/ (\E s \in SPNs : Get(s)) \/ AutoRenew \/ Wait \/ Destroy
Spec == Init /\ [][Next]_vars
\* ---- the properties ----------------------------------------------------------------------------------------------------------
IssuedFor(t, spn, log) == \E i \in 1..Len(log) : log[i] = t /\ t.spn = spn
RightTicket == ret.id # 0 => IssuedFor(ret, ret.spn, issued)
ServedOnlyWhileValid == ret.id # 0 => ValidAt(ret, clock)
\* what is cached for an spn was issued for that spn
CacheConsistent == \A s \in SPNs : cache[s].id # 0 => IssuedFor(cache[s], s, issued)
\* once the KDC is back a request for a service ticket is served whatever happened during the outage (no stale session is used):
\* Get is enabled and returns a valid ticket in every state with up = TRUE - part of RightTicket / ServedOnlyWhileValid above
Bound == Len(issued) <= 5

\* ---- request well-formedness (RFC 4120 3.1.1 / 3.3.1 and the krb5.conf settings), used on recorded KDC-side request events --------
\* cfg: [etypes, tgsEtypes, forwardable, proxiable, canonicalize, renewable (renew_lifetime # 0), ticketLife, renewLife (seconds), noaddresses]
\* r: a decoded request [kind, etypes, fwd, prx, canon, renewableOpt, renewableOK, till, rtime, hasRtime, naddrs, at (seconds), renew]
Near(a, b) == a - b <= 3 /\ b - a <= 3          \* request times are stamped by the client a moment before the KDC sees them
WellFormedReq(cfg, r) ==
  /\ r.etypes = (IF r.kind = "AS" THEN cfg.etypes ELSE cfg.tgsEtypes)       \* default_tkt_enctypes / default_tgs_enctypes
  /\ r.fwd = cfg.forwardable /\ r.prx = cfg.proxiable /\ r.canon = cfg.canonicalize
  /\ (r.kind = "AS" => r.renewableOK)                                         \* kdc_default_options (renewable-ok) is carried
  /\ Near(r.till, r.at + cfg.ticketLife)
  /\ (~r.renew => (r.renewableOpt <=> cfg.renewable))
  /\ (~r.renew => (r.hasRtime <=> cfg.renewable))
  /\ ((~r.renew /\ cfg.renewable) => Near(r.rtime, r.at + cfg.renewLife))
  /\ (r.naddrs = 0 <=> cfg.noaddresses)
\* referral chains are followed only up to a fixed bound: at most 7 TGS requests serve one Get
ReferralBound == 7
=============================================================================
