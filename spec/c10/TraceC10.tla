------------------------------ MODULE TraceC10 ------------------------------
(* C10 trace validation.  One line = one scenario: the configuration x.cfg, the client's operations x.ops (with the
   instants t0/t1 in ms and, for Get, the ticket and key returned), the simulated KDC's issue log x.issued and its log of
   decoded requests x.reqs (x.ops[i].req0 .. req1 delimit the requests received while operation i ran; requests outside
   every operation are background session renewals). *)
EXTENDS ClientTickets, Json
CONSTANTS NShards
Tr == ndJsonDeserialize("trace.ndjson")
NLines == Len(Tr)
VARIABLES sh, l
LT == INSTANCE LineTrace
\* ---- which operations must succeed against a conformant KDC -------------------------------------------------------------
DestroyedBefore(x, i) == \E j \in 1..(i - 1) : x.ops[j].op = "D"
\* an outage of the KDC is in force at operation i (between an "O" and the next "U"): nothing is demanded of operations that need the KDC then
\* (what they return must still be right and valid) - and everything again once it is over
KDCAway(x, i) == \E j \in 1..(i - 1) : x.ops[j].op = "O" /\ \A m \in (j + 1)..(i - 1) : x.ops[m].op # "U"
ChainOf(x, o) == IF o.op = "GR" THEN x.cfg.chain ELSE 0
\* a chain of length c needs c + 1 TGS requests; the client follows referrals only up to the bound
WithinBound(x, o) == ChainOf(x, o) + 1 <= ReferralBound
MustSucceed(x, i) == LET o == x.ops[i] IN ~DestroyedBefore(x, i) /\ ~KDCAway(x, i) /\ (o.op = "L" \/ (x.known[o.spn] /\ WithinBound(x, o)))
MustFail(x, i) == LET o == x.ops[i] IN DestroyedBefore(x, i) \/ (o.op # "L" /\ (~x.known[o.spn] \/ ChainOf(x, o) + 1 > ReferralBound + 1))
\* ---- a returned ticket is the right one and valid --------------------------------------------------------------------------
Match(x, o) == { k \in 1..Len(x.issued) : x.issued[k].tkt = o.tkt /\ x.issued[k].key = o.key }
GetOK(x, o) ==
  /\ Match(x, o) # {}                                                        \* issued by the KDC, with the key issued with it
  /\ \A k \in Match(x, o) :
        /\ x.issued[k].spn = o.spn                                          \* for the requested service
        /\ x.issued[k].at <= o.t1                                           \* not from the future
        /\ o.t0 < x.issued[k].end \/ (o.t0 - 1000 < x.issued[k].end /\ x.issued[k].end <= o.t1 + 1000)    \* valid (1 s resolution: ambiguous near the end)
\* ---- requests are well formed ------------------------------------------------------------------------------------------------
Cfg(x) == [etypes |-> x.cfg.etypes, tgsEtypes |-> x.cfg.tgsEtypes, forwardable |-> x.cfg.forwardable, proxiable |-> x.cfg.proxiable, canonicalize |-> x.cfg.canonicalize,
           renewable |-> x.cfg.renewable, ticketLife |-> x.cfg.ticketLife, renewLife |-> x.cfg.renewLife, noaddresses |-> x.cfg.noaddresses]
Req(x, k) == LET r == x.reqs[k]  b == x.optbits[k] IN
             [kind |-> r.kind, etypes |-> r.etypes, fwd |-> b.fwd, prx |-> b.prx, canon |-> b.canon, renewableOpt |-> b.renewable,
              renewableOK |-> b.renewableOK, till |-> r.till \div 1000, rtime |-> r.rtime \div 1000, hasRtime |-> r.hasRtime, naddrs |-> r.naddrs,
              at |-> r.at \div 1000, renew |-> b.renew]
ReqsOK(x) == \A k \in 1..Len(x.reqs) : x.reqs[k].kind \in {"AS", "TGS"} /\ WellFormedReq(Cfg(x), Req(x, k))
\* pre-authentication: when the KDC demands it, it ends up with a timestamp it can decrypt (usage 1) and that is within skew;
\* and the request that is answered with a ticket after PREAUTH_REQUIRED carries it
PreauthOK(x) == \A k \in 1..Len(x.reqs) : (x.reqs[k].kind = "AS" /\ x.cfg.preauth /\ x.reqs[k].answer = "issued") => x.reqs[k].paEncTS = "ok"
NoUndecryptable == \A y \in {1} : TRUE
\* referral bound: the TGS requests that serve one Get
TGSDuring(x, o) == Cardinality({ k \in (o.req0 + 1)..o.req1 : x.reqs[k].kind = "TGS" /\ ~x.optbits[k].renew })
OpOK(x, i) == LET o == x.ops[i] IN
              /\ o.panic = ""
              /\ (o.op \in {"L", "G1", "G2", "GX", "GR"} /\ MustSucceed(x, i)) => o.ok
              /\ (o.op \in {"L", "G1", "G2", "GX", "GR"} /\ MustFail(x, i)) => ~o.ok
              /\ (o.ok /\ o.op \in {"G1", "G2", "GX", "GR"}) => GetOK(x, o)
              /\ (o.op \in {"G1", "G2", "GX", "GR"}) => TGSDuring(x, o) <= ReferralBound + 1
LineOK(x) == (\A i \in 1..Len(x.ops) : OpOK(x, i)) /\ ReqsOK(x) /\ PreauthOK(x)
TInit == LT!Init /\ Init
TNext == LT!Next /\ UNCHANGED vars
Check == ~LT!Active \/ LineOK(Tr[l]) \/ PrintT(<<"BADLINE", l>>)
=============================================================================
