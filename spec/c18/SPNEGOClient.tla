---------------------------- MODULE SPNEGOClient ----------------------------
(***************************************************************************)
(* C18: the SPNEGO HTTP client against a scripted server.  The server's    *)
(* behaviour is a finite word over                                         *)
(*   ok   200                       bare  401 "WWW-Authenticate: Negotiate"*)
(*   rej  401 Negotiate + reject token   oth 401 other scheme              *)
(*   rs   redirect to the same host ro   redirect to another host err 500  *)
(*        (307: method and body are kept; 302: a POST becomes a GET)       *)
(* followed by a constant tail.  The client machine is Client.Do: send;    *)
(* follow a redirect (the Authorization header is dropped, at most 10      *)
(* redirects per call); on a bare Negotiate challenge authenticate and     *)
(* resend ONCE per request; anything else is the final response.           *)
(* Properties: Terminates (liveness, under weak fairness, no state         *)
(* constraint), the request bound, AuthRetryCarriesToken, and that the     *)
(* result is the server's last response or an error.                       *)
(***************************************************************************)
EXTENDS Integers, Sequences, FiniteSets, TLC
Symbols == {"ok", "bare", "rej", "oth", "rs", "ro", "err"}
CONSTANTS MaxLen, Tails
VARIABLES script, tail, pos, sent, authed, redirects, done, result, lastWasBare
vars == <<script, tail, pos, sent, authed, redirects, done, result, lastWasBare>>
Words == UNION { [1..n -> Symbols] : n \in 0..MaxLen }
Init == /\ script \in Words /\ tail \in Tails /\ pos = 1 /\ sent = << >> /\ authed = FALSE /\ redirects = 0
        /\ done = FALSE /\ result = "none" /\ lastWasBare = FALSE
Answer == IF pos <= Len(script) THEN script[pos] ELSE tail
\* one request/response round of Client.Do
Step == /\ ~done
        /\ sent' = Append(sent, [auth |-> authed, afterBare |-> lastWasBare])
        /\ pos' = pos + 1
        /\ LET a == Answer IN
           CASE a \in {"rs", "ro"} ->
                  \* either follow the redirect, or (a request whose body cannot be rewound a second time - net/http gives
                  \* the re-issued request no GetBody) return the redirect response itself as the final response
                  \/ /\ redirects' = redirects + 1 /\ authed' = FALSE /\ lastWasBare' = FALSE
                     /\ IF redirects + 1 >= 10 THEN done' = TRUE /\ result' = "error" ELSE UNCHANGED <<done, result>>
                  \/ /\ redirects >= 1 /\ done' = TRUE /\ result' = a /\ lastWasBare' = FALSE /\ UNCHANGED <<authed, redirects>>
             [] a = "bare" /\ ~authed ->
                  /\ authed' = TRUE /\ lastWasBare' = TRUE /\ UNCHANGED <<redirects, done, result>>
             [] OTHER ->
                  /\ done' = TRUE /\ result' = a /\ UNCHANGED <<authed, redirects>> /\ lastWasBare' = FALSE
        /\ UNCHANGED <<script, tail>>
Next == Step
Spec == Init /\ [][Next]_vars /\ WF_vars(Step)
Terminates == <>done
RequestBound == 20
Bounded == Len(sent) <= RequestBound
\* the request sent in answer to a bare challenge carries the token
AuthRetryCarriesToken == \A i \in 1..Len(sent) : sent[i].afterBare => sent[i].auth
\* the call ends with the last response of the server (or an error)
ResultIsLast == done => (result = "error" \/ result = (IF pos - 1 <= Len(script) THEN script[pos - 1] ELSE tail))
=============================================================================
