CONSTANTS MaxLen = 5  Tails = {"ok", "bare", "rs", "rej"}
INIT Init
NEXT Next
CHECK_DEADLOCK FALSE
