CONSTANTS NShards = 16  MaxLen = 0  Tails = {"ok"}
INIT TInit
NEXT TNext
INVARIANT Check
CHECK_DEADLOCK FALSE
