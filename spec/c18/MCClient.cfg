CONSTANTS MaxLen = 4  Tails = {"ok", "bare", "rs", "rej"}
SPECIFICATION Spec
INVARIANTS Bounded AuthRetryCarriesToken ResultIsLast
PROPERTY Terminates
CHECK_DEADLOCK FALSE
