------------------------------- MODULE GenC18 -------------------------------
(* role B: every server script up to the length bound x every constant tail *)
EXTENDS SPNEGOClient, Json, SequencesExt
ASSUME ndJsonSerialize("scripts.ndjson", SetToSeq({ [script |-> w, tail |-> t] : w \in Words, t \in Tails }))
ASSUME PrintT(<<"COUNTS", Cardinality(Words) * Cardinality(Tails)>>)
=============================================================================
