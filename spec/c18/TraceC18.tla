------------------------------ MODULE TraceC18 ------------------------------
(* C18 trace validation: one line = one Client.Do against a scripted server: x.script, x.tail, the requests the server(s)
   received (in order: the symbol answered, whether an Authorization: Negotiate header was present, whether an acceptor
   holding the service key accepted its token for the intended service and client, whether the body arrived intact) and the
   outcome of the call. *)
EXTENDS SPNEGOClient, Json
CONSTANTS NShards
Tr == ndJsonDeserialize("trace.ndjson")
NLines == Len(Tr)
VARIABLES sh, l
LT == INSTANCE LineTrace
Ans(x, i) == IF i <= Len(x.script) THEN x.script[i] ELSE x.tail
LineOK(x) ==
  LET n == Len(x.reqs) IN
  /\ x.panic = ""
  /\ ~x.capped /\ n <= RequestBound                                           \* returns after a bounded number of requests
  /\ n >= 1
  /\ \A i \in 1..n : x.reqs[i].sym = Ans(x, i)                                \* (the log is the script: sanity of the harness)
  \* the original body, intact, on every request - until a 302 redirect, after which HTTP turns a POST into a GET and what the
  \* re-issued request carries is not the property's subject
  /\ \A i \in 1..n : (x.redir = 307 \/ \A j \in 1..(i - 1) : Ans(x, j) \notin {"rs", "ro"}) => x.reqs[i].bodyOK
  \* whatever the challenged request carried, the authenticated retry carries the same
  /\ \A i \in 2..n : (Ans(x, i - 1) = "bare" /\ ~x.reqs[i - 1].auth) => (x.reqs[i].blen = x.reqs[i - 1].blen /\ x.reqs[i].bsum = x.reqs[i - 1].bsum)
  \* the request that answers a bare Negotiate challenge (same target) carries a token the acceptor accepts
  /\ \A i \in 2..n : (Ans(x, i - 1) = "bare" /\ ~x.reqs[i - 1].auth) => (x.reqs[i].auth /\ x.reqs[i].accepted)
  \* any token sent at all is an acceptable one
  /\ \A i \in 1..n : x.reqs[i].auth => x.reqs[i].accepted
  \* and the independent acceptor (MIT's gss_accept_sec_context holding the service keys; "" = not available) accepts it too: context
  \* complete, for the client that logged in, with a ticket for the principal of the host the request went to
  /\ \A i \in 1..n : x.reqs[i].auth => x.reqs[i].mit \in {"accepted", ""}
  \* the call returns the server's final response, or an error
  /\ x.result = "error" \/ x.result = Ans(x, n) \/ (x.result = "redirect" /\ Ans(x, n) \in {"rs", "ro"})
  \* a challenge that was never answered with a token must not be the final response of a call that could authenticate
  /\ (x.result = "bare") => \E i \in 1..n : x.reqs[i].auth
TInit == LT!Init /\ Init
TNext == LT!Next /\ UNCHANGED vars
Check == ~LT!Active \/ LineOK(Tr[l]) \/ PrintT(<<"BADLINE", l>>)
=============================================================================
