CONSTANT MaxE = 3
INIT Init
NEXT Next
