----------------------------- MODULE KeytabFormat -----------------------------
(***************************************************************************)
(* The MIT keytab file format (versions 1 and 2) as an independent writer: *)
(* Render(kt) gives the bytes of a keytab model, Expected(kt) the entries  *)
(* any conforming reader must obtain.                                      *)
(*   file    = 0x05, version, item*                                        *)
(*   item    = int32 size, then size bytes of entry  (size > 0)            *)
(*           | int32 -n,   then n bytes of hole      (deleted entry)       *)
(*   entry   = int16 count (v1: includes the realm), realm, components,    *)
(*             [int32 name type, v2 only], int32 timestamp, int8 vno8,     *)
(*             int16 key type, int16 key length, key bytes,                *)
(*             [int32 vno, optional], [trailing bytes]                     *)
(*   strings = int16 length + bytes                                        *)
(* Version 1 uses the byte order of the writing host (little endian here), *)
(* version 2 big endian.  32-bit quantities are 4-tuples (big endian).     *)
(***************************************************************************)
EXTENDS Bytes, KrbPrims
NativeLittle == TRUE
LE(kt) == kt.version = 1 /\ NativeLittle
E16(v, le) == IF le THEN LE16(v) ELSE BE16(v)
E32(b4, le) == IF le THEN Rev(b4) ELSE b4
\* 16-bit two's complement of a signed value
U16(v) == IF v < 0 THEN v + 65536 ELSE v
Str(s, le) == E16(Len(s), le) \o s
RECURSIVE CatStr(_, _)
CatStr(ss, le) == IF ss = << >> THEN << >> ELSE Str(Head(ss), le) \o CatStr(Tail(ss), le)
EntryBody(kt, e) ==
  LET le == LE(kt) IN
  E16(Len(e.comps) + (IF kt.version = 1 THEN 1 ELSE 0), le) \o Str(e.realm, le) \o CatStr(e.comps, le)
  \o (IF kt.version = 2 THEN E32(e.nameType, le) ELSE << >>)
  \o E32(e.ts, le) \o <<e.vno8>> \o E16(U16(e.ktype), le) \o E16(Len(e.key), le) \o e.key
  \o (IF e.hasVno32 THEN E32(e.vno32, le) ELSE << >>) \o e.trailing
\* two's complement of -n as 4 big-endian bytes (n in 1..2^24)
NegSize(n) == LET m == 16777216 - (n % 16777216) IN <<255, (m \div 65536) % 256, (m \div 256) % 256, m % 256>>
Item(kt, it) ==
  IF it.kind = "hole" THEN E32(NegSize(it.size), LE(kt)) \o Rep(it.fill, it.size)
  ELSE LET b == EntryBody(kt, it) IN E32(BE32(Len(b)), LE(kt)) \o b
RECURSIVE Items(_, _)
Items(kt, s) == IF s = << >> THEN << >> ELSE Item(kt, Head(s)) \o Items(kt, Tail(s))
Render(kt) == <<5, kt.version>> \o Items(kt, kt.items)

\* what a reader obtains: one record per entry, in file order
Zero4 == <<0, 0, 0, 0>>
ExpEntry(kt, e) == [realm |-> e.realm, comps |-> e.comps,
                    nameType |-> IF kt.version = 2 THEN e.nameType ELSE Zero4,        \* omitted in version 1
                    ts |-> e.ts, vno8 |-> e.vno8, ktype |-> e.ktype, key |-> e.key,
                    \* the 32-bit version overrides the 8-bit one when present and non-zero
                    kvno |-> IF e.hasVno32 /\ e.vno32 # Zero4 THEN e.vno32 ELSE <<0, 0, 0, e.vno8>>]
Entries(kt) == [i \in 1..Len(kt.items) |-> kt.items[i]]
Expected(kt) == LET idx == { i \in 1..Len(kt.items) : kt.items[i].kind = "entry" }
                    RECURSIVE Go(_)
                    Go(i) == IF i > Len(kt.items) THEN << >>
                             ELSE (IF i \in idx THEN <<ExpEntry(kt, kt.items[i])>> ELSE << >>) \o Go(i + 1)
                IN Go(1)
=============================================================================
