CONSTANT MaxE = 2
INIT Init
NEXT Next
