----------------------------- MODULE KeytabLookup -----------------------------
(***************************************************************************)
(* C14, key look-up.  A query (components, realm, kvno, etype) selects,    *)
(* among the entries whose components (count and each component), realm    *)
(* and key type equal the query's and whose key version equals the         *)
(* requested one (any version when 0 is requested), an entry with the      *)
(* newest timestamp; no such entry => failure.  Ties between equally new   *)
(* entries are unspecified, so the result is a set.                        *)
(***************************************************************************)
EXTENDS Integers, Sequences, FiniteSets, TLC
Matches(e, q) == e.comps = q.comps /\ e.realm = q.realm /\ e.ktype = q.etype /\ (q.kvno = 0 \/ e.kvno = q.kvno)
Cands(kt, q) == { i \in 1..Len(kt) : Matches(kt[i], q) }
Lookup(kt, q) == { i \in Cands(kt, q) : \A j \in Cands(kt, q) : kt[j].ts <= kt[i].ts }
\* ---- model checking the look-up itself: all keytabs with <= MaxEntries entries over a small attribute space -----------
CONSTANTS CompsSet, Realms, Kvnos, Etypes, Tss, MaxEntries
EntrySpace == [comps : CompsSet, realm : Realms, kvno : Kvnos \ {0}, ktype : Etypes, ts : Tss]
QuerySpace == [comps : CompsSet, realm : Realms, kvno : Kvnos, etype : Etypes]
VARIABLES kt, q, r, asked
vars == <<kt, q, r, asked>>
Init == kt = << >> /\ q \in QuerySpace /\ r = {} /\ asked = FALSE
Add == \E e \in EntrySpace : ~asked /\ Len(kt) < MaxEntries /\ kt' = Append(kt, e) /\ UNCHANGED <<q, r, asked>>
Ask == ~asked /\ r' = Lookup(kt, q) /\ asked' = TRUE /\ UNCHANGED <<kt, q>>
Next == Add \/ Ask
Spec == Init /\ [][Next]_vars
ResultMatches == asked => \A i \in r : i \in 1..Len(kt) /\ Matches(kt[i], q)
ResultNewest == asked => \A i \in r : \A j \in 1..Len(kt) : Matches(kt[j], q) => kt[j].ts <= kt[i].ts
FailsOnlyWithoutMatch == asked => (r = {} <=> ~\E i \in 1..Len(kt) : Matches(kt[i], q))
=============================================================================
