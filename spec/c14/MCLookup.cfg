CONSTANTS CompsSet <- MCComps  Realms = {"R", "S"}  Kvnos = {0, 1, 2}  Etypes = {17, 18}  Tss = {1, 2}  MaxEntries = 2
SPECIFICATION Spec
INVARIANTS ResultMatches ResultNewest
INVARIANT FailsOnlyWithoutMatch
CHECK_DEADLOCK FALSE
