------------------------------ MODULE TraceC14 ------------------------------
(* C14 trace validation.
   ev = "image":  a keytab model, the image the independent writer rendered for it, what gokrb5 parsed from the image,
                  and what it parsed again after its own Marshal (round trip), plus the result of Marshal on a keytab it
                  parsed from a version-v image re-read by THIS specification's reader rule (entries must be equal).
   ev = "lookup": an abstract keytab, a query and the answer of GetEncryptionKey. *)
EXTENDS KeytabFormat, Json
CONSTANTS NShards
Tr == ndJsonDeserialize("trace.ndjson")
NLines == Len(Tr)
VARIABLES sh, l
LT == INSTANCE LineTrace
LK == INSTANCE KeytabLookup WITH CompsSet <- {}, Realms <- {}, Kvnos <- {}, Etypes <- {}, Tss <- {}, MaxEntries <- 0,
                                 kt <- << >>, q <- 0, r <- {}, asked <- FALSE
H(s) == FromHex(s)
Item2(it) == IF it.kind = "hole" THEN it
             ELSE [kind |-> "entry", realm |-> H(it.realm), comps |-> [i \in 1..Len(it.comps) |-> H(it.comps[i])], nameType |-> it.nameType,
                   ts |-> it.ts, vno8 |-> it.vno8, ktype |-> it.ktype, key |-> H(it.key), hasVno32 |-> it.hasVno32, vno32 |-> it.vno32,
                   trailing |-> H(it.trailing)]
ModelOf(m) == [version |-> m.version, items |-> [i \in 1..Len(m.items) |-> Item2(m.items[i])]]
\* projection of what gokrb5 parsed, in the specification's terms
Proj(es) == [i \in 1..Len(es) |-> [realm |-> H(es[i].realm), comps |-> [j \in 1..Len(es[i].comps) |-> H(es[i].comps[j])],
                                   nameType |-> es[i].nameType, ts |-> es[i].ts, vno8 |-> es[i].vno8, ktype |-> es[i].ktype,
                                   key |-> H(es[i].key), kvno |-> es[i].kvno]]
ImageOK(x) == LET m == ModelOf(x.model) IN
              /\ Render(m) = H(x.image)                              \* the image is what this specification wrote
              /\ x.panic = "" /\ ~x.err
              /\ Proj(x.parsed) = Expected(m)                        \* parsing yields exactly the entries written
              /\ ~x.err2 /\ Proj(x.reparsed) = Expected(m)           \* serialising and parsing again yields the same entries
\* the look-up: abstract entries carry the index of the key the harness gave them
LookupOK(x) == LET res == LK!Lookup(x.kt, x.q) IN
               /\ x.panic = ""
               /\ IF res = {} THEN x.err ELSE (~x.err /\ x.got \in res /\ x.gotKvno = x.kt[x.got].kvno)
\* ---- the writer of this specification against MIT Kerberos' reader (validation of KeytabFormat, not of gokrb5): MIT reports
\* realm, components, name type (version 2 files), key version (32-bit field if present and non-zero, else the 8-bit one),
\* time stamp, key type (a signed 16-bit field) and key of every entry, in file order
MITProj(es) == [i \in 1..Len(es) |-> [realm |-> H(es[i].realm), comps |-> [j \in 1..Len(es[i].comps) |-> H(es[i].comps[j])],
                                      nameType |-> H(es[i].nameType), ts |-> H(es[i].ts), ktype |-> U16(es[i].ktype), key |-> H(es[i].key), kvno |-> H(es[i].kvno)]]
MITExp(m) == LET e == Expected(m) IN
             [i \in 1..Len(e) |-> [realm |-> e[i].realm, comps |-> e[i].comps, nameType |-> e[i].nameType, ts |-> e[i].ts, ktype |-> U16(e[i].ktype),
                                   key |-> e[i].key, kvno |-> e[i].kvno]]
NoNameType(es) == [i \in 1..Len(es) |-> [es[i] EXCEPT !.nameType = Zero4]]
MITOK(x) == LET m == ModelOf(x.model) IN
            /\ Render(m) = H(x.image) /\ x.rc = 0
            /\ IF m.version = 2 THEN MITProj(x.entries) = MITExp(m) ELSE NoNameType(MITProj(x.entries)) = MITExp(m)
\* gokrb5's WRITER judged by the independent reader: the file Keytab.Marshal produced after parsing the image (x.image here) is read
\* by MIT and must hold the entries of the model ("serialising any keytab and parsing the result yields the same entries", with a parser
\* that is not gokrb5's)
MITReOK(x) == LET m == ModelOf(x.model) IN
              /\ x.rc = 0
              /\ IF m.version = 2 THEN MITProj(x.entries) = MITExp(m) ELSE NoNameType(MITProj(x.entries)) = MITExp(m)
LineOK(x) == CASE x.ev = "image" -> ImageOK(x) [] x.ev = "mit" -> MITOK(x) [] x.ev = "mitre" -> MITReOK(x) [] OTHER -> LookupOK(x)
Init == LT!Init
Next == LT!Next
Check == ~LT!Active \/ LineOK(Tr[l]) \/ PrintT(<<"BADLINE", l>>)
=============================================================================
