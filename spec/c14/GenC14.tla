------------------------------- MODULE GenC14 -------------------------------
(* role B: (1) the independent writer renders the keytab models chosen by the driver (models.ndjson -> images);
   (2) TLC enumerates small keytabs over an attribute space with near misses, and the queries to ask of them. *)
EXTENDS KeytabFormat, Json, SequencesExt, FiniteSets
Models == ndJsonDeserialize("models.ndjson")
H(s) == FromHex(s)
Item2(it) == IF it.kind = "hole" THEN it
             ELSE [kind |-> "entry", realm |-> H(it.realm), comps |-> [i \in 1..Len(it.comps) |-> H(it.comps[i])], nameType |-> it.nameType,
                   ts |-> it.ts, vno8 |-> it.vno8, ktype |-> it.ktype, key |-> H(it.key), hasVno32 |-> it.hasVno32, vno32 |-> it.vno32,
                   trailing |-> H(it.trailing)]
ModelOf(m) == [version |-> m.version, items |-> [i \in 1..Len(m.items) |-> Item2(m.items[i])]]
ASSUME ndJsonSerialize("images.ndjson", [i \in 1..Len(Models) |-> [model |-> Models[i], image |-> ToHex(Render(ModelOf(Models[i])))]])
\* ---- look-up cases: every keytab with <= 2 entries (3 in thorough via MaxE) over the attribute space, as abstract entries
CONSTANT MaxE
Comps == { <<"svc", "host">>, <<"svc">>, <<"svc", "host", "x">>, <<"svc", "hosu">>,    \* equal, prefix, extension, same length other value
           <<"svc/host">> }                                                               \* prints like the first, splits differently
RealmsL == {"R.TEST", "S.TEST"}
KvnosE == {1, 2, 257}                       \* 257 = 1 + 256: equal in the 8-bit field only
EtypesL == {17, 18}
TssL == {1, 2}
EntrySp == [comps : Comps, realm : RealmsL, kvno : KvnosE, ktype : EtypesL, ts : TssL]
\* reduce symmetric duplicates: keytabs as sequences whose first entry is a variation of the base entry
Base == [comps |-> <<"svc", "host">>, realm |-> "R.TEST", kvno |-> 1, ktype |-> 18, ts |-> 1]
Near == { e \in EntrySp : Cardinality({ f \in DOMAIN e : e[f] # Base[f] }) <= 2 }
Keytabs == { <<>> } \cup { <<e>> : e \in Near } \cup { <<Base, e>> : e \in Near } \cup { <<e, Base>> : e \in Near }
            \cup (IF MaxE >= 3 THEN { <<Base, e, f>> : e \in Near, f \in { g \in Near : g.ts = 2 } } ELSE {})
Queries == [comps : Comps, realm : RealmsL, kvno : {0, 1, 2, 257, 513}, etype : EtypesL]
\* the abstract time stamps 1 < 2 are written under three clocks: recent dates, the first seconds of the epoch (0 and 1), and the
\* last values of the 32-bit field (which a signed reader sees as 1969: the order of the two is the same in both readings)
Clocks == {"recent", "epoch", "late"}
TsBytes(c, t) == CASE c = "recent" -> BE32(1500000000 + t)
                   [] c = "epoch" -> BE32(t - 1)
                   [] c = "late" -> <<255, 255, 255, 253 + t>>
LModel(k, c) == [version |-> 2, items |-> [i \in 1..Len(k) |->
                [kind |-> "entry", realm |-> StrBytes(k[i].realm), comps |-> [j \in 1..Len(k[i].comps) |-> StrBytes(k[i].comps[j])],
                 nameType |-> <<0, 0, 0, 1>>, ts |-> TsBytes(c, k[i].ts), vno8 |-> k[i].kvno % 256, ktype |-> k[i].ktype,
                 key |-> Rep(i, 16), hasVno32 |-> TRUE, vno32 |-> BE32(k[i].kvno), trailing |-> << >>]]]
ASSUME ndJsonSerialize("lookups.ndjson", SetToSeq({ [kt |-> k, clock |-> c, image |-> ToHex(Render(LModel(k, c)))] : k \in Keytabs, c \in Clocks }))
ASSUME ndJsonSerialize("queries.ndjson", SetToSeq(Queries))
ASSUME PrintT(<<"COUNTS", Len(Models), Cardinality(Keytabs), Cardinality(Queries)>>)
VARIABLE x
Init == x = 0
Next == UNCHANGED x
=============================================================================
