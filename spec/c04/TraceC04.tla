------------------------------ MODULE TraceC04 ------------------------------
EXTENDS Robustness, Json
CONSTANTS NShards
Tr == ndJsonDeserialize("trace.ndjson")
NLines == Len(Tr)
VARIABLES sh, l
LT == INSTANCE LineTrace
LineOK(x) == IF x.ev = "agg" THEN CellOK(x) ELSE FailOK(x)
Init == LT!Init
Next == LT!Next
Check == ~LT!Active \/ LineOK(Tr[l]) \/ PrintT(<<"BADLINE", l>>)
=============================================================================
