------------------------------ MODULE Robustness ------------------------------
(***************************************************************************)
(* C04: the contract every function consuming external bytes has to meet,  *)
(* and the corruption model that says which inputs are tried.              *)
(* For an entry point e with a corpus of valid inputs, the inputs are      *)
(*   valid            the corpus item itself                               *)
(*   truncate(k)      every proper prefix                                  *)
(*   substitute(p,v)  every position p; v in 9 values (quick: five fixed,  *)
(*                    two bit flips, the value's neighbours; krb5.conf:     *)
(*                    the 19 characters with a meaning) or all 256          *)
(*   setlen(f,v)      DER formats: every length octet found by walking the *)
(*                    TLV structure, replaced by 12 encodings (0, 1, +-1,  *)
(*                    0x7f, indefinite, long forms up to 2^64-1)           *)
(*   setword(p,w)     binary (non-DER) formats, thorough: DER too: at every *)
(*                    position 2, 4 or 8 octets overwritten by the values   *)
(*                    at which arithmetic on a length, count or offset      *)
(*                    field goes wrong (0, -1, -4, -8, min, max, and the    *)
(*                    too small 1, 2, 3, 6; both byte orders)               *)
(*   fuzz(i)          inputs on which Go's coverage-guided fuzzer, seeded   *)
(*                    with the corpus, saw a panic, a slow or a large call  *)
(*                    or lost its worker (an input generator: the inputs    *)
(*                    are executed and judged like all others)              *)
(*   line(i,r)        krb5.conf: every line replaced by / preceded by 11   *)
(*                    structure-breaking lines                             *)
(* "Did it panic" is an observation, not something a model decides; the    *)
(* model contributes the enumeration and the contract, which TLC evaluates *)
(* over the aggregated trace of the worker processes:                      *)
(*   Outcome \in {value, error}, alloc <= 64 * len + 1 MiB, time <= 2 s.    *)
(***************************************************************************)
EXTENDS Integers, Sequences, FiniteSets, TLC
Classes == {"valid", "truncate", "substitute", "setlen", "setword", "line", "fuzz"}
AllowedOutcomes == {"value", "error"}
AllocBoundPermille == 1000                \* observed allocation / (64 * len + 1 MiB), in thousandths
TimeBoundMs == 2000
\* an aggregated cell: all inputs of one class derived from one corpus item of one entry point
CellOK(c) == /\ c.panics = 0 /\ c.slow = 0 /\ c.big = 0
             /\ c.value + c.errors = c.n                       \* every input ended in a value or an error
             /\ c.maxAllocPermille <= AllocBoundPermille /\ c.maxMs <= TimeBoundMs
\* an individually recorded failing input, or a worker that died on an input (fatal: out of memory, stack exhaustion, hang)
FailOK(f) == FALSE
\* the valid corpus items must be accepted: otherwise the enumeration starts from garbage (vacuity)
CorpusOK(c) == (c.cell[1] = "valid") => c.value = c.n
=============================================================================
