---------------------------- MODULE SRVDiscovery ----------------------------
(***************************************************************************)
(* KDC discovery through DNS (krb5.conf: dns_lookup_kdc = true and no kdc  *)
(* configured for the realm; config/hosts.go GetKDCs, RFC 4120 7.2.3.2,    *)
(* RFC 2782).  The name server holds, for _kerberos._tcp.REALM and         *)
(* _kerberos._udp.REALM, a set of SRV records [prio, weight, port, host].  *)
(* What a look-up may return: every record exactly once, as host:port,     *)
(* numbered 1..n, records of a lower priority number before those of a     *)
(* higher one; the order among records of one priority is random (the      *)
(* weights shape its distribution, nothing here depends on them).  No      *)
(* records: an error.  A login that has only DNS to go by reaches a KDC    *)
(* that answers among the records whatever the other records lead to       *)
(* (C12's sentence for discovered servers).                                *)
(***************************************************************************)
EXTENDS Integers, Sequences, FiniteSets, TLC
Perms(n) == { p \in [1..n -> 1..n] : \A i, j \in 1..n : i # j => p[i] # p[j] }
Addr(r) == r.host \o ":" \o ToString(r.port)
\* the admissible answers for the record sequence recs
Admissible(recs) == LET n == Len(recs) IN
  { [i \in 1..n |-> Addr(recs[p[i]])] : p \in { q \in Perms(n) : \A i \in 1..(n - 1) : recs[q[i]].prio <= recs[q[i + 1]].prio } }
\* every admissible answer names every record exactly once (checked on an instance when the module is loaded)
Example == << [prio |-> 10, weight |-> 0, port |-> 88, host |-> "a"], [prio |-> 0, weight |-> 5, port |-> 88, host |-> "b"],
              [prio |-> 10, weight |-> 1, port |-> 750, host |-> "c"] >>
ASSUME /\ Cardinality(Admissible(Example)) = 2
       /\ \A s \in Admissible(Example) : s[1] = "b:88" /\ {s[i] : i \in 1..3} = {"a:88", "b:88", "c:750"}
LookupOK(x) == /\ x.panic = ""
               /\ IF Len(x.records) = 0 THEN x.err
                  ELSE /\ ~x.err /\ x.count = Len(x.records)
                       /\ x.keys = [i \in 1..x.count |-> i]
                       /\ x.servers \in Admissible(x.records)
LoginOK(x) == x.panic = "" /\ (x.ok <=> x.hasRecords)
=============================================================================
