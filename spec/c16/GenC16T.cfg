CONSTANTS Labels = {"a", "b"}  MaxDepth = 5  Universe = {}
INIT Init
NEXT Next
CHECK_DEADLOCK FALSE
