CONSTANTS Labels = {"a", "b"}  MaxDepth = 4  Universe <- MCUniverse
INIT Init
NEXT Next
INVARIANTS Agree Sound
CHECK_DEADLOCK FALSE
