------------------------------- MODULE Krb5Conf -------------------------------
(***************************************************************************)
(* C16: what a krb5.conf means.  A configuration MODEL is a record          *)
(*   lib     : sequence of libdefaults settings [key, kind, ...]           *)
(*   realms  : sequence of realm blocks                                     *)
(*   domains : sequence of [dom, realm] mappings                           *)
(*   structure : "ok" or the kind of structural error the file contains    *)
(* The driver renders the model to text with semantically neutral layout   *)
(* noise (blank lines, # and ; comment lines, blanks and tabs around keys, *)
(* values and '=', unknown keys, unknown sections, nested { } blocks       *)
(* inside a realm).  This module says which values the loaded              *)
(* configuration must hold (MIT krb5.conf documentation).                  *)
(***************************************************************************)
EXTENDS Integers, Sequences, FiniteSets, TLC
\* ---- booleans: the spellings gokrb5 documents (strconv.ParseBool + yes/y/no/n, any case) ----------------------------
TrueSpellings == {"true", "True", "TRUE", "t", "T", "1", "yes", "Yes", "YES", "y", "Y", "yEs"}
FalseSpellings == {"false", "False", "FALSE", "f", "F", "0", "no", "No", "NO", "n", "N", "nO"}
BoolValid(sp) == sp \in TrueSpellings \cup FalseSpellings
BoolOf(sp) == sp \in TrueSpellings
\* ---- durations: N (seconds), NdNhNmNs (any non-empty subset, in this order), h:m, h:m:s --------------------------------
DurValid(d) == d.fmt \in {"sec", "dhms", "hm", "hms"}
DurSeconds(d) == CASE d.fmt = "sec" -> d.s
                   [] d.fmt = "dhms" -> d.d * 86400 + d.h * 3600 + d.m * 60 + d.s
                   [] d.fmt = "hm" -> d.h * 3600 + d.m * 60
                   [] d.fmt = "hms" -> d.h * 3600 + d.m * 60 + d.s
\* ---- encryption type names (MIT krb5.conf "Encryption types") -> ids; only the six types gokrb5 implements are kept ------
EtypeId == [n \in {"aes256-cts-hmac-sha1-96", "aes256-cts", "aes256-sha1", "aes128-cts-hmac-sha1-96", "aes128-cts", "aes128-sha1",
                   "aes128-cts-hmac-sha256-128", "aes128-sha2", "aes256-cts-hmac-sha384-192", "aes256-sha2",
                   "des3-cbc-sha1-kd", "arcfour-hmac", "rc4-hmac", "arcfour-hmac-md5"} |->
             CASE n \in {"aes256-cts-hmac-sha1-96", "aes256-cts", "aes256-sha1"} -> 18
               [] n \in {"aes128-cts-hmac-sha1-96", "aes128-cts", "aes128-sha1"} -> 17
               [] n \in {"aes128-cts-hmac-sha256-128", "aes128-sha2"} -> 19
               [] n \in {"aes256-cts-hmac-sha384-192", "aes256-sha2"} -> 20
               [] n = "des3-cbc-sha1-kd" -> 16
               [] OTHER -> 23]
\* names outside the table (camellia, single DES, typos) contribute nothing
RECURSIVE EtypeIds(_)
EtypeIds(names) == IF names = << >> THEN << >>
                   ELSE (IF Head(names) \in DOMAIN EtypeId THEN <<EtypeId[Head(names)]>> ELSE << >>) \o EtypeIds(Tail(names))
\* ---- per-realm server lists: values up to and including the first one marked final ('*'); kdc defaults to port 88 --------
RECURSIVE UntilFinal(_)
UntilFinal(s) == IF s = << >> THEN << >> ELSE IF Head(s).final THEN <<Head(s)>> ELSE <<Head(s)>> \o UntilFinal(Tail(s))
HostPort(e, defport) == IF e.port = 0 THEN (IF defport = 0 THEN e.host ELSE e.host \o ":" \o ToString(defport))
                        ELSE e.host \o ":" \o ToString(e.port)
Servers(s, defport) == LET u == UntilFinal(s) IN [i \in 1..Len(u) |-> HostPort(u[i], defport)]
\* kpasswd_server defaults to the admin servers on port 464
Kpasswd(r) == IF r.kpasswd # << >> THEN Servers(r.kpasswd, 0)
              ELSE LET a == UntilFinal(r.admin) IN [i \in 1..Len(a) |-> a[i].host \o ":464"]
ExpRealm(r) == [name |-> r.name, kdc |-> Servers(r.kdc, 88), admin |-> Servers(r.admin, 0), kpasswd |-> Kpasswd(r),
                master |-> Servers(r.master, 0), defaultDomain |-> r.defaultDomain]
ExpRealms(m) == [i \in 1..Len(m.realms) |-> ExpRealm(m.realms[i])]
\* ---- domain_realm: later mappings for the same (lower-cased) domain replace earlier ones --------------------------------
DomKeys(m) == { m.domains[i].dom : i \in 1..Len(m.domains) }
LastIdx(m, d) == CHOOSE i \in 1..Len(m.domains) : m.domains[i].dom = d /\ \A j \in (i + 1)..Len(m.domains) : m.domains[j].dom # d
ExpDomains(m) == [d \in DomKeys(m) |-> m.domains[LastIdx(m, d)].realm]
\* ---- libdefaults -----------------------------------------------------------------------------------------------------------
\* the file is acceptable iff its structure is and every value is well formed
LibEntryValid(e) == CASE e.kind = "bool" -> BoolValid(e.spelling)
                      [] e.kind = "dur" -> DurValid(e.dur)
                      [] OTHER -> TRUE
Valid(m) == m.structure = "ok" /\ \A i \in 1..Len(m.lib) : LibEntryValid(m.lib[i])
\* the value the loaded configuration must hold for setting e (later settings of the same key win: models use each key once)
ExpLib(e) == CASE e.kind = "bool" -> [b |-> BoolOf(e.spelling)]
               [] e.kind = "dur" -> [secs |-> DurSeconds(e.dur)]
               [] e.kind = "etypes" -> [ids |-> EtypeIds(e.names)]
               [] e.kind = "int" -> [n |-> e.v]
               [] e.kind = "str" -> [s |-> e.v]
\* GetKDCs / GetKpasswdServers: a bijection onto the configured list
IsPermutation(a, b) == /\ Len(a) = Len(b)
                       /\ \A x \in {a[i] : i \in 1..Len(a)} \cup {b[i] : i \in 1..Len(b)} :
                            Cardinality({i \in 1..Len(a) : a[i] = x}) = Cardinality({i \in 1..Len(b) : b[i] = x})
=============================================================================
