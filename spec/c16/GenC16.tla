------------------------------- MODULE GenC16 -------------------------------
(* role B: every hostname over a two-letter label alphabet up to the depth bound x every subset of a universe of
   mappings, with the expected resolution - for the real ResolveRealm *)
EXTENDS RealmResolve, Json, SequencesExt
GUniverse == { <<"host", <<"a", "b">>>>, <<"host", <<"b">>>>, <<"dom", <<"b">>>>, <<"dom", <<"a", "b">>>>, <<"dom", <<"b", "b">>>>,
               <<"dom", <<"a">>>> }
ASSUME ndJsonSerialize("hosts.ndjson", SetToSeq({ [h |-> hh] : hh \in Hosts }))
ASSUME ndJsonSerialize("subsets.ndjson", SetToSeq({ [d |-> SetToSeq(S)] : S \in SUBSET GUniverse }))
ASSUME PrintT(<<"COUNTS", Cardinality(Hosts), Cardinality(SUBSET GUniverse)>>)
=============================================================================
