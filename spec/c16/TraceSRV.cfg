CONSTANT NShards = 16
INIT Init
NEXT Next
INVARIANT Check
CHECK_DEADLOCK FALSE
