----------------------------- MODULE RealmResolve -----------------------------
(***************************************************************************)
(* C16, host-to-realm resolution ([domain_realm] of krb5.conf).            *)
(* A hostname is a sequence of labels; a mapping key is either a host      *)
(* (<<"host", labels>>) or a domain (<<"dom", labels>>, written ".a.b").   *)
(* MIT semantics: an exact host entry wins; otherwise the domain entry     *)
(* that is the longest proper suffix of the hostname ("most specific");    *)
(* none => no realm ("").  Two formulations are given and model checked to *)
(* agree: the declarative one (Spec) and the procedural walk gokrb5 is     *)
(* expected to perform (first suffix found going from the longest).        *)
(***************************************************************************)
EXTENDS Integers, Sequences, FiniteSets, TLC
CONSTANTS Labels, MaxDepth, Universe        \* Universe: the set of mapping keys a configuration may contain
Hosts == UNION { [1..n -> Labels] : n \in 1..MaxDepth }
Suffix(h, k) == SubSeq(h, k, Len(h))
ProperSuffixes(h) == { Suffix(h, k) : k \in 2..Len(h) }
RealmOf(key) == key                            \* each key maps to a realm named after itself (distinct realms)
\* declarative: the matching mapping with the most labels
Resolve(h, D) ==
  IF <<"host", h>> \in D THEN RealmOf(<<"host", h>>)
  ELSE LET S == { x \in ProperSuffixes(h) : <<"dom", x>> \in D } IN
       IF S = {} THEN <<"none">>
       ELSE RealmOf(<<"dom", CHOOSE x \in S : \A y \in S : Len(y) <= Len(x)>>)
\* procedural: walk the suffixes from the longest to the shortest
RECURSIVE Walk(_, _, _)
Walk(h, D, k) == IF k > Len(h) THEN <<"none">>
                 ELSE IF <<"dom", Suffix(h, k)>> \in D THEN RealmOf(<<"dom", Suffix(h, k)>>) ELSE Walk(h, D, k + 1)
ResolveProc(h, D) == IF <<"host", h>> \in D THEN RealmOf(<<"host", h>>) ELSE Walk(h, D, 2)
VARIABLES h, D
Init == h \in Hosts /\ D \in SUBSET Universe
Next == UNCHANGED <<h, D>>
Agree == Resolve(h, D) = ResolveProc(h, D)
\* the result is a configured mapping that matches, and no matching mapping is more specific
Sound == LET r == Resolve(h, D) IN
         /\ r # <<"none">> => r \in D /\ (r[1] = "host" => r[2] = h) /\ (r[1] = "dom" => r[2] \in ProperSuffixes(h))
         /\ r = <<"none">> => (<<"host", h>> \notin D /\ \A x \in ProperSuffixes(h) : <<"dom", x>> \notin D)
         /\ (r # <<"none">> /\ r[1] = "dom") => \A x \in ProperSuffixes(h) : <<"dom", x>> \in D => Len(x) <= Len(r[2])
=============================================================================
