------------------------------ MODULE TraceC16 ------------------------------
(* C16 trace validation: ev = "conf" (a rendered configuration model and what gokrb5 loaded from it),
   ev = "resolve" (a hostname, a set of mappings, and the realm ResolveRealm returned). *)
EXTENDS Krb5Conf, Json
CONSTANTS NShards
Tr == ndJsonDeserialize("trace.ndjson")
NLines == Len(Tr)
VARIABLES sh, l
LT == INSTANCE LineTrace
RR == INSTANCE RealmResolve WITH Labels <- {}, MaxDepth <- 0, Universe <- {}, h <- << >>, D <- {}
\* ---- resolve lines: keys are <<kind, labels>>; the harness configured realm "R<index>" for the index-th key of x.d
KeyIdx(x, key) == CHOOSE i \in 1..Len(x.d) : x.d[i] = key
ResolveOK(x) == LET r == RR!Resolve(x.h, {x.d[i] : i \in 1..Len(x.d)}) IN
                /\ x.panic = ""
                /\ IF r = <<"none">> THEN x.got = "" ELSE x.got = "R" \o ToString(KeyIdx(x, r))
\* ---- configuration lines
LibOK(x) == \A i \in 1..Len(x.model.lib) : LET e == x.model.lib[i] IN x.got.lib[e.key] = ExpLib(e)
RealmsOK(x) == x.got.realms = ExpRealms(x.model)
DomainsOK(x) == LET ed == ExpDomains(x.model) IN
                /\ {x.got.domains[i][1] : i \in 1..Len(x.got.domains)} = DOMAIN ed
                /\ \A i \in 1..Len(x.got.domains) : x.got.domains[i][2] = ed[x.got.domains[i][1]]
\* KDC selection: each configured server exactly once, configuration untouched
KDCsOK(x) == \A i \in 1..Len(x.got.kdcs) : LET k == x.got.kdcs[i]  er == ExpRealms(x.model)[k.realm] IN
                /\ IF er.kdc = << >> THEN k.err ELSE (~k.err /\ k.count = Len(er.kdc) /\ IsPermutation(k.servers, er.kdc))
                /\ IF er.kpasswd = << >> THEN k.perr ELSE (~k.perr /\ k.pcount = Len(er.kpasswd) /\ IsPermutation(k.pservers, er.kpasswd))
ConfOK(x) == /\ x.panic = ""
             /\ IF Valid(x.model) THEN ~x.err /\ LibOK(x) /\ RealmsOK(x) /\ DomainsOK(x) /\ KDCsOK(x) /\ x.got.unchanged
                ELSE x.err
\* ---- RealmResolve against MIT Kerberos' krb5_get_host_realm on the same configurations (validates the specification, not gokrb5).
\* MIT's implementation also takes a key written WITHOUT the leading period for a domain when it is a proper suffix of the host name
\* (its documentation says domains carry the period; gokrb5 and this specification follow the documentation): those cases are not compared
HostKeySuffix(x) == \E i \in 1..Len(x.d) : x.d[i][1] = "host" /\ x.d[i][2] \in RR!ProperSuffixes(x.h)
MITResolveOK(x) == LET r == RR!Resolve(x.h, {x.d[i] : i \in 1..Len(x.d)}) IN
                   x.rc = 0 /\ (HostKeySuffix(x) \/ x.mit = (IF r = <<"none">> THEN "" ELSE "R" \o ToString(KeyIdx(x, r))))
LineOK(x) == CASE x.ev = "resolve" -> ResolveOK(x) [] x.ev = "mitresolve" -> MITResolveOK(x) [] OTHER -> ConfOK(x)
Init == LT!Init
Next == LT!Next
Check == ~LT!Active \/ LineOK(Tr[l]) \/ PrintT(<<"BADLINE", l>>)
=============================================================================
