CONSTANTS Labels = {"a", "b"}  MaxDepth = 4  Universe = {}
INIT Init
NEXT Next
CHECK_DEADLOCK FALSE
