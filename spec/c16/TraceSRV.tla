------------------------------ MODULE TraceSRV ------------------------------
(* Trace validation of KDC discovery through DNS (vh dnssrv: the real Config.GetKDCs and Client.Login with a stub name server on
   127.0.0.1:53 that holds seeded SRV record sets; one of the records leads to the simulated KDC, the others to closed ports). *)
EXTENDS SRVDiscovery, Json
CONSTANTS NShards
Tr == ndJsonDeserialize("trace.ndjson")
NLines == Len(Tr)
VARIABLES sh, l
LT == INSTANCE LineTrace
LineOK(x) == CASE x.ev = "lookup" -> LookupOK(x) [] x.ev = "login" -> LoginOK(x) [] OTHER -> TRUE
Init == LT!Init
Next == LT!Next
Check == ~LT!Active \/ LineOK(Tr[l]) \/ PrintT(<<"BADLINE", l>>)
=============================================================================
