--------------------------- MODULE SPNEGOAcceptor ---------------------------
(***************************************************************************)
(* C03: the SPNEGO HTTP wrapper.  A request is described by its            *)
(* Authorization header (class of framing, mechanism list, kind of mech    *)
(* token and - for AP-REQ tokens - an APExchange request), the session     *)
(* cookie it carries and how the application's session store behaves.      *)
(* The wrapped handler may be invoked ONLY for a request that carries an   *)
(* AP-REQ the service accepts (APExchange!Accept) or that belongs to a     *)
(* session established by such a request; everything else is refused with  *)
(* 401 + "WWW-Authenticate: Negotiate..." (or 5xx when the store fails).    *)
(* The statement is one-directional ("only"); which well-formed framings   *)
(* ARE served is recorded separately as the vacuity guard (Canonical).     *)
(***************************************************************************)
EXTENDS APExchange
HeaderClasses == {"none", "otherScheme", "negotiateNoToken", "badBase64", "garbage", "negInit", "negResp", "rawKRB5",
                  "truncated", "mutated"}
MechLists == {"empty", "krb5", "mskrb5", "other", "other_krb5", "krb5_other", "absent"}
TokKinds == {"absent", "apreq", "aprep", "krberror", "garbage",
             "cut"}      \* a Kerberos mech token that ends inside or right after its token identifier, outer lengths adjusted
Regions == {"na", "tktCipher", "authCipher", "other"}      \* where a byte mutation of a valid header falls
Cookies == {"none", "own", "unknown", "unauth", "garbage"}  \* own: the cookie of the session this client established;
                                                            \* unauth/garbage: the application's session holds a credentials
                                                            \* blob that no successful authentication wrote
Stores == {"nosm", "ok", "getFails", "newFails",
           "getFailsStale"}     \* the store's Get reports an error AND hands back the record it holds (a revoked or expired session):
                                \* an error means "no session" (spnego.SessionMgr), whatever comes with it

\* a framing through which an AP-REQ can reach verification at all
Framed(h) == h.class \in {"negInit", "negResp", "rawKRB5", "mutated"} /\ h.tok = "apreq"
\* the header carries an AP-REQ the service accepts (tf: time facts of the embedded request, see APExchange)
CarriesAccepted(q, s, tf, replayed) ==
  /\ Framed(q.hdr)
  /\ ~(q.hdr.class = "mutated" /\ q.hdr.region \in {"tktCipher", "authCipher"})   \* integrity-protected bytes changed
  /\ Accept(q.ap, s, tf, replayed)
\* the request belongs to a session established by an accepted request
InSession(est, q) == est /\ q.cookie = "own" /\ q.store \in {"ok", "newFails"}
\* may the wrapped handler run?
MayServe(est, q, s, tf, replayed) == InSession(est, q) \/ (CarriesAccepted(q, s, tf, replayed) /\ q.store # "newFails")
\* does serving this request establish a session?
Establishes(q) == q.store = "ok"
\* vacuity guard only: framings of a valid AP-REQ that gokrb5 is expected to serve
Canonical(q) == /\ q.hdr.tok = "apreq" /\ q.cookie = "none" /\ q.store \in {"nosm", "ok"}
                /\ \/ q.hdr.class = "negInit" /\ q.hdr.mechs \in {"krb5", "mskrb5", "krb5_other"}
                   \/ q.hdr.class = "rawKRB5"

\* ---- the wrapper as a state machine over one client's requests --------------------------------------------------------
CONSTANTS Alphabet, Sett        \* finite set of abstract requests, one settings record
VARIABLES est, last
avars == <<est, last, rc, result>>
AInit == est = FALSE /\ last = [served |-> FALSE, legit |-> TRUE] /\ Init
Handle(q) == \E serve \in BOOLEAN :
               /\ serve => MayServe(est, q, Sett, LabelTF(q.ap), FALSE)
               /\ last' = [served |-> serve, legit |-> InSession(est, q) \/ CarriesAccepted(q, Sett, LabelTF(q.ap), FALSE)]
               /\ est' = (est \/ (serve /\ ~InSession(est, q) /\ Establishes(q)))
               /\ UNCHANGED <<rc, result>>
ANext == \E q \in Alphabet : Handle(q)
ASpec == AInit /\ [][ANext]_avars
ServedOnlyAuthenticated == last.served => last.legit
\* a session exists only if some accepted AP-REQ was served
SessionImpliesAuth == [][est' /\ ~est => last'.served /\ last'.legit]_avars
=============================================================================
