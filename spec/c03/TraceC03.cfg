CONSTANTS NShards = 16  Requests <- NoReq  Settings = {}  Alphabet = {}  Sett = 0
INIT TInit
NEXT TNext
INVARIANT Check
CHECK_DEADLOCK FALSE
