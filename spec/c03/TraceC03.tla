------------------------------ MODULE TraceC03 ------------------------------
(* C03 trace validation.  One line = the requests of one client to one instance of the real SPNEGO HTTP wrapper
   (x.reqs: abstract request q, concretisation, observation) under settings x.settings.  The line is folded through
   the acceptor specification: est says whether this client has established a session so far. *)
EXTENDS SPNEGOAcceptor, Json
CONSTANTS NShards
Tr == ndJsonDeserialize("trace.ndjson")
NLines == Len(Tr)
VARIABLES sh, l
LT == INSTANCE LineTrace
NoReq == << >>
TFc(ap, c, t) == [startOK |-> ap.start = "absent" \/ c.start - t <= c.skew,
                  endOK   |-> t - c.end <= c.skew,
                  skewOK  |-> c.ctime - t <= c.skew /\ t - c.ctime <= c.skew]
\* each request mints its own authenticator, so nothing is a replay within a line
May(es, e, s, t) == MayServe(es, e.q, s, TFc(e.q.ap, e.conc, t), FALSE)
\* the identity of an accepted AP-REQ: realm and (see TraceC01!NameOK) the ticket's client name or the account name of its verified PAC
IdOK(q, o, s) == /\ o.idRealmOK
                 /\ \/ o.idNameSrc = "ticket"
                    \/ o.idNameSrc = "pac" /\ q.ap.pac = "valid" /\ s.decodePAC
ReqOK(e, es, s) ==
  LET q == e.q  o == e.obs IN
  /\ o.outcome \in {"served", "refused", "error5xx"}                      \* never a panic, never another status
  /\ o.innerRan <=> o.outcome = "served"
  /\ o.outcome = "served" =>
        /\ May(es, e, s, o.t0) \/ May(es, e, s, o.t1)
        /\ IF InSession(es, q) THEN o.idIsSessions ELSE IdOK(q, o, s)      \* the identity in the context is the accepted one
  /\ o.outcome = "refused" => o.status = 401 /\ o.challengeNegotiate
  /\ o.outcome = "error5xx" => q.store \in {"getFails", "getFailsStale", "newFails"}
  \* no token-verification API reports success for a token that does not contain an accepted AP-REQ
  /\ e.api.acceptPanic = "" /\ e.api.directPanic = ""
  /\ e.api.accept => \E t \in {e.api.t0, e.api.t1} : CarriesAccepted(e.apiq, s, TFc(e.apiq.ap, e.apiconc, t), FALSE)
  /\ \A i \in 1..Len(e.api.direct) : ~e.api.direct[i]
Est(e, es) == es \/ (e.obs.outcome = "served" /\ ~InSession(es, e.q) /\ Establishes(e.q))
RECURSIVE Walk(_, _, _)
Walk(x, i, es) == IF i > Len(x.reqs) THEN TRUE
                   ELSE ReqOK(x.reqs[i], es, x.settings) /\ Walk(x, i + 1, Est(x.reqs[i], es))
\* a line {ev: "race"} is a report of Go's race detector naming gokrb5 code, seen during the concurrent phase: never acceptable
LineOK(x) == IF "ev" \in DOMAIN x THEN FALSE ELSE Walk(x, 1, FALSE)
TInit == LT!Init /\ AInit
TNext == LT!Next /\ UNCHANGED avars
Check == ~LT!Active \/ LineOK(Tr[l]) \/ PrintT(<<"BADLINE", l>>)
=============================================================================
