----------------------------- MODULE MCAcceptor -----------------------------
EXTENDS SPNEGOAcceptor
H(c, m, t) == [class |-> c, mechs |-> m, tok |-> t, region |-> "na"]
Q(h, ap, ck, st) == [hdr |-> h, ap |-> ap, cookie |-> ck, store |-> st]
MCAlphabet == { Q(H(c, m, t), ap, ck, st) :
                  c \in {"none", "negInit", "rawKRB5"}, m \in {"krb5", "other", "empty"}, t \in {"apreq", "krberror", "absent"},
                  ap \in {Nominal, [Nominal EXCEPT !.sealedBy = "none"], [Nominal EXCEPT !.crealm = "differs"]},
                  ck \in {"none", "own", "unknown", "unauth"}, st \in Stores }
MCSett == [skew |-> "default", requireHostAddr |-> FALSE, clientAddr |-> "set", override |-> "none", decodePAC |-> TRUE]
NoReq == << >>
=============================================================================
