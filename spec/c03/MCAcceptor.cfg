CONSTANTS Alphabet <- MCAlphabet  Sett <- MCSett  Requests <- NoReq  Settings = {}
SPECIFICATION ASpec
INVARIANT ServedOnlyAuthenticated
PROPERTY SessionImpliesAuth
CHECK_DEADLOCK FALSE
