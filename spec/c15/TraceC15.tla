------------------------------ MODULE TraceC15 ------------------------------
(* C15 trace validation.  One line per credential cache image: the model, the image the independent writer rendered for
   it, and everything gokrb5 reported after parsing the image - default principal, credentials field by field, the
   answers of Contains / GetEntry for the queries, the filtered listing GetEntries, the identity from
   GetClientCredentials, and the sessions and ticket cache of the client NewFromCCache built from it.
   A line is acceptable iff no part of it contradicts CCacheFormat; the parts that do are printed. *)
EXTENDS C15Json, Json
CONSTANTS NShards
Tr == ndJsonDeserialize("trace.ndjson")
NLines == Len(Tr)
VARIABLES sh, l
LT == INSTANCE LineTrace
CredParts(m, x) ==
  LET n == Len(m.creds) k == Len(x.creds) IN
  (IF n # k THEN {<<"count", k>>} ELSE {})
  \cup UNION { LET o == ObsCred(x.creds[i]) IN { <<f, i>> : f \in { g \in CredFields : ~FieldOK(g, m, m.creds[i], o) } }
               : i \in 1..Min2(n, k) }
LookupParts(m, x) ==
  UNION { LET lk == x.lookups[k]  M == Matching(m, HSeq(lk.q)) IN
          (IF lk.contains # (M # {}) THEN {<<"contains", k>>} ELSE {})
          \cup (IF lk.found # (M # {}) \/ (lk.found /\ lk.idx \notin M) THEN {<<"getentry", k>>} ELSE {})
          : k \in 1..Len(x.lookups) }
ClientParts(m, x) ==
  LET c == x.client IN
  IF ~c.called THEN {<<"client_not_called", 0>>}
  ELSE IF c.panic # "" THEN {<<"client_panic", 0>>}
  ELSE IF ~Buildable(m) THEN {}                         \* without a TGT or with opaque tickets: error or not, unspecified
  ELSE IF c.err THEN {<<"client_error", 0>>}
  ELSE (IF IdentityOK(m, ObsIdentity(c.identity)) THEN {} ELSE {<<"client_identity", 0>>})
       \cup (IF SessionsOK(m, ObsSessions(c.sessions)) THEN {} ELSE {<<"client_session", 0>>})
       \cup (IF CacheOK(m, ObsCache(c.cache)) THEN {} ELSE {<<"client_cache", 0>>})
Parts(x) ==
  LET m == ModelOf(x.model) IN
  IF ~WellFormed(m) \/ Render(m) # H(x.image) THEN {<<"notrendered", 0>>}     \* the image is not what this specification wrote
  ELSE IF x.panic # "" THEN {<<"parse_panic", 0>>}
  ELSE IF x.err THEN {<<"parse_error", 0>>}
  ELSE (IF x.version # m.version THEN {<<"version", 0>>} ELSE {})
       \cup (IF PrincOK(m, m.princ, PrincOf(x.princ)) THEN {} ELSE {<<"principal", 0>>})
       \cup CredParts(m, x)
       \cup (IF x.panics.lookups # "" THEN {<<"lookup_panic", 0>>} ELSE LookupParts(m, x))
       \cup (IF x.panics.entries # "" THEN {<<"getentries_panic", 0>>}
             ELSE IF EntriesOK(m, x.entries) THEN {} ELSE {<<"getentries", 0>>})
       \cup (IF x.panics.identity # "" THEN {<<"identity_panic", 0>>}
             ELSE IF /\ PrincOK(m, m.princ, PrincOf(x.pn))
                     /\ IdentityOK(m, ObsIdentity(x.identity)) /\ x.identity.realm2 = x.identity.realm THEN {} ELSE {<<"identity", 0>>})
       \cup ClientParts(m, x)
       \* what was parsed is still what was written after the library has used it: a client was built from the cache and destroyed,
       \* a second client was built from it afterwards and sees the same sessions and tickets
       \cup (IF x.credsAfter = x.creds THEN {} ELSE {<<"changed_by_use", 0>>})
       \* (the wording of an error is not compared: encoding/asn1 prints the address of a field descriptor in it)
       \cup (IF [x.client2 EXCEPT !.errmsg = ""] = [x.client EXCEPT !.errmsg = ""] THEN {} ELSE {<<"second_client_differs", 0>>})
Init == LT!Init
Next == LT!Next
Check == ~LT!Active \/ LET ps == Parts(Tr[l]) IN
                       ps = {} \/ (PrintT(<<"BADLINE", l>>) /\ \A p \in ps : PrintT(<<"BADPART", l, p[1], p[2]>>))
=============================================================================
