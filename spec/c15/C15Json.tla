------------------------------- MODULE C15Json -------------------------------
(* JSON <-> specification values: bytes travel as hex strings, 32-bit quantities as 4-tuples. *)
EXTENDS CCacheFormat
H(s) == FromHex(s)
HSeq(s) == [i \in 1..Len(s) |-> H(s[i])]
PrincOf(p) == [nt |-> p.nt, realm |-> H(p.realm), comps |-> HSeq(p.comps)]
TypedOf(s) == [i \in 1..Len(s) |-> [t |-> s[i].t, d |-> H(s[i].d)]]
TicketOf(t) == [kind |-> t.kind, raw |-> H(t.raw), realm |-> H(t.realm), nt |-> t.nt, comps |-> HSeq(t.comps),
                etype |-> t.etype, kvno |-> t.kvno, cipher |-> H(t.cipher)]
CredOf(c) == [client |-> PrincOf(c.client), server |-> PrincOf(c.server), ktype |-> c.ktype, key |-> H(c.key),
              auth |-> c.auth, start |-> c.start, end |-> c.end, renew |-> c.renew, skey |-> c.skey, flags |-> c.flags,
              addrs |-> TypedOf(c.addrs), ad |-> TypedOf(c.ad), ticket |-> TicketOf(c.ticket), ticket2 |-> H(c.ticket2)]
ModelOf(m) == [version |-> m.version, le |-> m.le,
               header |-> [i \in 1..Len(m.header) |-> [tag |-> m.header[i].tag, value |-> H(m.header[i].value)]],
               princ |-> PrincOf(m.princ), creds |-> [i \in 1..Len(m.creds) |-> CredOf(m.creds[i])]]
\* what the harness observed, in the specification's terms
ObsTicket(t) == [tktvno |-> t.tktvno, realm |-> H(t.realm), nt |-> t.nt, comps |-> HSeq(t.comps), etype |-> t.etype,
                 kvno |-> t.kvno, cipher |-> H(t.cipher)]
ObsCred(c) == [client |-> PrincOf(c.client), server |-> PrincOf(c.server), ktype |-> c.ktype, key |-> H(c.key),
               auth |-> c.auth, start |-> c.start, end |-> c.end, renew |-> c.renew, skey |-> c.skey,
               flags |-> H(c.flags), flagbits |-> c.flagbits, addrs |-> TypedOf(c.addrs), ad |-> TypedOf(c.ad),
               ticket |-> H(c.ticket), ticket2 |-> H(c.ticket2)]
ObsIdentity(o) == [username |-> H(o.username), realm |-> H(o.realm), realm2 |-> H(o.realm2), cname |-> HSeq(o.cname), cnt |-> o.cnt]
ObsSessions(s) == [i \in 1..Len(s) |-> [mapkey |-> H(s[i].mapkey), realm |-> H(s[i].realm), auth |-> s[i].auth, end |-> s[i].end,
                                        renew |-> s[i].renew, tgt |-> ObsTicket(s[i].tgt), ktype |-> s[i].ktype, key |-> H(s[i].key)]]
ObsCache(s) == [i \in 1..Len(s) |-> [mapkey |-> H(s[i].mapkey), spn |-> H(s[i].spn), ticket |-> ObsTicket(s[i].ticket),
                                     auth |-> s[i].auth, start |-> s[i].start, end |-> s[i].end, renew |-> s[i].renew,
                                     ktype |-> s[i].ktype, key |-> H(s[i].key)]]
=============================================================================
