CONSTANT NativeLittle = TRUE
CONSTANT Counts = {0, 1, 3}
CONSTANT KeyLens = {0, 64}
INIT Init
NEXT Next
