------------------------------ MODULE TicketDER ------------------------------
(***************************************************************************)
(* The DER image of an RFC 4120 Ticket, as far as a credential cache needs *)
(* it (the encrypted part stays opaque):                                   *)
(*   Ticket ::= [APPLICATION 1] SEQUENCE { tkt-vno [0] INTEGER (5),        *)
(*      realm [1] GeneralString, sname [2] PrincipalName,                  *)
(*      enc-part [3] EncryptedData }                                       *)
(*   PrincipalName ::= SEQUENCE { name-type [0] Int32,                     *)
(*      name-string [1] SEQUENCE OF GeneralString }                        *)
(*   EncryptedData ::= SEQUENCE { etype [0] Int32, kvno [1] UInt32 OPTIONAL,*)
(*      cipher [2] OCTET STRING }                                          *)
(* A ticket model is [realm, nt, comps, etype, kvno (-1 = absent), cipher].*)
(***************************************************************************)
EXTENDS Bytes
\* definite length, minimal form (X.690 10.1); contents below 2^24 bytes
DLen(n) == IF n < 128 THEN <<n>>
           ELSE IF n < 256 THEN <<129, n>>
           ELSE IF n < 65536 THEN <<130, n \div 256, n % 256>>
           ELSE <<131, n \div 65536, (n \div 256) % 256, n % 256>>
TLV(tag, v) == <<tag>> \o DLen(Len(v)) \o v
\* INTEGER contents: minimal two's complement (X.690 8.3); v in -2^31 .. 2^31-1
RECURSIVE Mag(_)
Mag(v) == IF v < 256 THEN <<v>> ELSE Mag(v \div 256) \o <<v % 256>>
DIntBody(v) == IF v >= 0 THEN (LET b == Mag(v) IN IF b[1] >= 128 THEN <<0>> \o b ELSE b)
               ELSE IF v >= -128 THEN <<v + 256>>
               ELSE IF v >= -32768 THEN BE16(v + 65536)
               ELSE IF v >= -8388608 THEN <<((v + 16777216) \div 65536) % 256, ((v + 16777216) \div 256) % 256, (v + 16777216) % 256>>
               ELSE <<255 - ((-(v + 1)) \div 16777216), 255 - (((-(v + 1)) \div 65536) % 256), 255 - (((-(v + 1)) \div 256) % 256), 255 - ((-(v + 1)) % 256)>>
DInt(v) == TLV(2, DIntBody(v))
GenStr(s) == TLV(27, s)
Ctx(n, v) == TLV(160 + n, v)
DPrincipalName(nt, comps) == TLV(48, Ctx(0, DInt(nt)) \o Ctx(1, TLV(48, Concat([i \in 1..Len(comps) |-> GenStr(comps[i])]))))
DEncryptedData(etype, kvno, cipher) ==
  TLV(48, Ctx(0, DInt(etype)) \o (IF kvno < 0 THEN << >> ELSE Ctx(1, DInt(kvno))) \o Ctx(2, TLV(4, cipher)))
TicketImage(t) == TLV(97, TLV(48, Ctx(0, DInt(5)) \o Ctx(1, GenStr(t.realm)) \o Ctx(2, DPrincipalName(t.nt, t.comps))
                                  \o Ctx(3, DEncryptedData(t.etype, t.kvno, t.cipher))))
=============================================================================
