------------------------------- MODULE GenC15 -------------------------------
(* role B: the independent writer renders the credential cache models chosen by the driver (models.ndjson) into file
   images, and derives the look-up queries to ask of each: every server name written, near misses of them (a component
   less, a component more, last byte changed), the default principal's name, the TGT name and the empty name. *)
EXTENDS C15Json, Json, SequencesExt
Models == ndJsonDeserialize("models.ndjson")
Near(c) == {c \o <<StrBytes("x")>>}
           \cup (IF Len(c) = 0 THEN {}
                 ELSE {SubSeq(c, 1, Len(c) - 1)}
                      \cup (IF Len(c[Len(c)]) = 0 THEN {}
                            ELSE {[c EXCEPT ![Len(c)] = [@ EXCEPT ![Len(@)] = (@ + 1) % 256]],
                                  [c EXCEPT ![Len(c)] = SubSeq(@, 1, Len(@) - 1)]}))
Queries(m) == LET n == Len(m.creds)
                  servers == { m.creds[i].server.comps : i \in 1..n }
                  nearOf == UNION { Near(m.creds[i].server.comps) : i \in 1..Min2(n, 2) }
              IN servers \cup nearOf \cup {m.princ.comps, << >>, <<StrBytes("krbtgt"), m.princ.realm>>}
QHex(q) == [i \in 1..Len(q) |-> ToHex(q[i])]
Image(raw) == LET m == ModelOf(raw) qs == SetToSeq(Queries(m)) IN
              [model |-> raw, image |-> ToHex(Render(m)), queries |-> [k \in 1..Len(qs) |-> QHex(qs[k])]]
(* In addition TLC enumerates EVERY combination of counts for a file of two credentials - components of the default
   principal, components of the first server, its addresses, its authorization data (each over Counts), its key length
   (over KeyLens) - in every version; the second credential is a TGT, so that any error in the extent of the first one is
   visible in the second and a client can be built.  Version 4 headers cycle through none / one / two known fields /
   an unknown field before a known one.  Contents are fixed by the shape. *)
CONSTANTS NativeLittle, Counts, KeyLens
HS(s) == ToHex(StrBytes(s))
One4 == <<0, 0, 0, 1>>
PrincRaw(n, realm) == [nt |-> One4, realm |-> HS(realm), comps |-> [i \in 1..n |-> ToHex(StrBytes("comp") \o <<48 + i>>)]]
TypedRaw(n, base) == [i \in 1..n |-> [t |-> base + i, d |-> ToHex(Rep(i, 4 * i))]]
DerRaw(realm, nt, comps) == [kind |-> "der", raw |-> "", realm |-> realm, nt |-> nt, comps |-> comps, etype |-> 18, kvno |-> 1,
                             cipher |-> ToHex(Rep(170, 20))]
Known8 == [tag |-> 1, value |-> "0000000500000007"]
HeaderRaw(v, k) == IF v # 4 THEN << >>
                   ELSE CASE k = 0 -> << >> [] k = 1 -> <<Known8>> [] k = 2 -> <<Known8, Known8>>
                          [] OTHER -> <<[tag |-> 2, value |-> "aabbcc"], Known8>>
Shapes == [version : 1..4, nd : Counts, ns : Counts, na : Counts, nz : Counts, kl : KeyLens]
ShapeRaw(s) ==
  LET default == PrincRaw(s.nd, "R.TEST")
      server == PrincRaw(s.ns, "S.TEST")
      tgtname == [nt |-> <<0, 0, 0, 2>>, realm |-> HS("R.TEST"), comps |-> <<HS("krbtgt"), HS("R.TEST")>>]
      first == [client |-> default, server |-> server, ktype |-> 18, key |-> ToHex(Rep(7, s.kl)),
                auth |-> <<89, 102, 91, 142>>, start |-> <<89, 102, 91, 143>>, end |-> <<89, 103, 4, 78>>, renew |-> <<89, 103, 173, 8>>,
                skey |-> s.kl % 2, flags |-> <<64, 225, 0, 0>>, addrs |-> TypedRaw(s.na, 1), ad |-> TypedRaw(s.nz, 100),
                ticket |-> DerRaw(server.realm, 1, server.comps), ticket2 |-> ToHex(Rep(3, s.nz))]
      tgt == [client |-> default, server |-> tgtname, ktype |-> 17, key |-> ToHex(Rep(9, 16)),
              auth |-> <<89, 102, 91, 142>>, start |-> <<0, 0, 0, 0>>, end |-> <<127, 255, 255, 255>>, renew |-> <<128, 0, 0, 0>>,
              skey |-> 0, flags |-> <<0, 64, 0, 0>>, addrs |-> << >>, ad |-> << >>,
              ticket |-> DerRaw(tgtname.realm, 2, tgtname.comps), ticket2 |-> ""]
  IN [class |-> "enumerated-counts", version |-> s.version, le |-> NativeLittle,
      header |-> HeaderRaw(s.version, (s.ns + s.na + s.nz) % 4), princ |-> default, creds |-> <<first, tgt>>]
ShapeSeq == SetToSeq(Shapes)
AllRaw == Models \o [i \in 1..Len(ShapeSeq) |-> ShapeRaw(ShapeSeq[i])]
ASSUME \A i \in 1..Len(AllRaw) : WellFormed(ModelOf(AllRaw[i])) \/ PrintT(<<"ILLFORMED", i>>)
ASSUME ndJsonSerialize("images.ndjson", [i \in 1..Len(AllRaw) |-> Image(AllRaw[i])])
ASSUME PrintT(<<"COUNTS", Len(Models), Len(AllRaw) - Len(Models)>>)
VARIABLE x
Init == x = 0
Next == UNCHANGED x
=============================================================================
