import java.io.*;
import java.nio.file.*;
import java.util.*;
import sun.security.krb5.internal.ccache.FileCredentialsCache;
import sun.security.krb5.internal.ccache.CredentialsCache;

/** Independent reader (the JDK's own credential cache code) used to cross-check CCacheFormat.Render.
 *  usage: JdkCCacheReader file...   prints one line per file: name|primary@realm|n|cred;cred;...
 *  cred = client|server|etype|keyhex|auth|start|end|renew|flagsbits|tickethex  */
public class JdkCCacheReader {
    static String hex(byte[] b) { StringBuilder s = new StringBuilder(); if (b != null) for (byte x : b) s.append(String.format("%02x", x)); return s.toString(); }
    static long secs(Date d) { return d == null ? 0 : Math.floorDiv(d.getTime(), 1000L); }
    public static void main(String[] a) throws Exception {
        for (String f : a) {
            StringBuilder o = new StringBuilder(new File(f).getName());
            try {
                FileCredentialsCache c = FileCredentialsCache.acquireInstance(null, f);
                if (c == null) { System.out.println(o + "|LOADFAILED"); continue; }
                o.append("|").append(c.getPrimaryPrincipal().toString());
                sun.security.krb5.internal.ccache.Credentials[] cs = c.getCredsList();
                int n = cs == null ? 0 : cs.length;
                o.append("|").append(n).append("|");
                for (int i = 0; i < n; i++) {
                    sun.security.krb5.Credentials k = cs[i].setKrbCreds();
                    boolean[] fl = k.getFlags();
                    StringBuilder fb = new StringBuilder();
                    for (int j = 0; j < 32; j++) fb.append(j < fl.length && fl[j] ? '1' : '0');
                    o.append(k.getClient()).append(",").append(k.getServer()).append(",").append(k.getSessionKey().getEType()).append(",")
                     .append(hex(k.getSessionKey().getBytes())).append(",").append(secs(k.getAuthTime())).append(",").append(secs(k.getStartTime())).append(",")
                     .append(secs(k.getEndTime())).append(",").append(secs(k.getRenewTill())).append(",").append(fb).append(",").append(hex(k.getEncoded())).append(";");
                }
                List<CredentialsCache.ConfigEntry> ce = c.getConfigEntries();
                o.append("|").append(ce == null ? 0 : ce.size());
            } catch (Throwable t) { o.append("|EXC ").append(t); }
            System.out.println(o);
        }
    }
}
