----------------------------- MODULE CCacheFormat -----------------------------
(***************************************************************************)
(* The MIT file credential cache format, versions 1 to 4, written as an    *)
(* independent WRITER (Render) plus the acceptance rules for what a        *)
(* conforming READER may report for the rendered bytes.                    *)
(* Source: MIT krb5 doc/formats/ccache_file_format.rst.                    *)
(*                                                                         *)
(*   file       = 0x05, version, [header (version 4 only)], principal,     *)
(*                credential*                                              *)
(*   header     = uint16 length of all fields, field*                      *)
(*   field      = uint16 tag, uint16 length, value.  Tag 1 (KDC time       *)
(*                offset) has length 8; "a file format implementation      *)
(*                should ignore fields with unknown tags".                 *)
(*   principal  = [int32 name type, not in version 1],                     *)
(*                int32 count of components (version 1: + 1 for the realm),*)
(*                data realm, data component*                              *)
(*   data       = uint32 length, bytes                                     *)
(*   credential = principal client, principal server, keyblock,            *)
(*                int32 authtime, starttime, endtime, renew_till,          *)
(*                uint8 is_skey, uint32 ticket_flags,                      *)
(*                uint32 count, address*, uint32 count, authdata*,         *)
(*                data ticket, data second_ticket                          *)
(*   keyblock   = uint16 enctype (written twice in version 3), data        *)
(*   address    = uint16 addrtype, data;   authdata = uint16 ad_type, data *)
(* Versions 1 and 2 use the byte order of the writing host for every       *)
(* integer (m.le = TRUE: little endian), versions 3 and 4 big endian.      *)
(* A configuration entry is a credential whose server principal has the    *)
(* realm "X-CACHECONF:" and the first component "krb5_ccache_conf_data";   *)
(* its value is stored in the ticket field.                                *)
(*                                                                         *)
(* 32-bit quantities are carried as 4-tuples of bytes, most significant    *)
(* first (TLC integers are 32-bit signed); 16-bit ones as 0..65535.        *)
(***************************************************************************)
EXTENDS TicketDER, KrbPrims, FiniteSets

LEof(m) == m.version \in {1, 2} /\ m.le
E16(v, le) == IF le THEN LE16(v) ELSE BE16(v)
E32(b4, le) == IF le THEN Rev(b4) ELSE b4
N32(n, le) == E32(BE32(n), le)
Data(d, le) == N32(Len(d), le) \o d
Cat(n, F(_)) == Concat([i \in 1..n |-> F(i)])

Princ(m, p) ==
  LET le == LEof(m) IN
  (IF m.version = 1 THEN << >> ELSE E32(p.nt, le))
  \o N32(Len(p.comps) + (IF m.version = 1 THEN 1 ELSE 0), le)
  \o Data(p.realm, le)
  \o Cat(Len(p.comps), LAMBDA i : Data(p.comps[i], le))
Keyblock(m, c) ==
  LET le == LEof(m) IN
  E16(c.ktype, le) \o (IF m.version = 3 THEN E16(c.ktype, le) ELSE << >>) \o Data(c.key, le)
Typed(s, le) == N32(Len(s), le) \o Cat(Len(s), LAMBDA i : E16(s[i].t, le) \o Data(s[i].d, le))
\* the ticket field: opaque bytes, or the DER image of a ticket model
TicketBytes(t) == IF t.kind = "der" THEN TicketImage(t) ELSE t.raw
Cred(m, c) ==
  LET le == LEof(m) IN
  Princ(m, c.client) \o Princ(m, c.server) \o Keyblock(m, c)
  \o E32(c.auth, le) \o E32(c.start, le) \o E32(c.end, le) \o E32(c.renew, le)
  \o <<c.skey>> \o E32(c.flags, le)
  \o Typed(c.addrs, le) \o Typed(c.ad, le)
  \o Data(TicketBytes(c.ticket), le) \o Data(c.ticket2, le)
Header(m) ==
  IF m.version # 4 THEN << >>
  ELSE LET b == Cat(Len(m.header), LAMBDA i : BE16(m.header[i].tag) \o BE16(Len(m.header[i].value)) \o m.header[i].value)
       IN BE16(Len(b)) \o b
Render(m) == <<5, m.version>> \o Header(m) \o Princ(m, m.princ) \o Cat(Len(m.creds), LAMBDA i : Cred(m, m.creds[i]))

\* a model is within the format: known header fields have their fixed length, is_skey is 0 or 1
WellFormed(m) ==
  /\ m.version \in 1..4
  /\ \A i \in 1..Len(m.header) : m.header[i].tag = 1 => Len(m.header[i].value) = 8
  /\ (m.version # 4 => m.header = << >>)
  /\ \A i \in 1..Len(m.creds) : m.creds[i].skey \in {0, 1}

(***************************************************************************)
(* What a conforming reader may report.  Where the format leaves a choice, *)
(* every choice is allowed:                                                *)
(*  - version 1 does not store the name type: any value;                   *)
(*  - 16-bit types (enctype, addrtype, ad_type) may be reported signed or  *)
(*    unsigned: equality modulo 2^16;                                      *)
(*  - 32-bit times are signed seconds (the property quantifies "times over *)
(*    the signed 32-bit range"; the format documents int32): the low 32    *)
(*    bits are the written ones and the rest is their sign extension.  An  *)
(*    observed time is [hi, lo] with lo the low 32 bits (4-tuple) and hi   *)
(*    the value shifted right by 32.  (MIT >= 1.16 reads the same field    *)
(*    unsigned; a reader doing so does not return the written time for     *)
(*    values before 1970 and is rejected here.)                            *)
(*  - ticket flags are a 32-bit integer whose most significant bit is      *)
(*    Kerberos flag 0 (TKT_FLG_FORWARDABLE = 0x40000000 = flag 1), i.e. as *)
(*    a KerberosFlags bit string the 4 bytes in most-significant-first     *)
(*    order, whatever the byte order of the file.                          *)
(***************************************************************************)
PrincOK(m, p, o) == /\ o.realm = p.realm
                    /\ o.comps = p.comps
                    /\ (m.version = 1 \/ o.nt = p.nt)
U16(v) == (v + 65536) % 65536
TimeOK(w, o) == o.lo = w /\ o.hi = (IF w[1] >= 128 THEN -1 ELSE 0)
TypedOK(s, o) == /\ Len(o) = Len(s)
                 /\ \A i \in 1..Len(s) : U16(o[i].t) = s[i].t /\ o[i].d = s[i].d
\* field by field, so that a rejected line can name the fields that differ
CredFields == {"client", "server", "keytype", "key", "authtime", "starttime", "endtime", "renew_till", "is_skey", "flags",
               "addresses", "authdata", "ticket", "second_ticket"}
FieldOK(f, m, c, o) ==
  CASE f = "client" -> PrincOK(m, c.client, o.client)
    [] f = "server" -> PrincOK(m, c.server, o.server)
    [] f = "keytype" -> U16(o.ktype) = c.ktype
    [] f = "key" -> o.key = c.key
    [] f = "authtime" -> TimeOK(c.auth, o.auth)
    [] f = "starttime" -> TimeOK(c.start, o.start)
    [] f = "endtime" -> TimeOK(c.end, o.end)
    [] f = "renew_till" -> TimeOK(c.renew, o.renew)
    [] f = "is_skey" -> o.skey = (c.skey # 0)
    [] f = "flags" -> o.flags = c.flags /\ o.flagbits = 32
    [] f = "addresses" -> TypedOK(c.addrs, o.addrs)
    [] f = "authdata" -> TypedOK(c.ad, o.ad)
    [] f = "ticket" -> o.ticket = TicketBytes(c.ticket)
    [] f = "second_ticket" -> o.ticket2 = c.ticket2
CredOK(m, c, o) == \A f \in CredFields : FieldOK(f, m, c, o)

(***************************************************************************)
(* Look-up by server principal (RFC 4120 6.2: the name type is not         *)
(* significant), and configuration entries.  Which of several credentials  *)
(* for the same server is returned is not specified: any of them.          *)
(***************************************************************************)
ConfRealm == StrBytes("X-CACHECONF:")
ConfName == StrBytes("krb5_ccache_conf_data")
Matching(m, q) == { i \in 1..Len(m.creds) : m.creds[i].server.comps = q }
IsConf(c) == c.server.realm = ConfRealm /\ Len(c.server.comps) >= 1 /\ c.server.comps[1] = ConfName
\* ordinary credentials: must be listed; configuration entries: must not; a credential in the configuration realm under
\* another name is neither a configuration entry of the format nor a credential any KDC issues: either way
MustList(m) == { i \in 1..Len(m.creds) : m.creds[i].server.realm # ConfRealm }
MustHide(m) == { i \in 1..Len(m.creds) : IsConf(m.creds[i]) }
MayList(m) == (1..Len(m.creds)) \ MustHide(m)
\* o: the sequence of indices (0 = not a credential of the cache) that the filtered listing returned
EntriesOK(m, o) == LET S == { o[i] : i \in 1..Len(o) } IN
                   /\ Cardinality(S) = Len(o)
                   /\ MustList(m) \subseteq S
                   /\ S \subseteq MayList(m)

(***************************************************************************)
(* A client built from the cache.  Defined when the cache holds a ticket   *)
(* granting ticket krbtgt/REALM for the default principal's realm and all  *)
(* listed credentials carry DER tickets issued for the server principal    *)
(* they are stored under; the client then holds                            *)
(*  - the identity of the default principal,                               *)
(*  - one session for that realm with the times, key and ticket of a TGT   *)
(*    credential,                                                          *)
(*  - for each listed credential a cache entry under the printed server    *)
(*    name of its ticket (components joined by "/"), holding the ticket,   *)
(*    times and key of a credential with that name, and nothing else.      *)
(***************************************************************************)
Slash == 47
JoinSlash(comps) == Concat([i \in 1..Len(comps) |-> IF i = 1 THEN comps[i] ELSE <<Slash>> \o comps[i]])
TGTs(m) == Matching(m, <<StrBytes("krbtgt"), m.princ.realm>>)
Buildable(m) == /\ TGTs(m) # {}
                /\ \A i \in TGTs(m) \cup MayList(m) : /\ m.creds[i].ticket.kind = "der"
                                                       /\ m.creds[i].ticket.comps = m.creds[i].server.comps
TicketOK(t, o) == /\ o.tktvno = 5 /\ o.realm = t.realm /\ o.nt = t.nt /\ o.comps = t.comps
                  /\ o.etype = t.etype /\ o.kvno = (IF t.kvno < 0 THEN 0 ELSE t.kvno) /\ o.cipher = t.cipher
KeyOK(c, o) == U16(o.ktype) = c.ktype /\ o.key = c.key
IdentityOK(m, o) == /\ o.username = JoinSlash(m.princ.comps)
                    /\ o.realm = m.princ.realm
                    /\ PrincOK(m, m.princ, [realm |-> o.realm, comps |-> o.cname, nt |-> o.cnt])
SessionsOK(m, o) == /\ Len(o) = 1
                    /\ o[1].mapkey = m.princ.realm /\ o[1].realm = m.princ.realm
                    /\ \E i \in TGTs(m) : LET c == m.creds[i] IN
                         /\ TimeOK(c.auth, o[1].auth) /\ TimeOK(c.end, o[1].end) /\ TimeOK(c.renew, o[1].renew)
                         /\ TicketOK(c.ticket, o[1].tgt) /\ KeyOK(c, o[1])
SPN(c) == JoinSlash(c.ticket.comps)
CacheOK(m, o) == /\ \A i \in MustList(m) : \E k \in 1..Len(o) : o[k].mapkey = SPN(m.creds[i])
                 /\ \A k, j \in 1..Len(o) : o[k].mapkey = o[j].mapkey => k = j
                 /\ \A k \in 1..Len(o) : /\ o[k].spn = o[k].mapkey
                                         /\ \E i \in MayList(m) : LET c == m.creds[i] IN
                                              /\ SPN(c) = o[k].mapkey
                                              /\ TicketOK(c.ticket, o[k].ticket) /\ KeyOK(c, o[k])
                                              /\ TimeOK(c.auth, o[k].auth) /\ TimeOK(c.start, o[k].start)
                                              /\ TimeOK(c.end, o[k].end) /\ TimeOK(c.renew, o[k].renew)
=============================================================================
