---------------------------- MODULE KPasswdProof ----------------------------
(***************************************************************************)
(* The core of KPasswd.tla for UNBOUNDED numbers of requests, subkeys and   *)
(* replies, proved with TLAPS.  Subkeys identify requests.  A reply is a    *)
(* pair (lock, body): lock = the subkey it is sealed with (0: not sealed,   *)
(* the error form), body = "ok" (result code 0), "no" (another code) or     *)
(* "req" (the user data of a change request: what a reflected request       *)
(* carries).  Only the service and the requesting client hold a subkey, so  *)
(* the only sealed bodies there can be are the service's results and the    *)
(* client's own request.  The client reports success for its outstanding    *)
(* request s exactly when it receives (s, "ok").                            *)
(***************************************************************************)
EXTENDS Integers, TLAPS
CONSTANT Subkeys
ASSUME SubkeysPos == Subkeys \subseteq Nat \ {0}
VARIABLES used,      \* subkeys of requests sent so far
          applied,   \* subkeys whose request the service applied
          replies,   \* replies that exist on the network
          success    \* subkeys for which ChangePasswd returned true
vars == <<used, applied, replies, success>>
Bodies == {"ok", "no", "req"}
Init == used = {} /\ applied = {} /\ replies = {} /\ success = {}
Request(s) == s \in Subkeys \ used /\ used' = used \cup {s} /\ UNCHANGED <<applied, replies, success>>
\* the service answers a request it has not answered yet: applies it and says "ok", or refuses and says "no"
Serve(s, acc) == /\ s \in used /\ s \notin applied /\ <<s, "no">> \notin replies
                 /\ IF acc THEN applied' = applied \cup {s} /\ replies' = replies \cup {<<s, "ok">>}
                           ELSE UNCHANGED applied /\ replies' = replies \cup {<<s, "no">>}
                 /\ UNCHANGED <<used, success>>
\* the attacker: the client's own request sent back, and unsealed replies saying anything
Reflect(s) == s \in used /\ replies' = replies \cup {<<s, "req">>} /\ UNCHANGED <<used, applied, success>>
Unsealed(b) == b \in Bodies /\ replies' = replies \cup {<<0, b>>} /\ UNCHANGED <<used, applied, success>>
\* the client's verdict: success only for a reply sealed with its subkey whose body is result code 0
Receive(s, r) == /\ s \in used /\ r \in replies
                 /\ success' = IF r = <<s, "ok">> THEN success \cup {s} ELSE success
                 /\ UNCHANGED <<used, applied, replies>>
Next == \/ \E s \in Subkeys : Request(s) \/ Reflect(s) \/ (\E acc \in BOOLEAN : Serve(s, acc)) \/ (\E r \in replies : Receive(s, r))
        \/ \E b \in Bodies : Unsealed(b)
Spec == Init /\ [][Next]_vars
SuccessIsAuthentic == success \subseteq applied
IndInv == /\ success \subseteq applied
          /\ used \subseteq Subkeys
          /\ \A r \in replies : (r[2] = "ok" /\ r[1] # 0) => r[1] \in applied
THEOREM Safety == Spec => []SuccessIsAuthentic
<1>1. Init => IndInv
  BY DEF Init, IndInv
<1>2. IndInv /\ [Next]_vars => IndInv'
  <2> SUFFICES ASSUME IndInv, [Next]_vars PROVE IndInv'
    OBVIOUS
  <2>1. ASSUME NEW s \in Subkeys, Request(s) PROVE IndInv'
    BY <2>1 DEF IndInv, Request
  <2>2. ASSUME NEW s \in Subkeys, Reflect(s) PROVE IndInv'
    BY <2>2 DEF IndInv, Reflect
  <2>3. ASSUME NEW s \in Subkeys, NEW acc \in BOOLEAN, Serve(s, acc) PROVE IndInv'
    BY <2>3, SubkeysPos DEF IndInv, Serve
  <2>4. ASSUME NEW s \in Subkeys, NEW r \in replies, Receive(s, r) PROVE IndInv'
    BY <2>4, SubkeysPos DEF IndInv, Receive
  <2>5. ASSUME NEW b \in Bodies, Unsealed(b) PROVE IndInv'
    BY <2>5 DEF IndInv, Unsealed, Bodies
  <2>6. CASE UNCHANGED vars
    BY <2>6 DEF IndInv, vars
  <2> QED BY <2>1, <2>2, <2>3, <2>4, <2>5, <2>6 DEF Next
<1>3. IndInv => SuccessIsAuthentic
  BY DEF IndInv, SuccessIsAuthentic
<1> QED BY <1>1, <1>2, <1>3, PTL DEF Spec
=============================================================================
