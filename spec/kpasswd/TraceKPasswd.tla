----------------------------- MODULE TraceKPasswd -----------------------------
(***************************************************************************)
(* Trace validation of the REAL Client.ChangePasswd against the simulated   *)
(* password-change service and attacker (vh kpasswd) against KPasswd.       *)
(* One user per round (mapped to "u").  Events:                             *)
(*   server  the service applied / refused a request  -> Serve              *)
(*   client  ChangePasswd returned                     -> Receive / GiveUp   *)
(*   login   a fresh client logs in with a password: succeeds iff it is the *)
(*           one in the database                                            *)
(* SuccessIsAuthentic and ClientPasswordWasApplied are invariants of the    *)
(* trace; in addition a genuine success reply must be accepted, and only    *)
(* the genuine reply may be.                                                *)
(***************************************************************************)
EXTENDS KPasswd, Json, TLCExt
Tr == ndJsonDeserialize("trace.ndjson")
VARIABLE l
tvars == <<vars, l>>
U == "u"
IsEv(e) == l <= Len(Tr) /\ Tr[l].ev = e
Consume == l' = l + 1
TInit == Init /\ l = 1 /\ TLCSet(1, 1)
TServer == /\ IsEv("server") /\ Consume
           /\ LET x == Tr[l] IN
              /\ \A a \in applied : a.sub # x.sub                                   \* each request is served once
              /\ IF x.action = "applied"
                 THEN db' = [db EXCEPT ![U] = x.new] /\ applied' = applied \cup {[u |-> U, new |-> x.new, sub |-> x.sub]}
                 ELSE x.action = "refused" /\ UNCHANGED <<db, applied>>
           /\ UNCHANGED <<cpw, out, net, usedKeys, results>>
\* reflected-kvno / reflected-etype: the step Reflect with an unauthenticated outer field of the EncryptedData changed
Attack == {"reflected", "reflected-kvno", "reflected-etype", "errorform0", "earlier", "wrongkey", "sessionkey", "tampered", "truncated"}
TClient == /\ IsEv("client") /\ Consume
           /\ LET x == Tr[l]
                  served == [u |-> U, new |-> x.new, sub |-> x.sub] \in applied
              IN /\ x.panic = ""
                 /\ x.reply \in Attack => ~x.ok                                      \* nothing the attacker can build is a success
                 /\ (x.reply = "genuine" /\ served) => x.ok                          \* the service's success is reported
                 /\ x.reply = "refused" => ~x.ok
                 /\ results' = Append(results, [u |-> U, new |-> x.new, sub |-> x.sub, ok |-> x.ok])
                 /\ cpw' = IF x.ok THEN [cpw EXCEPT ![U] = x.new] ELSE cpw
                 /\ x.pwAfter = cpw'[U]                                              \* the credentials change exactly on success
                 /\ cpw'[U] = db[U] \/ ~x.ok                                         \* (and then to what the database holds)
           /\ UNCHANGED <<db, out, net, usedKeys, applied>>
\* the next ChangePasswd is made by a fresh client that knows the current password
TLogin == /\ IsEv("login") /\ Consume
          /\ LET x == Tr[l] IN x.ok <=> (db[U] = x.pw)
          /\ UNCHANGED vars
TReset == /\ IsEv("reset") /\ Consume
          /\ db' = [u \in Users |-> Initial] /\ cpw' = [u \in Users |-> Initial] /\ applied' = {} /\ results' = << >>
          /\ UNCHANGED <<out, net, usedKeys>>
\* every exchange is made by a fresh client that was given the password the database holds at that moment (a client that
\* failed although its change was applied has lost track): a silent step before the events of the exchange
TResync == /\ l <= Len(Tr) /\ (Tr[l].ev = "server" \/ (Tr[l].ev = "client" /\ Tr[l].sub = 0)) /\ cpw[U] # db[U]
           /\ cpw' = [cpw EXCEPT ![U] = db[U]] /\ UNCHANGED <<db, out, net, usedKeys, applied, results, l>>
\* an independent client (MIT's krb5_change_password) at the simulated service: its request was applied (the server event precedes), and
\* it reads the service's reply as success - the simulated service speaks the protocol another implementation understands
TMITClient == /\ IsEv("mitclient") /\ Consume
              /\ LET x == Tr[l] IN x.stage = 3 /\ x.rc = 0 /\ x.result = 0 /\ db[U] = x.new
              /\ UNCHANGED vars
TNext == TServer \/ TClient \/ TLogin \/ TReset \/ TResync \/ TMITClient
TSpec == TInit /\ [][TNext]_tvars
Mark == IF l > TLCGet(1) THEN TLCSet(1, l) ELSE TRUE
Accepted == IF TLCGet(1) = Len(Tr) + 1 THEN TRUE ELSE PrintT(<<"REJECTED", TLCGet(1)>>)
=============================================================================
