CONSTANTS Users = {"u"}  Passwords = {}  KeyIds = {}  MaxMsgs = 0  Initial = "p0"  ErrorFormCanSucceed = FALSE
SPECIFICATION TSpec
CONSTRAINT Mark
INVARIANTS SuccessIsAuthentic ClientPasswordWasApplied DatabaseFollowsRequests
POSTCONDITION Accepted
CHECK_DEADLOCK FALSE
