CONSTANTS Users = {"alice", "bob"}  Passwords = {"p0", "p1", "p2"}  KeyIds = {1, 2, 3}  MaxMsgs = 5  Initial = "p0"  ErrorFormCanSucceed = FALSE
SPECIFICATION Spec
INVARIANTS SuccessIsAuthentic ClientPasswordWasApplied DatabaseFollowsRequests
CONSTRAINT ResultsBound
CHECK_DEADLOCK FALSE
