------------------------------- MODULE KPasswd -------------------------------
(***************************************************************************)
(* The change-password exchange (RFC 3244) as gokrb5 implements its client *)
(* side: client/passwd.go, kadmin/passwd.go, kadmin/message.go.             *)
(*                                                                         *)
(*   client   AS exchange for kadmin/changepw, then one request: an AP-REQ *)
(*            whose authenticator carries a fresh subkey, and a KRB-PRIV    *)
(*            under that subkey holding the new password                    *)
(*   server   opens the AP-REQ (ticket key, session key), the KRB-PRIV      *)
(*            (subkey), applies or refuses the change, answers with a       *)
(*            KRB-PRIV under the same subkey holding a result code          *)
(*   client   opens the reply's KRB-PRIV with the subkey; the first two     *)
(*            octets of its user data are the result code; 0 is success     *)
(*            and only then the client's own credentials take the new       *)
(*            password.  A reply of the error form (no AP-REP, a KRB-ERROR  *)
(*            with the result code in its unauthenticated e-data) is a      *)
(*            failure whatever it says.                                     *)
(*                                                                         *)
(* The attacker sees and replays everything, answers in place of the        *)
(* server with anything it can build (it holds no subkey of an honest       *)
(* client): earlier replies, error-form replies, and the REFLECTION of the  *)
(* client's own KRB-PRIV - which the client can open, since request and     *)
(* reply use the same key and key usage; its user data is the DER of the    *)
(* change request, whose first two octets (30 xx) are not 0.                *)
(*                                                                         *)
(* Switch ErrorFormCanSucceed: a client that reads the result code of the   *)
(* error form as a verdict is told "success" by anyone.                     *)
(***************************************************************************)
EXTENDS Integers, Sequences, FiniteSets, TLC
CONSTANTS Users, Passwords, KeyIds, MaxMsgs, Initial, ErrorFormCanSucceed
VARIABLES db,        \* server: user -> current password
          cpw,       \* client: user -> the password its credentials hold
          out,       \* client: user -> outstanding request [sub, new] or None
          net,       \* messages sent so far
          usedKeys,
          applied,   \* server log: set of [u, new, sub]
          results    \* what ChangePasswd returned: sequence of [u, new, sub, ok]
vars == <<db, cpw, out, net, usedKeys, applied, results>>
None == [sub |-> 0, new |-> "-"]
Init == /\ db = [u \in Users |-> Initial] /\ cpw = [u \in Users |-> Initial] /\ out = [u \in Users |-> None]
        /\ net = {} /\ usedKeys = {} /\ applied = {} /\ results = << >>
Room == Cardinality(net) < MaxMsgs
\* a KRB-PRIV: lock = the subkey it is sealed with, body = its user data
Priv(sub, body) == [lock |-> sub, body |-> body]
ChangeData(new) == <<"chpw", new>>          \* DER of ChangePasswdData: begins 30 xx
Result(code) == <<"result", code>>
\* the request is made with the password the client believes in: the AS exchange succeeds only if the server agrees
Request(u, new, sub) == /\ Room /\ out[u] = None /\ sub \notin usedKeys /\ cpw[u] = db[u] /\ new # cpw[u]
                        /\ usedKeys' = usedKeys \cup {sub}
                        /\ out' = [out EXCEPT ![u] = [sub |-> sub, new |-> new]]
                        /\ net' = net \cup {[type |-> "req", u |-> u, priv |-> Priv(sub, ChangeData(new))]}
                        /\ UNCHANGED <<db, cpw, applied, results>>
\* the server applies or refuses (policy); each request is processed once
Serve(m, accept) == /\ Room /\ m \in net /\ m.type = "req" /\ \A a \in applied : a.sub # m.priv.lock
                    /\ ~\E r \in net : r.type = "rep" /\ r.form = "normal" /\ r.priv.lock = m.priv.lock /\ r.priv.body[1] = "result"
                    /\ IF accept THEN /\ db' = [db EXCEPT ![m.u] = m.priv.body[2]]
                                      /\ applied' = applied \cup {[u |-> m.u, new |-> m.priv.body[2], sub |-> m.priv.lock]}
                                 ELSE UNCHANGED <<db, applied>>
                    /\ net' = net \cup {[type |-> "rep", form |-> "normal", priv |-> Priv(m.priv.lock, Result(IF accept THEN 0 ELSE 4)), code |-> 0]}
                    /\ UNCHANGED <<cpw, out, usedKeys, results>>
\* ---- attacker: anything that needs no subkey
Reflect(m) == /\ Room /\ m \in net /\ m.type = "req"
              /\ net' = net \cup {[type |-> "rep", form |-> "normal", priv |-> m.priv, code |-> 0]}
              /\ UNCHANGED <<db, cpw, out, usedKeys, applied, results>>
ErrorForm(code) == /\ Room /\ net' = net \cup {[type |-> "rep", form |-> "error", priv |-> Priv(0, Result(code)), code |-> code]}
                   /\ UNCHANGED <<db, cpw, out, usedKeys, applied, results>>
\* ---- the client's verdict on a reply
Code(m, s) == IF m.form = "error" THEN (IF ErrorFormCanSucceed THEN m.code ELSE -1)       \* unauthenticated: a failure whatever it says
              ELSE IF m.priv.lock # s.sub THEN -1                                          \* does not decrypt
              ELSE IF m.priv.body[1] = "result" THEN m.priv.body[2]
              ELSE 12288                                                                   \* 30 00: the DER of a change request read as a code
Finish(u, ok) == /\ results' = Append(results, [u |-> u, new |-> out[u].new, sub |-> out[u].sub, ok |-> ok])
                 /\ cpw' = IF ok THEN [cpw EXCEPT ![u] = out[u].new] ELSE cpw
                 /\ out' = [out EXCEPT ![u] = None]
                 /\ UNCHANGED <<db, net, usedKeys, applied>>
Receive(u, m) == /\ out[u] # None /\ m \in net /\ m.type = "rep" /\ Finish(u, Code(m, out[u]) = 0)
\* no usable answer at all (garbage, time-out)
GiveUp(u) == out[u] # None /\ Finish(u, FALSE)
Next == \/ \E u \in Users, new \in Passwords, sub \in KeyIds : Request(u, new, sub)
        \/ \E m \in net, a \in BOOLEAN : Serve(m, a)
        \/ \E m \in net : Reflect(m)
        \/ \E c \in {0, 4} : ErrorForm(c)
        \/ \E u \in Users, m \in net : Receive(u, m)
        \/ \E u \in Users : GiveUp(u)
Spec == Init /\ [][Next]_vars
\* ---- properties
\* success is reported only for a change the server applied for this very request
SuccessIsAuthentic == \A i \in 1..Len(results) : results[i].ok => [u |-> results[i].u, new |-> results[i].new, sub |-> results[i].sub] \in applied
\* the client's credentials change only to a password the server applied for it
ClientPasswordWasApplied == \A u \in Users : cpw[u] = Initial \/ \E a \in applied : a.u = u /\ a.new = cpw[u]
\* the database changes only by requests of that user
DatabaseFollowsRequests == \A u \in Users : db[u] = Initial \/ \E a \in applied : a.u = u /\ a.new = db[u]
ResultsBound == Len(results) <= 3
=============================================================================
