CONSTANTS Workers <- MCWorkers  MaxGen = 3  Cap = 1  ReleaseBeforeRefresh = FALSE  NonBlockingCancel = TRUE
SPECIFICATION Spec
INVARIANTS NoStuck
CHECK_DEADLOCK FALSE
