CONSTANTS Workers <- MCWorkers  MaxGen = 3  Cap = 1  ReleaseBeforeRefresh = TRUE  NonBlockingCancel = FALSE
SPECIFICATION Spec
INVARIANTS NoStuck
CHECK_DEADLOCK FALSE
