--------------------------- MODULE LockDiscipline ---------------------------
(***************************************************************************)
(* The nestings of locks the client's protocol uses, shared by the model   *)
(* of the protocol (ClientConcurrency: its steps request the table's lock  *)
(* only while holding nothing - MTakenFirst - and a session's lock only    *)
(* under the table's or alone) and by the trace validation of the real     *)
(* code (TraceC11): the hooks at every lock request and release of         *)
(* client/session.go, client/cache.go and at the start of every exchange   *)
(* with a KDC (client/network.go) report, per goroutine, which lock is     *)
(* requested while which is held.                                          *)
(*   <<outer class, outer mode, inner class, inner mode>>                  *)
(* The session table before a session, in the same mode; never a session   *)
(* before the table (two goroutines doing that and the opposite wait for   *)
(* each other for ever), never two sessions, never the same lock twice     *)
(* (a second read lock behind a waiting writer never comes), the ticket    *)
(* cache's lock alone - and no lock at all while a KDC is being talked to. *)
(* A set of nestings without a cycle among the lock classes cannot         *)
(* deadlock on these locks (Acyclic, checked as an assumption).            *)
(***************************************************************************)
EXTENDS Integers, Sequences, FiniteSets
Nesting == {<<"sessions", "w", "session", "w">>, <<"sessions", "r", "session", "r">>}
Classes == {"sessions", "session", "cache"}
Before(a, b) == \E n \in Nesting : n[1] = a /\ n[3] = b
\* no class is (transitively) before itself: three classes, so paths of length up to three
Acyclic == /\ \A a \in Classes : ~Before(a, a)
           /\ \A a, b \in Classes : ~(Before(a, b) /\ Before(b, a))
           /\ \A a, b, c \in Classes : ~(Before(a, b) /\ Before(b, c) /\ Before(c, a))
ASSUME Acyclic
\* an observed nesting x = [outer, omode, inner, imode, sameObj, ...]
NestingAllowed(x) == <<x.outer, x.omode, x.inner, x.imode>> \in Nesting /\ ~x.sameObj
=============================================================================
