-------------------------- MODULE ClientConcurrency --------------------------
(***************************************************************************)
(* C11: the lock and channel protocol of client/session.go.                *)
(*   M        sessions.mux            S[g]   the mutex of session g        *)
(*   chan[g]  the cancel channel of session g (capacity Cap)               *)
(*   cur      the session registered for the realm (0 = none)              *)
(* Worker processes log in (addSession -> sessions.update: lock M, lock    *)
(* the registered session, SEND cancel to it, replace it) or destroy       *)
(* (lock M, lock the session, SEND cancel, remove it).  Every session has  *)
(* an auto-renew goroutine that either receives the cancel and exits, or   *)
(* fires: renews in place, or logs in afresh (creating a new session and   *)
(* exiting WITHOUT draining its own channel).  The sends happen while M    *)
(* and the session's mutex are held, so a send that blocks deadlocks the   *)
(* client: the model is checked for deadlock and for the hazard "send to a *)
(* full channel".  With Cap = 1 (the code) both hold; Cap = 0 deadlocks    *)
(* (selftest).  Lock order M -> S[g] is checked too.                       *)
(***************************************************************************)
EXTENDS Integers, Sequences, FiniteSets, TLC
CONSTANTS Workers, MaxGen, Cap
VARIABLES M, S, chan, cur, gen, renewer, pc, tgt, held
vars == <<M, S, chan, cur, gen, renewer, pc, tgt, held>>
Gens == 1..MaxGen
Procs == Workers \cup { <<"renew", g>> : g \in Gens }
Free == <<"free", 0>>
Init == /\ M = Free /\ S = [g \in Gens |-> Free] /\ chan = [g \in Gens |-> 0] /\ cur = 0 /\ gen = 0
        /\ renewer = [g \in Gens |-> "unborn"] /\ pc = [p \in Procs |-> "idle"] /\ tgt = [p \in Procs |-> 0] /\ held = [p \in Procs |-> {}]
\* ---- login (addSession): usable by workers and by a renewer that logs in afresh -------------------------------------------
LoginStart(p) == /\ pc[p] = "idle" /\ gen < MaxGen /\ (p \in Workers \/ renewer[p[2]] = "running")
                 /\ gen' = gen + 1 /\ tgt' = [tgt EXCEPT ![p] = gen + 1]
                 /\ chan' = [chan EXCEPT ![gen + 1] = 0] /\ renewer' = [renewer EXCEPT ![gen + 1] = "running"]   \* enableAutoSessionRenewal
                 /\ pc' = [pc EXCEPT ![p] = "lockM"] /\ UNCHANGED <<M, S, cur, held>>
LockM(p) == /\ pc[p] \in {"lockM", "dLockM"} /\ M = Free /\ M' = p /\ held' = [held EXCEPT ![p] = @ \cup {"M"}]
            /\ pc' = [pc EXCEPT ![p] = IF pc[p] = "lockM" THEN (IF cur # 0 /\ cur # tgt[p] THEN "lockS" ELSE "replace")
                                       ELSE (IF cur # 0 THEN "dLockS" ELSE "dDone")]
            /\ UNCHANGED <<S, chan, cur, gen, renewer, tgt>>
LockS(p) == /\ pc[p] \in {"lockS", "dLockS"} /\ S[cur] = Free /\ S' = [S EXCEPT ![cur] = p]
            /\ held' = [held EXCEPT ![p] = @ \cup {"S"}]
            /\ pc' = [pc EXCEPT ![p] = IF pc[p] = "lockS" THEN "send" ELSE "dSend"] /\ UNCHANGED <<M, chan, cur, gen, renewer, tgt>>
\* the cancel send: blocks while the buffer is full (and, with Cap = 0, until a receiver is ready)
Send(p) == /\ pc[p] \in {"send", "dSend"}
           /\ IF Cap = 0 THEN renewer[cur] = "running" /\ pc[<<"renew", cur>>] = "idle"     \* rendezvous with a waiting receiver
              ELSE chan[cur] < Cap
           /\ IF Cap = 0 THEN renewer' = [renewer EXCEPT ![cur] = "exited"] /\ UNCHANGED chan
              ELSE chan' = [chan EXCEPT ![cur] = @ + 1] /\ UNCHANGED renewer
           /\ pc' = [pc EXCEPT ![p] = IF pc[p] = "send" THEN "replace" ELSE "dDone"]
           /\ UNCHANGED <<M, S, cur, gen, tgt, held>>
Replace(p) == /\ pc[p] = "replace" /\ cur' = tgt[p]
              /\ S' = [g \in Gens |-> IF S[g] = p THEN Free ELSE S[g]] /\ M' = Free /\ held' = [held EXCEPT ![p] = {}]
              /\ pc' = [pc EXCEPT ![p] = IF p \in Workers THEN "idle" ELSE "exit"] /\ UNCHANGED <<chan, gen, renewer, tgt>>
\* ---- destroy --------------------------------------------------------------------------------------------------------------------
DestroyStart(p) == p \in Workers /\ pc[p] = "idle" /\ pc' = [pc EXCEPT ![p] = "dLockM"] /\ UNCHANGED <<M, S, chan, cur, gen, renewer, tgt, held>>
DestroyDone(p) == /\ pc[p] = "dDone" /\ cur' = 0 /\ S' = [g \in Gens |-> IF S[g] = p THEN Free ELSE S[g]] /\ M' = Free
                  /\ held' = [held EXCEPT ![p] = {}] /\ pc' = [pc EXCEPT ![p] = "idle"] /\ UNCHANGED <<chan, gen, renewer, tgt>>
\* ---- the auto-renew goroutine of session g ---------------------------------------------------------------------------------------
Recv(g) == LET p == <<"renew", g>> IN
           /\ renewer[g] = "running" /\ pc[p] = "idle" /\ Cap > 0 /\ chan[g] > 0
           /\ chan' = [chan EXCEPT ![g] = @ - 1] /\ renewer' = [renewer EXCEPT ![g] = "exited"]
           /\ UNCHANGED <<M, S, cur, gen, pc, tgt, held>>
\* the timer fired and a new login replaced the session: the goroutine ends without draining its channel
RenewerExit(g) == LET p == <<"renew", g>> IN
           /\ pc[p] = "exit" /\ renewer' = [renewer EXCEPT ![g] = "exited"] /\ pc' = [pc EXCEPT ![p] = "gone"]
           /\ UNCHANGED <<M, S, chan, cur, gen, tgt, held>>
Next == \/ \E p \in Procs : LoginStart(p) \/ LockM(p) \/ LockS(p) \/ Send(p) \/ Replace(p) \/ DestroyStart(p) \/ DestroyDone(p)
        \/ \E g \in Gens : Recv(g) \/ RenewerExit(g)
Spec == Init /\ [][Next]_vars
\* ---- properties -------------------------------------------------------------------------------------------------------------------
\* nobody ever waits to send on a channel that cannot take the value (the sends happen under M and S)
NoBlockedSend == \A p \in Procs : pc[p] \in {"send", "dSend"} =>
                    IF Cap = 0 THEN renewer[cur] = "running" ELSE chan[cur] < Cap
\* lock order: S[g] is only taken while holding M
LockOrder == \A p \in Procs : "S" \in held[p] => "M" \in held[p]
\* mutual exclusion bookkeeping
TypeOK == /\ M \in Procs \cup {Free} /\ \A g \in Gens : chan[g] \in 0..(IF Cap = 0 THEN 0 ELSE Cap)
\* every operation that started can finish: no reachable state in which a worker is inside an operation and nothing can move
Stuck == (\E p \in Workers : pc[p] # "idle") /\ ~ENABLED Next
NoStuck == ~Stuck
=============================================================================
