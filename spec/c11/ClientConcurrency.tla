-------------------------- MODULE ClientConcurrency --------------------------
(***************************************************************************)
(* C11: the lock and channel protocol of client/session.go.                *)
(*   M        sessions.mux            S[g]   the mutex of session g        *)
(*   chan[g]  the cancel channel of session g (capacity Cap)               *)
(*   cur      the session registered for the realm (0 = none)              *)
(* Worker processes log in (addSession -> sessions.update: lock M, lock    *)
(* the registered session, SEND cancel to it, replace it) or destroy       *)
(* (lock M, lock the session, SEND cancel, remove it).  Every session has  *)
(* an auto-renew goroutine that either receives the cancel and exits, or   *)
(* fires: renews in place, or logs in afresh (creating a new session and   *)
(* exiting WITHOUT draining its own channel).  The sends happen while M    *)
(* and the session's mutex are held, so a send that blocks deadlocks the   *)
(* client: the model is checked for deadlock and for the hazard "send to a *)
(* full channel".  With Cap = 1 (the code) both hold; Cap = 0 deadlocks    *)
(* (selftest).  Lock order M -> S[g] is checked too.                       *)
(* A worker that asks for a service ticket first makes sure the session is *)
(* valid (ensureValidSession): it takes the session's READ lock (R[g]: the *)
(* set of readers), looks at the times, RELEASES it, and - when the TGT is *)
(* in the last sixth of its life - refreshes the session itself: renewal   *)
(* in place (write lock on the same session) or a new login.  With         *)
(* ReleaseBeforeRefresh = FALSE the read lock is still held then (seeded   *)
(* change C11-s3): the write lock never comes and the client is stuck.     *)
(* A renewal in place (by a caller or by the session's own goroutine) ends *)
(* with sessions.update(s) for the SAME session object: if a login has     *)
(* replaced it meanwhile, the old session is registered again - possibly   *)
(* one whose goroutine is gone and whose cancel buffer is full.  The next  *)
(* cancel sent to it then blocks for ever while M and the session's mutex  *)
(* are held (gokrb5 as found: NonBlockingCancel = FALSE, finding           *)
(* C11-cancel-send-blocks).  With a send that gives up when a cancel is    *)
(* already pending (NonBlockingCancel = TRUE, the repair) nothing blocks.  *)
(***************************************************************************)
EXTENDS Integers, Sequences, FiniteSets, TLC
CONSTANTS Workers, MaxGen, Cap, ReleaseBeforeRefresh, NonBlockingCancel
VARIABLES M, S, R, chan, cur, gen, renewer, pc, tgt, held
vars == <<M, S, R, chan, cur, gen, renewer, pc, tgt, held>>
Gens == 1..MaxGen
Procs == Workers \cup { <<"renew", g>> : g \in Gens }
Free == <<"free", 0>>
Init == /\ M = Free /\ S = [g \in Gens |-> Free] /\ R = [g \in Gens |-> {}] /\ chan = [g \in Gens |-> 0] /\ cur = 0 /\ gen = 0
        /\ renewer = [g \in Gens |-> "unborn"] /\ pc = [p \in Procs |-> "idle"] /\ tgt = [p \in Procs |-> 0] /\ held = [p \in Procs |-> {}]
\* ---- login (addSession): usable by workers and by a renewer that logs in afresh -------------------------------------------
LoginStart(p) == /\ pc[p] \in {"idle", "refresh"} /\ gen < MaxGen /\ (p \in Workers \/ renewer[p[2]] = "running")
                 /\ gen' = gen + 1 /\ tgt' = [tgt EXCEPT ![p] = gen + 1]
                 /\ chan' = [chan EXCEPT ![gen + 1] = 0] /\ renewer' = [renewer EXCEPT ![gen + 1] = "running"]   \* enableAutoSessionRenewal
                 /\ pc' = [pc EXCEPT ![p] = "lockM"] /\ UNCHANGED <<M, S, R, cur, held>>
LockM(p) == /\ pc[p] \in {"lockM", "dLockM"} /\ M = Free /\ M' = p /\ held' = [held EXCEPT ![p] = @ \cup {"M"}]
            /\ pc' = [pc EXCEPT ![p] = IF pc[p] = "lockM" THEN (IF cur # 0 /\ cur # tgt[p] THEN "lockS" ELSE "replace")
                                       ELSE (IF cur # 0 THEN "dLockS" ELSE "dDone")]
            /\ UNCHANGED <<S, R, chan, cur, gen, renewer, tgt>>
\* a write lock waits for the readers too
LockS(p) == /\ pc[p] \in {"lockS", "dLockS"} /\ S[cur] = Free /\ R[cur] = {} /\ S' = [S EXCEPT ![cur] = p]
            /\ held' = [held EXCEPT ![p] = @ \cup {"S"}]
            /\ pc' = [pc EXCEPT ![p] = IF pc[p] = "lockS" THEN "send" ELSE "dSend"] /\ UNCHANGED <<M, R, chan, cur, gen, renewer, tgt>>
\* the cancel send: blocks while the buffer is full (and, with Cap = 0, until a receiver is ready)
Send(p) == /\ pc[p] \in {"send", "dSend"}
           /\ IF Cap = 0 THEN renewer[cur] = "running" /\ pc[<<"renew", cur>>] = "idle"     \* rendezvous with a waiting receiver
              ELSE chan[cur] < Cap \/ NonBlockingCancel
           /\ IF Cap = 0 THEN renewer' = [renewer EXCEPT ![cur] = "exited"] /\ UNCHANGED chan
              ELSE IF chan[cur] < Cap THEN chan' = [chan EXCEPT ![cur] = @ + 1] /\ UNCHANGED renewer
                   ELSE UNCHANGED <<chan, renewer>>                                        \* a cancel is pending already: nothing to add
           /\ pc' = [pc EXCEPT ![p] = IF pc[p] = "send" THEN "replace" ELSE "dDone"]
           /\ UNCHANGED <<M, S, R, cur, gen, tgt, held>>
Replace(p) == /\ pc[p] = "replace" /\ cur' = tgt[p]
              /\ S' = [g \in Gens |-> IF S[g] = p THEN Free ELSE S[g]] /\ M' = Free /\ held' = [held EXCEPT ![p] = {}]
              /\ R' = [g \in Gens |-> R[g] \ {p}]                 \* (a read lock still held by a caller-side refresh is released when the call returns)
              /\ pc' = [pc EXCEPT ![p] = IF p \in Workers \/ tgt[p] = p[2] THEN "idle" ELSE "exit"]   \* (a goroutine that renewed its own session in place goes on)
              /\ UNCHANGED <<chan, gen, renewer, tgt>>
\* ---- destroy --------------------------------------------------------------------------------------------------------------------
DestroyStart(p) == p \in Workers /\ pc[p] = "idle" /\ pc' = [pc EXCEPT ![p] = "dLockM"] /\ UNCHANGED <<M, S, R, chan, cur, gen, renewer, tgt, held>>
DestroyDone(p) == /\ pc[p] = "dDone" /\ cur' = 0 /\ S' = [g \in Gens |-> IF S[g] = p THEN Free ELSE S[g]] /\ M' = Free
                  /\ held' = [held EXCEPT ![p] = {}] /\ pc' = [pc EXCEPT ![p] = "idle"] /\ UNCHANGED <<R, chan, gen, renewer, tgt>>
\* ---- a service-ticket request: ensureValidSession, and the refresh by the caller ----------------------------------------------------
GetStart(p) == /\ p \in Workers /\ pc[p] = "idle" /\ cur # 0 /\ tgt' = [tgt EXCEPT ![p] = cur]
               /\ pc' = [pc EXCEPT ![p] = "rLockS"] /\ UNCHANGED <<M, S, R, chan, cur, gen, renewer, held>>
RLockS(p) == /\ pc[p] = "rLockS" /\ S[tgt[p]] = Free /\ R' = [R EXCEPT ![tgt[p]] = @ \cup {p}]
             /\ pc' = [pc EXCEPT ![p] = "decide"] /\ UNCHANGED <<M, S, chan, cur, gen, renewer, tgt, held>>
\* the TGT has plenty of time left: release and go on; or it is in the last sixth of its life: refresh it
StillValid(p) == /\ pc[p] = "decide" /\ R' = [R EXCEPT ![tgt[p]] = @ \ {p}] /\ pc' = [pc EXCEPT ![p] = "idle"]
                 /\ UNCHANGED <<M, S, chan, cur, gen, renewer, tgt, held>>
NeedsRefresh(p) == /\ pc[p] = "decide" /\ pc' = [pc EXCEPT ![p] = "refresh"]
                   /\ R' = IF ReleaseBeforeRefresh THEN [R EXCEPT ![tgt[p]] = @ \ {p}] ELSE R
                   /\ UNCHANGED <<M, S, chan, cur, gen, renewer, tgt, held>>
\* renewal in place (renewTGT -> session.update): the write lock of the same session, which waits for every reader
\* and then sessions.update(s) with the same session: registers it (again), cancelling whatever a login has put there meanwhile
RenewInPlace(p) == /\ pc[p] = "refresh" /\ S[tgt[p]] = Free /\ R[tgt[p]] = {} /\ pc' = [pc EXCEPT ![p] = "lockM"]
                   /\ UNCHANGED <<M, S, R, chan, cur, gen, renewer, tgt, held>>
\* the session's own goroutine: the timer fired and the TGT is renewable
RenewerRenews(g) == LET p == <<"renew", g>> IN
                   /\ renewer[g] = "running" /\ pc[p] = "idle" /\ tgt' = [tgt EXCEPT ![p] = g] /\ pc' = [pc EXCEPT ![p] = "refresh"]
                   /\ UNCHANGED <<M, S, R, chan, cur, gen, renewer, held>>
\* (the other way to refresh is a new login: LoginStart from "refresh")
\* ---- the auto-renew goroutine of session g ---------------------------------------------------------------------------------------
Recv(g) == LET p == <<"renew", g>> IN
           /\ renewer[g] = "running" /\ pc[p] = "idle" /\ Cap > 0 /\ chan[g] > 0
           /\ chan' = [chan EXCEPT ![g] = @ - 1] /\ renewer' = [renewer EXCEPT ![g] = "exited"]
           /\ UNCHANGED <<M, S, R, cur, gen, pc, tgt, held>>
\* the timer fired and a new login replaced the session: the goroutine ends without draining its channel
RenewerExit(g) == LET p == <<"renew", g>> IN
           /\ pc[p] = "exit" /\ renewer' = [renewer EXCEPT ![g] = "exited"] /\ pc' = [pc EXCEPT ![p] = "gone"]
           /\ UNCHANGED <<M, S, R, chan, cur, gen, tgt, held>>
Next == \/ \E p \in Procs : LoginStart(p) \/ LockM(p) \/ LockS(p) \/ Send(p) \/ Replace(p) \/ DestroyStart(p) \/ DestroyDone(p)
        \/ \E p \in Workers : GetStart(p) \/ RLockS(p) \/ StillValid(p) \/ NeedsRefresh(p)
        \/ \E p \in Procs : RenewInPlace(p)
        \/ \E g \in Gens : RenewerRenews(g)
        \/ \E g \in Gens : Recv(g) \/ RenewerExit(g)
Spec == Init /\ [][Next]_vars
\* ---- properties -------------------------------------------------------------------------------------------------------------------
\* nobody ever waits to send on a channel that cannot take the value (the sends happen under M and S)
NoBlockedSend == \A p \in Procs : pc[p] \in {"send", "dSend"} =>
                    IF Cap = 0 THEN renewer[cur] = "running" ELSE chan[cur] < Cap \/ NonBlockingCancel
\* lock order: S[g] is only taken while holding M
LockOrder == \A p \in Procs : "S" \in held[p] => "M" \in held[p]
\* the table's lock is requested only by a process that holds nothing (LockDiscipline: never a session before the table)
MTakenFirst == \A p \in Procs : pc[p] \in {"lockM", "dLockM"} => held[p] = {}
\* mutual exclusion bookkeeping
TypeOK == /\ M \in Procs \cup {Free} /\ \A g \in Gens : chan[g] \in 0..(IF Cap = 0 THEN 0 ELSE Cap)
\* every operation that started can finish: no reachable state in which a worker is inside an operation and nothing can move
Stuck == (\E p \in Workers : pc[p] # "idle") /\ ~ENABLED Next
NoStuck == ~Stuck
=============================================================================
