------------------------------ MODULE TraceC11 ------------------------------
(* C11 trace validation: one line = one round of 2-16 goroutines sharing one logged-in client and one configuration
   (free-running, race-instrumented build), with the simulated KDC's issue log.  Data-race reports of the race detector
   are separate lines (ev = "race"): the model allows no unsynchronised access, so every report in gokrb5 code is
   rejected. *)
EXTENDS Integers, Sequences, FiniteSets, TLC, Json, LockDiscipline
CONSTANTS NShards
Tr == ndJsonDeserialize("trace.ndjson")
NLines == Len(Tr)
VARIABLES sh, l
LT == INSTANCE LineTrace
\* every (ticket, session key) pair returned was issued together by the KDC, for the requested service
PairIssuedTogether(x, r) == \E k \in 1..Len(x.issued) : x.issued[k].tkt = r.tkt /\ x.issued[k].key = r.key /\ x.issued[k].spn = r.spn
\* resolving KDC addresses returns a permutation of the configured servers (both are logged sorted)
GetKDCsIsPermutation(x, r) == r.ok /\ r.count = Len(x.configured) /\ r.servers = x.configured
\* the locks as the hooks report them: only the nestings the protocol has, and none held while a KDC is talked to
LocksOK(x) == /\ \A i \in 1..Len(x.nestings) : NestingAllowed(x.nestings[i])
              /\ x.kdcHolding = << >>
RoundOK(x) == /\ ~x.deadlock
              /\ LocksOK(x)
              /\ x.configUnchanged
              /\ \A i \in 1..Len(x.results) : LET r == x.results[i] IN
                    /\ r.panic = ""
                    /\ (r.op = "get" /\ r.ok) => PairIssuedTogether(x, r)
                    /\ (r.op = "get" /\ r.ok) => r.keyEnd = r.key              \* and stays what was returned, whatever happens to the client later (Destroy)
                    /\ (r.op = "get" /\ ~x.destroyMid) => r.ok          \* against a working KDC every request succeeds
                    /\ (r.op = "login" /\ ~x.destroyMid) => r.ok        \* (unless the client is destroyed concurrently)
                    /\ (r.op = "kdcs") => GetKDCsIsPermutation(x, r)
                    /\ (r.op = "kpasswd") => (r.ok /\ r.count = Len(x.kpConfigured) /\ r.servers = x.kpConfigured)   \* the same for password-change servers
LineOK(x) == IF x.ev = "race" THEN FALSE ELSE RoundOK(x)
Init == LT!Init
Next == LT!Next
Check == ~LT!Active \/ LineOK(Tr[l]) \/ PrintT(<<"BADLINE", l>>)
=============================================================================
