CONSTANTS Workers <- MCWorkers  MaxGen = 3  Cap = 1  ReleaseBeforeRefresh = TRUE  NonBlockingCancel = TRUE
SPECIFICATION Spec
INVARIANTS TypeOK NoBlockedSend LockOrder MTakenFirst NoStuck
CHECK_DEADLOCK FALSE
