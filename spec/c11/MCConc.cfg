CONSTANTS Workers <- MCWorkers  MaxGen = 3  Cap = 1
SPECIFICATION Spec
INVARIANTS TypeOK NoBlockedSend LockOrder NoStuck
CHECK_DEADLOCK FALSE
