CONSTANTS Workers <- MCWorkers  MaxGen = 3  Cap = 0  ReleaseBeforeRefresh = TRUE  NonBlockingCancel = TRUE
SPECIFICATION Spec
INVARIANTS TypeOK NoBlockedSend LockOrder NoStuck
CHECK_DEADLOCK FALSE
