import tlc2.value.impl.*;
import javax.crypto.Mac;
import javax.crypto.Cipher;
import javax.crypto.SecretKeyFactory;
import javax.crypto.spec.*;
import java.security.MessageDigest;
public class KrbPrims {
  static byte[] toBytes(Value v) {
    TupleValue t = (TupleValue) v.toTuple();
    byte[] b = new byte[t.size()];
    for (int i = 0; i < b.length; i++) b[i] = (byte) ((IntValue) t.elems[i]).val;
    return b;
  }
  static Value fromBytes(byte[] b) {
    Value[] vs = new Value[b.length];
    for (int i = 0; i < b.length; i++) vs[i] = IntValue.gen(b[i] & 0xff);
    return new TupleValue(vs);
  }
  static String str(Value v) { return ((StringValue) v).val.toString(); }
  public static Value HMAC(Value alg, Value key, Value data) throws Exception {
    String a = str(alg);
    Mac m = Mac.getInstance(a);
    byte[] k = toBytes(key);
    m.init(new SecretKeySpec(k.length == 0 ? new byte[1] : k, a));
    return fromBytes(m.doFinal(toBytes(data)));
  }
  public static Value Hash(Value alg, Value data) throws Exception {
    String a = str(alg);
    if (a.equals("MD4")) return fromBytes(md4(toBytes(data)));
    return fromBytes(MessageDigest.getInstance(a).digest(toBytes(data)));
  }
  static Value cbc(String algo, String kalgo, int mode, Value key, Value iv, Value data) throws Exception {
    Cipher c = Cipher.getInstance(algo);
    c.init(mode, new SecretKeySpec(toBytes(key), kalgo), new IvParameterSpec(toBytes(iv)));
    return fromBytes(c.doFinal(toBytes(data)));
  }
  public static Value AESCBCEnc(Value k, Value iv, Value d) throws Exception { return cbc("AES/CBC/NoPadding", "AES", Cipher.ENCRYPT_MODE, k, iv, d); }
  public static Value AESCBCDec(Value k, Value iv, Value d) throws Exception { return cbc("AES/CBC/NoPadding", "AES", Cipher.DECRYPT_MODE, k, iv, d); }
  public static Value DES3CBCEnc(Value k, Value iv, Value d) throws Exception { return cbc("DESede/CBC/NoPadding", "DESede", Cipher.ENCRYPT_MODE, k, iv, d); }
  public static Value DES3CBCDec(Value k, Value iv, Value d) throws Exception { return cbc("DESede/CBC/NoPadding", "DESede", Cipher.DECRYPT_MODE, k, iv, d); }
  public static Value RC4(Value key, Value data) throws Exception {
    byte[] k = toBytes(key), d = toBytes(data);
    int[] s = new int[256]; for (int i = 0; i < 256; i++) s[i] = i;
    for (int i = 0, j = 0; i < 256; i++) { j = (j + s[i] + (k[i % k.length] & 0xff)) & 0xff; int t = s[i]; s[i] = s[j]; s[j] = t; }
    byte[] o = new byte[d.length];
    for (int n = 0, i = 0, j = 0; n < d.length; n++) { i = (i + 1) & 0xff; j = (j + s[i]) & 0xff; int t = s[i]; s[i] = s[j]; s[j] = t; o[n] = (byte) (d[n] ^ s[(s[i] + s[j]) & 0xff]); }
    return fromBytes(o);
  }
  public static Value PBKDF2(Value alg, Value pw, Value salt, Value iter, Value len) throws Exception {
    // generic PBKDF2 over Mac so that arbitrary password bytes work
    String a = str(alg); byte[] p = toBytes(pw), s = toBytes(salt);
    int c = ((IntValue) iter).val, dk = ((IntValue) len).val;
    Mac m = Mac.getInstance(a); m.init(new SecretKeySpec(p.length == 0 ? new byte[1] : p, a));
    if (p.length == 0) { /* HMAC with empty key == key of zeros padded; a single zero byte pads identically */ }
    int hl = m.getMacLength(); byte[] out = new byte[dk];
    for (int blk = 1, off = 0; off < dk; blk++) {
      m.update(s); m.update(new byte[]{(byte)(blk>>>24),(byte)(blk>>>16),(byte)(blk>>>8),(byte)blk});
      byte[] u = m.doFinal(); byte[] t = u.clone();
      for (int i = 1; i < c; i++) { u = m.doFinal(u); for (int j = 0; j < hl; j++) t[j] ^= u[j]; }
      int n = Math.min(hl, dk - off); System.arraycopy(t, 0, out, off, n); off += n;
    }
    return fromBytes(out);
  }
  // ---- conversions (no cryptography): hex string / TLA+ string to byte sequence ----
  public static Value FromHex(Value h) {
    String s = str(h); byte[] b = new byte[s.length() / 2];
    for (int i = 0; i < b.length; i++) b[i] = (byte) Integer.parseInt(s.substring(2 * i, 2 * i + 2), 16);
    return fromBytes(b);
  }
  public static Value StrBytes(Value s) { return fromBytes(str(s).getBytes(java.nio.charset.StandardCharsets.UTF_8)); }
  public static Value ToHex(Value v) {
    byte[] b = toBytes(v); StringBuilder sb = new StringBuilder();
    for (byte x : b) sb.append(String.format("%02x", x & 0xff));
    return new StringValue(sb.toString());
  }
  public static Value Xor(Value a, Value b) {
    byte[] x = toBytes(a), y = toBytes(b); byte[] r = new byte[x.length];
    for (int i = 0; i < r.length; i++) r[i] = (byte)(x[i] ^ y[i]);
    return fromBytes(r);
  }
  // RFC 1320
  static byte[] md4(byte[] msg) {
    int ml = msg.length; int padLen = ((ml + 8) / 64 + 1) * 64;
    byte[] p = new byte[padLen]; System.arraycopy(msg, 0, p, 0, ml); p[ml] = (byte)0x80;
    long bits = (long) ml * 8; for (int i = 0; i < 8; i++) p[padLen - 8 + i] = (byte)(bits >>> (8*i));
    int a = 0x67452301, b = 0xefcdab89, c = 0x98badcfe, d = 0x10325476;
    int[] x = new int[16];
    for (int off = 0; off < padLen; off += 64) {
      for (int i = 0; i < 16; i++) x[i] = (p[off+4*i]&0xff) | (p[off+4*i+1]&0xff)<<8 | (p[off+4*i+2]&0xff)<<16 | (p[off+4*i+3]&0xff)<<24;
      int aa=a, bb=b, cc=c, dd=d;
      int[] s1={3,7,11,19};
      for (int i=0;i<16;i++){ int f=(b&c)|(~b&d); int t=a+f+x[i]; t=Integer.rotateLeft(t,s1[i%4]); a=d; d=c; c=b; b=t; }
      int[] s2={3,5,9,13}; int[] o2={0,4,8,12,1,5,9,13,2,6,10,14,3,7,11,15};
      for (int i=0;i<16;i++){ int g=(b&c)|(b&d)|(c&d); int t=a+g+x[o2[i]]+0x5a827999; t=Integer.rotateLeft(t,s2[i%4]); a=d; d=c; c=b; b=t; }
      int[] s3={3,9,11,15}; int[] o3={0,8,4,12,2,10,6,14,1,9,5,13,3,11,7,15};
      for (int i=0;i<16;i++){ int h=b^c^d; int t=a+h+x[o3[i]]+0x6ed9eba1; t=Integer.rotateLeft(t,s3[i%4]); a=d; d=c; c=b; b=t; }
      a+=aa; b+=bb; c+=cc; d+=dd;
    }
    byte[] o = new byte[16]; int[] r={a,b,c,d};
    for (int i=0;i<4;i++) for (int j=0;j<4;j++) o[4*i+j]=(byte)(r[i]>>>(8*j));
    return o;
  }
}
