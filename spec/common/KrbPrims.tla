------------------------------ MODULE KrbPrims ------------------------------
(***************************************************************************)
(* The trusted primitives.  Every operator here is overridden by the Java  *)
(* class KrbPrims (javax.crypto / java.security of the installed JDK, plus *)
(* a 30-line RFC 1320 MD4 and RC4).  These are standard algorithms that no *)
(* Kerberos RFC redefines; everything Kerberos-specific is explicit TLA+   *)
(* in KrbCrypto.  FromHex/StrBytes/ToHex are plain conversions.            *)
(***************************************************************************)
EXTENDS Naturals, Sequences
HMAC(alg, key, data) == CHOOSE s \in Seq(0..255) : TRUE
Hash(alg, data) == CHOOSE s \in Seq(0..255) : TRUE
AESCBCEnc(key, iv, data) == CHOOSE s \in Seq(0..255) : TRUE
AESCBCDec(key, iv, data) == CHOOSE s \in Seq(0..255) : TRUE
DES3CBCEnc(key, iv, data) == CHOOSE s \in Seq(0..255) : TRUE
DES3CBCDec(key, iv, data) == CHOOSE s \in Seq(0..255) : TRUE
RC4(key, data) == CHOOSE s \in Seq(0..255) : TRUE
PBKDF2(alg, pw, salt, iter, len) == CHOOSE s \in Seq(0..255) : TRUE
Xor(a, b) == CHOOSE s \in Seq(0..255) : TRUE
FromHex(h) == CHOOSE s \in Seq(0..255) : TRUE
StrBytes(s) == CHOOSE b \in Seq(0..255) : TRUE
ToHex(b) == CHOOSE s \in STRING : TRUE
=============================================================================
