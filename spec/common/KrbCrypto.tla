------------------------------ MODULE KrbCrypto ------------------------------
(***************************************************************************)
(* Executable TLA+ transcription of the Kerberos crypto profiles:          *)
(*   RFC 3961 (n-fold, DR/DK simplified profile, des3-cbc-sha1-kd),         *)
(*   RFC 3962 (aes128/256-cts-hmac-sha1-96),                                *)
(*   RFC 8009 (aes128-cts-hmac-sha256-128, aes256-cts-hmac-sha384-192),     *)
(*   RFC 4757 (rc4-hmac).                                                   *)
(* Block ciphers, hashes, HMAC, PBKDF2 and RC4 come from KrbPrims; all the  *)
(* Kerberos-specific structure is written out here and evaluated by TLC.    *)
(* Key usages are 4-byte big-endian tuples (TLC integers are 31 bit).       *)
(***************************************************************************)
EXTENDS Bytes, KrbPrims

ETypes == {16, 17, 18, 19, 20, 23}
Kerberos == <<107,101,114,98,101,114,111,115>>          \* "kerberos"
U(n) == BE32(n)                                          \* usage number -> tuple

GCD(a, b) == LET RECURSIVE G(_, _)
                 G(x, y) == IF y = 0 THEN x ELSE G(y, x % y) IN G(a, b)
LCM(a, b) == (a * b) \div GCD(a, b)

---------------------------------------------------------------------------
\* RFC 3961 section 5.1: n-fold
\* rotate right by k bits: output bit i = input bit (i - k) mod n
RotRBytes(b, k) ==
  LET n == 8 * Len(b)
      ob(j) == Bit(b, (((j - k) % n) + n) % n)
  IN TLCEval([q \in 1..Len(b) |->
        ob(8*(q-1)) * 128 + ob(8*(q-1)+1) * 64 + ob(8*(q-1)+2) * 32 + ob(8*(q-1)+3) * 16 +
        ob(8*(q-1)+4) * 8 + ob(8*(q-1)+5) * 4 + ob(8*(q-1)+6) * 2 + ob(8*(q-1)+7)])
\* ones'-complement addition (end-around carry) of two equal-length big-endian strings
OCAdd(a, b) ==
  LET n == Len(a)
      RECURSIVE Go(_, _, _)
      Go(i, carry, acc) == IF i = 0 THEN <<acc, carry>>
                           ELSE LET s == a[i] + b[i] + carry IN Go(i - 1, s \div 256, <<s % 256>> \o acc)
      r == Go(n, 0, <<>>)
      RECURSIVE Prop(_, _, _)
      Prop(i, carry, acc) == IF i = 0 THEN <<acc, carry>>
                             ELSE LET s == r[1][i] + carry IN Prop(i - 1, s \div 256, <<s % 256>> \o acc)
      r2 == IF r[2] = 0 THEN r ELSE Prop(n, 1, <<>>)
  IN r2[1]
NFold(m, nbits) ==
  LET k == 8 * Len(m)
      l == LCM(nbits, k)
      reps == l \div k
      nb == nbits \div 8
      RECURSIVE Cat(_)
      Cat(i) == IF i = reps THEN <<>> ELSE RotRBytes(m, 13 * i) \o Cat(i + 1)
      big == Cat(0)
      RECURSIVE Sum(_, _)
      Sum(i, acc) == IF i = l \div nbits THEN acc ELSE Sum(i + 1, OCAdd(acc, SubSeq(big, i * nb + 1, (i + 1) * nb)))
  IN Sum(0, Zeros(nb))

---------------------------------------------------------------------------
\* per-etype parameters
IsAESSha1(et) == et \in {17, 18}
IsAESSha2(et) == et \in {19, 20}
KeyLen(et)  == CASE et = 16 -> 24 [] et = 17 -> 16 [] et = 18 -> 32 [] et = 19 -> 16 [] et = 20 -> 32 [] et = 23 -> 16
ConfLen(et) == IF et \in {16, 23} THEN 8 ELSE 16
MacLen(et)  == CASE et = 16 -> 20 [] et = 17 -> 12 [] et = 18 -> 12 [] et = 19 -> 16 [] et = 20 -> 24 [] et = 23 -> 16
HAlg(et)    == CASE et \in {16, 17, 18} -> "HmacSHA1" [] et = 19 -> "HmacSHA256" [] et = 20 -> "HmacSHA384" [] et = 23 -> "HmacMD5"

---------------------------------------------------------------------------
\* AES in CBC-CS3 ("ciphertext stealing", RFC 3962 section 5, RFC 8009 section 5) with zero IV
CTSEnc(key, pt) ==
  LET n == Len(pt) IN
  IF n <= 16 THEN AESCBCEnc(key, Zeros(16), pt \o Zeros(16 - n))
  ELSE
     LET r == n % 16
         padn == IF r = 0 THEN 0 ELSE 16 - r
         cbc == AESCBCEnc(key, Zeros(16), pt \o Zeros(padn))
         nblk == Len(cbc) \div 16
         pre == Take(cbc, 16 * (nblk - 2))
         cn1 == SubSeq(cbc, 16 * (nblk - 2) + 1, 16 * (nblk - 1))
         cn == SubSeq(cbc, 16 * (nblk - 1) + 1, 16 * nblk)
     IN pre \o cn \o Take(cn1, IF r = 0 THEN 16 ELSE r)
\* inverse; defined for Len(c) >= 16
CTSDec(key, c) ==
  LET n == Len(c) IN
  IF n = 16 THEN AESCBCDec(key, Zeros(16), c)
  ELSE
     LET r0 == n % 16
         r == IF r0 = 0 THEN 16 ELSE r0
         nfull == (n - r) \div 16                  \* number of full blocks before the partial one
         pre == Take(c, 16 * (nfull - 1))
         a == SubSeq(c, 16 * (nfull - 1) + 1, 16 * nfull)      \* E_k   (encryption of the padded last block)
         b == SubSeq(c, 16 * nfull + 1, n)                     \* first r bytes of E_{k-1}
         d == AESCBCDec(key, Zeros(16), a)                     \* P_k padded XOR E_{k-1}
         ek1 == b \o Drop(d, r)
         pt == AESCBCDec(key, Zeros(16), pre \o ek1 \o a)
     IN Take(pt, n)

---------------------------------------------------------------------------
\* RFC 3961: DR / DK for the simplified profile
\* AES (RFC 3962): block 128 bits, key-generation seed length = key length, random-to-key = identity
DRAES(key, constant, nbytes) ==
  LET c0 == IF Len(constant) = 16 THEN constant ELSE NFold(constant, 128)
      b1 == AESCBCEnc(key, Zeros(16), c0)
      b2 == AESCBCEnc(key, Zeros(16), b1)
  IN Take(b1 \o b2, nbytes)
DKAES(key, constant) == DRAES(key, constant, Len(key))

\* des3 (RFC 3961 section 6.3): 7 bytes -> 8 bytes with odd parity, weak-key correction
Parity(b7) ==
  LET ones == (b7 % 2) + ((b7 \div 2) % 2) + ((b7 \div 4) % 2) + ((b7 \div 8) % 2) + ((b7 \div 16) % 2) + ((b7 \div 32) % 2) + ((b7 \div 64) % 2)
  IN b7 * 2 + (IF (ones % 2) = 0 THEN 1 ELSE 0)
Stretch(b) ==
  LET last == (b[1] % 2) * 1 + (b[2] % 2) * 2 + (b[3] % 2) * 4 + (b[4] % 2) * 8 + (b[5] % 2) * 16 + (b[6] % 2) * 32 + (b[7] % 2) * 64
  IN [i \in 1..8 |-> IF i <= 7 THEN Parity(b[i] \div 2) ELSE Parity(last)]
WeakDES == { <<1,1,1,1,1,1,1,1>>, <<254,254,254,254,254,254,254,254>>, <<224,224,224,224,241,241,241,241>>, <<31,31,31,31,14,14,14,14>>,
          <<1,31,1,31,1,14,1,14>>, <<31,1,31,1,14,1,14,1>>, <<1,224,1,224,1,241,1,241>>, <<224,1,224,1,241,1,241,1>>,
          <<1,254,1,254,1,254,1,254>>, <<254,1,254,1,254,1,254,1>>, <<31,224,31,224,14,241,14,241>>, <<224,31,224,31,241,14,241,14>>,
          <<31,254,31,254,14,254,14,254>>, <<254,31,254,31,254,14,254,14>>, <<224,254,224,254,241,254,241,254>>, <<254,224,254,224,254,241,254,241>> }
\* "XOR with 0x00000000000000F0"
FixWeak(k) == IF k \in WeakDES THEN [k EXCEPT ![8] = ((15 - (k[8] \div 16)) * 16) + (k[8] % 16)] ELSE k
R2K3(r) == FixWeak(Stretch(SubSeq(r, 1, 7))) \o FixWeak(Stretch(SubSeq(r, 8, 14))) \o FixWeak(Stretch(SubSeq(r, 15, 21)))
\* a des3 protocol key is a value random-to-key can produce (RFC 3961 6.3.1): 24 octets, each of odd parity, none of the three DES
\* keys weak or semi-weak (implementations that follow the RFC refuse other values: MIT answers KRB5DES_BAD_KEYPAR / BAD_WEAK)
OddParity(b) == ((b % 2) + ((b \div 2) % 2) + ((b \div 4) % 2) + ((b \div 8) % 2) + ((b \div 16) % 2) + ((b \div 32) % 2) + ((b \div 64) % 2) + ((b \div 128) % 2)) % 2 = 1
ValidDES3Key(k) == /\ Len(k) = 24 /\ \A i \in 1..24 : OddParity(k[i])
                   /\ SubSeq(k, 1, 8) \notin WeakDES /\ SubSeq(k, 9, 16) \notin WeakDES /\ SubSeq(k, 17, 24) \notin WeakDES
DR3(key, constant) ==
  LET c0 == IF Len(constant) = 8 THEN constant ELSE NFold(constant, 64)
      b1 == DES3CBCEnc(key, Zeros(8), c0) b2 == DES3CBCEnc(key, Zeros(8), b1) b3 == DES3CBCEnc(key, Zeros(8), b2)
  IN Take(b1 \o b2 \o b3, 21)
DK3(key, constant) == R2K3(DR3(key, constant))

\* RFC 8009 section 3: KDF-HMAC-SHA2(key, label, k) = k-truncate(HMAC(key, 0x00000001 | label | 0x00 | k))
KDF8(et, key, label, kbits) == Take(HMAC(HAlg(et), key, <<0,0,0,1>> \o label \o <<0>> \o BE32(kbits)), kbits \div 8)

\* the three usage keys of a protocol key (u = 4-byte usage)
Ke(et, key, u) == CASE et = 16 -> DK3(key, u \o <<170>>)
                    [] IsAESSha1(et) -> DKAES(key, u \o <<170>>)
                    [] et = 19 -> KDF8(et, key, u \o <<170>>, 128)
                    [] et = 20 -> KDF8(et, key, u \o <<170>>, 256)
Ki(et, key, u) == CASE et = 16 -> DK3(key, u \o <<85>>)
                    [] IsAESSha1(et) -> DKAES(key, u \o <<85>>)
                    [] et = 19 -> KDF8(et, key, u \o <<85>>, 128)
                    [] et = 20 -> KDF8(et, key, u \o <<85>>, 192)
Kc(et, key, u) == CASE et = 16 -> DK3(key, u \o <<153>>)
                    [] IsAESSha1(et) -> DKAES(key, u \o <<153>>)
                    [] et = 19 -> KDF8(et, key, u \o <<153>>, 128)
                    [] et = 20 -> KDF8(et, key, u \o <<153>>, 192)
\* the general "derive key from constant" each etype exposes (DK / KDF with the key-size output)
DeriveKey(et, key, constant) ==
  CASE et = 16 -> DK3(key, constant)
    [] IsAESSha1(et) -> DKAES(key, constant)
    [] et = 19 -> KDF8(et, key, constant, 128)
    [] et = 20 -> KDF8(et, key, constant, 256)

---------------------------------------------------------------------------
\* RFC 4757
\* message type T for a key usage: 3 and 9 -> 8, 23 -> 13 (section 3 / errata), as 32-bit little endian
MsgTypeLE(u) == IF u = U(3) \/ u = U(9) THEN <<8,0,0,0>> ELSE IF u = U(23) THEN <<13,0,0,0>> ELSE Rev(u)
RC4Alias(u) == IF u = U(3) \/ u = U(9) THEN U(8) ELSE IF u = U(23) THEN U(13) ELSE u
SignatureKey == <<115,105,103,110,97,116,117,114,101,107,101,121,0>>     \* "signaturekey\0"

---------------------------------------------------------------------------
\* message encryption:  ciphertext for a given confounder
Pad8(s) == s \o Zeros((8 - (Len(s) % 8)) % 8)
Encrypt(et, key, u, conf, plain) ==
  CASE et = 16 ->
         LET body == Pad8(conf \o plain) IN
         DES3CBCEnc(Ke(et, key, u), Zeros(8), body) \o HMAC("HmacSHA1", Ki(et, key, u), body)
    [] IsAESSha1(et) ->
         LET body == conf \o plain IN
         CTSEnc(Ke(et, key, u), body) \o Take(HMAC("HmacSHA1", Ki(et, key, u), body), 12)
    [] IsAESSha2(et) ->
         LET c == CTSEnc(Ke(et, key, u), conf \o plain) IN
         c \o Take(HMAC(HAlg(et), Ki(et, key, u), Zeros(16) \o c), MacLen(et))
    [] et = 23 ->
         LET k2 == HMAC("HmacMD5", key, MsgTypeLE(u))
             body == conf \o plain
             ck == HMAC("HmacMD5", k2, body)
             k3 == HMAC("HmacMD5", k2, ck)
         IN ck \o RC4(k3, body)

\* what a conforming peer recovers: [ok, plain, conf]
Fail == [ok |-> FALSE, plain |-> <<>>, conf |-> <<>>]
Decrypt(et, key, u, c) ==
  IF Len(c) < ConfLen(et) + MacLen(et) THEN Fail ELSE
  CASE et = 16 ->
         LET ct == Take(c, Len(c) - 20)  mac == LastN(c, 20) IN
         IF (Len(ct) % 8) # 0 THEN Fail ELSE
         LET body == DES3CBCDec(Ke(et, key, u), Zeros(8), ct) IN
         IF HMAC("HmacSHA1", Ki(et, key, u), body) = mac
         THEN [ok |-> TRUE, plain |-> Drop(body, 8), conf |-> Take(body, 8)] ELSE Fail
    [] IsAESSha1(et) ->
         LET ct == Take(c, Len(c) - 12)  mac == LastN(c, 12)
             body == CTSDec(Ke(et, key, u), ct) IN
         IF Take(HMAC("HmacSHA1", Ki(et, key, u), body), 12) = mac
         THEN [ok |-> TRUE, plain |-> Drop(body, 16), conf |-> Take(body, 16)] ELSE Fail
    [] IsAESSha2(et) ->
         LET ml == MacLen(et)  ct == Take(c, Len(c) - ml)  mac == LastN(c, ml) IN
         IF Take(HMAC(HAlg(et), Ki(et, key, u), Zeros(16) \o ct), ml) = mac
         THEN LET body == CTSDec(Ke(et, key, u), ct) IN [ok |-> TRUE, plain |-> Drop(body, 16), conf |-> Take(body, 16)]
         ELSE Fail
    [] et = 23 ->
         LET ck == Take(c, 16)
             k2 == HMAC("HmacMD5", key, MsgTypeLE(u))
             k3 == HMAC("HmacMD5", k2, ck)
             body == RC4(k3, Drop(c, 16)) IN
         IF HMAC("HmacMD5", k2, body) = ck
         THEN [ok |-> TRUE, plain |-> Drop(body, 8), conf |-> Take(body, 8)] ELSE Fail

\* the plaintext a peer sees for a message (des3 pads to the block size with zeros)
PaddedPlain(et, conf, plain) == IF et = 16 THEN Drop(Pad8(conf \o plain), 8) ELSE plain

---------------------------------------------------------------------------
\* keyed checksums (the mandatory checksum type of each etype)
Checksum(et, key, u, data) ==
  CASE et = 16 -> HMAC("HmacSHA1", Kc(et, key, u), data)
    [] IsAESSha1(et) -> Take(HMAC("HmacSHA1", Kc(et, key, u), data), 12)
    [] IsAESSha2(et) -> Take(HMAC(HAlg(et), Kc(et, key, u), data), MacLen(et))
    [] et = 23 -> HMAC("HmacMD5", HMAC("HmacMD5", key, SignatureKey), Hash("MD5", MsgTypeLE(u) \o data))

\* IANA checksum type numbers -> etype family (Kerberos parameters registry)
CksumEtype == [t \in {12, 15, 16, 19, 20, -138} |->
                 CASE t = 12 -> 16 [] t = 15 -> 17 [] t = 16 -> 18 [] t = 19 -> 19 [] t = 20 -> 20 [] t = -138 -> 23]
EtypeCksum == [e \in ETypes |-> CASE e = 16 -> 12 [] e = 17 -> 15 [] e = 18 -> 16 [] e = 19 -> 19 [] e = 20 -> 20 [] e = 23 -> -138]

---------------------------------------------------------------------------
\* string-to-key.  pw and salt are byte strings (UTF-8); for rc4 the password is a sequence of code points.
ENameBytes(et) == IF et = 19 THEN <<97,101,115,49,50,56,45,99,116,115,45,104,109,97,99,45,115,104,97,50,53,54,45,49,50,56>>
                  ELSE <<97,101,115,50,53,54,45,99,116,115,45,104,109,97,99,45,115,104,97,51,56,52,45,49,57,50>>
S2KAESSha1(et, pw, salt, iter) == DKAES(PBKDF2("HmacSHA1", pw, salt, iter, KeyLen(et)), Kerberos)
S2KAESSha2(et, pw, salt, iter) ==
  LET kl == KeyLen(et)
      tkey == PBKDF2(HAlg(et), pw, ENameBytes(et) \o <<0>> \o salt, iter, kl)
  IN KDF8(et, tkey, Kerberos, 8 * kl)
S2KDES3(pw, salt) == DK3(R2K3(NFold(pw \o salt, 168)), Kerberos)
\* UTF-16LE of a sequence of Unicode code points (surrogate pairs above the BMP)
RECURSIVE U16(_)
U16(cps) == IF cps = <<>> THEN <<>> ELSE
  LET c == Head(cps) IN
  (IF c < 65536 THEN <<c % 256, c \div 256>>
   ELSE LET v == c - 65536 hi == 55296 + (v \div 1024) lo == 56320 + (v % 1024) IN <<hi % 256, hi \div 256, lo % 256, lo \div 256>>)
  \o U16(Tail(cps))
S2KRC4(cps) == Hash("MD4", U16(cps))
\* default iteration counts: RFC 3962 section 4 (4096), RFC 8009 section 4 (32768)
DefaultIter(et) == IF IsAESSha1(et) THEN 4096 ELSE 32768
StringToKey(et, pw, cps, salt, iter) ==
  CASE et = 16 -> S2KDES3(pw, salt)
    [] IsAESSha1(et) -> S2KAESSha1(et, pw, salt, iter)
    [] IsAESSha2(et) -> S2KAESSha2(et, pw, salt, iter)
    [] et = 23 -> S2KRC4(cps)
=============================================================================
