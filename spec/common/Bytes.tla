------------------------------- MODULE Bytes --------------------------------
(***************************************************************************)
(* Byte strings are sequences over 0..255.  TLC integers are 32-bit signed,*)
(* so unsigned 32/64-bit protocol fields are carried as byte tuples.       *)
(* Rules learnt while probing: parenthesise every %, force evaluation of   *)
(* function constructors with TLCEval, keep recursion shallow.             *)
(***************************************************************************)
EXTENDS Integers, Sequences, TLC

Byte == 0..255
Zeros(n) == [i \in 1..n |-> 0]
Rep(b, n) == [i \in 1..n |-> b]
Take(s, n) == SubSeq(s, 1, IF n < Len(s) THEN n ELSE Len(s))
Drop(s, n) == SubSeq(s, n + 1, Len(s))
LastN(s, n) == SubSeq(s, Len(s) - n + 1, Len(s))
Rev(s) == [i \in 1..Len(s) |-> s[Len(s) + 1 - i]]

Min2(a, b) == IF a < b THEN a ELSE b
Max2(a, b) == IF a > b THEN a ELSE b

\* big-endian / little-endian encodings of a non-negative TLC integer
BE16(u) == <<(u \div 256) % 256, u % 256>>
LE16(u) == <<u % 256, (u \div 256) % 256>>
BE32(u) == <<(u \div 16777216) % 256, (u \div 65536) % 256, (u \div 256) % 256, u % 256>>
LE32(u) == <<u % 256, (u \div 256) % 256, (u \div 65536) % 256, (u \div 16777216) % 256>>
\* value of a short big-endian byte string (must fit 31 bits)
RECURSIVE BEVal(_)
BEVal(s) == IF s = <<>> THEN 0 ELSE BEVal(SubSeq(s, 1, Len(s) - 1)) * 256 + s[Len(s)]
LEVal(s) == BEVal(Rev(s))

\* bit i (0-based, most significant bit of the first byte first)
Bit(b, i) == (b[(i \div 8) + 1] \div (2 ^ (7 - (i % 8)))) % 2
\* flip bit i of b
FlipBit(b, i) ==
  LET q == (i \div 8) + 1  w == 2 ^ (7 - (i % 8))
  IN [b EXCEPT ![q] = IF Bit(b, i) = 1 THEN @ - w ELSE @ + w]

\* concatenation of a sequence of byte strings (shallow recursion only)
RECURSIVE Concat(_)
Concat(ss) == IF ss = <<>> THEN <<>> ELSE Head(ss) \o Concat(Tail(ss))

IsPrefixB(p, s) == Len(p) <= Len(s) /\ SubSeq(s, 1, Len(p)) = p
=============================================================================
