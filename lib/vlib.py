"""Common machinery for the gokrb5 model-based checks.

Everything a check needs: building the Go harness against /repo's working tree,
running TLC in a scratch directory, parsing TLC statistics, known findings,
evidence files, replay files and the exit protocol (0 / 1 VIOLATION / 2 inconclusive).
"""
import json, os, re, shutil, subprocess, sys, tempfile, time, hashlib, glob

VERIF = os.path.dirname(os.path.dirname(os.path.abspath(__file__)))
REPO = os.environ.get("VERIF_REPO", "/repo")
REPO_MOD = os.path.join(REPO, "v8")
BUILD = os.environ.get("VERIF_BUILD", os.path.join(VERIF, ".build"))
EVIDENCE_DIR = os.environ.get("VERIF_EVIDENCE_DIR", os.path.join(VERIF, "evidence"))
REPLAY_DIR = os.environ.get("VERIF_REPLAY_DIR", os.path.join(VERIF, "replays"))
SPEC = os.path.join(VERIF, "spec")
TLAJAR = "/opt/veriftools/tla/tla2tools.jar"
CMJAR = "/opt/veriftools/tla/CommunityModules-deps.jar"
NCPU = os.cpu_count() or 4

GOENV = dict(os.environ, GOFLAGS="-mod=mod", GOPROXY="off", GOSUMDB="off", GOTOOLCHAIN="local",
             CGO_ENABLED=os.environ.get("CGO_ENABLED", "1"))


class Inconclusive(Exception):
    """TLC/harness failure, timeout, vacuity guard: exit 2, never a violation."""


def log(*a):
    print(*a, file=sys.stderr, flush=True)


# --------------------------------------------------------------------------- build

def ensure_java_classes():
    os.makedirs(BUILD, exist_ok=True)
    src = os.path.join(SPEC, "common", "KrbPrims.java")
    cls = os.path.join(BUILD, "KrbPrims.class")
    if not os.path.exists(cls) or os.path.getmtime(cls) < os.path.getmtime(src):
        r = subprocess.run(["javac", "-cp", TLAJAR, "-d", BUILD, src], capture_output=True, text=True)
        if r.returncode != 0:
            raise Inconclusive("javac failed: " + r.stderr)
    return cls


def build_harness(race=False):
    """go build the harness against the *current* working tree of /repo/v8 (tag verif).  The sources are copied to the
    build directory first, so that go.mod/go.sum are generated there and concurrent builds for different repository
    copies (VERIF_REPO / VERIF_BUILD) do not interfere."""
    os.makedirs(BUILD, exist_ok=True)
    hsrc = os.path.join(VERIF, "harness")
    hdir = os.path.join(BUILD, "hsrc")
    subprocess.run(["rsync", "-a", "--delete", "--exclude", "go.mod", "--exclude", "go.sum", hsrc + "/", hdir + "/"], check=True)
    # go.sum comes from the repository so that nothing has to be fetched
    shutil.copyfile(os.path.join(REPO_MOD, "go.sum"), os.path.join(hdir, "go.sum"))
    gomod = os.path.join(hdir, "go.mod")
    want = open(os.path.join(hdir, "go.mod.in")).read().replace("@REPO@", REPO_MOD)
    if not os.path.exists(gomod) or "=> " + REPO_MOD + "\n" not in open(gomod).read():
        open(gomod, "w").write(want)
    out = os.path.join(BUILD, "vh-race" if race else "vh")
    cmd = ["go", "build", "-tags", "verif", "-o", out]
    if race:
        cmd.append("-race")
    cmd.append("./cmd/vh")
    t0 = time.time()
    r = subprocess.run(cmd, cwd=hdir, env=GOENV, capture_output=True, text=True)
    if r.returncode != 0:
        raise Inconclusive("harness build failed (does /repo/v8 compile with -tags verif?):\n" + r.stderr[-4000:])
    log("[build] %s in %.1fs" % (os.path.basename(out), time.time() - t0))
    return out


def run_harness(args, stdin=None, timeout=1200, race=False, env=None, ok_codes=(0,)):
    exe = os.path.join(BUILD, "vh-race" if race else "vh")
    e = dict(os.environ)
    if env:
        e.update(env)
    try:
        r = subprocess.run([exe] + args, input=stdin, capture_output=True, text=True, timeout=timeout, env=e)
    except subprocess.TimeoutExpired:
        raise Inconclusive("harness timed out: %s" % " ".join(args))
    if r.returncode not in ok_codes:
        raise Inconclusive("harness %s failed rc=%d:\n%s" % (" ".join(args), r.returncode, r.stderr[-4000:]))
    return r


# --------------------------------------------------------------------------- TLC

class TLCResult:
    def __init__(self, rc, out, workdir):
        self.rc, self.out, self.workdir = rc, out, workdir
        self.states = self.distinct = self.generated = 0
        m = re.search(r"(\d+) states generated, (\d+) distinct states found", out)
        if m:
            self.generated, self.distinct = int(m.group(1)), int(m.group(2))
        self.violation = ("Error: Invariant" in out or "is violated" in out or "Error: Action property" in out
                          or "Temporal properties were violated" in out or "Error: Deadlock reached" in out)
        self.error = (rc != 0 and not self.violation) or "Error: " in out and not self.violation
        self.finished = "Model checking completed" in out or "Finished in" in out or "Finished computing" in out
        self.printed = re.findall(r"^<<\"([A-Z]+)\"(?:, (.*))?>>$", out, re.M)

    def tags(self, tag):
        """values printed by PrintT(<<"TAG", v>>)"""
        return [v for t, v in self.printed if t == tag]


def spec_scratch(dirs, extra_files=None):
    """copy spec directories (names under /verif/spec) into a fresh scratch dir"""
    ensure_java_classes()
    wd = tempfile.mkdtemp(prefix="vtlc_")
    for d in ["common"] + list(dirs):
        for f in glob.glob(os.path.join(SPEC, d, "*")):
            if os.path.isfile(f) and not f.endswith(".java"):
                shutil.copy(f, wd)
    shutil.copy(os.path.join(BUILD, "KrbPrims.class"), wd)
    for src, name in (extra_files or {}).items():
        shutil.copy(src, os.path.join(wd, name))
    return wd


def tlc(wd, module, cfg=None, workers=None, args=(), timeout=1800, xss="256m", xmx="8g", keep=False, depth_first=False):
    """run TLC on module in scratch dir wd; returns TLCResult. Raises Inconclusive on crash/timeout."""
    cfg = cfg or module + ".cfg"
    meta = tempfile.mkdtemp(prefix="meta_", dir=wd)
    jtmp = os.path.join(wd, "jtmp")          # TLC leaves a tlc-* directory per run in java.io.tmpdir: keep it inside the scratch directory
    os.makedirs(jtmp, exist_ok=True)
    cmd = ["java", "-XX:+UseParallelGC", "-Xss" + xss, "-Xmx" + xmx, "-Djava.io.tmpdir=" + jtmp]
    if depth_first:
        cmd.append("-Dtlc2.tool.queue.IStateQueue=StateDeque")
    cmd += ["-cp", TLAJAR + ":" + CMJAR + ":" + wd, "tlc2.TLC", "-metadir", meta,
            "-workers", str(workers or NCPU), "-config", cfg] + list(args) + [module + ".tla"]
    t0 = time.time()
    try:
        r = subprocess.run(cmd, cwd=wd, capture_output=True, text=True, timeout=timeout)
    except subprocess.TimeoutExpired:
        raise Inconclusive("TLC timed out after %ds on %s/%s" % (timeout, module, cfg))
    out = r.stdout + r.stderr
    res = TLCResult(r.returncode, out, wd)
    res.wall = time.time() - t0
    if "StackOverflowError" in out or "OutOfMemoryError" in out:
        raise Inconclusive("TLC resource failure on %s:\n%s" % (module, out[-3000:]))
    return res


def tlc_or_die(wd, module, **kw):
    """TLC run that must complete without any error (model checking a spec that is expected to hold,
    or a trace validation whose verdict is communicated through printed tags)."""
    res = tlc(wd, module, **kw)
    if res.rc != 0 or not res.finished:
        i = res.out.find("Error:")
        raise Inconclusive("TLC did not complete cleanly on %s (rc=%d):\n%s\n...\n%s" % (module, res.rc, res.out[i:i + 2500] if i >= 0 else "", res.out[-1500:]))
    return res


# --------------------------------------------------------------------------- findings / evidence / verdict

def load_known():
    p = os.path.join(VERIF, "known_findings.json")
    if not os.path.exists(p):
        return []
    return json.load(open(p))["findings"]


def match_known(prop, facts):
    """facts: dict describing one violating case.  A finding suppresses it only if it is `open`, for the same
    property, and every key of its signature equals the corresponding fact."""
    for f in load_known():
        if f.get("status") != "open" or f["property"] != prop:
            continue
        sig = f["signature"]
        if all(k in facts and facts[k] == v for k, v in sig.items()):
            return f
    return None


class Run:
    """one check run: collects counts, samples, violations, known findings; writes evidence; exits."""

    def __init__(self, prop, level, tier=None, seed=None):
        self.prop, self.level = prop, level
        self.tier = tier or os.environ.get("VERIF_TIER", "quick")
        if self.tier not in ("quick", "thorough"):
            self.tier = "quick"
        self.seed = int(seed if seed is not None else os.environ.get("VERIF_SEED", "1") or 1)
        self.t0 = time.time()
        self.cov = {"evaluations": 0, "distinct_nontrivial": 0, "rule": "", "samples": [], "states": 0, "transitions": 0,
                    "traces_validated_against_impl": 0}
        self.assumptions = []
        self.violations = []      # (facts, replayfile)
        self.known_met = {}       # finding id -> count
        self.extra = {}

    @property
    def thorough(self):
        return self.tier == "thorough"

    def add_model(self, res):
        self.cov["states"] += res.distinct
        self.cov["transitions"] += res.generated

    def sample(self, x, limit=6):
        if len(self.cov["samples"]) < limit:
            self.cov["samples"].append(x)

    def violation(self, facts, detail):
        """facts: small dict used for known-finding matching; detail: everything needed for replay."""
        k = match_known(self.prop, facts)
        if k is not None:
            self.known_met.setdefault(k["id"], [k, 0])[1] += 1
            return False
        os.makedirs(REPLAY_DIR, exist_ok=True)
        h = hashlib.sha1(json.dumps(facts, sort_keys=True).encode()).hexdigest()[:10]
        path = os.path.join(REPLAY_DIR, "%s-%s.json" % (self.prop, h))
        json.dump({"property": self.prop, "facts": facts, "detail": detail, "seed": self.seed, "tier": self.tier},
                  open(path, "w"), indent=1, default=str)
        if path not in [p for _, p in self.violations]:
            self.violations.append((facts, path))
        return True

    def finish(self, exhaustive=None):
        wall = time.time() - self.t0
        cov = dict(self.cov)
        cov.update(self.extra)
        if exhaustive is not None:
            cov["exhaustive"] = bool(exhaustive)
        cov["known_findings_met"] = {k: v[1] for k, v in self.known_met.items()}
        ev = {"property_id": self.prop, "tier": self.tier, "seed": self.seed, "level": self.level, "coverage": cov,
              "assumptions": self.assumptions, "wall_s": round(wall, 2), "violations": len(self.violations)}
        os.makedirs(EVIDENCE_DIR, exist_ok=True)
        json.dump(ev, open(os.path.join(EVIDENCE_DIR, self.prop + ".json"), "w"), indent=1, default=str)
        for k, (f, n) in sorted(self.known_met.items()):
            print("KNOWN-FINDING: property=%s %s (%s; met %d times)" % (self.prop, f["what"], k, n))
        seen = set()
        for facts, path in self.violations:
            if path in seen:
                continue
            seen.add(path)
            print("VIOLATION property=%s replay=%s" % (self.prop, path))
            log("  facts: " + json.dumps(facts, sort_keys=True, default=str)[:600])
        print("[%s %s seed=%d] evaluations=%d nontrivial=%d states=%d traces=%d violations=%d wall=%.1fs" % (
            self.prop, self.tier, self.seed, cov["evaluations"], cov["distinct_nontrivial"], cov["states"],
            cov["traces_validated_against_impl"], len(self.violations), wall))
        sys.exit(1 if self.violations else 0)


def tlapm(wd, module, timeout=900, threads=8):
    """checks the proofs of <module>.tla with the TLA+ proof system; returns (all proved, number of obligations, output)"""
    try:
        r = subprocess.run(["tlapm", "--threads", str(threads), module + ".tla"], cwd=wd, capture_output=True, text=True, timeout=timeout)
        out = r.stdout + r.stderr
    except subprocess.TimeoutExpired:
        return False, 0, "tlapm timed out"
    except FileNotFoundError:
        return False, 0, "tlapm not installed"
    m = re.search(r"All (\d+) obligations? proved", out)
    return bool(m) and r.returncode == 0, int(m.group(1)) if m else 0, out[-2000:]


def spec_validation_problem(run, what):
    """A stage that validates the SPECIFICATION against an independent implementation (MIT Kerberos) - no code of /repo is involved -
    found a disagreement or could not be carried out.  That is no statement about the code under test and cannot be caused by a change
    to it: it is recorded in the evidence and printed, and the verdict of the check stays what the trace validation says
    (bin/selftest runs the same stages and fails on them)."""
    run.extra.setdefault("specification_validation_problems", []).append(what[:1500])
    print("WARNING (specification validation): " + what[:1500], file=sys.stderr)


def main_wrapper(fn):
    try:
        fn()
    except Inconclusive as e:
        print("INCONCLUSIVE: %s" % e, file=sys.stderr)
        sys.exit(2)
    except SystemExit:
        raise
    except BaseException:
        # a failure of the machinery itself is never a verdict about the code under test
        import traceback
        traceback.print_exc()
        print("INCONCLUSIVE: the check itself failed (see traceback)", file=sys.stderr)
        sys.exit(2)


def read_ndjson(path):
    with open(path) as f:
        return [json.loads(l) for l in f if l.strip()]


def write_ndjson(path, rows):
    with open(path, "w") as f:
        for r in rows:
            f.write(json.dumps(r, separators=(",", ":")) + "\n")
