package main

import (
	"encoding/base64"
	"encoding/binary"
	"flag"
	"fmt"
	"io"
	"math/rand"
	"net"
	"sync"
	"time"

	"github.com/jcmturner/gokrb5/v8/client"
	"github.com/jcmturner/gokrb5/v8/config"
	"github.com/jcmturner/gokrb5/v8/keytab"
	"github.com/jcmturner/gokrb5/v8/messages"
	"github.com/jcmturner/gokrb5/v8/service"
)

func init() {
	register("basicauth", "service.KRB5BasicAuthenticator against the simulated KDC with an attacker answering in its place (trace for TraceBasicAuth)", cmdBasicAuth)
}

// baProxy is the address the service believes to be the KDC's: every request is answered by the KDC or by the attacker's own KDC,
// as the scenario says
type baProxy struct {
	mu              sync.Mutex
	kdc, attacker   *simKDC
	asBy, tgsBy     string
	asSeen, tgsSeen int
	l               net.Listener
}

func (p *baProxy) serve() {
	for {
		c, err := p.l.Accept()
		if err != nil {
			return
		}
		go func() {
			defer c.Close()
			c.SetDeadline(time.Now().Add(10 * time.Second))
			h := make([]byte, 4)
			if _, err := io.ReadFull(c, h); err != nil {
				return
			}
			n := binary.BigEndian.Uint32(h)
			if n > 1<<20 {
				return
			}
			req := make([]byte, n)
			if _, err := io.ReadFull(c, req); err != nil {
				return
			}
			p.mu.Lock()
			by := p.tgsBy
			var as messages.ASReq
			if as.Unmarshal(req) == nil {
				by = p.asBy
				p.asSeen++
			} else {
				p.tgsSeen++
			}
			k := p.kdc
			if by == "attacker" {
				k = p.attacker
			}
			p.mu.Unlock()
			r := k.handle(req, "tcp")
			if r == nil {
				return
			}
			binary.BigEndian.PutUint32(h, uint32(len(r)))
			c.Write(append(h, r...))
		}()
	}
}

func cmdBasicAuth(args []string) error {
	fs := flag.NewFlagSet("basicauth", flag.ExitOnError)
	seed := fs.Int64("seed", 1, "seed")
	out := fs.String("out", "trace.ndjson", "trace file")
	fs.Parse(args)
	r := rand.New(rand.NewSource(*seed))
	tw, err := newTrace(*out)
	if err != nil {
		return err
	}
	defer tw.close()
	origin := time.Now().Truncate(time.Second)
	realm := "BASIC.TEST.GOKRB5"
	spn := "HTTP/app.basic.test"
	for _, et := range []int32{18, 17, 23, 19, 20, 16} {
		pw := map[string]string{"alice": "alice-" + hx(rbytes(r, 8)), "mallory": "mallory-" + hx(rbytes(r, 8))}
		svcPw := "svc-" + hx(rbytes(r, 10))
		// the KDC
		k := newSimKDC(origin)
		k.addPrincipal(realm, "krbtgt/"+realm, "tgs-"+hx(rbytes(r, 8)), allEtypes)
		k.addPrincipal(realm, "alice", pw["alice"], []int32{et})
		k.addPrincipal(realm, "mallory", pw["mallory"], []int32{et})
		k.addPrincipal(realm, spn, svcPw, []int32{et})
		kaddr, err := k.listen()
		if err != nil {
			return err
		}
		lib := map[string]string{"default_tkt_enctypes": etypeNames[et], "default_tgs_enctypes": etypeNames[et], "permitted_enctypes": etypeNames[et], "udp_preference_limit": "1"}
		direct, err := config.NewFromString(simConf(realm, map[string][]string{realm: {kaddr}}, lib, nil))
		if err != nil {
			return err
		}
		// the service's keytab
		skt := keytab.New()
		if err := skt.AddEntry(spn, realm, svcPw, time.Now(), 1, et); err != nil {
			return err
		}
		// what the attacker holds: a ticket for the service obtained with its own account, and one of alice's seen on the wire
		getTicket := func(user string) (messages.Ticket, error) {
			cl := client.NewWithPassword(user, realm, pw[user], direct, client.DisablePAFXFAST(true))
			defer cl.Destroy()
			if err := cl.Login(); err != nil {
				return messages.Ticket{}, err
			}
			t, _, err := cl.GetServiceTicket(spn)
			return t, err
		}
		own, err := getTicket("mallory")
		if err != nil {
			return err
		}
		sniffed, err := getTicket("alice")
		if err != nil {
			return err
		}
		for _, claimUser := range []string{"alice", "mallory"} {
			for _, pwKind := range []string{"real", "other"} {
				for _, by := range []string{"alice", "mallory"} {
					if by == "alice" && claimUser != "alice" || (by == "mallory" && claimUser == "alice" && pwKind == "real") {
						continue // nobody but alice knows alice's password; alice claims to be herself
					}
					for _, asBy := range []string{"kdc", "attacker"} {
						for _, tgsBy := range []string{"kdc", "attacker"} {
							kinds := []string{"none"}
							if tgsBy == "attacker" {
								kinds = []string{"own", "sniffed", "forged"}
							}
							for _, kind := range kinds {
								presented := pw[claimUser]
								if pwKind == "other" {
									presented = "guess-" + hx(rbytes(r, 6))
								}
								// the attacker's KDC: it knows the passwords the attacker knows - its own and whatever it typed itself
								ak := newSimKDC(origin)
								ak.addPrincipal(realm, "krbtgt/"+realm, "attacker-tgs-"+hx(rbytes(r, 8)), allEtypes)
								ak.addPrincipal(realm, spn, "attacker-svc-"+hx(rbytes(r, 8)), []int32{et})
								ak.addPrincipal(realm, "mallory", pw["mallory"], []int32{et})
								known := "unknown-" + hx(rbytes(r, 8))
								if by == "mallory" {
									known = presented
								}
								ak.addPrincipal(realm, claimUser, known, []int32{et})
								switch kind {
								case "own":
									ak.substituteTicket = &own
								case "sniffed":
									ak.substituteTicket = &sniffed
								}
								l, err := net.Listen("tcp", "127.0.0.1:0")
								if err != nil {
									return err
								}
								px := &baProxy{kdc: k, attacker: ak, asBy: asBy, tgsBy: tgsBy, l: l}
								go px.serve()
								cfg, err := config.NewFromString(simConf(realm, map[string][]string{realm: {l.Addr().String()}}, lib, nil))
								if err != nil {
									return err
								}
								hdr := base64.StdEncoding.EncodeToString([]byte(claimUser + "@" + realm + ":" + presented))
								if r.Intn(2) == 0 {
									hdr = base64.StdEncoding.EncodeToString([]byte(realm + `\` + claimUser + ":" + presented))
								}
								a := service.NewKRB5BasicAuthenticator(hdr, cfg, service.NewSettings(skt, service.SName(spn)), nil)
								var ok bool
								var aerr error
								idUser, idRealm := "", ""
								pn := catch(func() {
									id, o, e := a.Authenticate()
									ok, aerr = o, e
									if o && id != nil {
										idUser, idRealm = id.UserName(), id.Domain()
									}
								})
								l.Close()
								px.mu.Lock()
								asSeen, tgsSeen := px.asSeen, px.tgsSeen
								px.mu.Unlock()
								et := ""
								if aerr != nil {
									et = trunc(aerr.Error(), 200)
								}
								tw.emit(map[string]interface{}{"ev": "call", "et": int(ak.realmsEtype(realm, spn)), "user": claimUser, "pw": pwKind, "by": by, "asBy": asBy, "tgsBy": tgsBy, "ticket": kind,
									"yes": ok, "idUser": idUser, "idRealm": idRealm, "realm": realm, "err": et, "panic": pn, "asSeen": asSeen, "tgsSeen": tgsSeen})
							}
						}
					}
				}
			}
		}
		k.close()
	}
	return nil
}

// realmsEtype is the etype of the keys of a principal (for the trace)
func (k *simKDC) realmsEtype(realm, name string) int32 {
	if p := k.realms[realm][name]; p != nil {
		for e := range p.keys {
			return e
		}
	}
	return 0
}

var _ = fmt.Sprint
