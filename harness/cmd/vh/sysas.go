package main

// End-to-end scenarios for the system specification ASExchange.tla: the real client's Login against scripted KDCs of four realms
// (one listener per realm), which answer every AS request either as a conformant KDC would or with the next step of a script:
// PREAUTH_REQUIRED / PREAUTH_FAILED with or without etype hints, WRONG_REALM referrals, other KRB-ERRORs, a reply that answers the
// request, one that does not, or a closed connection.  Events (trace for TraceAS):
//
//	reset   password keyEts assume et customSalt     a new client: credential kind, etypes it has keys for, AssumePreAuthentication option
//	login                                            Client.Login is called
//	req     at pa et keyHint keyDefault keyStored answer   a KDC (of realm at) received a request and answered
//	result  ok class hasCode                         Client.Login returned
//
// keyHint / keyDefault / keyStored say which key decrypts the PA-ENC-TIMESTAMP: string-to-key with the salt the KDC advertises,
// with the default salt, or the key stored in the keytab.  No verdict is taken here.

import (
	"encoding/binary"
	"flag"
	"fmt"
	"io"
	"math/rand"
	"net"
	"strings"
	"sync"
	"time"

	"github.com/jcmturner/gofork/encoding/asn1"
	"github.com/jcmturner/gokrb5/v8/client"
	"github.com/jcmturner/gokrb5/v8/config"
	"github.com/jcmturner/gokrb5/v8/crypto"
	"github.com/jcmturner/gokrb5/v8/iana/keyusage"
	"github.com/jcmturner/gokrb5/v8/iana/patype"
	"github.com/jcmturner/gokrb5/v8/keytab"
	"github.com/jcmturner/gokrb5/v8/krberror"
	"github.com/jcmturner/gokrb5/v8/messages"
	"github.com/jcmturner/gokrb5/v8/types"
)

func init() {
	register("sysas", "end-to-end Login scenarios (pre-authentication negotiation, client referrals, errors) for the system specification ASExchange (trace for TraceAS)", cmdSysAS)
}

type asStep struct {
	T    string `json:"t"`
	Code int32  `json:"code,omitempty"`
	Hint int32  `json:"hint"`
	More int32  `json:"more,omitempty"` // a second, less preferred entry of the etype hints
	To   string `json:"to,omitempty"`
	Good bool   `json:"good"`
}

type asWorld struct {
	mu         sync.Mutex
	k          *simKDC
	user, pw   string
	home       string
	et         int32
	salt       string // the principal's salt (what the KDC advertises)
	defSalt    string
	requirePA  bool
	more       int32 // second entry of the conformant KDC's etype hints (0: none)
	script     []asStep
	events     []map[string]interface{}
	ktKeys     map[int32]types.EncryptionKey
	listeners  []net.Listener
	realmNames []string
}

func s2k(et int32, pw, salt string) (types.EncryptionKey, error) {
	e, err := crypto.GetEtype(et)
	if err != nil {
		return types.EncryptionKey{}, err
	}
	kv, err := e.StringToKey(pw, salt, e.GetDefaultStringToKeyParams())
	return types.EncryptionKey{KeyType: et, KeyValue: kv}, err
}

func decryptsPATS(ed types.EncryptedData, key types.EncryptionKey) bool {
	if key.KeyType != ed.EType || len(key.KeyValue) == 0 {
		return false
	}
	pt, err := crypto.DecryptEncPart(ed, key, keyusage.AS_REQ_PA_ENC_TIMESTAMP)
	if err != nil {
		return false
	}
	var ts types.PAEncTSEnc
	return ts.Unmarshal(pt) == nil
}

// serve answers one request received by the KDC of realm at
func (w *asWorld) serve(req []byte, at string) []byte {
	w.mu.Lock()
	defer w.mu.Unlock()
	var as messages.ASReq
	if err := as.Unmarshal(req); err != nil {
		w.events = append(w.events, map[string]interface{}{"ev": "req", "at": at, "pa": false, "et": 0, "keyHint": false, "keyDefault": false, "keyStored": false,
			"answer": asStep{T: "netfail"}, "unparseable": true})
		return nil
	}
	ev := map[string]interface{}{"ev": "req", "at": at, "pa": false, "et": 0, "keyHint": false, "keyDefault": false, "keyStored": false, "bodyRealm": as.ReqBody.Realm, "nonce": as.ReqBody.Nonce}
	nTS, nPaRep := 0, 0
	valid := false
	for _, pa := range as.PAData {
		switch pa.PADataType {
		case patype.PA_REQ_ENC_PA_REP:
			nPaRep++
		case patype.PA_ENC_TIMESTAMP:
			nTS++
			var ed types.EncryptedData
			ev["pa"] = true
			if ed.Unmarshal(pa.PADataValue) != nil {
				continue
			}
			ev["et"] = ed.EType
			if kh, err := s2k(ed.EType, w.pw, w.salt); err == nil {
				ev["keyHint"] = decryptsPATS(ed, kh)
			}
			if kd, err := s2k(ed.EType, w.pw, w.defSalt); err == nil {
				ev["keyDefault"] = decryptsPATS(ed, kd)
			}
			if ks, ok := w.ktKeys[ed.EType]; ok {
				ev["keyStored"] = decryptsPATS(ed, ks)
			}
			// the principal's key: etype w.et, derived with the principal's salt (the keytab holds the same key)
			if ed.EType == w.et {
				if kp, err := s2k(w.et, w.pw, w.salt); err == nil && decryptsPATS(ed, kp) {
					valid = true
				}
			}
		}
	}
	ev["nPATS"], ev["nPaRep"] = nTS, nPaRep
	step := asStep{T: "auto"}
	if len(w.script) > 0 {
		step, w.script = w.script[0], w.script[1:]
	}
	if step.T == "auto" {
		if w.requirePA && !valid {
			step = asStep{T: "preauth", Code: 25, Hint: w.et, More: w.more}
			if ev["pa"].(bool) {
				step.Code = 24
			}
		} else {
			step = asStep{T: "reply", Good: true}
		}
	}
	ev["answer"] = step
	w.events = append(w.events, ev)
	b := as.ReqBody
	switch step.T {
	case "preauth":
		var pas types.PADataSequence
		if step.Hint != 0 {
			ents := []etypeInfo2Entry{{EType: step.Hint, Salt: w.salt}}
			if step.More != 0 {
				ents = append(ents, etypeInfo2Entry{EType: step.More, Salt: w.salt + "-old"})
			}
			i2, _ := asn1.Marshal(ents)
			pas = append(pas, types.PAData{PADataType: patype.PA_ETYPE_INFO2, PADataValue: i2})
		}
		pas = append(pas, types.PAData{PADataType: patype.PA_ENC_TIMESTAMP})
		ed, _ := asn1.Marshal(pas)
		return w.k.krbErr(step.Code, b.Realm, b.CName, b.SName, ed)
	case "wrongrealm":
		return w.k.krbErr(68, step.To, b.CName, b.SName, nil)
	case "error":
		return w.k.krbErr(step.Code, b.Realm, b.CName, b.SName, nil)
	case "reply":
		w.k.mu.Lock()
		if !step.Good {
			w.k.pert = &perturbation{Kind: "AS", Field: "nonce", Value: "+1", once: true}
		}
		w.k.mu.Unlock()
		out := w.k.handle(req, "tcp")
		w.k.mu.Lock()
		w.k.pert = nil
		w.k.mu.Unlock()
		return out
	}
	return nil // netfail: the connection is closed without an answer
}

func (w *asWorld) listen(realm string) (string, error) {
	l, err := net.Listen("tcp", "127.0.0.1:0")
	if err != nil {
		return "", err
	}
	w.listeners = append(w.listeners, l)
	go func() {
		for {
			c, err := l.Accept()
			if err != nil {
				return
			}
			go func() {
				defer c.Close()
				c.SetDeadline(time.Now().Add(10 * time.Second))
				h := make([]byte, 4)
				if _, err := io.ReadFull(c, h); err != nil {
					return
				}
				n := binary.BigEndian.Uint32(h)
				if n > 1<<20 {
					return
				}
				req := make([]byte, n)
				if _, err := io.ReadFull(c, req); err != nil {
					return
				}
				r := w.serve(req, realm)
				if r == nil {
					return
				}
				binary.BigEndian.PutUint32(h, uint32(len(r)))
				c.Write(append(h, r...))
			}()
		}
	}()
	return l.Addr().String(), nil
}

func (w *asWorld) close() {
	for _, l := range w.listeners {
		l.Close()
	}
}

func cmdSysAS(args []string) error {
	fs := flag.NewFlagSet("sysas", flag.ExitOnError)
	seed := fs.Int64("seed", 1, "seed")
	rounds := fs.Int("rounds", 48, "scenarios (one client each, three logins)")
	out := fs.String("out", "trace.ndjson", "trace file")
	fs.Parse(args)
	r := rand.New(rand.NewSource(*seed))
	tw, err := newTrace(*out)
	if err != nil {
		return err
	}
	defer tw.close()
	origin := time.Now().Truncate(time.Second)
	realm := func(i int) string { return fmt.Sprintf("R%d.AS.TEST", i) }
	const nRealms = 4
	for round := 0; round < *rounds; round++ {
		et := allEtypes[(round+int(*seed))%len(allEtypes)]
		password := round%2 == 0
		customSalt := (round/2)%2 == 0
		assumeInit := (round/4)%3 == 2
		family := []string{"conformant", "scripted", "referrals"}[(round/3+round)%3]
		w := &asWorld{k: newSimKDC(origin), user: fmt.Sprintf("alice%d", round), pw: "pw-as-" + fmt.Sprint(round), home: realm(0), et: et, ktKeys: map[int32]types.EncryptionKey{}}
		w.requirePA = r.Intn(3) != 0
		if round%3 != 0 {
			w.more = allEtypes[(round+int(*seed)+1+round%5)%len(allEtypes)] // never the principal's etype
		}
		pn := types.PrincipalName{NameType: 1, NameString: []string{w.user}}
		w.defSalt = pn.GetSalt(w.home)
		w.salt = w.defSalt
		if customSalt {
			w.salt = "Renamed.Account" + fmt.Sprint(round)
		}
		// the KDC's data base: the principal has one key, of etype et, derived with its salt; the reply carries the salt
		w.k.policy.SaltInReply = true
		for i := 0; i < nRealms; i++ {
			if _, err := w.k.addPrincipal(realm(i), "krbtgt/"+realm(i), fmt.Sprintf("tgs-%d", i), allEtypes); err != nil {
				return err
			}
		}
		p, err := w.k.addPrincipal(w.home, w.user, w.pw, nil)
		if err != nil {
			return err
		}
		pk, err := s2k(et, w.pw, w.salt)
		if err != nil {
			return err
		}
		p.keys[et], p.salt = pk, w.salt
		kdcs := map[string][]string{}
		for i := 0; i < nRealms; i++ {
			a, err := w.listen(realm(i))
			if err != nil {
				return err
			}
			kdcs[realm(i)] = []string{a}
		}
		// the client's etype list: the principal's etype among others
		ets := []int32{et}
		for _, e := range r.Perm(len(allEtypes)) {
			if allEtypes[e] != et && len(ets) < 3 {
				ets = append(ets, allEtypes[e])
			}
		}
		r.Shuffle(len(ets), func(i, j int) { ets[i], ets[j] = ets[j], ets[i] })
		var names []string
		for _, e := range ets {
			names = append(names, etypeNames[e])
		}
		lib := map[string]string{"default_tkt_enctypes": strings.Join(names, " "), "default_tgs_enctypes": strings.Join(names, " "), "permitted_enctypes": strings.Join(names, " "), "udp_preference_limit": "1"}
		cfg, err := config.NewFromString(simConf(w.home, kdcs, lib, nil))
		if err != nil {
			return err
		}
		opts := []func(*client.Settings){client.DisablePAFXFAST(round%5 != 4)}
		if assumeInit {
			opts = append(opts, client.AssumePreAuthentication(true))
		}
		var cl *client.Client
		keyEts := []int32{}
		if password {
			cl = client.NewWithPassword(w.user, w.home, w.pw, cfg, opts...)
			keyEts = append(keyEts, allEtypes...)
		} else {
			kt := keytab.New()
			have := []int32{et}
			if round%4 == 1 || (assumeInit && round%8 < 6) {
				have = append(have, 17) // a second key, of the etype an unsolicited timestamp defaults to
			}
			seen := map[int32]bool{}
			for _, e := range have {
				if seen[e] {
					continue
				}
				seen[e] = true
				if err := kt.AddEntry(w.user, w.home, w.pw, time.Now(), 1, e); err != nil {
					return err
				}
				key, err := s2k(e, w.pw, w.salt)
				if err != nil {
					return err
				}
				kt.Entries[len(kt.Entries)-1].Key = key
				w.ktKeys[e] = key
				keyEts = append(keyEts, e)
			}
			cl = client.NewWithKeytab(w.user, w.home, kt, cfg, opts...)
		}
		// the script
		switch family {
		case "scripted":
			n := 1 + r.Intn(5)
			for i := 0; i < n; i++ {
				var s asStep
				switch r.Intn(9) {
				case 0:
					s = asStep{T: "preauth", Code: 25, Hint: et, More: w.more}
				case 1:
					s = asStep{T: "preauth", Code: 24, Hint: et, More: w.more}
				case 2:
					s = asStep{T: "preauth", Code: []int32{24, 25}[r.Intn(2)], Hint: allEtypes[r.Intn(len(allEtypes))]}
				case 3:
					s = asStep{T: "preauth", Code: []int32{24, 25}[r.Intn(2)], Hint: []int32{0, 99}[r.Intn(2)]}
				case 4:
					s = asStep{T: "wrongrealm", To: realm(1 + r.Intn(nRealms-1))}
				case 5:
					s = asStep{T: "error", Code: []int32{6, 18, 23, 14, 37, 60}[r.Intn(6)]}
				case 6:
					s = asStep{T: "reply", Good: false}
				case 7:
					s = asStep{T: "netfail"}
				default:
					s = asStep{T: "auto"}
				}
				w.script = append(w.script, s)
			}
		case "referrals":
			n := []int{1, 2, 5, 6, 7, 8, 9, 12}[r.Intn(8)]
			for i := 0; i < n; i++ {
				w.script = append(w.script, asStep{T: "wrongrealm", To: realm(1 + (i+round)%(nRealms-1))})
			}
		}
		tw.emit(map[string]interface{}{"ev": "reset", "round": round, "password": password, "keyEts": keyEts, "assume": assumeInit, "et": et, "customSalt": customSalt,
			"tkt": ets, "family": family, "requirePA": w.requirePA, "script": append([]asStep{}, w.script...)})
		for login := 0; login < 3; login++ {
			tw.emit(map[string]interface{}{"ev": "login"})
			var lerr error
			pn := catchT(40*time.Second, func() { lerr = cl.Login() })
			w.mu.Lock()
			evs := w.events
			w.events = nil
			w.mu.Unlock()
			lastCode := int32(0)
			for _, e := range evs {
				if a := e["answer"].(asStep); a.T == "preauth" || a.T == "error" {
					lastCode = a.Code
				} else if a.T == "wrongrealm" {
					lastCode = 68
				}
				tw.emit(e)
			}
			res := map[string]interface{}{"ev": "result", "ok": lerr == nil && pn == "", "class": "", "hasCode": false, "panic": pn, "text": ""}
			if lerr != nil {
				res["text"] = trunc(lerr.Error(), 240)
				res["hasCode"] = lastCode != 0 && strings.Contains(lerr.Error(), fmt.Sprintf("(%d)", lastCode))
				if ke, ok := lerr.(krberror.Krberror); ok {
					res["class"] = ke.RootCause
				} else {
					res["class"] = "other"
				}
			}
			tw.emit(res)
			if pn != "" {
				break // the call did not return: the client is left alone
			}
		}
		cl.Destroy()
		w.close()
		w.k.close()
	}
	return nil
}
