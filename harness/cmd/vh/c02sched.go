package main

import (
	"math/rand"
	"sync/atomic"
	"time"

	"github.com/jcmturner/gokrb5/v8/service"
)

// systematic schedules of concurrent replay-cache operations on a private cache, through the guarded yield points
func c02sched(tw *traceWriter, r *rand.Rand, hid *int, ng int) error {
	install := func(f func(string)) { service.VerifYield = f }
	skew := 2 * time.Second
	type scenario struct {
		name string
		mk   func(n *c02names, lg *c02log) []schedOp
	}
	ident := func(k int, extra ...absAuth) func(n *c02names, lg *c02log) []schedOp {
		return func(n *c02names, lg *c02log) []schedOp {
			var ops []schedOp
			for i := 0; i < k; i++ {
				ops = append(ops, func() { n.present(lg, absAuth{0, 0, 0, 0}) })
			}
			for _, a := range extra {
				a := a
				ops = append(ops, func() { n.present(lg, a) })
			}
			return ops
		}
	}
	withCleaner := func(k int, prepopulate bool) func(n *c02names, lg *c02log) []schedOp {
		return func(n *c02names, lg *c02log) []schedOp {
			if prepopulate {
				// an entry of the same client that is already past the window: the clean-up removes it (and, before
				// the repair, detached the client's whole map while another goroutine was about to write into it)
				n.cache.AddEntry(n.svc(0), n.authenticator(absAuth{0, -3000, 0, 0}))
			}
			var ops []schedOp
			for i := 0; i < k; i++ {
				ops = append(ops, func() { n.present(lg, absAuth{0, 0, 0, 0}) })
			}
			ops = append(ops, func() {
				n.cache.ClearOldEntries(skew)
				lg.add(atomic.AddInt64(&c02seq, 1), map[string]interface{}{"ev": "clear", "now": n.units(time.Since(n.t0))})
			})
			return ops
		}
	}
	scenarios := []scenario{
		{"identical", ident(ng)},
		{"identical+usec", ident(ng-1, absAuth{0, 0, 0, 1})},
		{"identical+otherservice", ident(ng-1, absAuth{0, 0, 1, 0})},
		{"identical+otherrealm", ident(ng-1, absAuth{2, 0, 0, 0})},
		{"identical+cleaner", withCleaner(ng-1, false)},
		{"identical+cleaner-stale", withCleaner(ng-1, true)},
		{"identical+addentry", func(n *c02names, lg *c02log) []schedOp {
			ops := ident(ng-1)(n, lg)
			return append(ops, func() { n.cache.AddEntry(n.svc(1), n.authenticator(absAuth{0, 0, 1, 0})) })
		}},
	}
	for _, sc := range scenarios {
		var cur *c02log
		var curN *c02names
		_, err := exploreSchedules(install, func() []schedOp {
			*hid++
			curN = &c02names{hid: *hid, t0: time.Now(), skew: skew, cache: service.NewVerifCache()}
			cur = &c02log{}
			return sc.mk(curN, cur)
		}, func(taken []int, steps []string) {
			cur.flush(tw, map[string]interface{}{"kind": "sched", "scenario": sc.name, "schedule": taken, "steps": steps})
		}, 0)
		if err != nil {
			return err
		}
	}
	return nil
}
