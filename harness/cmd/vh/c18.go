package main

import (
	"bytes"
	"crypto/sha256"
	"encoding/base64"
	"encoding/json"
	"flag"
	"fmt"
	"io"
	"math/rand"
	"net"
	"net/http"
	"net/http/httptest"
	"strings"
	"sync"
	"time"

	"github.com/jcmturner/gokrb5/v8/client"
	"github.com/jcmturner/gokrb5/v8/config"
	"github.com/jcmturner/gokrb5/v8/credentials"
	"github.com/jcmturner/gokrb5/v8/keytab"
	"github.com/jcmturner/gokrb5/v8/service"
	"github.com/jcmturner/gokrb5/v8/spnego"
)

func init() {
	register("c18", "spnego.Client.Do against scripted HTTP servers (trace for TraceC18)", cmdC18)
}

type c18Script struct {
	Script []string `json:"script"`
	Tail   string   `json:"tail"`
}

type c18Req struct {
	Sym      string `json:"sym"`
	Auth     bool   `json:"auth"`
	Accepted bool   `json:"accepted"`
	BodyOK   bool   `json:"bodyOK"`
	Method   string `json:"method"`
}

// scriptedServers: two httptest servers ("same host" and "other host") sharing one script
type scriptedServers struct {
	mu       sync.Mutex
	script   []string
	tail     string
	pos      int
	reqs     []c18Req
	capped   bool
	bodySum  [32]byte
	bodyLen  int
	acceptor *spnego.SPNEGO
	a, b     *httptest.Server
	cname    string
	crealm   string
}

const c18Cap = 60

func (s *scriptedServers) handler(self, other func() string, acceptor *spnego.SPNEGO) http.HandlerFunc {
	return func(w http.ResponseWriter, r *http.Request) {
		// always drain the request body before answering (assumption of the check, stated in the evidence)
		body, _ := io.ReadAll(r.Body)
		s.mu.Lock()
		defer s.mu.Unlock()
		sym := s.tail
		if s.pos < len(s.script) {
			sym = s.script[s.pos]
		}
		s.pos++
		rec := c18Req{Sym: sym, Method: r.Method}
		rec.BodyOK = len(body) == s.bodyLen && sha256.Sum256(body) == s.bodySum
		if h := r.Header.Get("Authorization"); strings.HasPrefix(h, "Negotiate ") {
			rec.Auth = true
			if tb, err := base64.StdEncoding.DecodeString(strings.TrimPrefix(h, "Negotiate ")); err == nil {
				var st spnego.SPNEGOToken
				if st.Unmarshal(tb) == nil {
					ok, ctx, _ := acceptor.AcceptSecContext(&st)
					if ok && ctx != nil {
						if id, isC := ctx.Value("github.com/jcmturner/gokrb5/v8/ctxCredentials").(*credentials.Credentials); isC {
							rec.Accepted = id.UserName() == s.cname && id.Domain() == s.crealm
						}
					}
				}
			}
		}
		s.reqs = append(s.reqs, rec)
		if len(s.reqs) >= c18Cap {
			s.capped = true
			w.WriteHeader(500)
			return
		}
		switch sym {
		case "ok":
			w.WriteHeader(200)
			w.Write([]byte("fine"))
		case "bare":
			w.Header().Set("WWW-Authenticate", "Negotiate")
			w.WriteHeader(401)
		case "rej":
			w.Header().Set("WWW-Authenticate", "Negotiate oQcwBaADCgEC")
			w.WriteHeader(401)
		case "oth":
			w.Header().Set("WWW-Authenticate", "Basic realm=\"x\"")
			w.WriteHeader(401)
		case "rs":
			w.Header().Set("Location", self()+fmt.Sprintf("/again/%d", s.pos))
			w.WriteHeader(307)
		case "ro":
			w.Header().Set("Location", other()+fmt.Sprintf("/elsewhere/%d", s.pos))
			w.WriteHeader(307)
		case "err":
			w.WriteHeader(500)
		}
	}
}

func cmdC18(args []string) error {
	fs := flag.NewFlagSet("c18", flag.ExitOnError)
	seed := fs.Int64("seed", 1, "seed")
	tier := fs.String("tier", "quick", "quick|thorough")
	out := fs.String("out", "trace.ndjson", "trace file")
	scriptsF := fs.String("scripts", "scripts.ndjson", "server scripts from GenC18")
	fs.Parse(args)
	thorough := *tier == "thorough"
	r := rand.New(rand.NewSource(*seed))
	var scripts []c18Script
	if err := readNDJSONRaw(*scriptsF, func(b []byte) error {
		var s c18Script
		if err := json.Unmarshal(b, &s); err != nil {
			return err
		}
		scripts = append(scripts, s)
		return nil
	}); err != nil {
		return err
	}
	tw, err := newTrace(*out)
	if err != nil {
		return err
	}
	defer tw.close()
	service.GetReplayCache(24 * time.Hour)
	origin := time.Now().Truncate(time.Second)
	realm := "C18.TEST.GOKRB5"
	etypes := []int32{18, 23}
	if thorough {
		etypes = allEtypes
	}
	for ei, et := range etypes {
		k := newSimKDC(origin)
		if _, err := k.addPrincipal(realm, "krbtgt/"+realm, "tgs", []int32{18, 17, 23, 16, 19, 20}); err != nil {
			return err
		}
		if _, err := k.addPrincipal(realm, "alice", "c18-password", []int32{et}); err != nil {
			return err
		}
		// the service ticket is sealed with a key of etype et
		for _, spn := range []string{"HTTP/127.0.0.1", "HTTP/127.0.0.2", "HTTP/explicit.c18.test"} {
			if _, err := k.addPrincipal(realm, spn, "svc-"+spn, []int32{et}); err != nil {
				return err
			}
		}
		addr, err := k.listen()
		if err != nil {
			return err
		}
		lib := map[string]string{"default_tkt_enctypes": etypeNames[et], "default_tgs_enctypes": etypeNames[et], "permitted_enctypes": etypeNames[et],
			"udp_preference_limit": "1"}
		cfg, err := config.NewFromString(simConf(realm, map[string][]string{realm: {addr}}, lib, nil))
		if err != nil {
			return err
		}
		kt := keytab.New()
		for _, spn := range []string{"HTTP/127.0.0.1", "HTTP/127.0.0.2", "HTTP/explicit.c18.test"} {
			if err := kt.AddEntry(spn, realm, "svc-"+spn, time.Now(), 1, et); err != nil {
				return err
			}
		}
		cl := client.NewWithPassword("alice", realm, "c18-password", cfg, client.DisablePAFXFAST(true))
		if err := cl.Login(); err != nil {
			return fmt.Errorf("login: %v", err)
		}
		for si, sc := range scripts {
			if !thorough && len(etypes) > 1 && si%len(etypes) != ei && len(sc.Script) > 1 {
				continue // quick: the long scripts are split over the etypes
			}
			method := []string{"GET", "POST", "POST", "HEAD"}[(si+int(*seed))%4]
			blen := 0
			if method == "POST" {
				blen = []int{0, 1, 4096, 4096, 70000}[(si/4)%5]
				if thorough && si%97 == 0 {
					blen = 1 << 20
				}
			} else {
				// the property crosses the methods with the body sizes: GET and HEAD requests may carry a body too
				blen = []int{0, 0, 1, 4096, 0, 70000}[(si/4)%6]
			}
			spnMode := []string{"explicit", "url"}[(si/2)%2]
			if err := runC18(tw, cl, kt, realm, sc, method, blen, spnMode, et, r); err != nil {
				return err
			}
		}
		cl.Destroy()
		k.close()
	}
	return nil
}

func runC18(tw *traceWriter, cl *client.Client, kt *keytab.Keytab, realm string, sc c18Script, method string, blen int, spnMode string, et int32, r *rand.Rand) error {
	body := rbytes(r, blen)
	s := &scriptedServers{script: sc.Script, tail: sc.Tail, bodyLen: blen, bodySum: sha256.Sum256(body), cname: "alice", crealm: realm}
	// the two hosts are different hosts with different service principals and keys (127.0.0.1 / 127.0.0.2): with a URL-derived SPN
	// the intended principal is that of the host the request goes to, and each host's acceptor holds only its own key; an
	// explicit SPN is the intended principal wherever the request goes
	spn := ""
	princA, princB := "HTTP/127.0.0.1", "HTTP/127.0.0.2"
	if spnMode == "explicit" {
		spn = "HTTP/explicit.c18.test"
		princA, princB = spn, spn
	}
	accA := spnego.SPNEGOService(kt, service.KeytabPrincipal(princA), service.DecodePAC(false))
	accB := spnego.SPNEGOService(kt, service.KeytabPrincipal(princB), service.DecodePAC(false))
	s.a = httptest.NewServer(nil)
	lb, err := net.Listen("tcp", "127.0.0.2:0")
	if err != nil {
		return fmt.Errorf("second loopback host: %v", err)
	}
	s.b = httptest.NewUnstartedServer(nil)
	s.b.Listener.Close()
	s.b.Listener = lb
	s.b.Start()
	defer s.a.Close()
	defer s.b.Close()
	s.a.Config.Handler = s.handler(func() string { return s.a.URL }, func() string { return s.b.URL }, accA)
	s.b.Config.Handler = s.handler(func() string { return s.b.URL }, func() string { return s.a.URL }, accB)
	hc := spnego.NewClient(cl, &http.Client{Timeout: 20 * time.Second}, spn)
	var rd io.Reader
	if method == "POST" || blen > 0 {
		rd = bytes.NewReader(body)
	}
	req, err := http.NewRequest(method, s.a.URL+"/start", rd)
	if err != nil {
		return err
	}
	var resp *http.Response
	var derr error
	p := catch(func() { resp, derr = hc.Do(req) })
	result := "error"
	if p == "" && derr == nil && resp != nil {
		io.Copy(io.Discard, resp.Body)
		resp.Body.Close()
		// the final response is identified by its status and challenge
		switch {
		case resp.StatusCode == 200:
			result = "ok"
		case resp.StatusCode == 500:
			result = "err"
		case resp.StatusCode == 307:
			result = "redirect"
		case resp.StatusCode == 401 && resp.Header.Get("WWW-Authenticate") == "Negotiate":
			result = "bare"
		case resp.StatusCode == 401 && strings.HasPrefix(resp.Header.Get("WWW-Authenticate"), "Negotiate "):
			result = "rej"
		case resp.StatusCode == 401:
			result = "oth"
		default:
			result = fmt.Sprintf("status-%d", resp.StatusCode)
		}
	}
	s.mu.Lock()
	reqs := append([]c18Req{}, s.reqs...)
	capped := s.capped
	s.mu.Unlock()
	et2 := ""
	if derr != nil {
		et2 = trunc(derr.Error(), 200)
	}
	if reqs == nil {
		reqs = []c18Req{}
	}
	tw.emit(map[string]interface{}{"script": sc.Script, "tail": sc.Tail, "method": method, "bodyLen": blen, "spnMode": spnMode, "et": et,
		"reqs": reqs, "capped": capped, "result": result, "panic": p, "errtext": et2})
	return nil
}
