package main

import (
	"bufio"
	"bytes"
	"crypto/sha256"
	"encoding/base64"
	"encoding/json"
	"flag"
	"fmt"
	"io"
	"math/rand"
	"net"
	"net/http"
	"net/http/httptest"
	"os"
	"os/exec"
	"strings"
	"sync"
	"time"

	"github.com/jcmturner/gokrb5/v8/client"
	"github.com/jcmturner/gokrb5/v8/config"
	"github.com/jcmturner/gokrb5/v8/credentials"
	"github.com/jcmturner/gokrb5/v8/keytab"
	"github.com/jcmturner/gokrb5/v8/service"
	"github.com/jcmturner/gokrb5/v8/spnego"
)

func init() {
	register("c18", "spnego.Client.Do against scripted HTTP servers (trace for TraceC18)", cmdC18)
}

type c18Script struct {
	Script []string `json:"script"`
	Tail   string   `json:"tail"`
}

type c18Req struct {
	Sym      string `json:"sym"`
	Auth     bool   `json:"auth"`
	Accepted bool   `json:"accepted"`
	MIT      string `json:"mit"` // verdict of MIT's acceptor on the same token: "accepted" (complete, right client, intended service), "refused", "" (not asked)
	BodyOK   bool   `json:"bodyOK"`
	BLen     int    `json:"blen"` // the body that arrived: length and the first octets of its SHA-256
	BSum     string `json:"bsum"`
	Method   string `json:"method"`
}

// scriptedServers: two httptest servers ("same host" and "other host") sharing one script
type scriptedServers struct {
	mu       sync.Mutex
	script   []string
	tail     string
	pos      int
	reqs     []c18Req
	capped   bool
	bodySum  [32]byte
	bodyLen  int
	acceptor *spnego.SPNEGO
	a, b     *httptest.Server
	cname    string
	crealm   string
	redir    int // status of the redirects: 307 (method and body are kept) or 302 (net/http turns a POST into a GET)
}

const c18Cap = 60

func (s *scriptedServers) handler(self, other func() string, acceptor *spnego.SPNEGO, intended string) http.HandlerFunc {
	return func(w http.ResponseWriter, r *http.Request) {
		// always drain the request body before answering (assumption of the check, stated in the evidence)
		body, _ := io.ReadAll(r.Body)
		s.mu.Lock()
		defer s.mu.Unlock()
		sym := s.tail
		if s.pos < len(s.script) {
			sym = s.script[s.pos]
		}
		s.pos++
		rec := c18Req{Sym: sym, Method: r.Method}
		sum := sha256.Sum256(body)
		rec.BodyOK = len(body) == s.bodyLen && sum == s.bodySum
		rec.BLen, rec.BSum = len(body), hx(sum[:8])
		if h := r.Header.Get("Authorization"); strings.HasPrefix(h, "Negotiate ") {
			rec.Auth = true
			if tb, err := base64.StdEncoding.DecodeString(strings.TrimPrefix(h, "Negotiate ")); err == nil {
				if c18mit != nil {
					// the independent acceptor: MIT's gss_accept_sec_context with the keytab of both hosts; the ticket must be for the
					// principal of the host the request went to, and the client must be the one that logged in
					if v, ok := c18mit.accept(tb); ok {
						rec.MIT = "refused"
						if v.Complete && v.Client == s.cname+"@"+s.crealm && v.Service == intended+"@"+s.crealm {
							rec.MIT = "accepted"
						}
					}
				}
				var st spnego.SPNEGOToken
				if st.Unmarshal(tb) == nil {
					ok, ctx, _ := acceptor.AcceptSecContext(&st)
					if ok && ctx != nil {
						if id, isC := ctx.Value("github.com/jcmturner/gokrb5/v8/ctxCredentials").(*credentials.Credentials); isC {
							rec.Accepted = id.UserName() == s.cname && id.Domain() == s.crealm
						}
					}
				}
			}
		}
		s.reqs = append(s.reqs, rec)
		if len(s.reqs) >= c18Cap {
			s.capped = true
			w.WriteHeader(500)
			return
		}
		switch sym {
		case "ok":
			w.WriteHeader(200)
			w.Write([]byte("fine"))
		case "bare":
			w.Header().Set("WWW-Authenticate", "Negotiate")
			w.WriteHeader(401)
		case "rej":
			w.Header().Set("WWW-Authenticate", "Negotiate oQcwBaADCgEC")
			w.WriteHeader(401)
		case "oth":
			w.Header().Set("WWW-Authenticate", "Basic realm=\"x\"")
			w.WriteHeader(401)
		case "rs":
			w.Header().Set("Location", self()+fmt.Sprintf("/again/%d", s.pos))
			w.WriteHeader(s.redir)
		case "ro":
			w.Header().Set("Location", other()+fmt.Sprintf("/elsewhere/%d", s.pos))
			w.WriteHeader(s.redir)
		case "err":
			w.WriteHeader(500)
		}
	}
}

func cmdC18(args []string) error {
	fs := flag.NewFlagSet("c18", flag.ExitOnError)
	seed := fs.Int64("seed", 1, "seed")
	tier := fs.String("tier", "quick", "quick|thorough")
	out := fs.String("out", "trace.ndjson", "trace file")
	scriptsF := fs.String("scripts", "scripts.ndjson", "server scripts from GenC18")
	mitRef := fs.String("mitref", "", "path of the mitref binary: MIT's acceptor judges every token as well")
	mitDir := fs.String("mitdir", ".", "scratch directory for the keytab MIT reads")
	fs.Parse(args)
	thorough := *tier == "thorough"
	r := rand.New(rand.NewSource(*seed))
	var scripts []c18Script
	if err := readNDJSONRaw(*scriptsF, func(b []byte) error {
		var s c18Script
		if err := json.Unmarshal(b, &s); err != nil {
			return err
		}
		scripts = append(scripts, s)
		return nil
	}); err != nil {
		return err
	}
	tw, err := newTrace(*out)
	if err != nil {
		return err
	}
	defer tw.close()
	service.GetReplayCache(24 * time.Hour)
	origin := time.Now().Truncate(time.Second)
	realm := "C18.TEST.GOKRB5"
	etypes := []int32{18, 23}
	if thorough {
		etypes = allEtypes
	}
	for ei, et := range etypes {
		k := newSimKDC(origin)
		if _, err := k.addPrincipal(realm, "krbtgt/"+realm, "tgs", []int32{18, 17, 23, 16, 19, 20}); err != nil {
			return err
		}
		if _, err := k.addPrincipal(realm, "alice", "c18-password", []int32{et}); err != nil {
			return err
		}
		// the service ticket is sealed with a key of etype et
		for _, spn := range []string{"HTTP/127.0.0.1", "HTTP/127.0.0.2", "HTTP/explicit.c18.test"} {
			if _, err := k.addPrincipal(realm, spn, "svc-"+spn, []int32{et}); err != nil {
				return err
			}
		}
		addr, err := k.listen()
		if err != nil {
			return err
		}
		lib := map[string]string{"default_tkt_enctypes": etypeNames[et], "default_tgs_enctypes": etypeNames[et], "permitted_enctypes": etypeNames[et],
			"udp_preference_limit": "1"}
		cfg, err := config.NewFromString(simConf(realm, map[string][]string{realm: {addr}}, lib, nil))
		if err != nil {
			return err
		}
		kt := keytab.New()
		for _, spn := range []string{"HTTP/127.0.0.1", "HTTP/127.0.0.2", "HTTP/explicit.c18.test"} {
			if err := kt.AddEntry(spn, realm, "svc-"+spn, time.Now(), 1, et); err != nil {
				return err
			}
		}
		if *mitRef != "" {
			if c18mit != nil {
				c18mit.close()
			}
			kb, err := kt.Marshal()
			if err != nil {
				return err
			}
			ktf := fmt.Sprintf("%s/c18_%d.keytab", *mitDir, et)
			if err := os.WriteFile(ktf, kb, 0600); err != nil {
				return err
			}
			if c18mit, err = startMITAcceptor(*mitRef, ktf); err != nil {
				return err
			}
		}
		cl := client.NewWithPassword("alice", realm, "c18-password", cfg, client.DisablePAFXFAST(true))
		if err := cl.Login(); err != nil {
			return fmt.Errorf("login: %v", err)
		}
		for si, sc := range scripts {
			if !thorough && len(etypes) > 1 && si%len(etypes) != ei && len(sc.Script) > 1 {
				continue // quick: the long scripts are split over the etypes
			}
			method := []string{"GET", "POST", "POST", "HEAD"}[(si+int(*seed))%4]
			blen := 0
			if method == "POST" {
				blen = []int{0, 1, 4096, 4096, 70000}[(si/4)%5]
				if thorough && si%97 == 0 {
					blen = 1 << 20
				}
			} else {
				// the property crosses the methods with the body sizes: GET and HEAD requests may carry a body too
				blen = []int{0, 0, 1, 4096, 0, 70000}[(si/4)%6]
			}
			spnMode := []string{"explicit", "url"}[(si/2)%2]
			// every third scenario redirects with 302 instead of 307; every fifth body is a stream of unknown length (sent chunked,
			// no GetBody: net/http cannot rewind it, only the client's own copy can)
			redir := []int{307, 302, 307}[(si/5)%3]
			stream := blen > 0 && (si/7)%5 == 2
			if err := runC18(tw, cl, kt, realm, sc, method, blen, spnMode, et, r, redir, stream); err != nil {
				return err
			}
		}
		cl.Destroy()
		k.close()
	}
	return nil
}

func runC18(tw *traceWriter, cl *client.Client, kt *keytab.Keytab, realm string, sc c18Script, method string, blen int, spnMode string, et int32, r *rand.Rand, redir int, stream bool) error {
	body := rbytes(r, blen)
	s := &scriptedServers{script: sc.Script, tail: sc.Tail, bodyLen: blen, bodySum: sha256.Sum256(body), cname: "alice", crealm: realm, redir: redir}
	// the two hosts are different hosts with different service principals and keys (127.0.0.1 / 127.0.0.2): with a URL-derived SPN
	// the intended principal is that of the host the request goes to, and each host's acceptor holds only its own key; an
	// explicit SPN is the intended principal wherever the request goes
	spn := ""
	princA, princB := "HTTP/127.0.0.1", "HTTP/127.0.0.2"
	if spnMode == "explicit" {
		spn = "HTTP/explicit.c18.test"
		princA, princB = spn, spn
	}
	accA := spnego.SPNEGOService(kt, service.KeytabPrincipal(princA), service.DecodePAC(false))
	accB := spnego.SPNEGOService(kt, service.KeytabPrincipal(princB), service.DecodePAC(false))
	s.a = httptest.NewServer(nil)
	lb, err := net.Listen("tcp", "127.0.0.2:0")
	if err != nil {
		return fmt.Errorf("second loopback host: %v", err)
	}
	s.b = httptest.NewUnstartedServer(nil)
	s.b.Listener.Close()
	s.b.Listener = lb
	s.b.Start()
	defer s.a.Close()
	defer s.b.Close()
	s.a.Config.Handler = s.handler(func() string { return s.a.URL }, func() string { return s.b.URL }, accA, princA)
	s.b.Config.Handler = s.handler(func() string { return s.b.URL }, func() string { return s.a.URL }, accB, princB)
	hc := spnego.NewClient(cl, &http.Client{Timeout: 20 * time.Second}, spn)
	var rd io.Reader
	if method == "POST" || blen > 0 {
		rd = bytes.NewReader(body)
		if stream {
			rd = struct{ io.Reader }{rd} // hides the length and the ability to rewind
		}
	}
	req, err := http.NewRequest(method, s.a.URL+"/start", rd)
	if err != nil {
		return err
	}
	var resp *http.Response
	var derr error
	p := catch(func() { resp, derr = hc.Do(req) })
	result := "error"
	if p == "" && derr == nil && resp != nil {
		io.Copy(io.Discard, resp.Body)
		resp.Body.Close()
		// the final response is identified by its status and challenge
		switch {
		case resp.StatusCode == 200:
			result = "ok"
		case resp.StatusCode == 500:
			result = "err"
		case resp.StatusCode == 307 || resp.StatusCode == 302:
			result = "redirect"
		case resp.StatusCode == 401 && resp.Header.Get("WWW-Authenticate") == "Negotiate":
			result = "bare"
		case resp.StatusCode == 401 && strings.HasPrefix(resp.Header.Get("WWW-Authenticate"), "Negotiate "):
			result = "rej"
		case resp.StatusCode == 401:
			result = "oth"
		default:
			result = fmt.Sprintf("status-%d", resp.StatusCode)
		}
	}
	s.mu.Lock()
	reqs := append([]c18Req{}, s.reqs...)
	capped := s.capped
	s.mu.Unlock()
	et2 := ""
	if derr != nil {
		et2 = trunc(derr.Error(), 200)
	}
	if reqs == nil {
		reqs = []c18Req{}
	}
	tw.emit(map[string]interface{}{"script": sc.Script, "tail": sc.Tail, "method": method, "bodyLen": blen, "spnMode": spnMode, "et": et, "redir": redir, "stream": stream,
		"reqs": reqs, "capped": capped, "result": result, "panic": p, "errtext": et2})
	return nil
}

// ---- MIT's acceptor as a co-process (spec/mit/mitref, operation gssaccept)
type mitAcceptor struct {
	mu    sync.Mutex
	cmd   *exec.Cmd
	stdin io.WriteCloser
	rd    *bufio.Reader
}

type mitVerdict struct {
	Complete bool   `json:"complete"`
	Client   string `json:"client"`
	Service  string `json:"service"`
	Major    uint32 `json:"major"`
}

var c18mit *mitAcceptor

func startMITAcceptor(ref, keytabFile string) (*mitAcceptor, error) {
	cmd := exec.Command(ref)
	cmd.Env = append(os.Environ(), "KRB5_KTNAME=FILE:"+keytabFile, "KRB5RCACHETYPE=none", "KRB5_CONFIG=/dev/null")
	in, err := cmd.StdinPipe()
	if err != nil {
		return nil, err
	}
	out, err := cmd.StdoutPipe()
	if err != nil {
		return nil, err
	}
	if err := cmd.Start(); err != nil {
		return nil, err
	}
	return &mitAcceptor{cmd: cmd, stdin: in, rd: bufio.NewReaderSize(out, 1<<20)}, nil
}

func (m *mitAcceptor) accept(tok []byte) (mitVerdict, bool) {
	m.mu.Lock()
	defer m.mu.Unlock()
	var v mitVerdict
	if len(tok) == 0 {
		return v, false
	}
	if _, err := fmt.Fprintf(m.stdin, "gssaccept %s\n", hx(tok)); err != nil {
		return v, false
	}
	b, err := m.rd.ReadBytes('\n')
	if err != nil || json.Unmarshal(b, &v) != nil {
		return v, false
	}
	return v, true
}

func (m *mitAcceptor) close() {
	m.stdin.Close()
	m.cmd.Wait()
}
