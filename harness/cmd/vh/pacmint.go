package main

import (
	"errors"

	"github.com/jcmturner/gokrb5/v8/types"
)

// pacFactory produces AD-IF-RELEVANT/AD-WIN2K-PAC authorization data signed for a given service key (see C19).
type pacFactory struct{}

func newPacFactory() *pacFactory { return &pacFactory{} }

func (p *pacFactory) forKey(key types.EncryptionKey, variant string) (types.AuthorizationData, error) {
	return nil, errors.New("PAC variants are not available yet")
}
