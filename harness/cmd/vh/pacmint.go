package main

import (
	"encoding/binary"
	"encoding/hex"
	"errors"
	"fmt"
	"github.com/jcmturner/gokrb5/v8/pac"
	"sync"

	"github.com/jcmturner/gofork/encoding/asn1"
	"github.com/jcmturner/gokrb5/v8/crypto"
	"github.com/jcmturner/gokrb5/v8/iana/adtype"
	"github.com/jcmturner/gokrb5/v8/test/testdata"
	"github.com/jcmturner/gokrb5/v8/types"
)

// Test-input production for the properties that put a PAC into a minted ticket (C01, C03): one of the repository's sample
// PACs, laid out again and re-signed for the service key at hand.  This is not an oracle and not the C19 writer (that one is
// spec/c19/PACFormat.tla, evaluated by TLC); it only produces requests.

// pacFactory produces AD-IF-RELEVANT/AD-WIN2K-PAC authorization data signed for a given service key (see C19).
// It is stateless after the first use and safe for concurrent use.
type pacFactory struct {
	once sync.Once
	err  error
	bufs []pacBuf // the data buffers of the sample (everything but the two signatures), in the sample's order
}

type pacBuf struct {
	typ  uint32
	data []byte
}

const (
	pacBufServerSig  = 6
	pacBufKDCSig     = 7
	pacBufClientInfo = 10
	pacSigUsage      = 17 // KERB_NON_KERB_CKSUM_SALT
	pacHMACMD5       = -138
)

// the (arbitrary, fixed) key of the pretended KDC; services cannot check the KDC signature
var pacKDCKey = []byte{0x6b, 0x72, 0x62, 0x74, 0x67, 0x74, 0x2d, 0x6b, 0x65, 0x79, 0x2d, 0x63, 0x31, 0x39, 0x21, 0x21}

func newPacFactory() *pacFactory { return &pacFactory{} }

// splitPAC reads the info-buffer table of a PACTYPE image (test-input side reader, strict about bounds).
func splitPAC(b []byte) ([]pacBuf, error) {
	if len(b) < 8 {
		return nil, errors.New("PAC image shorter than its header")
	}
	n := int(binary.LittleEndian.Uint32(b[0:4]))
	if n < 0 || 8+16*n > len(b) {
		return nil, errors.New("PAC image shorter than its buffer table")
	}
	var out []pacBuf
	for i := 0; i < n; i++ {
		e := b[8+16*i:]
		t, sz, off := binary.LittleEndian.Uint32(e[0:4]), uint64(binary.LittleEndian.Uint32(e[4:8])), binary.LittleEndian.Uint64(e[8:16])
		if off > uint64(len(b)) || off+sz > uint64(len(b)) {
			return nil, fmt.Errorf("PAC buffer %d outside the image", i)
		}
		out = append(out, pacBuf{typ: t, data: append([]byte{}, b[off:off+sz]...)})
	}
	return out, nil
}

func (p *pacFactory) load() {
	b, err := hex.DecodeString(testdata.MarshaledPAC_AD_WIN2K_PAC)
	if err != nil {
		p.err = err
		return
	}
	all, err := splitPAC(b)
	if err != nil {
		p.err = err
		return
	}
	for _, x := range all {
		if x.typ != pacBufServerSig && x.typ != pacBufKDCSig {
			p.bufs = append(p.bufs, x)
		}
	}
	if len(p.bufs) == 0 {
		p.err = errors.New("sample PAC has no data buffers")
	}
}

// pacSigTypeFor gives the signature type a KDC uses for a service key of the etype ([MS-PAC] 2.8.1: the AES types for AES
// keys, HMAC_MD5 for every other key).
func pacSigTypeFor(et int32) int32 {
	switch et {
	case 17:
		return 15
	case 18:
		return 16
	case 19:
		return 19
	case 20:
		return 20
	}
	return pacHMACMD5
}

func pacChecksum(sigType int32, key, data []byte) ([]byte, error) {
	et, err := crypto.GetChksumEtype(sigType)
	if err != nil {
		return nil, err
	}
	return et.GetChecksumHash(key, data, pacSigUsage)
}

type pacLayout struct {
	image         []byte
	srvAt, srvLen int // position and length of the server signature value
	kdcAt, kdcLen int
}

// layoutPAC writes the table and the buffers (8-byte alignment, zero gaps), with both signature values zero.
func layoutPAC(bufs []pacBuf, srvType, kdcType int32, srvLen, kdcLen int) pacLayout {
	all := append([]pacBuf{}, bufs...)
	sig := func(t int32, n int) []byte {
		d := make([]byte, 4+n)
		binary.LittleEndian.PutUint32(d, uint32(t))
		return d
	}
	all = append(all, pacBuf{pacBufServerSig, sig(srvType, srvLen)}, pacBuf{pacBufKDCSig, sig(kdcType, kdcLen)})
	hdr := 8 + 16*len(all)
	off := hdr
	offs := make([]int, len(all))
	for i, x := range all {
		off = (off + 7) / 8 * 8
		offs[i] = off
		off += len(x.data)
	}
	img := make([]byte, (off+7)/8*8)
	binary.LittleEndian.PutUint32(img[0:], uint32(len(all)))
	var l pacLayout
	for i, x := range all {
		e := img[8+16*i:]
		binary.LittleEndian.PutUint32(e[0:], x.typ)
		binary.LittleEndian.PutUint32(e[4:], uint32(len(x.data)))
		binary.LittleEndian.PutUint64(e[8:], uint64(offs[i]))
		copy(img[offs[i]:], x.data)
		switch x.typ {
		case pacBufServerSig:
			l.srvAt, l.srvLen = offs[i]+4, srvLen
		case pacBufKDCSig:
			l.kdcAt, l.kdcLen = offs[i]+4, kdcLen
		}
	}
	l.image = img
	return l
}

// signedPAC lays the buffers out and signs them: the server signature with the service key over the image with both
// signature values zero, the KDC signature over the server signature.
func signedPAC(bufs []pacBuf, key types.EncryptionKey) (pacLayout, error) {
	st := pacSigTypeFor(key.KeyType)
	probe, err := pacChecksum(st, key.KeyValue, nil)
	if err != nil {
		return pacLayout{}, err
	}
	kprobe, err := pacChecksum(pacHMACMD5, pacKDCKey, nil)
	if err != nil {
		return pacLayout{}, err
	}
	l := layoutPAC(bufs, st, pacHMACMD5, len(probe), len(kprobe))
	ssig, err := pacChecksum(st, key.KeyValue, l.image)
	if err != nil {
		return l, err
	}
	ksig, err := pacChecksum(pacHMACMD5, pacKDCKey, ssig)
	if err != nil {
		return l, err
	}
	copy(l.image[l.srvAt:l.srvAt+l.srvLen], ssig)
	copy(l.image[l.kdcAt:l.kdcAt+l.kdcLen], ksig)
	return l, nil
}

// wrapPAC puts a PACTYPE image into AD-IF-RELEVANT { AD-WIN2K-PAC }.
func wrapPAC(image []byte) (types.AuthorizationData, error) {
	inner, err := asn1.Marshal(types.AuthorizationData{{ADType: adtype.ADWin2KPAC, ADData: image}})
	if err != nil {
		return nil, err
	}
	return types.AuthorizationData{{ADType: adtype.ADIfRelevant, ADData: inner}}, nil
}

// forKey returns AD-IF-RELEVANT { AD-WIN2K-PAC } built from the repository's sample PAC (MarshaledPAC_AD_WIN2K_PAC), re-signed
// for the service key.  variant:
//
//	valid         correct server signature
//	badServerSig  one bit of the server signature value flipped
//	noClientInfo  the mandatory PAC_CLIENT_INFO buffer removed, then signed correctly
//	malformed     the (correctly signed) image cut in the middle of its buffers
func (p *pacFactory) forKey(key types.EncryptionKey, variant string) (types.AuthorizationData, error) {
	p.once.Do(p.load)
	if p.err != nil {
		return nil, p.err
	}
	bufs := p.bufs
	if variant == "noClientInfo" {
		bufs = nil
		for _, x := range p.bufs {
			if x.typ != pacBufClientInfo {
				bufs = append(bufs, x)
			}
		}
		if len(bufs) == len(p.bufs) {
			return nil, errors.New("sample PAC has no client info buffer")
		}
	}
	l, err := signedPAC(bufs, key)
	if err != nil {
		return nil, fmt.Errorf("signing the PAC: %v", err)
	}
	img := l.image
	switch variant {
	case "valid", "noClientInfo":
	case "badServerSig":
		img[l.srvAt+l.srvLen/2] ^= 0x04
	case "malformed":
		img = img[:len(img)/2]
	default:
		return nil, fmt.Errorf("unknown PAC variant %q", variant)
	}
	return wrapPAC(img)
}

// effectiveName is the EffectiveName of the sample PAC's KERB_VALIDATION_INFO (what a verified PAC makes the user name of the
// returned identity); decoded with gokrb5's own decoder, whose fidelity is C19's subject.
func (p *pacFactory) effectiveName() string {
	p.once.Do(p.load)
	for _, x := range p.bufs {
		if x.typ == 1 {
			var k pac.KerbValidationInfo
			if err := k.Unmarshal(x.data); err == nil {
				return k.EffectiveName.String()
			}
		}
	}
	return ""
}
