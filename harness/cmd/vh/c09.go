package main

import (
	"encoding/json"
	"flag"
	"fmt"
	"strings"
	"time"

	"github.com/jcmturner/gokrb5/v8/client"
	"github.com/jcmturner/gokrb5/v8/config"
	"github.com/jcmturner/gokrb5/v8/credentials"
	"github.com/jcmturner/gokrb5/v8/keytab"
	"github.com/jcmturner/gokrb5/v8/messages"
)

func init() {
	register("c09", "perturbed KDC replies against the real client and the exported Verify methods (trace for TraceC09)", cmdC09)
}

var etypeNames = map[int32]string{16: "des3-cbc-sha1-kd", 17: "aes128-cts-hmac-sha1-96", 18: "aes256-cts-hmac-sha1-96",
	19: "aes128-cts-hmac-sha256-128", 20: "aes256-cts-hmac-sha384-192", 23: "rc4-hmac"}

type c09Case struct {
	P    map[string]string `json:"p"`
	Devs [][]string        `json:"devs"`
}

type c09world struct {
	kdc   *simKDC
	cfg   *config.Config
	realm string
	et    int32
	kt    *keytab.Keytab
}

const c09Password = "c09-password-Pa55"

// the client principal has two name components, so that a name can also deviate in how its components are grouped
const c09User = "alice/c09"
const c09FarRealm, c09FarSPN = "FAR.C09.TEST.GOKRB5", "HTTP/svc.far.example"

func newC09World(et int32, noaddr bool, origin time.Time, preauth bool) (*c09world, error) {
	realm := "C09.TEST.GOKRB5"
	k := newSimKDC(origin)
	k.policy.Preauth = preauth
	all := []int32{et}
	if _, err := k.addPrincipal(realm, "krbtgt/"+realm, "krbtgt-secret", []int32{18, 17, 23, 16, 19, 20}); err != nil {
		return nil, err
	}
	if _, err := k.addPrincipal(realm, c09User, c09Password, all); err != nil {
		return nil, err
	}
	if _, err := k.addPrincipal(realm, "HTTP/svc.c09.test", "svc-secret", []int32{18, 17, 23, 16, 19, 20}); err != nil {
		return nil, err
	}
	// a service in another realm, reached through one referral (kind TGSREF: the perturbed reply is the referral itself)
	if _, err := k.addPrincipal(c09FarRealm, "krbtgt/"+c09FarRealm, "far-krbtgt-secret", []int32{18, 17, 23, 16, 19, 20}); err != nil {
		return nil, err
	}
	if _, err := k.addPrincipal(realm, "krbtgt/"+c09FarRealm, "cross-realm-secret", []int32{18, 17, 23, 16, 19, 20}); err != nil {
		return nil, err
	}
	if _, err := k.addPrincipal(c09FarRealm, c09FarSPN, "far-svc-secret", []int32{18, 17, 23, 16, 19, 20}); err != nil {
		return nil, err
	}
	k.policy.Referrals = map[string][]string{c09FarSPN: {realm, c09FarRealm}}
	addr, err := k.listen()
	if err != nil {
		return nil, err
	}
	lib := map[string]string{"default_tkt_enctypes": etypeNames[et], "default_tgs_enctypes": etypeNames[et], "permitted_enctypes": etypeNames[et],
		"udp_preference_limit": "1", "noaddresses": fmt.Sprint(noaddr), "clockskew": "300"}
	cfg, err := config.NewFromString(simConf(realm, map[string][]string{realm: {addr}, c09FarRealm: {addr}}, lib, map[string]string{".c09.test": realm}))
	if err != nil {
		return nil, err
	}
	kt := keytab.New()
	if err := kt.AddEntry(c09User, realm, c09Password, time.Now(), 1, et); err != nil {
		return nil, err
	}
	return &c09world{kdc: k, cfg: cfg, realm: realm, et: et, kt: kt}, nil
}

func (w *c09world) newClient(cred string) *client.Client {
	if cred == "keytab" {
		return client.NewWithKeytab(c09User, w.realm, w.kt, w.cfg, client.DisablePAFXFAST(true))
	}
	return client.NewWithPassword(c09User, w.realm, c09Password, w.cfg, client.DisablePAFXFAST(true))
}

func (w *c09world) creds(cred string) *credentials.Credentials {
	c := credentials.New(c09User, w.realm)
	if cred == "keytab" {
		return c.WithKeytab(w.kt)
	}
	return c.WithPassword(c09Password)
}

func cmdC09(args []string) error {
	fs := flag.NewFlagSet("c09", flag.ExitOnError)
	tier := fs.String("tier", "quick", "quick|thorough")
	out := fs.String("out", "trace.ndjson", "trace file")
	casesF := fs.String("cases", "cases.ndjson", "perturbation cases from GenC09")
	fs.Parse(args)
	thorough := *tier == "thorough"
	var cases []c09Case
	if err := readNDJSONRaw(*casesF, func(b []byte) error {
		var c c09Case
		if err := json.Unmarshal(b, &c); err != nil {
			return err
		}
		cases = append(cases, c)
		return nil
	}); err != nil {
		return err
	}
	tw, err := newTrace(*out)
	if err != nil {
		return err
	}
	defer tw.close()
	origin := time.Now().Truncate(time.Second)
	etypes := []int32{18, 23}
	if thorough {
		etypes = allEtypes
	}
	codes := []int32{6, 7, 12, 14, 18, 23, 29, 31, 37, 41, 60}
	for _, et := range etypes {
		for _, noaddr := range []bool{true, false} {
			for pi, preauth := range []bool{false, true} {
				w, err := newC09World(et, noaddr, origin, preauth)
				if err != nil {
					return err
				}
				reqAddrs := "some"
				if noaddr {
					reqAddrs = "none"
				}
				for ci, c := range cases {
					if len(c.Devs) > 1 && !thorough {
						continue
					}
					for _, kind := range []string{"AS", "TGS", "TGSREF"} {
						cred := []string{"password", "keytab"}[(ci+pi)%2]
						if thorough || len(c.Devs) == 0 {
							for _, cr := range []string{"password", "keytab"} {
								w.runCase(tw, kind, cr, reqAddrs, preauth, c)
							}
						} else {
							w.runCase(tw, kind, cred, reqAddrs, preauth, c)
						}
					}
				}
				for _, code := range codes {
					for _, kind := range []string{"AS", "TGS"} {
						w.runError(tw, kind, "password", reqAddrs, preauth, code)
					}
				}
				w.kdc.close()
			}
		}
	}
	return nil
}

func (w *c09world) runCase(tw *traceWriter, kind, cred, reqAddrs string, preauth bool, c c09Case) {
	line := map[string]interface{}{"ev": "reply", "kind": kind, "cred": cred, "reqAddrs": reqAddrs, "preauth": preauth, "et": w.et, "p": c.P, "devs": c.Devs}
	cl := w.newClient(cred)
	setupOK := true
	spn := "HTTP/svc.c09.test"
	if kind == "TGSREF" {
		// the first TGS reply of this exchange is a referral to the other realm: that is the reply the KDC perturbs
		kind, spn = "TGS", c09FarSPN
	}
	var pert *perturbation
	if len(c.Devs) > 0 {
		// the simulated KDC applies single perturbations; pairs are applied one after the other on the same reply
		pert = &perturbation{Kind: kind, Field: c.Devs[0][0], Value: c.Devs[0][1], once: true}
	}
	apply := func() {
		w.kdc.mu.Lock()
		w.kdc.pert = pert
		if len(c.Devs) == 2 {
			w.kdc.pert = &perturbation{Kind: kind, Field: "pair", Value: c.Devs[0][0] + "=" + c.Devs[0][1] + ";" + c.Devs[1][0] + "=" + c.Devs[1][1], once: true}
			for _, d := range c.Devs {
				if d[0] == "nonce" && d[1] == "earlier" {
					// "the reply to an earlier request" is a whole other message: the KDC's earlier reply is sent as it was (the second
					// deviation of the pair cannot be applied to it as well; a stale reply is to be refused whatever else it says)
					w.kdc.pert = &perturbation{Kind: kind, Field: "nonce", Value: "earlier", once: true}
				}
			}
		}
		w.kdc.mu.Unlock()
	}
	needsEarlier := c.P["nonce"] == "earlier"
	var opErr error
	var p string
	switch kind {
	case "AS":
		if needsEarlier {
			// a first, unperturbed exchange whose reply the KDC will replay
			c0 := w.newClient(cred)
			if err := c0.Login(); err != nil {
				setupOK = false
			}
			c0.Destroy()
		}
		apply()
		p = catch(func() { opErr = cl.Login() })
	case "TGS":
		if err := cl.Login(); err != nil {
			setupOK = false
		}
		if needsEarlier {
			c0 := w.newClient(cred)
			if err := c0.Login(); err != nil {
				setupOK = false
			}
			if _, _, err := c0.GetServiceTicket(spn); err != nil {
				setupOK = false
			}
			c0.Destroy()
		}
		apply()
		p = catch(func() { _, _, opErr = cl.GetServiceTicket(spn) })
	}
	errText := ""
	if opErr != nil {
		errText = opErr.Error()
		if len(errText) > 200 {
			errText = errText[:200]
		}
	}
	line["client"] = map[string]interface{}{"err": opErr != nil || p != "", "panic": p, "text": errText}
	// ---- the exported Verify methods on the very request and reply that were exchanged
	w.kdc.mu.Lock()
	reqB, repB, key := w.kdc.lastReq[kind], w.kdc.lastRep[kind], w.kdc.lastKey[kind]
	w.kdc.pert = nil
	w.kdc.mu.Unlock()
	vok := false
	vp := catch(func() {
		if kind == "AS" {
			var req messages.ASReq
			var rep messages.ASRep
			if req.Unmarshal(reqB) != nil || rep.Unmarshal(repB) != nil {
				return
			}
			ok, err := rep.Verify(w.cfg, w.creds(cred), req)
			vok = ok && err == nil
		} else {
			var req messages.TGSReq
			var rep messages.TGSRep
			if req.Unmarshal(reqB) != nil || rep.Unmarshal(repB) != nil {
				return
			}
			if rep.DecryptEncPart(key) != nil {
				return
			}
			ok, err := rep.Verify(w.cfg, req)
			vok = ok && err == nil
		}
	})
	line["verify"] = map[string]interface{}{"ok": vok, "panic": vp}
	line["setupOK"] = setupOK
	cl.Destroy()
	tw.emit(line)
}

func (w *c09world) runError(tw *traceWriter, kind, cred, reqAddrs string, preauth bool, code int32) {
	line := map[string]interface{}{"ev": "krberror", "kind": kind, "cred": cred, "reqAddrs": reqAddrs, "preauth": preauth, "et": w.et, "code": code}
	cl := w.newClient(cred)
	setupOK := true
	var opErr error
	var p string
	if kind == "TGS" {
		if err := cl.Login(); err != nil {
			setupOK = false
		}
	}
	w.kdc.mu.Lock()
	w.kdc.pert = &perturbation{Kind: kind, Field: "krbError", Code: code, once: true}
	w.kdc.mu.Unlock()
	if kind == "AS" {
		p = catch(func() { opErr = cl.Login() })
	} else {
		p = catch(func() { _, _, opErr = cl.GetServiceTicket("HTTP/svc.c09.test") })
	}
	w.kdc.mu.Lock()
	w.kdc.pert = nil
	w.kdc.mu.Unlock()
	has := false
	text := ""
	if opErr != nil {
		text = opErr.Error()
		has = strings.Contains(text, fmt.Sprintf("(%d)", code))
		if len(text) > 200 {
			text = text[:200]
		}
	}
	line["client"] = map[string]interface{}{"err": opErr != nil, "errHasCode": has, "panic": p, "text": text}
	line["setupOK"] = setupOK
	cl.Destroy()
	tw.emit(line)
}
