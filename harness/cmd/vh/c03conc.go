package main

// C03, concurrent phase: an http.Handler serves its requests on concurrent goroutines.  One handler instance - built from an
// option slice with spare capacity, as an application assembling its options with append() passes it - receives rounds of
// simultaneous requests from two client addresses: valid tokens, tokens whose ticket is bound to the other client's address,
// requests without a token.  Every request is logged as a one-request line of the C03 trace (the acceptor specification judges
// each on its own: nothing one client sends may change what another is served); the binary is race-instrumented and the
// driver turns every report of the race detector into a trace line of its own.

import (
	"encoding/json"
	"flag"
	"fmt"
	"math/rand"
	"net/http"
	"net/http/httptest"
	"strings"
	"sync"
	"time"

	"github.com/jcmturner/goidentity/v6"
	"github.com/jcmturner/gokrb5/v8/service"
	"github.com/jcmturner/gokrb5/v8/spnego"
)

func init() {
	register("c03conc", "C03 concurrent rounds against one SPNEGO handler instance (race build)", cmdC03Conc)
}

func cmdC03Conc(args []string) error {
	fs := flag.NewFlagSet("c03conc", flag.ExitOnError)
	seed := fs.Int64("seed", 1, "seed")
	rounds := fs.Int("rounds", 30, "rounds")
	out := fs.String("out", "trace.ndjson", "trace file")
	casesF := fs.String("cases", "cases.ndjson", "C01 abstract cases (the nominal one is used)")
	fs.Parse(args)
	r := rand.New(rand.NewSource(*seed))
	var nominal map[string]string
	if err := readNDJSONRaw(*casesF, func(b []byte) error {
		if nominal == nil {
			var c c01Case
			if err := json.Unmarshal(b, &c); err != nil {
				return err
			}
			nominal = c.Case
		}
		return nil
	}); err != nil {
		return err
	}
	tw, err := newTrace(*out)
	if err != nil {
		return err
	}
	defer tw.close()
	service.GetReplayCache(24 * time.Hour)
	origin := time.Now().Truncate(time.Second).Add(-10 * time.Minute)
	s := c01Settings{Skew: "default", ClientAddr: "set", Override: "none", DecodePAC: false}
	for _, et := range []int32{18, 17} {
		w, err := newKtWorld(et, r)
		if err != nil {
			return err
		}
		cw := &c03world{w: w, origin: origin, r: r, pacs: newPacFactory()}
		for round := 0; round < *rounds; round++ {
			// options assembled with append: the slice handed to the wrapper has spare capacity
			opts := make([]func(*service.Settings), 0, 8)
			opts = append(opts, service.RequireHostAddr(false))
			opts = append(opts, service.DecodePAC(false))
			if round%2 == 1 {
				opts = append(opts, service.MaxClockSkew(skewOf("default")))
			}
			inner := http.HandlerFunc(func(w http.ResponseWriter, r *http.Request) {
				w.Header().Set("X-Inner", "ran")
				if id := goidentity.FromHTTPRequestContext(r); id != nil {
					w.Header().Set("X-Inner-Auth", fmt.Sprint(id.Authenticated()))
					w.Header().Set("X-Inner-User", id.UserName())
					w.Header().Set("X-Inner-Domain", id.Domain())
				}
				w.WriteHeader(200)
			})
			handler := spnego.SPNEGOKRB5Authenticate(inner, cw.w.kt, opts...)
			type job struct {
				q      c03Req
				remote string
				hv     string
				has    bool
				m      *apMint
				obs    c03Obs
			}
			var jobs []*job
			add := func(caddrMint, caddrSeen, remote string, withToken bool) error {
				ap := map[string]string{}
				for k, v := range nominal {
					ap[k] = v
				}
				q := c03Req{Hdr: c03Hdr{Class: "none", Mechs: "absent", Tok: "absent", Region: "na"}, AP: ap, Cookie: "none", Store: "nosm"}
				j := &job{remote: remote}
				if withToken {
					q.Hdr = c03Hdr{Class: "negInit", Mechs: "krb5", Tok: "apreq", Region: "na"}
					q.AP["caddr"] = caddrMint
					hv, has, m, err := cw.headerFor(&q, s)
					if err != nil {
						return err
					}
					j.hv, j.has, j.m = hv, has, m
					// the abstract request as this sender's address makes it: a ticket listing another client's address only
					q.AP["caddr"] = caddrSeen
				}
				j.q = q
				jobs = append(jobs, j)
				return nil
			}
			const addrA, addrB = "10.1.2.3:43210", "10.7.7.7:43210" // clientHostAddr and a third party
			n := 2 + r.Intn(3)
			for k := 0; k < n; k++ {
				for _, e := range []error{
					add("none", "none", addrA, true),
					add("containsClient", "containsClient", addrA, true),
					add("containsClient", "otherOnly", addrB, true), // bound to A's address, sent by B
					add("otherOnly", "otherOnly", addrA, true),
					add("none", "none", addrB, true),
					add("", "", addrA, false),
					add("", "", addrB, false)} {
					if e != nil {
						return e
					}
				}
			}
			r.Shuffle(len(jobs), func(i, j int) { jobs[i], jobs[j] = jobs[j], jobs[i] })
			start := make(chan struct{})
			var wg sync.WaitGroup
			for _, j := range jobs {
				wg.Add(1)
				go func(j *job) {
					defer wg.Done()
					req := httptest.NewRequest("GET", "http://p.test.gokrb5/resource", nil)
					req.RemoteAddr = j.remote
					if j.has {
						req.Header.Set("Authorization", j.hv)
					}
					rec := httptest.NewRecorder()
					<-start
					o := &j.obs
					o.T0 = int64(time.Since(origin) / time.Millisecond)
					o.Panic = catch(func() { handler.ServeHTTP(rec, req) })
					o.T1 = int64(time.Since(origin)/time.Millisecond) + 1
					o.Status = rec.Code
					o.ChallengeNegotiate = strings.HasPrefix(rec.Header().Get("WWW-Authenticate"), "Negotiate")
					o.InnerRan = rec.Header().Get("X-Inner") == "ran"
					switch {
					case o.Panic != "":
						o.Outcome = "panic"
					case o.InnerRan:
						o.Outcome = "served"
					case rec.Code == 401:
						o.Outcome = "refused"
					case rec.Code >= 500:
						o.Outcome = "error5xx"
					default:
						o.Outcome = fmt.Sprintf("other-%d", rec.Code)
					}
					if o.InnerRan && j.m != nil {
						o.IDRealmOK = rec.Header().Get("X-Inner-Auth") == "true" && rec.Header().Get("X-Inner-Domain") == j.m.tktCRealm
						o.IDNameSrc = j.m.nameSrc(rec.Header().Get("X-Inner-User"))
						o.IDIsSealed = o.IDRealmOK && o.IDNameSrc == "ticket"
					}
				}(j)
			}
			close(start)
			wg.Wait()
			for _, j := range jobs {
				conc := map[string]interface{}{"start": 0, "end": 0, "ctime": 0, "skew": int64(skewOf(s.Skew) / time.Millisecond)}
				if j.m != nil {
					conc = j.m.conc
				}
				rec := map[string]interface{}{"q": j.q, "apiq": j.q, "conc": conc, "obs": j.obs, "api": c03API{Direct: []bool{}}, "apiconc": conc}
				tw.emit(map[string]interface{}{"settings": s, "et": et, "reqs": []map[string]interface{}{rec}, "phase": "concurrent", "round": round, "remote": j.remote})
			}
		}
	}
	return nil
}
