package main

import (
	"encoding/json"
	"flag"
	"reflect"
	"sort"
	"time"
	"unsafe"

	"github.com/jcmturner/gokrb5/v8/client"
	"github.com/jcmturner/gokrb5/v8/config"
	"github.com/jcmturner/gokrb5/v8/credentials"
	"github.com/jcmturner/gokrb5/v8/messages"
	"github.com/jcmturner/gokrb5/v8/types"
)

func init() {
	register("c15", "credential cache images rendered by the specification: parse, look-ups, client from cache (trace for TraceC15)", cmdC15)
}

// obsTime reports a time as the specification sees it: the low 32 bits of the Unix seconds and what is above them.
func obsTime(t time.Time) map[string]interface{} {
	u := t.Unix()
	return map[string]interface{}{"hi": int(u >> 32), "lo": be32(uint32(u))}
}

func hexList(ss []string) []string {
	r := []string{}
	for _, s := range ss {
		r = append(r, hx([]byte(s)))
	}
	return r
}

func obsPrinc(realm string, pn types.PrincipalName) map[string]interface{} {
	return map[string]interface{}{"nt": be32(uint32(pn.NameType)), "realm": hx([]byte(realm)), "comps": hexList(pn.NameString)}
}

func obsCred(c *credentials.Credential) map[string]interface{} {
	addrs := []map[string]interface{}{}
	for _, a := range c.Addresses {
		addrs = append(addrs, map[string]interface{}{"t": int(a.AddrType), "d": hx(a.Address)})
	}
	ad := []map[string]interface{}{}
	for _, a := range c.AuthData {
		ad = append(ad, map[string]interface{}{"t": int(a.ADType), "d": hx(a.ADData)})
	}
	return map[string]interface{}{
		"client": obsPrinc(c.Client.Realm, c.Client.PrincipalName), "server": obsPrinc(c.Server.Realm, c.Server.PrincipalName),
		"ktype": int(c.Key.KeyType), "key": hx(c.Key.KeyValue),
		"auth": obsTime(c.AuthTime), "start": obsTime(c.StartTime), "end": obsTime(c.EndTime), "renew": obsTime(c.RenewTill),
		"skey": c.IsSKey, "flags": hx(c.TicketFlags.Bytes), "flagbits": c.TicketFlags.BitLength,
		"addrs": addrs, "ad": ad, "ticket": hx(c.Ticket), "ticket2": hx(c.SecondTicket)}
}

func obsTicket(t messages.Ticket) map[string]interface{} {
	return map[string]interface{}{"tktvno": t.TktVNO, "realm": hx([]byte(t.Realm)), "nt": int(t.SName.NameType), "comps": hexList(t.SName.NameString),
		"etype": int(t.EncPart.EType), "kvno": t.EncPart.KVNO, "cipher": hx(t.EncPart.Cipher)}
}

// indexOf tells which credential of the parsed cache a returned credential is (1-based; 0: none of them).
func indexOf(c *credentials.CCache, got *credentials.Credential) int {
	for i := range c.Credentials {
		if c.Credentials[i] == got {
			return i + 1
		}
	}
	for i := range c.Credentials {
		if got != nil && c.Credentials[i] != nil && reflect.DeepEqual(*c.Credentials[i], *got) {
			return i + 1
		}
	}
	return 0
}

// unexported reads a field of a struct the library does not export (observation of the client's state only).
func unexported(v reflect.Value, name string) reflect.Value {
	f := v.FieldByName(name)
	if !f.IsValid() {
		panic("harness: no field " + name + " in " + v.Type().String())
	}
	return reflect.NewAt(f.Type(), unsafe.Pointer(f.UnsafeAddr())).Elem()
}

func obsIdentity(cr *credentials.Credentials) map[string]interface{} {
	return map[string]interface{}{"username": hx([]byte(cr.UserName())), "realm": hx([]byte(cr.Domain())), "realm2": hx([]byte(cr.Realm())),
		"cname": hexList(cr.CName().NameString), "cnt": be32(uint32(cr.CName().NameType))}
}

// obsClient projects the sessions and the ticket cache of a client.
func obsClient(cl *client.Client) (sessions, cache []map[string]interface{}) {
	sessions, cache = []map[string]interface{}{}, []map[string]interface{}{}
	clv := reflect.ValueOf(cl).Elem()
	sv := unexported(clv, "sessions")
	if !sv.IsNil() {
		ents := sv.Elem().FieldByName("Entries")
		var keys []string
		for _, k := range ents.MapKeys() {
			keys = append(keys, k.String())
		}
		sort.Strings(keys)
		for _, k := range keys {
			s := ents.MapIndex(reflect.ValueOf(k)).Elem()
			key := unexported(s, "sessionKey").Interface().(types.EncryptionKey)
			sessions = append(sessions, map[string]interface{}{"mapkey": hx([]byte(k)), "realm": hx([]byte(unexported(s, "realm").String())),
				"auth": obsTime(unexported(s, "authTime").Interface().(time.Time)), "end": obsTime(unexported(s, "endTime").Interface().(time.Time)),
				"renew": obsTime(unexported(s, "renewTill").Interface().(time.Time)), "tgt": obsTicket(unexported(s, "tgt").Interface().(messages.Ticket)),
				"ktype": int(key.KeyType), "key": hx(key.KeyValue)})
		}
	}
	cp := unexported(clv, "cache").Interface().(*client.Cache)
	if cp != nil {
		var keys []string
		for k := range cp.Entries {
			keys = append(keys, k)
		}
		sort.Strings(keys)
		for _, k := range keys {
			e := cp.Entries[k]
			cache = append(cache, map[string]interface{}{"mapkey": hx([]byte(k)), "spn": hx([]byte(e.SPN)), "ticket": obsTicket(e.Ticket),
				"auth": obsTime(e.AuthTime), "start": obsTime(e.StartTime), "end": obsTime(e.EndTime), "renew": obsTime(e.RenewTill),
				"ktype": int(e.SessionKey.KeyType), "key": hx(e.SessionKey.KeyValue)})
		}
	}
	return
}

func cmdC15(args []string) error {
	fs := flag.NewFlagSet("c15", flag.ExitOnError)
	out := fs.String("out", "trace.ndjson", "trace file")
	images := fs.String("images", "images.ndjson", "credential cache models rendered by the specification, with the queries to ask")
	fs.Parse(args)
	tw, err := newTrace(*out)
	if err != nil {
		return err
	}
	defer tw.close()
	return readNDJSONRaw(*images, func(b []byte) error {
		var m struct {
			Model   json.RawMessage `json:"model"`
			Image   string          `json:"image"`
			Queries [][]string      `json:"queries"`
		}
		if err := json.Unmarshal(b, &m); err != nil {
			return err
		}
		img := unhx(m.Image)
		line := map[string]interface{}{"ev": "image", "model": m.Model, "image": m.Image}
		c := new(credentials.CCache)
		var perr error
		line["panic"] = catch(func() { perr = c.Unmarshal(img) })
		line["err"] = perr != nil
		line["errmsg"] = ""
		if perr != nil {
			line["errmsg"] = perr.Error()
		}
		parsed := line["panic"] == "" && perr == nil
		line["version"] = int(c.Version)
		line["princ"] = obsPrinc(c.DefaultPrincipal.Realm, c.DefaultPrincipal.PrincipalName)
		creds := []map[string]interface{}{}
		lookups := []map[string]interface{}{}
		entries := []int{}
		ident := map[string]interface{}{"username": "", "realm": "", "realm2": "", "cname": []string{}, "cnt": be32(0)}
		pn := obsPrinc("", types.PrincipalName{})
		cli := map[string]interface{}{"called": false, "panic": "", "err": false, "errmsg": "", "identity": ident,
			"sessions": []map[string]interface{}{}, "cache": []map[string]interface{}{}}
		cli2 := map[string]interface{}{"called": false, "panic": "", "err": false, "errmsg": "", "identity": ident,
			"sessions": []map[string]interface{}{}, "cache": []map[string]interface{}{}}
		credsAfter := []map[string]interface{}{}
		panics := map[string]interface{}{"lookups": "", "entries": "", "identity": ""}
		if parsed {
			for _, cr := range c.Credentials {
				creds = append(creds, obsCred(cr))
			}
			panics["lookups"] = catch(func() {
				for k, q := range m.Queries {
					var comps []string
					for _, h := range q {
						comps = append(comps, string(unhx(h)))
					}
					// RFC 4120 6.2: the name type is not significant, so the harness varies it
					p := types.PrincipalName{NameType: int32(k % 5), NameString: comps}
					got, found := c.GetEntry(p)
					lookups = append(lookups, map[string]interface{}{"q": q, "contains": c.Contains(p), "found": found, "idx": indexOf(c, got)})
				}
			})
			panics["entries"] = catch(func() {
				for _, e := range c.GetEntries() {
					entries = append(entries, indexOf(c, e))
				}
			})
			panics["identity"] = catch(func() {
				pn = obsPrinc(c.GetClientRealm(), c.GetClientPrincipalName())
				ident = obsIdentity(c.GetClientCredentials())
			})
			var cl *client.Client
			var cerr error
			cli["called"] = true
			cli["panic"] = catch(func() { cl, cerr = client.NewFromCCache(c, config.New()) })
			cli["err"] = cerr != nil
			if cerr != nil {
				cli["errmsg"] = cerr.Error()
			}
			if cli["panic"] == "" && cerr == nil && cl != nil {
				cli["identity"] = obsIdentity(cl.Credentials)
				cli["sessions"], cli["cache"] = obsClient(cl)
			}
			// the client is destroyed, the parsed cache is read again and a second client is built from it
			catch(func() {
				if cl != nil {
					cl.Destroy()
				}
			})
			for _, cr := range c.Credentials {
				credsAfter = append(credsAfter, obsCred(cr))
			}
			var cl2 *client.Client
			var cerr2 error
			cli2["called"] = true
			cli2["panic"] = catch(func() { cl2, cerr2 = client.NewFromCCache(c, config.New()) })
			cli2["err"] = cerr2 != nil
			if cerr2 != nil {
				cli2["errmsg"] = cerr2.Error()
			}
			if cli2["panic"] == "" && cerr2 == nil && cl2 != nil {
				cli2["identity"] = obsIdentity(cl2.Credentials)
				cli2["sessions"], cli2["cache"] = obsClient(cl2)
			}
		}
		line["credsAfter"] = credsAfter
		line["client2"] = cli2
		line["creds"] = creds
		line["lookups"] = lookups
		line["panics"] = panics
		line["entries"] = entries
		line["identity"] = ident
		line["pn"] = pn
		line["client"] = cli
		tw.emit(line)
		return nil
	})
}
