package main

// Interoperability with an independent implementation: MIT Kerberos' client library (through spec/mit/mitref) logs in at the
// simulated KDC with a password, asks it for a service ticket (also across a referral), and builds an AP-REQ; gokrb5's service side
// (service.VerifyAPREQ with the service's keytab) is then given that AP-REQ.  Two things are observed: that an independent client
// accepts the simulated KDC's replies (the simulator stands for "any conformant KDC" in C09/C10/C12), and that gokrb5 accepts a
// request that none of its own encoders produced.  Events (trace for TraceMITClient): one line per scenario.

import (
	"bufio"
	"encoding/base64"
	"encoding/json"
	"flag"
	"fmt"
	"github.com/jcmturner/goidentity/v6"
	"github.com/jcmturner/gokrb5/v8/client"
	"github.com/jcmturner/gokrb5/v8/config"
	"github.com/jcmturner/gokrb5/v8/credentials"
	"github.com/jcmturner/gokrb5/v8/spnego"
	"net/http"
	"net/http/httptest"
	"os"
	"os/exec"
	"strings"
	"time"

	"github.com/jcmturner/gokrb5/v8/keytab"
	"github.com/jcmturner/gokrb5/v8/messages"
	"github.com/jcmturner/gokrb5/v8/service"
)

func init() {
	register("mitclient", "MIT's client against the simulated KDC, its AP-REQ against gokrb5's service (trace for TraceMITClient)", cmdMITClient)
}

func cmdMITClient(args []string) error {
	fs := flag.NewFlagSet("mitclient", flag.ExitOnError)
	out := fs.String("out", "trace.ndjson", "trace file")
	ref := fs.String("mitref", "", "path of the mitref binary")
	dir := fs.String("dir", ".", "scratch directory for krb5.conf")
	casesF := fs.String("cases", "", "perturbation cases from GenC09: MIT's client is given perturbed replies instead (trace for TraceMITReply)")
	fs.Parse(args)
	tw, err := newTrace(*out)
	if err != nil {
		return err
	}
	defer tw.close()
	if *casesF != "" {
		return mitClientPerturbed(tw, *ref, *dir, *casesF)
	}
	service.GetReplayCache(24 * time.Hour)
	origin := time.Now().Truncate(time.Second)
	realm, far := "MIT.TEST.GOKRB5", "FAR.MIT.TEST.GOKRB5"
	allEt := []int32{18, 17, 23, 16, 19, 20}
	n := 0
	for _, et := range allEtypes {
		for _, preauth := range []bool{false, true} {
			for _, remote := range []bool{false, true} {
				n++
				k := newSimKDC(origin)
				k.policy.Preauth = preauth
				k.policy.Referrals = map[string][]string{}
				user := fmt.Sprintf("mituser%d", n)
				pw := fmt.Sprintf("pw-%d-Xy", n)
				spn := "HTTP/svc.mit.test"
				svcRealm := realm
				for _, p := range []struct{ r, n, pw string }{{realm, "krbtgt/" + realm, "tgs"}, {far, "krbtgt/" + far, "tgs-far"}, {realm, "krbtgt/" + far, "xrealm"}, {realm, user, pw}} {
					if _, err := k.addPrincipal(p.r, p.n, p.pw, allEt); err != nil {
						return err
					}
				}
				if remote {
					spn, svcRealm = "HTTP/svc.far.mit.test", far
					k.policy.Referrals[spn] = []string{realm, far}
				}
				if _, err := k.addPrincipal(svcRealm, spn, "svc-secret", []int32{et}); err != nil {
					return err
				}
				if _, err := k.addPrincipal(realm, "HTTP/other.mit.test", "other-secret", []int32{et}); err != nil {
					return err
				}
				addr, err := k.listen()
				if err != nil {
					return err
				}
				conf := simConf(realm, map[string][]string{realm: {addr}, far: {addr}}, map[string]string{"default_tkt_enctypes": etypeNames[et], "default_tgs_enctypes": etypeNames[et],
					"permitted_enctypes": etypeNames[et], "allow_weak_crypto": "true", "udp_preference_limit": "1", "rdns": "false", "dns_canonicalize_hostname": "false"},
					map[string]string{".far.mit.test": far, ".mit.test": realm})
				cf := fmt.Sprintf("%s/krb5_%d.conf", *dir, n)
				if err := os.WriteFile(cf, []byte(conf), 0600); err != nil {
					return err
				}
				cmd := exec.Command(*ref)
				cmd.Env = append(os.Environ(), "KRB5_CONFIG="+cf, "KRB5RCACHETYPE=none")
				cmd.Stdin = strings.NewReader(fmt.Sprintf("client %s@%s %s %s@%s\n", user, realm, pw, spn, svcRealm))
				ob, rerr := cmd.Output()
				var mo struct {
					RC       int    `json:"rc"`
					Stage    int    `json:"stage"`
					APReq    string `json:"apreq"`
					TGTEtype int    `json:"tgtEtype"`
					SvcEtype int    `json:"svcEtype"`
					Msg      string `json:"msg"`
				}
				line := map[string]interface{}{"ev": "mitclient", "et": et, "preauth": preauth, "referral": remote, "user": user, "realm": realm, "who": user + "@" + realm}
				sc := bufio.NewScanner(strings.NewReader(string(ob)))
				if rerr != nil || !sc.Scan() || json.Unmarshal(sc.Bytes(), &mo) != nil {
					line["mitStage"], line["mitRC"], line["mitMsg"] = 0, -1, fmt.Sprint(rerr)
				} else {
					line["mitStage"], line["mitRC"], line["mitMsg"] = mo.Stage, mo.RC, mo.Msg
				}
				accepted, idName, idRealm, verr, pn := false, "", "", "", ""
				if mo.Stage == 7 {
					skt := keytab.New()
					if err := skt.AddEntry(spn, svcRealm, "svc-secret", time.Now(), 1, et); err != nil {
						return err
					}
					var ap messages.APReq
					pn = catch(func() {
						if e := ap.Unmarshal(unhx(mo.APReq)); e != nil {
							verr = "unmarshal: " + e.Error()
							return
						}
						ok, creds, e := service.VerifyAPREQ(&ap, service.NewSettings(skt, service.DecodePAC(false)))
						if e != nil {
							verr = trunc(e.Error(), 160)
						}
						if ok && creds != nil {
							accepted, idName, idRealm = true, creds.UserName(), creds.Domain()
						}
					})
				}
				line["accepted"], line["idName"], line["idRealm"], line["err"], line["panic"] = accepted, idName, idRealm, verr, pn
				// ---- MIT's initiator through gokrb5's HTTP wrapper: its SPNEGO token (and its raw Kerberos mechanism token) in an
				// Authorization header; the wrapped handler must run with the user's identity
				for _, mech := range []string{"spnego", "krb5"} {
					served, who, hp := false, "", ""
					if !remote { // (the host-based name below is in the client's realm)
						cmd := exec.Command(*ref)
						cmd.Env = append(os.Environ(), "KRB5_CONFIG="+cf, "KRB5CCNAME=FILE:"+cf+".cc", "KRB5RCACHETYPE=none")
						cmd.Stdin = strings.NewReader(fmt.Sprintf("gssinit %s@%s %s HTTP@svc.mit.test %s\n", user, realm, pw, mech))
						ob, _ := cmd.Output()
						var go_ struct {
							RC    int    `json:"rc"`
							Token string `json:"token"`
						}
						json.Unmarshal(ob, &go_)
						if go_.RC == 0 && go_.Token != "" {
							skt := keytab.New()
							if err := skt.AddEntry(spn, svcRealm, "svc-secret", time.Now(), 1, et); err != nil {
								return err
							}
							inner := http.HandlerFunc(func(w http.ResponseWriter, r *http.Request) {
								served = true
								if id := goidentity.FromHTTPRequestContext(r); id != nil {
									who = id.UserName() + "@" + id.Domain()
								}
								w.WriteHeader(200)
							})
							h := spnego.SPNEGOKRB5Authenticate(inner, skt, service.DecodePAC(false))
							req := httptest.NewRequest("GET", "http://svc.mit.test/x", nil)
							req.RemoteAddr = "10.1.2.3:4444"
							req.Header.Set("Authorization", "Negotiate "+base64.StdEncoding.EncodeToString(unhx(go_.Token)))
							rec := httptest.NewRecorder()
							hp = catch(func() { h.ServeHTTP(rec, req) })
						} else {
							hp = fmt.Sprintf("MIT produced no %s token (rc %d)", mech, go_.RC)
						}
					}
					line["http_"+mech] = map[string]interface{}{"tried": !remote, "served": served, "identity": who, "panic": hp}
				}
				// ---- the credential cache MIT wrote (FILE ccache of the runs above: TGT, service ticket, configuration entries) read by
				// gokrb5: default principal, then a client built from it asks the simulated KDC for a ticket with MIT's TGT
				ccRes := map[string]interface{}{"tried": !remote, "loaded": false, "principal": "", "clientBuilt": false, "ticket": false, "panic": ""}
				if !remote {
					ccRes["panic"] = catch(func() {
						cc, err := credentials.LoadCCache(cf + ".cc")
						if err != nil {
							ccRes["err"] = trunc(err.Error(), 120)
							return
						}
						ccRes["loaded"] = true
						ccRes["principal"] = cc.GetClientPrincipalName().PrincipalNameString() + "@" + cc.GetClientRealm()
						ccRes["entries"] = len(cc.GetEntries())
						gcfg, err := config.NewFromString(conf)
						if err != nil {
							panic(err)
						}
						gcl, err := client.NewFromCCache(cc, gcfg, client.DisablePAFXFAST(true))
						if err != nil {
							ccRes["err"] = trunc(err.Error(), 120)
							return
						}
						ccRes["clientBuilt"] = true
						if _, _, err := gcl.GetServiceTicket("HTTP/other.mit.test"); err != nil {
							ccRes["err"] = trunc(err.Error(), 120)
						} else {
							ccRes["ticket"] = true
						}
						gcl.Destroy()
					})
				}
				line["mitCCache"] = ccRes
				k.mu.Lock()
				line["kdcIssued"] = len(k.issued)
				k.mu.Unlock()
				tw.emit(line)
				k.close()
			}
		}
	}
	return nil
}

// mitClientPerturbed: MIT's client against the simulated KDC whose AS or TGS reply carries one perturbation of GenC09's catalogue.
// One line per (case, kind): how far MIT's client got (7: it accepted the reply and went on to build an AP-REQ).
func mitClientPerturbed(tw *traceWriter, ref, dir, casesF string) error {
	var cases []c09Case
	if err := readNDJSONRaw(casesF, func(b []byte) error {
		var c c09Case
		if err := json.Unmarshal(b, &c); err != nil {
			return err
		}
		if len(c.Devs) <= 1 {
			cases = append(cases, c)
		}
		return nil
	}); err != nil {
		return err
	}
	origin := time.Now().Truncate(time.Second)
	realm := "MITR.TEST.GOKRB5"
	allEt := []int32{18, 17, 23, 16, 19, 20}
	n := 0
	for _, et := range []int32{18, 23} {
		k := newSimKDC(origin)
		spn := "HTTP/svc.mitr.test"
		for _, p := range []struct{ n, pw string }{{"krbtgt/" + realm, "tgs"}, {spn, "svc-secret"}} {
			if _, err := k.addPrincipal(realm, p.n, p.pw, allEt); err != nil {
				return err
			}
		}
		addr, err := k.listen()
		if err != nil {
			return err
		}
		conf := simConf(realm, map[string][]string{realm: {addr}}, map[string]string{"default_tkt_enctypes": etypeNames[et], "default_tgs_enctypes": etypeNames[et],
			"permitted_enctypes": etypeNames[et], "allow_weak_crypto": "true", "udp_preference_limit": "1", "rdns": "false", "dns_canonicalize_hostname": "false"},
			map[string]string{".mitr.test": realm})
		cf := fmt.Sprintf("%s/krb5_p%d.conf", dir, et)
		if err := os.WriteFile(cf, []byte(conf), 0600); err != nil {
			return err
		}
		run := func(user, pw string) (int, int, string) {
			cmd := exec.Command(ref)
			cmd.Env = append(os.Environ(), "KRB5_CONFIG="+cf, "KRB5RCACHETYPE=none")
			cmd.Stdin = strings.NewReader(fmt.Sprintf("client %s@%s %s %s@%s\n", user, realm, pw, spn, realm))
			ob, rerr := cmd.Output()
			var mo struct {
				RC    int    `json:"rc"`
				Stage int    `json:"stage"`
				Msg   string `json:"msg"`
			}
			sc := bufio.NewScanner(strings.NewReader(string(ob)))
			if rerr != nil || !sc.Scan() || json.Unmarshal(sc.Bytes(), &mo) != nil {
				return 0, -1, fmt.Sprint(rerr)
			}
			return mo.Stage, mo.RC, mo.Msg
		}
		for _, c := range cases {
			for _, kind := range []string{"AS", "TGS"} {
				n++
				user, pw := fmt.Sprintf("mitp%d", n), fmt.Sprintf("pw-%d-Zz", n)
				if _, err := k.addPrincipal(realm, user, pw, []int32{et}); err != nil {
					return err
				}
				setupOK := true
				if c.P["nonce"] == "earlier" {
					// an unperturbed exchange first, whose reply of that kind the KDC will send again
					if st, _, _ := run(user, pw); st != 7 {
						setupOK = false
					}
				}
				k.mu.Lock()
				k.pert = nil
				if len(c.Devs) == 1 {
					// every reply of that kind during this run is perturbed: MIT's client asks again when a TGS reply is unusable
					k.pert = &perturbation{Kind: kind, Field: c.Devs[0][0], Value: c.Devs[0][1], once: false}
				}
				nreq0 := len(k.requests)
				k.mu.Unlock()
				st, rc, msg := run(user, pw)
				k.mu.Lock()
				consumed := false
				for _, q := range k.requests[nreq0:] {
					if q.Kind == kind {
						consumed = true // a request of that kind arrived (and was answered with the perturbed reply)
					}
				}
				k.pert = nil
				k.mu.Unlock()
				tw.emit(map[string]interface{}{"ev": "mitreply", "kind": kind, "reqAddrs": "none", "et": et, "p": c.P, "devs": c.Devs, "mitStage": st, "mitRC": rc, "mitMsg": msg,
					"setupOK": setupOK, "perturbationApplied": consumed || len(c.Devs) == 0})
			}
		}
		k.close()
	}
	return nil
}
