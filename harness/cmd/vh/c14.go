package main

import (
	"encoding/binary"
	"encoding/json"
	"errors"
	"flag"
	"time"

	"github.com/jcmturner/gokrb5/v8/keytab"
	"github.com/jcmturner/gokrb5/v8/types"
)

func init() {
	register("c14", "keytab images rendered by the specification: parse, re-marshal, look-ups (trace for TraceC14)", cmdC14)
}

func be32u(u uint32) []int { return be32(u) }

func projKeytab(kt *keytab.Keytab) []map[string]interface{} {
	var r []map[string]interface{}
	for _, e := range kt.Entries {
		comps := []string{}
		for _, c := range e.Principal.Components {
			comps = append(comps, hx([]byte(c)))
		}
		r = append(r, map[string]interface{}{"realm": hx([]byte(e.Principal.Realm)), "comps": comps,
			"nameType": be32u(uint32(e.Principal.NameType)), "ts": be32u(uint32(e.Timestamp.Unix())), "vno8": int(e.KVNO8),
			"ktype": int(e.Key.KeyType), "key": hx(e.Key.KeyValue), "kvno": be32u(e.KVNO)})
	}
	if r == nil {
		r = []map[string]interface{}{}
	}
	return r
}

func cmdC14(args []string) error {
	fs := flag.NewFlagSet("c14", flag.ExitOnError)
	out := fs.String("out", "trace.ndjson", "trace file")
	images := fs.String("images", "images.ndjson", "rendered keytab models")
	lookups := fs.String("lookups", "lookups.ndjson", "abstract keytabs with images")
	queries := fs.String("queries", "queries.ndjson", "queries")
	fs.Parse(args)
	tw, err := newTrace(*out)
	if err != nil {
		return err
	}
	defer tw.close()
	_ = binary.BigEndian
	err = readNDJSONRaw(*images, func(b []byte) error {
		var m map[string]interface{}
		if err := json.Unmarshal(b, &m); err != nil {
			return err
		}
		img := unhx(m["image"].(string))
		line := map[string]interface{}{"ev": "image", "model": m["model"], "image": m["image"]}
		var kt, kt2 keytab.Keytab
		var e1, e2, e3 error
		var re []byte
		pn := catchT(10*time.Second, func() {
			var a, b keytab.Keytab
			var x1, x2, x3 error
			var r []byte
			x1 = a.Unmarshal(img)
			if x1 == nil {
				r, x2 = a.Marshal()
				if x2 == nil {
					x3 = b.Unmarshal(r)
				}
			}
			kt, kt2, e1, e2, e3, re = a, b, x1, x2, x3, r
		})
		line["panic"] = pn
		line["err"] = e1 != nil
		line["err2"] = e2 != nil || e3 != nil
		line["parsed"] = projKeytab(&kt)
		line["reparsed"] = projKeytab(&kt2)
		line["remarshal"] = hx(re)
		tw.emit(line)
		return nil
	})
	if err != nil {
		return err
	}
	type query struct {
		Comps []string `json:"comps"`
		Realm string   `json:"realm"`
		Kvno  int      `json:"kvno"`
		Etype int32    `json:"etype"`
	}
	var qs []query
	var qraw []json.RawMessage
	if err := readNDJSONRaw(*queries, func(b []byte) error {
		var q query
		if err := json.Unmarshal(b, &q); err != nil {
			return err
		}
		qs = append(qs, q)
		qraw = append(qraw, json.RawMessage(b))
		return nil
	}); err != nil {
		return err
	}
	return readNDJSONRaw(*lookups, func(b []byte) error {
		var m struct {
			Kt    json.RawMessage `json:"kt"`
			Image string          `json:"image"`
		}
		if err := json.Unmarshal(b, &m); err != nil {
			return err
		}
		var kt keytab.Keytab
		var err error
		if pn := catchT(10*time.Second, func() {
			var a keytab.Keytab
			x := a.Unmarshal(unhx(m.Image))
			kt, err = a, x
		}); pn != "" {
			err = errors.New(pn)
		}
		if err != nil {
			tw.emit(map[string]interface{}{"ev": "lookup", "kt": m.Kt, "q": qraw[0], "err": true, "got": 0, "gotKvno": 0, "panic": "keytab image did not parse: " + err.Error()})
			return nil
		}
		for i, q := range qs {
			var key types.EncryptionKey
			var kv int
			var lerr error
			p := catch(func() {
				key, kv, lerr = kt.GetEncryptionKey(types.PrincipalName{NameType: 1, NameString: q.Comps}, q.Realm, q.Kvno, q.Etype)
			})
			got := 0
			if lerr == nil && len(key.KeyValue) > 0 {
				got = int(key.KeyValue[0]) // the specification gave entry i the key i,i,i,...
			}
			tw.emit(map[string]interface{}{"ev": "lookup", "kt": m.Kt, "q": qraw[i], "err": lerr != nil, "got": got, "gotKvno": kv, "panic": p})
		}
		return nil
	})
}
