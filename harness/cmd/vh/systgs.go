package main

// End-to-end scenarios for the system specification Kerberos5TGS.tla: the real client against the simulated KDCs of several
// realms (referral chains of different lengths, two realms that refer to each other, an unknown service) with a network attacker
// who answers a TGS request with the KDC's reply to an earlier request.  Events (trace for TraceK5TGS):
//
//	reset
//	issue    c cr sn sr by k       a KDC (realm by) issued a ticket: server (sn, sr) - ("krbtgt", X) is a TGT for the TGS of X
//	deliver  c cr want wantRealm k tgsreqs   GetServiceTicket(want) returned a ticket and the key issued as number k (0: unknown key)
//	giveup   c cr want wantRealm known chain replayed tgsreqs   GetServiceTicket(want) returned an error
//
// known / chain / replayed describe the scenario (what the KDCs were set up to do and what the attacker did), not an expectation.

import (
	"flag"
	"fmt"
	"math/rand"
	"strings"
	"time"

	"github.com/jcmturner/gokrb5/v8/client"
	"github.com/jcmturner/gokrb5/v8/config"
	"github.com/jcmturner/gokrb5/v8/types"
)

func init() {
	register("systgs", "end-to-end AS/TGS/referral scenarios for the system specification Kerberos5TGS (trace for TraceK5TGS)", cmdSysTGS)
}

func cmdSysTGS(args []string) error {
	fs := flag.NewFlagSet("systgs", flag.ExitOnError)
	seed := fs.Int64("seed", 1, "seed")
	rounds := fs.Int("rounds", 8, "scenarios")
	out := fs.String("out", "trace.ndjson", "trace file")
	fs.Parse(args)
	r := rand.New(rand.NewSource(*seed))
	tw, err := newTrace(*out)
	if err != nil {
		return err
	}
	defer tw.close()
	origin := time.Now().Truncate(time.Second)
	const nRealms = 10
	realm := func(i int) string { return fmt.Sprintf("R%d.TGS.TEST", i) }
	allEt := []int32{18, 17, 23, 16, 19, 20}
	for round := 0; round < *rounds; round++ {
		et := allEtypes[round%len(allEtypes)]
		k := newSimKDC(origin)
		k.policy.Preauth = round%2 == 1
		k.policy.Referrals = map[string][]string{}
		for i := 0; i < nRealms; i++ {
			if _, err := k.addPrincipal(realm(i), "krbtgt/"+realm(i), fmt.Sprintf("tgs-%d", i), allEt); err != nil {
				return err
			}
			for j := 0; j < nRealms; j++ {
				if i != j {
					if _, err := k.addPrincipal(realm(i), "krbtgt/"+realm(j), fmt.Sprintf("x-%d-%d", i, j), allEt); err != nil {
						return err
					}
				}
			}
		}
		user := fmt.Sprintf("alice%d", round)
		if _, err := k.addPrincipal(realm(0), user, "pw-a", []int32{et}); err != nil {
			return err
		}
		// services: chain = number of referrals before the ticket is issued (-1: two realms refer to each other for ever)
		type svc struct {
			spn   string
			chain int
			known bool
		}
		svcs := []svc{{"HTTP/local.tgs.example", 0, true}, {"HTTP/near.tgs.example", 1, true}, {"HTTP/far.tgs.example", 2 + r.Intn(3), true},
			{"HTTP/edge.tgs.example", 6, true}, {"HTTP/beyond.tgs.example", 8, true}, {"HTTP/lost.tgs.example", -1, false}, {"HTTP/nosuch.tgs.example", 0, false}}
		wantRealm := map[string]string{}
		for _, s := range svcs {
			switch {
			case s.chain >= 0 && s.known:
				var chain []string
				for i := 0; i <= s.chain; i++ {
					chain = append(chain, realm(i))
				}
				if s.chain > 0 {
					k.policy.Referrals[s.spn] = chain
				}
				if _, err := k.addPrincipal(realm(s.chain), s.spn, "svc-"+s.spn, allEt); err != nil {
					return err
				}
				wantRealm[s.spn] = realm(s.chain)
			case s.chain < 0:
				k.policy.Referrals[s.spn] = []string{realm(0), realm(1), realm(0), realm(1)} // R0 -> R1 -> R0 -> ...
				wantRealm[s.spn] = realm(9)
			default:
				wantRealm[s.spn] = realm(0)
			}
		}
		addr, err := k.listen()
		if err != nil {
			return err
		}
		kdcs := map[string][]string{}
		for i := 0; i < nRealms; i++ {
			kdcs[realm(i)] = []string{addr}
		}
		lib := map[string]string{"default_tkt_enctypes": etypeNames[et], "default_tgs_enctypes": etypeNames[et], "permitted_enctypes": etypeNames[et], "udp_preference_limit": "1"}
		cfg, err := config.NewFromString(simConf(realm(0), kdcs, lib, nil))
		if err != nil {
			return err
		}
		tw.emit(map[string]interface{}{"ev": "reset", "round": round, "et": et})
		logged := 0
		keyID := map[string]int{}
		flushIssues := func() {
			k.mu.Lock()
			for ; logged < len(k.issued); logged++ {
				i := k.issued[logged]
				keyID[i.KeyHex] = i.ID
				sn, sr := i.SPN, i.Realm
				if strings.HasPrefix(i.SPN, "krbtgt/") {
					sn, sr = "krbtgt", strings.TrimPrefix(i.SPN, "krbtgt/")
				}
				tw.emit(map[string]interface{}{"ev": "issue", "c": i.CName, "cr": realm(0), "sn": sn, "sr": sr, "by": i.Realm, "k": i.ID})
			}
			k.mu.Unlock()
		}
		tgsReqs := func() int {
			k.mu.Lock()
			defer k.mu.Unlock()
			n := 0
			for _, q := range k.requests {
				if q.Kind == "TGS" {
					n++
				}
			}
			return n
		}
		cl := client.NewWithPassword(user, realm(0), "pw-a", cfg, client.DisablePAFXFAST(true))
		if err := cl.Login(); err != nil {
			return fmt.Errorf("login: %v", err)
		}
		order := r.Perm(len(svcs))
		gotOne := false
		for step, oi := range append(order, order[0], order[1]) { // the first two once more: served from the cache or asked again
			s := svcs[oi]
			// the attacker: after at least one good TGS reply exists, now and then answer with that earlier reply instead
			replayed := false
			if gotOne && step%3 == 2 {
				k.mu.Lock()
				k.pert = &perturbation{Kind: "TGS", Field: "nonce", Value: "earlier", once: true}
				k.mu.Unlock()
				replayed = true
			}
			before := tgsReqs()
			var key types.EncryptionKey
			var err error
			if pn := catchT(30*time.Second, func() {
				_, k2, e2 := cl.GetServiceTicket(s.spn)
				key, err = k2, e2
			}); pn != "" {
				// the call does not return (or panicked): recorded as a failed call with the requests it has made so far; the KDC is
				// shut down so that the abandoned call ends, and the round ends here
				flushIssues()
				tw.emit(map[string]interface{}{"ev": "giveup", "c": user, "cr": realm(0), "want": s.spn, "wantRealm": wantRealm[s.spn], "known": s.known, "chain": s.chain,
					"replayed": false, "tgsreqs": tgsReqs() - before, "err": pn})
				break
			}
			k.mu.Lock()
			if k.pert != nil { // the request was answered from the client's cache: the attacker had nothing to replace
				k.pert = nil
				replayed = false
			}
			k.mu.Unlock()
			flushIssues()
			n := tgsReqs() - before
			if err == nil {
				gotOne = true
				tw.emit(map[string]interface{}{"ev": "deliver", "c": user, "cr": realm(0), "want": s.spn, "wantRealm": wantRealm[s.spn], "k": keyID[hx(key.KeyValue)],
					"tgsreqs": n, "replayed": replayed})
			} else {
				chain := s.chain
				if chain < 0 {
					chain = 99
				}
				tw.emit(map[string]interface{}{"ev": "giveup", "c": user, "cr": realm(0), "want": s.spn, "wantRealm": wantRealm[s.spn], "known": s.known, "chain": chain,
					"replayed": replayed, "tgsreqs": n, "err": trunc(err.Error(), 160)})
			}
		}
		cl.Destroy()
		k.close()
	}
	return nil
}
