package main

import (
	"flag"
	"math/rand"

	"github.com/jcmturner/gokrb5/v8/crypto"
	"github.com/jcmturner/gokrb5/v8/crypto/etype"
)

func init() {
	register("c07", "keyed checksums: values, verification of variants, IANA table (trace for TraceC07)", cmdC07)
}

var cksumTypes = []int32{12, 15, 16, 19, 20, -138}

func cmdC07(args []string) error {
	fs := flag.NewFlagSet("c07", flag.ExitOnError)
	seed := fs.Int64("seed", 1, "seed")
	tier := fs.String("tier", "quick", "quick|thorough")
	out := fs.String("out", "trace.ndjson", "trace file")
	fs.Parse(args)
	r := rand.New(rand.NewSource(*seed))
	tw, err := newTrace(*out)
	if err != nil {
		return err
	}
	defer tw.close()
	// the identifier tables
	for _, ct := range append(append([]int32{}, cksumTypes...), 1, 2, 7, 8, 10, 13, 14, 17, 18, 32771, -137, 0) {
		line := map[string]interface{}{"ev": "table", "ct": ct}
		e, err := crypto.GetChksumEtype(ct)
		line["err"] = err != nil
		if err == nil {
			line["et"] = e.GetETypeID()
			line["hashid"] = e.GetHashID()
		} else {
			line["et"] = 0
			line["hashid"] = 0
		}
		tw.emit(line)
	}
	lens := []int{0, 1, 63, 64, 65, 200}
	perCell := 3
	if *tier == "thorough" {
		lens = nil
		for i := 0; i <= 200; i++ {
			lens = append(lens, i)
		}
		perCell = 6
	}
	// one cell: the checksum of data under (key, u) and the verification of its variants
	cell := func(ct int32, e etype.EType, key, data []byte, u uint32) {
		et := e.GetETypeID()
		n := len(data)
		var sum []byte
		var serr error
		p := catch(func() { sum, serr = e.GetChecksumHash(key, append([]byte{}, data...), u) })
		line := map[string]interface{}{"ev": "sum", "ct": ct, "et": et, "key": hx(key), "u": be32(u), "data": hx(data),
			"sum": hx(sum), "err": serr != nil, "panic": p, "missing": false}
		// verification of variants of the library's own value; the trace spec checks that value first
		type ver struct {
			Class string `json:"class"`
			Pos   int    `json:"pos"`
			Ok    bool   `json:"ok"`
		}
		var vs []ver
		offer := func(class string, pos int, k, d, c []byte, uu uint32) {
			var ok bool
			if p := catch(func() { ok = e.VerifyChecksum(k, d, c, uu) }); p != "" {
				vs = append(vs, ver{class + "-panic", pos, true})
				return
			}
			// only record what the model needs: every acceptance, and the exact-match outcome
			if ok || class == "exact" {
				vs = append(vs, ver{class, pos, ok})
			}
		}
		total := 0
		if p == "" && serr == nil {
			offer("exact", 0, key, data, sum, u)
			for k := 0; k < len(sum); k++ {
				offer("truncated", k, key, data, sum[:k], u)
				total++
			}
			for b := 0; b < 256; b += 51 {
				offer("extended", b, key, data, append(append([]byte{}, sum...), byte(b)), u)
				total++
			}
			for bit := 0; bit < 8*len(sum); bit++ {
				m := append([]byte{}, sum...)
				m[bit/8] ^= 0x80 >> uint(bit%8)
				offer("flipped", bit, key, data, m, u)
				total++
			}
			if n > 0 {
				d2 := append([]byte{}, data...)
				d2[r.Intn(n)] ^= 1 << uint(r.Intn(8))
				offer("otherdata", 0, key, d2, sum, u)
				offer("otherdata", 1, key, data[:n-1], sum, u)
				total += 2
			}
			offer("otherdata", 2, key, append(append([]byte{}, data...), 0), sum, u)
			offer("otherkey", 0, randKey(r, et), data, sum, u)
			k2 := append([]byte{}, key...)
			k2[r.Intn(len(k2))] ^= 0x80
			offer("otherkey", 1, k2, data, sum, u)
			total += 3
			for _, u2 := range usageSet {
				if u2 != u {
					// for rc4 the RFC 4757 aliases share a message type: record which usage was accepted
					offer("otherusage", int(u2&0xffff), key, data, sum, u2)
					total++
				}
			}
		}
		if vs == nil {
			vs = []ver{}
		}
		line["verify"] = vs
		line["offered"] = total + 1
		tw.emit(line)
	}
	sharedStage := func() {
		// ---- the same key bytes, usage and data under every checksum type whose keys have that length, in both orders, the key
		// held in one buffer that is overwritten for every round (a checksum is a function of its arguments: nothing the library
		// remembers about an earlier call - for another type, or for other bytes in the same slice - may change a later one)
		rounds := 4
		if *tier == "thorough" {
			rounds = 40
		}
		for _, grp := range [][]int32{{15, 19, -138}, {16, 20}, {12}} {
			buf := make([]byte, 0, 32)
			for round := 0; round < rounds; round++ {
				order := append([]int32{}, grp...)
				if round%2 == 1 {
					for i, j := 0, len(order)-1; i < j; i, j = i+1, j-1 {
						order[i], order[j] = order[j], order[i]
					}
				}
				e0, err := crypto.GetChksumEtype(order[0])
				if err != nil {
					continue
				}
				k := randKey(r, e0.GetETypeID())
				buf = append(buf[:0], k...)
				u := usageSet[(int(*seed)+round/2)%len(usageSet)] // two rounds in a row share the usage: only the key bytes in the buffer change
				data := rbytes(r, []int{0, 1, 64, 200}[round%4])
				for rep := 0; rep < 2; rep++ {
					for _, ct := range order {
						e, err := crypto.GetChksumEtype(ct)
						if err != nil {
							continue
						}
						cell(ct, e, buf, data, u)
					}
				}
			}
		}
	}
	sharedStage() // first of all (whatever the library remembers, it remembers from the start of a process), and again after the grid
	for _, ct := range cksumTypes {
		e, err := crypto.GetChksumEtype(ct)
		if err != nil {
			tw.emit(map[string]interface{}{"ev": "sum", "ct": ct, "missing": true})
			continue
		}
		et := e.GetETypeID()
		for li, n := range lens {
			for j := 0; j < perCell; j++ {
				u := usageSet[(int(*seed)+li*perCell+j*5+int(ct&0xff))%len(usageSet)]
				key := randKey(r, et)
				data := rbytes(r, n)
				cell(ct, e, key, data, u)
			}
		}
	}
	sharedStage()
	return nil
}
