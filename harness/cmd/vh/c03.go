package main

import (
	"bytes"
	"encoding/base64"
	"encoding/json"
	"flag"
	"fmt"
	"math/rand"
	"net/http"
	"net/http/httptest"
	"strconv"
	"strings"
	"sync"
	"time"

	"github.com/jcmturner/gofork/encoding/asn1"
	"github.com/jcmturner/goidentity/v6"
	"github.com/jcmturner/gokrb5/v8/asn1tools"
	"github.com/jcmturner/gokrb5/v8/credentials"
	"github.com/jcmturner/gokrb5/v8/gssapi"
	"github.com/jcmturner/gokrb5/v8/messages"
	"github.com/jcmturner/gokrb5/v8/service"
	"github.com/jcmturner/gokrb5/v8/spnego"
	"github.com/jcmturner/gokrb5/v8/types"
)

func init() {
	register("c03", "drive the SPNEGO HTTP wrapper and the token verification APIs with every header class (trace for TraceC03)", cmdC03)
}

// ---- an in-memory session manager that can be told to fail ------------------------------------------------------------
type memSessions struct {
	mu       sync.Mutex
	store    map[string][]byte
	n        int
	getFails bool
	getStale bool // Get fails but still hands back the record it holds (a revoked or expired session: "error = no session")
	newFails bool
}

func (m *memSessions) New(w http.ResponseWriter, r *http.Request, k string, v []byte) error {
	m.mu.Lock()
	defer m.mu.Unlock()
	if m.newFails {
		return fmt.Errorf("session store unavailable")
	}
	m.n++
	sid := fmt.Sprintf("s%d", m.n)
	m.store[sid] = append([]byte{}, v...)
	http.SetCookie(w, &http.Cookie{Name: "sid", Value: sid})
	return nil
}

func (m *memSessions) Get(r *http.Request, k string) ([]byte, error) {
	m.mu.Lock()
	defer m.mu.Unlock()
	if m.getFails {
		return nil, fmt.Errorf("session store unavailable")
	}
	c, err := r.Cookie("sid")
	if err != nil {
		return nil, nil
	}
	if m.getStale {
		return m.store[c.Value], fmt.Errorf("session revoked")
	}
	return m.store[c.Value], nil
}

func (m *memSessions) plant(v []byte) string {
	m.mu.Lock()
	defer m.mu.Unlock()
	m.n++
	sid := fmt.Sprintf("p%d", m.n)
	m.store[sid] = v
	return sid
}

// ---- abstract request ------------------------------------------------------------------------------------------------
type c03Hdr struct {
	Class  string `json:"class"`
	Mechs  string `json:"mechs"`
	Tok    string `json:"tok"`
	Region string `json:"region"`
}
type c03Req struct {
	Hdr    c03Hdr            `json:"hdr"`
	AP     map[string]string `json:"ap"`
	Cookie string            `json:"cookie"`
	Store  string            `json:"store"`
	// concretisation parameters (not part of the abstract request)
	cut    int
	cutTok string // for tok = "cut": which token is cut where ("cut:<kind>:<n>")
	mutPos int
	mutXor byte
	Dbg    string `json:"dbg"`
}

var oidOther = asn1.ObjectIdentifier{1, 3, 6, 1, 5, 5, 2, 99}

func mechList(m string) []asn1.ObjectIdentifier {
	k, ms := gssapi.OIDKRB5.OID(), gssapi.OIDMSLegacyKRB5.OID()
	switch m {
	case "krb5":
		return []asn1.ObjectIdentifier{k}
	case "mskrb5":
		return []asn1.ObjectIdentifier{ms}
	case "other":
		return []asn1.ObjectIdentifier{oidOther}
	case "other_krb5":
		return []asn1.ObjectIdentifier{oidOther, k}
	case "krb5_other":
		return []asn1.ObjectIdentifier{k, oidOther}
	}
	return []asn1.ObjectIdentifier{}
}

// krb5MechToken frames a Kerberos message as an RFC 4121 initial context token: [APPLICATION 0] { OID, TOK_ID, message }
func krb5MechToken(tokID []byte, msg []byte) []byte {
	b, _ := asn1.Marshal(gssapi.OIDKRB5.OID())
	b = append(b, tokID...)
	b = append(b, msg...)
	return asn1tools.AddASNAppTag(b, 0)
}

type c03world struct {
	garbageN int
	w        *ktWorld
	origin   time.Time
	r        *rand.Rand
	pacs     *pacFactory
	n        int
}

// mechTokenBytes builds the mech token for tok; for AP-REQs it mints a fresh request of the abstract case ap
func (cw *c03world) mechTokenBytes(tok string, ap map[string]string, s c01Settings) ([]byte, *apMint, error) {
	switch tok {
	case "apreq":
		cw.n++
		m, err := mintAPReq(cw.w, ap, s, cw.r, cw.origin, time.Now(), fmt.Sprintf("c03-%d-%d", cw.r.Int31(), cw.n), cw.pacs.forKey)
		if err != nil {
			return nil, nil, err
		}
		if m.wire == nil {
			return nil, nil, fmt.Errorf("AP-REQ of case %v cannot be marshalled", ap)
		}
		return krb5MechToken([]byte{1, 0}, m.wire), m, nil
	case "aprep":
		rep := messages.APRep{PVNO: 5, MsgType: 15, EncPart: types.EncryptedData{EType: cw.w.E, Cipher: rbytes(cw.r, 60)}}
		b, err := asn1.Marshal(rep)
		if err != nil {
			return nil, nil, err
		}
		return krb5MechToken([]byte{2, 0}, asn1tools.AddASNAppTag(b, 15)), nil, nil
	case "krberror":
		ke := messages.NewKRBError(types.PrincipalName{NameType: 3, NameString: princNames["P"]}, realmR, 60, "generic error")
		b, err := ke.Marshal()
		if err != nil {
			return nil, nil, err
		}
		return krb5MechToken([]byte{3, 0}, b), nil, nil
	case "garbage":
		return rbytes(cw.r, 40+cw.r.Intn(40)), nil, nil
	}
	if strings.HasPrefix(tok, "cut:") {
		// "cut:<kind>:<n>": a Kerberos mech token of that kind that ends n octets after the mechanism OID (inside or right after its
		// token identifier), with the outer length adjusted - well-formed DER around a message that is not there
		parts := strings.Split(tok, ":")
		n, _ := strconv.Atoi(parts[2])
		full, _, err := cw.mechTokenBytes(parts[1], ap, s)
		if err != nil {
			return nil, nil, err
		}
		oid, _ := asn1.Marshal(gssapi.OIDKRB5.OID())
		i := bytes.Index(full, oid)
		if i < 0 || i+len(oid)+n > len(full) {
			return nil, nil, fmt.Errorf("cannot cut the %s token", parts[1])
		}
		return asn1tools.AddASNAppTag(append([]byte{}, full[i:i+len(oid)+n]...), 0), nil, nil
	}
	return nil, nil, nil
}

// headerFor renders the Authorization header value of an abstract request; returns also the minted AP-REQ (if any)
func (cw *c03world) headerFor(q *c03Req, s c01Settings) (string, bool, *apMint, error) {
	h := q.Hdr
	switch h.Class {
	case "none":
		return "", false, nil, nil
	case "otherScheme":
		return "Basic " + base64.StdEncoding.EncodeToString([]byte("user:pass")), true, nil, nil
	case "negotiateNoToken":
		if cw.r.Intn(2) == 0 {
			return "Negotiate", true, nil, nil
		}
		return "Negotiate ", true, nil, nil
	case "badBase64":
		return "Negotiate !!!not-base64@@@", true, nil, nil
	case "garbage":
		// bytes that are no Kerberos token: random ones, and the things clients really send instead - a bare NTLMSSP message (the
		// browser's fallback), the same inside the GSS-API framing of the NTLM mechanism, text, some other DER value
		ntlm := append([]byte("NTLMSSP\x00\x01\x00\x00\x00\x07\x82\x08\xa2"), make([]byte, 24)...)
		var b []byte
		cw.garbageN++
		switch cw.garbageN % 6 { // every kind in turn
		case 0:
			b = ntlm
		case 1:
			oid := []byte{0x06, 0x0a, 0x2b, 0x06, 0x01, 0x04, 0x01, 0x82, 0x37, 0x02, 0x02, 0x0a}
			b = append([]byte{0x60, byte(len(oid) + len(ntlm))}, append(oid, ntlm...)...)
		case 2:
			b = []byte("this is not a token at all, just text")
		case 3:
			b = []byte{0x30, 0x0c, 0x02, 0x01, 0x05, 0x04, 0x07, 'n', 'o', 't', '-', 'k', 'r', 'b'}
		default:
			b = rbytes(cw.r, 1+cw.r.Intn(120))
		}
		return "Negotiate " + base64.StdEncoding.EncodeToString(b), true, nil, nil
	}
	// framed tokens; truncated / mutated start from the canonical NegTokenInit framing
	class := h.Class
	if class == "truncated" || class == "mutated" {
		class = "negInit"
	}
	tokSel := h.Tok
	if h.Tok == "cut" {
		tokSel = q.cutTok
	}
	mt, m, err := cw.mechTokenBytes(tokSel, q.AP, s)
	if err != nil {
		return "", false, nil, err
	}
	var tokb []byte
	switch class {
	case "negInit":
		st := spnego.SPNEGOToken{Init: true, NegTokenInit: spnego.NegTokenInit{MechTypes: mechList(h.Mechs), MechTokenBytes: mt}}
		tokb, err = st.Marshal()
	case "negResp":
		nr := spnego.NegTokenResp{NegState: 1, ResponseToken: mt}
		if h.Mechs != "absent" {
			nr.SupportedMech = mechList(h.Mechs)[0]
		}
		st := spnego.SPNEGOToken{Resp: true, NegTokenResp: nr}
		tokb, err = st.Marshal()
	case "rawKRB5":
		tokb = mt
	}
	if err != nil {
		return "", false, nil, err
	}
	switch h.Class {
	case "truncated":
		tokb = tokb[:q.cut%len(tokb)]
	case "mutated":
		pos := q.mutPos % len(tokb)
		// classify the position: inside the ticket's or the authenticator's ciphertext, or elsewhere
		var ap messages.APReq
		q.Hdr.Region = "other"
		if ap.Unmarshal(m.wire) == nil {
			if i := bytes.Index(tokb, ap.Ticket.EncPart.Cipher); i >= 0 && pos >= i && pos < i+len(ap.Ticket.EncPart.Cipher) {
				q.Hdr.Region = "tktCipher"
			}
			if i := bytes.Index(tokb, ap.EncryptedAuthenticator.Cipher); i >= 0 && pos >= i && pos < i+len(ap.EncryptedAuthenticator.Cipher) {
				q.Hdr.Region = "authCipher"
			}
		}
		tokb = append([]byte{}, tokb...)
		q.Dbg = fmt.Sprintf("pos=%d len=%d tkt@%d+%d auth@%d+%d xor=%d", pos, len(tokb), bytes.Index(tokb, ap.Ticket.EncPart.Cipher), len(ap.Ticket.EncPart.Cipher),
			bytes.Index(tokb, ap.EncryptedAuthenticator.Cipher), len(ap.EncryptedAuthenticator.Cipher), q.mutXor)
		tokb[pos] ^= q.mutXor
	}
	return "Negotiate " + base64.StdEncoding.EncodeToString(tokb), true, m, nil
}

type c03Obs struct {
	Outcome            string `json:"outcome"`
	Status             int    `json:"status"`
	ChallengeNegotiate bool   `json:"challengeNegotiate"`
	InnerRan           bool   `json:"innerRan"`
	IDIsSealed         bool   `json:"idIsSealed"`
	IDRealmOK          bool   `json:"idRealmOK"` // authenticated, and the domain is the ticket's crealm
	IDNameSrc          string `json:"idNameSrc"` // user name: "ticket" (the ticket's cname), "pac" (account name in the ticket's PAC), "other", ""
	IDIsSessions       bool   `json:"idIsSessions"`
	T0                 int64  `json:"t0"`
	T1                 int64  `json:"t1"`
	Panic              string `json:"panic"`
}
type c03API struct {
	Called       bool   `json:"called"`
	Accept       bool   `json:"accept"`
	AcceptStatus int    `json:"acceptStatus"`
	AcceptPanic  string `json:"acceptPanic"`
	Direct       []bool `json:"direct"` // results of the Verify methods called directly (tokens without AP-REQ only)
	DirectPanic  string `json:"directPanic"`
	T0           int64  `json:"t0"`
	T1           int64  `json:"t1"`
}

func cmdC03(args []string) error {
	fs := flag.NewFlagSet("c03", flag.ExitOnError)
	seed := fs.Int64("seed", 1, "seed")
	tier := fs.String("tier", "quick", "quick|thorough")
	out := fs.String("out", "trace.ndjson", "trace file")
	casesF := fs.String("cases", "cases.ndjson", "C01 abstract cases (singles are used)")
	fs.Parse(args)
	thorough := *tier == "thorough"
	r := rand.New(rand.NewSource(*seed))
	var singles []c01Case
	if err := readNDJSONRaw(*casesF, func(b []byte) error {
		var c c01Case
		if err := json.Unmarshal(b, &c); err != nil {
			return err
		}
		if len(c.Devs) <= 1 {
			singles = append(singles, c)
		}
		return nil
	}); err != nil {
		return err
	}
	nominal := singles[0].Case
	tw, err := newTrace(*out)
	if err != nil {
		return err
	}
	defer tw.close()
	service.GetReplayCache(24 * time.Hour)
	origin := time.Now().Truncate(time.Second).Add(-10 * time.Minute)
	etypes := []int32{18, 23}
	if thorough {
		etypes = allEtypes
	}
	base := c01Settings{Skew: "default", ClientAddr: "set", Override: "none", DecodePAC: true}
	settingsVariants := []c01Settings{base,
		{Skew: "default", RequireHostAddr: true, ClientAddr: "set", Override: "none", DecodePAC: true},
		{Skew: "s10", ClientAddr: "set", Override: "none", DecodePAC: false},
		{Skew: "default", ClientAddr: "set", Override: "Q", DecodePAC: true}}
	for _, et := range etypes {
		w, err := newKtWorld(et, r)
		if err != nil {
			return err
		}
		cw := &c03world{w: w, origin: origin, r: r, pacs: newPacFactory()}
		one := func(s c01Settings, qs ...c03Req) error { return cw.runSequence(tw, s, et, qs) }
		H := func(c, m, t string) c03Hdr { return c03Hdr{Class: c, Mechs: m, Tok: t, Region: "na"} }
		Q := func(h c03Hdr, ap map[string]string) c03Req {
			return c03Req{Hdr: h, AP: ap, Cookie: "none", Store: "nosm"}
		}
		// ---- A. single requests, every header class
		for _, c := range []string{"none", "otherScheme", "negotiateNoToken", "negotiateNoToken", "badBase64", "garbage", "garbage", "garbage", "garbage", "garbage", "garbage", "garbage", "garbage"} {
			if err := one(base, Q(H(c, "absent", "absent"), nominal)); err != nil {
				return err
			}
		}
		for _, m := range []string{"empty", "krb5", "mskrb5", "other", "other_krb5", "krb5_other"} {
			for _, t := range []string{"absent", "apreq", "aprep", "krberror", "garbage"} {
				if err := one(base, Q(H("negInit", m, t), nominal)); err != nil {
					return err
				}
			}
		}
		for _, m := range []string{"krb5", "mskrb5", "other", "absent"} {
			for _, t := range []string{"absent", "apreq", "aprep", "krberror", "garbage"} {
				if err := one(base, Q(H("negResp", m, t), nominal)); err != nil {
					return err
				}
			}
		}
		for _, t := range []string{"apreq", "aprep", "krberror", "garbage"} {
			if err := one(base, Q(H("rawKRB5", "absent", t), nominal)); err != nil {
				return err
			}
		}
		// Kerberos mech tokens cut short inside or right after the token identifier, outer lengths adjusted, under the three framings
		for _, fr := range []c03Hdr{H("negInit", "krb5", "cut"), H("negResp", "krb5", "cut"), H("rawKRB5", "absent", "cut")} {
			for _, kind := range []string{"apreq", "aprep", "krberror"} {
				for n := 0; n <= 3; n++ {
					q := Q(fr, nominal)
					q.cutTok = fmt.Sprintf("cut:%s:%d", kind, n)
					q.Dbg = q.cutTok
					if err := one(base, q); err != nil {
						return err
					}
				}
			}
		}
		// the C01 single-defect catalogue under the three AP-REQ carrying framings and the settings variants
		for _, sv := range settingsVariants {
			for _, c := range singles {
				for _, fr := range []c03Hdr{H("negInit", "krb5", "apreq"), H("negResp", "krb5", "apreq"), H("rawKRB5", "absent", "apreq")} {
					if err := one(sv, Q(fr, c.Case)); err != nil {
						return err
					}
				}
			}
		}
		// truncations and byte mutations of a valid header
		step := 5
		if thorough {
			step = 1
		}
		for cut := 0; cut < 1200; cut += step {
			q := Q(H("truncated", "krb5", "apreq"), nominal)
			q.cut = cut
			if err := one(base, q); err != nil {
				return err
			}
		}
		for pos := int(*seed) % step; pos < 1200; pos += step {
			for _, x := range []byte{0x01, 0x80, 0xff} {
				q := Q(H("mutated", "krb5", "apreq"), nominal)
				q.mutPos, q.mutXor = pos, x
				if err := one(base, q); err != nil {
					return err
				}
				if !thorough {
					break
				}
			}
		}
		// ---- B. request sequences with a session manager
		valid := Q(H("negInit", "krb5", "apreq"), nominal)
		valid.Store = "ok"
		sym := func(i int) c03Req {
			q := Q(H("none", "absent", "absent"), nominal)
			q.Store = "ok"
			switch i {
			case 0:
				return valid
			case 1:
				q.Cookie = "own"
			case 2:
				q.Cookie = "unknown"
			case 3:
				q.Cookie = "unauth"
			case 4:
				q = Q(H("negInit", "krb5", "krberror"), nominal)
				q.Store = "ok"
			case 5:
				q = valid
				q.Store = "newFails"
			case 6:
				q.Cookie = "own"
				q.Store = "getFails"
			case 7:
				q.Cookie = "garbage"
			case 9:
				q.Cookie = "own"
				q.Store = "getFailsStale"
			case 8:
				q = Q(H("negInit", "krb5", "apreq"), map[string]string{})
				for k, v := range nominal {
					q.AP[k] = v
				}
				q.AP["sealedBy"] = "none"
				q.Store = "ok"
				q.Cookie = "own"
			}
			return q
		}
		nsym := 10
		maxLen := 3
		var rec func(word []int) error
		rec = func(word []int) error {
			if len(word) > 0 {
				var qs []c03Req
				for _, i := range word {
					qs = append(qs, sym(i))
				}
				if err := one(base, qs...); err != nil {
					return err
				}
			}
			if len(word) == maxLen {
				return nil
			}
			for i := 0; i < nsym; i++ {
				if err := rec(append(append([]int{}, word...), i)); err != nil {
					return err
				}
			}
			return nil
		}
		if err := rec(nil); err != nil {
			return err
		}
	}
	return nil
}

// runSequence sends the requests of one client to one handler instance and logs one trace line
func (cw *c03world) runSequence(tw *traceWriter, s c01Settings, et int32, qs []c03Req) error {
	sm := &memSessions{store: map[string][]byte{}}
	useSM := false
	for _, q := range qs {
		if q.Store != "nosm" {
			useSM = true
		}
	}
	opts := []func(*service.Settings){service.RequireHostAddr(s.RequireHostAddr), service.DecodePAC(s.DecodePAC)}
	if s.Skew != "default" {
		opts = append(opts, service.MaxClockSkew(skewOf(s.Skew)))
	}
	if s.Override != "none" {
		opts = append(opts, service.KeytabPrincipal(princString(s.Override)))
	}
	apiOpts := append([]func(*service.Settings){service.ClientAddress(clientHostAddr)}, opts...)
	if useSM {
		opts = append(opts, service.SessionManager(sm))
	}
	var innerRan bool
	var innerID goidentity.Identity
	inner := http.HandlerFunc(func(w http.ResponseWriter, r *http.Request) {
		innerRan = true
		innerID = goidentity.FromHTTPRequestContext(r)
		w.WriteHeader(200)
	})
	handler := spnego.SPNEGOKRB5Authenticate(inner, cw.w.kt, opts...)
	ownCookie := ""
	var sessName, sessRealm string
	var recs []map[string]interface{}
	for i := range qs {
		q := &qs[i]
		sm.getFails, sm.newFails, sm.getStale = q.Store == "getFails", q.Store == "newFails", q.Store == "getFailsStale"
		hv, has, m, err := cw.headerFor(q, s)
		if err != nil {
			return err
		}
		req := httptest.NewRequest("GET", "http://p.test.gokrb5/resource", nil)
		req.RemoteAddr = "10.1.2.3:43210"
		if has {
			req.Header.Set("Authorization", hv)
		}
		switch q.Cookie {
		case "own":
			if ownCookie != "" {
				req.AddCookie(&http.Cookie{Name: "sid", Value: ownCookie})
			} else {
				req.AddCookie(&http.Cookie{Name: "sid", Value: "never-issued"})
			}
		case "unknown":
			req.AddCookie(&http.Cookie{Name: "sid", Value: "s999999"})
		case "unauth":
			c := credentials.New("mallory", "EVIL.TEST")
			b, _ := c.Marshal()
			req.AddCookie(&http.Cookie{Name: "sid", Value: sm.plant(b)})
		case "garbage":
			req.AddCookie(&http.Cookie{Name: "sid", Value: sm.plant(rbytes(cw.r, 50))})
		}
		rec := httptest.NewRecorder()
		innerRan, innerID = false, nil
		var o c03Obs
		o.T0 = int64(time.Since(cw.origin) / time.Millisecond)
		o.Panic = catch(func() { handler.ServeHTTP(rec, req) })
		o.T1 = int64(time.Since(cw.origin)/time.Millisecond) + 1
		o.Status = rec.Code
		o.ChallengeNegotiate = strings.HasPrefix(rec.Header().Get("WWW-Authenticate"), "Negotiate")
		o.InnerRan = innerRan
		switch {
		case o.Panic != "":
			o.Outcome = "panic"
		case innerRan:
			o.Outcome = "served"
		case rec.Code == 401:
			o.Outcome = "refused"
		case rec.Code >= 500:
			o.Outcome = "error5xx"
		default:
			o.Outcome = fmt.Sprintf("other-%d", rec.Code)
		}
		if innerRan && innerID != nil {
			if m != nil {
				o.IDRealmOK = innerID.Authenticated() && innerID.Domain() == m.tktCRealm
				o.IDNameSrc = m.nameSrc(innerID.UserName())
				o.IDIsSealed = o.IDRealmOK && o.IDNameSrc == "ticket"
			}
			o.IDIsSessions = sessName != "" && innerID.Authenticated() && innerID.UserName() == sessName && innerID.Domain() == sessRealm
			// a session established by this request: remember its cookie and identity (the client's own session)
			for _, c := range rec.Result().Cookies() {
				if c.Name == "sid" {
					ownCookie = c.Value
					sessName, sessRealm = innerID.UserName(), innerID.Domain()
				}
			}
		}
		conc := map[string]interface{}{"start": 0, "end": 0, "ctime": 0, "skew": int64(skewOf(s.Skew) / time.Millisecond)}
		if m != nil {
			conc = m.conc
		}
		// ---- the token verification APIs on a fresh token of the same abstract request (single requests only)
		var api c03API
		var apiConc map[string]interface{}
		apiQ := q
		if len(qs) == 1 && (q.Hdr.Class == "negInit" || q.Hdr.Class == "negResp" || q.Hdr.Class == "rawKRB5" || q.Hdr.Class == "mutated" || q.Hdr.Class == "truncated") {
			q2 := *q // the fresh token has its own layout: classify its mutation separately
			hv2, _, m2, err := cw.headerFor(&q2, s)
			apiQ = &q2
			if err != nil {
				return err
			}
			apiConc = conc
			if m2 != nil {
				apiConc = m2.conc
			}
			tokb, _ := base64.StdEncoding.DecodeString(strings.TrimPrefix(hv2, "Negotiate "))
			api.Called = true
			api.T0 = int64(time.Since(cw.origin) / time.Millisecond)
			api.AcceptPanic = catch(func() {
				var st spnego.SPNEGOToken
				if err := st.Unmarshal(tokb); err != nil {
					var k5 spnego.KRB5Token
					if k5.Unmarshal(tokb) != nil {
						return
					}
					st.Init = true
					st.NegTokenInit = spnego.NegTokenInit{MechTypes: []asn1.ObjectIdentifier{k5.OID}, MechTokenBytes: tokb}
				}
				sp := spnego.SPNEGOService(cw.w.kt, apiOpts...)
				ok, _, status := sp.AcceptSecContext(&st)
				api.Accept, api.AcceptStatus = ok, int(status.Code)
			})
			if q.Hdr.Tok != "apreq" {
				// without settings only tokens that do not contain an AP-REQ can be verified directly
				api.DirectPanic = catch(func() {
					var st spnego.SPNEGOToken
					if st.Unmarshal(tokb) == nil {
						ok, _ := st.Verify()
						api.Direct = append(api.Direct, ok)
						if st.Init {
							ok, _ = st.NegTokenInit.Verify()
							api.Direct = append(api.Direct, ok)
						}
						if st.Resp {
							ok, _ = st.NegTokenResp.Verify()
							api.Direct = append(api.Direct, ok)
						}
					}
					var k5 spnego.KRB5Token
					mtb := tokb
					if st.Init {
						mtb = st.NegTokenInit.MechTokenBytes
					} else if st.Resp {
						mtb = st.NegTokenResp.ResponseToken
					}
					if k5.Unmarshal(mtb) == nil {
						ok, _ := k5.Verify()
						api.Direct = append(api.Direct, ok)
					}
				})
			}
			api.T1 = int64(time.Since(cw.origin)/time.Millisecond) + 1
		}
		if api.Direct == nil {
			api.Direct = []bool{}
		}
		if apiConc == nil {
			apiConc = conc
		}
		recs = append(recs, map[string]interface{}{"q": *q, "apiq": *apiQ, "conc": conc, "obs": o, "api": api, "apiconc": apiConc})
	}
	tw.emit(map[string]interface{}{"settings": s, "et": et, "reqs": recs})
	return nil
}
