package main

import (
	"bufio"
	"encoding/hex"
	"encoding/json"
	"fmt"
	"github.com/jcmturner/gokrb5/v8/types"
	"math/rand"
	"os"
	"sync"
	"sync/atomic"
	"time"
)

// traceWriter writes one JSON object per line; safe for concurrent use; assigns sequence numbers under its mutex.
type traceWriter struct {
	mu  sync.Mutex
	f   *os.File
	w   *bufio.Writer
	seq int
}

func newTrace(path string) (*traceWriter, error) {
	f, err := os.Create(path)
	if err != nil {
		return nil, err
	}
	return &traceWriter{f: f, w: bufio.NewWriterSize(f, 1<<20)}, nil
}

func (t *traceWriter) emit(m map[string]interface{}) {
	t.mu.Lock()
	defer t.mu.Unlock()
	t.seq++
	m["seq"] = t.seq
	b, err := json.Marshal(m)
	if err != nil {
		panic(err)
	}
	t.w.Write(b)
	t.w.WriteByte('\n')
	if atomic.LoadInt32(&hangs) >= maxHangs {
		// every abandoned call keeps a processor busy: stop here, with the lines describing the hangs on disk (exit code 3 tells
		// the driver that the trace is a prefix)
		t.w.Flush()
		t.f.Close()
		fmt.Fprintln(os.Stderr, "too many calls that do not return; giving up after this line")
		os.Exit(3)
	}
}

func (t *traceWriter) close() error {
	t.mu.Lock()
	defer t.mu.Unlock()
	if err := t.w.Flush(); err != nil {
		return err
	}
	return t.f.Close()
}

func hx(b []byte) string { return hex.EncodeToString(b) }

func unhx(s string) []byte {
	b, err := hex.DecodeString(s)
	if err != nil {
		panic(fmt.Sprintf("bad hex %q", s))
	}
	return b
}

func rbytes(r *rand.Rand, n int) []byte {
	b := make([]byte, n)
	r.Read(b)
	return b
}

// be32 renders a key usage number as the 4-byte big-endian tuple the specification uses.
func be32(u uint32) []int {
	return []int{int(u >> 24), int(u >> 16 & 0xff), int(u >> 8 & 0xff), int(u & 0xff)}
}

func readNDJSON(path string, each func(map[string]interface{}) error) error {
	f, err := os.Open(path)
	if err != nil {
		return err
	}
	defer f.Close()
	sc := bufio.NewScanner(f)
	sc.Buffer(make([]byte, 1<<20), 1<<28)
	for sc.Scan() {
		if len(sc.Bytes()) == 0 {
			continue
		}
		var m map[string]interface{}
		if err := json.Unmarshal(sc.Bytes(), &m); err != nil {
			return err
		}
		if err := each(m); err != nil {
			return err
		}
	}
	return sc.Err()
}

func num(m map[string]interface{}, k string) int {
	v, ok := m[k].(float64)
	if !ok {
		panic("missing number " + k)
	}
	return int(v)
}

func str(m map[string]interface{}, k string) string {
	v, _ := m[k].(string)
	return v
}

// catch runs f and reports a panic as a string (observation, not an oracle).
func catch(f func()) (p string) {
	defer func() {
		if r := recover(); r != nil {
			p = fmt.Sprint(r)
		}
	}()
	f()
	return ""
}

// catchT is catch with a bound on the duration: a call that has not returned after d is reported as "hang: ..." and left
// behind (its goroutine cannot be stopped; the caller must not touch what the call was writing to).  After maxHangs such
// calls the process stops at the next emitted trace line (see traceWriter.emit).
var hangs int32

const maxHangs = 6

func catchT(d time.Duration, f func()) string {
	done := make(chan string, 1)
	go func() { done <- catch(f) }()
	select {
	case p := <-done:
		return p
	case <-time.After(d):
		atomic.AddInt32(&hangs, 1)
		return fmt.Sprintf("hang: no return within %v", d)
	}
}

func readNDJSONRaw(path string, each func([]byte) error) error {
	f, err := os.Open(path)
	if err != nil {
		return err
	}
	defer f.Close()
	sc := bufio.NewScanner(f)
	sc.Buffer(make([]byte, 1<<20), 1<<28)
	for sc.Scan() {
		if len(sc.Bytes()) == 0 {
			continue
		}
		if err := each(append([]byte{}, sc.Bytes()...)); err != nil {
			return err
		}
	}
	return sc.Err()
}

func messagesPrincipal(comps ...string) types.PrincipalName {
	return types.PrincipalName{NameType: 2, NameString: comps}
}

func bufioWriter(f *os.File) *bufio.Writer { return bufio.NewWriterSize(f, 1<<16) }
