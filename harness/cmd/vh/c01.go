package main

import (
	"encoding/json"
	"flag"
	"fmt"
	"math/rand"
	"os"
	"strings"
	"sync"
	"time"

	"github.com/jcmturner/gokrb5/v8/credentials"
	"github.com/jcmturner/gokrb5/v8/messages"
	"github.com/jcmturner/gokrb5/v8/service"
	"github.com/jcmturner/gokrb5/v8/types"
)

func init() {
	register("c01", "mint AP-REQs for abstract cases x settings x etypes and present them twice to VerifyAPREQ (trace for TraceC01)", cmdC01)
}

type c01Case struct {
	Case map[string]string `json:"case"`
	Devs []string          `json:"devs"`
}
type c01Settings struct {
	Skew            string `json:"skew"`
	RequireHostAddr bool   `json:"requireHostAddr"`
	ClientAddr      string `json:"clientAddr"`
	Override        string `json:"override"`
	DecodePAC       bool   `json:"decodePAC"`
}

func readJSONLines(path string, each func([]byte) error) error {
	return readNDJSONRaw(path, each)
}

var clientHostAddr = types.HostAddress{AddrType: 2, Address: []byte{10, 1, 2, 3}}
var otherHostAddr = types.HostAddress{AddrType: 2, Address: []byte{10, 9, 9, 9}}

func skewOf(s string) time.Duration {
	switch s {
	case "s60":
		return 60 * time.Second
	case "s10":
		return 10 * time.Second
	}
	return 5 * time.Minute
}

func mkSettings(w *ktWorld, s c01Settings) *service.Settings {
	opts := []func(*service.Settings){service.RequireHostAddr(s.RequireHostAddr), service.DecodePAC(s.DecodePAC)}
	if s.Skew != "default" {
		opts = append(opts, service.MaxClockSkew(skewOf(s.Skew)))
	}
	if s.ClientAddr == "set" {
		opts = append(opts, service.ClientAddress(clientHostAddr))
	}
	if s.Override != "none" {
		opts = append(opts, service.KeytabPrincipal(princString(s.Override)))
	}
	return service.NewSettings(w.kt, opts...)
}

type apMint struct {
	wire      []byte
	direct    *messages.APReq // used when the request cannot be marshalled
	tktRealm  string          // realm of the ticket (unencrypted part)
	tktCName  types.PrincipalName
	pacName   string // EffectiveName inside the PAC the ticket carries ("" without PAC)
	tktCRealm string
	end       time.Time
	conc      map[string]interface{}
}

// mintAPReq concretises an abstract case for world w, settings s at instant now.
func mintAPReq(w *ktWorld, c map[string]string, s c01Settings, r *rand.Rand, origin, now time.Time, uniq string, pacFor func(key types.EncryptionKey, variant string) (types.AuthorizationData, error)) (*apMint, error) {
	skew := skewOf(s.Skew)
	margin := 3 * time.Second
	nowS := now.Truncate(time.Second)
	// ---- ticket
	ts := ticketSpec{realmLabel: realmR, kvnoLabel: 2, etLabel: w.E, sealUsage: 2, crealm: "CLIENT.TEST.GOKRB5", cname: []string{"user-" + uniq}}
	if c["realmLabel"] == "R2" {
		ts.realmLabel = realmR2
	}
	ts.snameLabel = princNames[c["snameLabel"]]
	switch c["kvnoLabel"] {
	case "k0":
		ts.kvnoLabel = 0
	case "k3":
		ts.kvnoLabel = 3
	case "k258":
		ts.kvnoLabel = 258
	}
	if c["etLabel"] == "E2" {
		ts.etLabel = w.E2
	}
	if c["sealedBy"] == "none" {
		ts.sealKey = randEncKey(r, w.E)
	} else {
		ts.sealKey = w.keys[c["sealedBy"]]
	}
	if c["tktUsage"] == "other" {
		ts.sealUsage = 3
	}
	ts.flagInvalid = c["invalid"] == "yes"
	ts.sessionKey = randEncKey(r, w.E)
	ts.authTime = nowS.Add(-2 * time.Hour)
	switch c["start"] {
	case "past":
		ts.start = nowS.Add(-time.Hour)
	case "futureInside":
		ts.start = nowS.Add(skew - margin)
	case "futureOutside":
		ts.start = nowS.Add(skew + margin)
	}
	switch c["end"] {
	case "future":
		ts.end = nowS.Add(time.Hour)
	case "pastInside":
		ts.end = nowS.Add(-skew + margin)
	case "pastOutside":
		ts.end = nowS.Add(-skew - margin)
	}
	ts.renewTill = nowS.Add(48 * time.Hour)
	switch c["caddr"] {
	case "containsClient":
		ts.caddr = types.HostAddresses{otherHostAddr, clientHostAddr}
	case "otherOnly":
		ts.caddr = types.HostAddresses{otherHostAddr}
	}
	if c["pac"] != "none" && pacFor != nil {
		// the PAC is signed with the key of the entry that PAC verification will look up (same look-up as the ticket)
		ad, err := pacFor(ts.sealKey, c["pac"])
		if err != nil {
			return nil, err
		}
		ts.authzData = ad
	}
	tkt, etp, err := mintTicketParts(ts)
	if err != nil {
		return nil, fmt.Errorf("mint ticket: %v", err)
	}
	tkt.EncPart.Cipher = spoil(tkt.EncPart.Cipher, c["tktCipher"])
	// ---- authenticator
	as := authSpec{key: ts.sessionKey, usage: 11, crealm: ts.crealm, cname: ts.cname, seq: r.Int63n(1 << 30)}
	if c["authKey"] == "other" {
		as.key = randEncKey(r, w.E)
	}
	if c["authUsage"] == "other" {
		as.usage = 7
	}
	switch c["cname"] {
	case "differs":
		as.cname = []string{"mallory-" + uniq}
	case "empty":
		as.cname = []string{}
	case "caseOnly":
		as.cname = []string{"USER-" + uniq}
	}
	if c["crealm"] == "differs" {
		as.crealm = "EVIL.TEST.GOKRB5"
	}
	if c["crealm"] == "caseOnly" {
		as.crealm = strings.ToLower(ts.crealm)
	}
	usec := time.Duration(1+r.Intn(999998)) * time.Microsecond
	switch c["ctime"] {
	case "now":
		as.ctime = nowS.Add(usec)
	case "pastInside":
		as.ctime = nowS.Add(-skew + margin + usec)
	case "pastOutside":
		as.ctime = nowS.Add(-skew - margin + usec)
	case "futureInside":
		as.ctime = nowS.Add(skew - margin + usec)
	case "futureOutside":
		as.ctime = nowS.Add(skew + margin + usec)
	}
	ea, err := mintAuthenticator(as)
	if err != nil {
		return nil, fmt.Errorf("mint authenticator: %v", err)
	}
	ea.Cipher = spoil(ea.Cipher, c["authCipher"])
	ap := messages.APReq{PVNO: 5, MsgType: 14, APOptions: types.NewKrbFlags(), Ticket: tkt, EncryptedAuthenticator: ea}
	ms := func(t time.Time) int64 { return int64(t.Sub(origin) / time.Millisecond) }
	m := &apMint{tktRealm: ts.realmLabel, tktCName: types.PrincipalName{NameType: 1, NameString: ts.cname}, tktCRealm: ts.crealm, end: ts.end,
		conc: map[string]interface{}{"start": ms(ts.start), "end": ms(ts.end), "ctime": ms(as.ctime), "skew": int64(skew / time.Millisecond)}}
	if ts.start.IsZero() {
		m.conc["start"] = 0
	}
	if c["pac"] != "none" && pacFor != nil {
		m.pacName = samplePacName()
	}
	var b []byte
	if c["trailer"] == "clearCopy" {
		b, err = marshalAPReqWithTrailer(ap, etp)
	} else {
		b, err = ap.Marshal()
	}
	if err == nil {
		var back messages.APReq
		if back.Unmarshal(b) == nil {
			m.wire = b
			return m, nil
		}
	}
	m.direct = &ap
	return m, nil
}

type presentation struct {
	T0                int64  `json:"t0"`
	T1                int64  `json:"t1"`
	Ok                bool   `json:"ok"`
	Panic             string `json:"panic"`
	Err               string `json:"err"`
	NameIsTickets     bool   `json:"nameIsTickets"`
	CNameIsTickets    bool   `json:"cnameIsTickets"`
	UserNameSrc       string `json:"userNameSrc"` // "ticket": the ticket's cname; "pac": the EffectiveName of the PAC in the ticket; "other"; "" without identity
	RealmIsTickets    bool   `json:"realmIsTickets"`
	UntilIsTicketsEnd bool   `json:"untilIsTicketsEnd"`
}

func (m *apMint) present(st *service.Settings, origin time.Time) (presentation, *credentials.Credentials) {
	var p presentation
	var ap messages.APReq
	if m.wire != nil {
		if err := ap.Unmarshal(m.wire); err != nil {
			p.Err = "unmarshal: " + err.Error()
			return p, nil
		}
	} else {
		ap = *m.direct
	}
	var creds *credentials.Credentials
	var err error
	p.T0 = int64(time.Since(origin) / time.Millisecond)
	p.Panic = catch(func() { p.Ok, creds, err = service.VerifyAPREQ(&ap, st) })
	p.T1 = int64(time.Since(origin)/time.Millisecond) + 1 // +1: the instant after the call, rounded up
	if err != nil {
		p.Err = err.Error()
		if len(p.Err) > 160 {
			p.Err = p.Err[:160]
		}
	}
	if p.Panic != "" {
		p.Ok = false
	}
	if p.Ok && creds != nil {
		p.CNameIsTickets = creds.CName().Equal(m.tktCName)
		p.UserNameSrc = m.nameSrc(creds.UserName())
		p.NameIsTickets = p.CNameIsTickets && p.UserNameSrc == "ticket"
		p.RealmIsTickets = creds.Domain() == m.tktCRealm && creds.Realm() == m.tktCRealm
		p.UntilIsTicketsEnd = creds.ValidUntil().Equal(m.end)
	}
	return p, creds
}

func cmdC01(args []string) error {
	fs := flag.NewFlagSet("c01", flag.ExitOnError)
	seed := fs.Int64("seed", 1, "seed")
	tier := fs.String("tier", "quick", "quick|thorough")
	out := fs.String("out", "trace.ndjson", "trace file")
	casesF := fs.String("cases", "cases.ndjson", "abstract cases from GenC01")
	settingsF := fs.String("settings", "settings.ndjson", "settings space from GenC01")
	pairSettings := fs.Int("pairsettings", 6, "settings per pair case (quick); 0 = all")
	mitDir := fs.String("mitdir", "", "directory to export AP-REQs and keytabs into, for the cross-check of the specification against MIT Kerberos")
	fs.Parse(args)
	r := rand.New(rand.NewSource(*seed))
	var cases []c01Case
	var settings []c01Settings
	if err := readJSONLines(*casesF, func(b []byte) error {
		var c c01Case
		if err := json.Unmarshal(b, &c); err != nil {
			return err
		}
		cases = append(cases, c)
		return nil
	}); err != nil {
		return err
	}
	if err := readJSONLines(*settingsF, func(b []byte) error {
		var s c01Settings
		if err := json.Unmarshal(b, &s); err != nil {
			return err
		}
		settings = append(settings, s)
		return nil
	}); err != nil {
		return err
	}
	tw, err := newTrace(*out)
	if err != nil {
		return err
	}
	defer tw.close()
	service.GetReplayCache(24 * time.Hour) // make the singleton's background cleaner inert
	origin := time.Now().Truncate(time.Second).Add(-10 * time.Minute)
	worlds := map[int32]*ktWorld{}
	for _, e := range allEtypes {
		w, err := newKtWorld(e, r)
		if err != nil {
			return err
		}
		worlds[e] = w
	}
	pacs := newPacFactory()
	var mitTw *traceWriter
	if *mitDir != "" {
		for e, w := range worlds {
			b, err := w.kt.Marshal()
			if err != nil {
				return err
			}
			if err := os.WriteFile(fmt.Sprintf("%s/kt_%d.keytab", *mitDir, e), b, 0600); err != nil {
				return err
			}
		}
		mitTw, err = newTrace(*mitDir + "/apreqs.ndjson")
		if err != nil {
			return err
		}
		defer mitTw.close()
	}
	originEpochMs := origin.UnixNano() / int64(time.Millisecond)
	type job struct {
		c  c01Case
		s  c01Settings
		et int32
		id int
	}
	jobs := make(chan job, 1024)
	var wg sync.WaitGroup
	var failMu sync.Mutex
	var firstErr error
	for wk := 0; wk < 16; wk++ {
		wg.Add(1)
		rr := rand.New(rand.NewSource(*seed*1000 + int64(wk)))
		go func() {
			defer wg.Done()
			for j := range jobs {
				w := worlds[j.et]
				m, err := mintAPReq(w, j.c.Case, j.s, rr, origin, time.Now(), fmt.Sprintf("%d-%d", *seed, j.id), pacs.forKey)
				if err != nil {
					failMu.Lock()
					if firstErr == nil {
						firstErr = fmt.Errorf("case %v: %v", j.c.Case, err)
					}
					failMu.Unlock()
					continue
				}
				// the part of the case space an RFC 4120 acceptor without gokrb5's options decides too (no override, no required address, no
				// PAC decoding, default skew; a named service, a stated key version, nothing appended to the ticket): exported for MIT
				if mitTw != nil && m.wire != nil && j.s.Skew == "default" && !j.s.RequireHostAddr && j.s.Override == "none" && !j.s.DecodePAC &&
					j.c.Case["pac"] == "none" && j.c.Case["trailer"] == "none" && j.c.Case["snameLabel"] != "empty" && j.c.Case["kvnoLabel"] != "k0" {
					mitTw.emit(map[string]interface{}{"case": j.c.Case, "settings": j.s, "et": j.et, "conc": m.conc, "wire": hx(m.wire),
						"sname": princString(j.c.Case["snameLabel"]), "realm": m.tktRealm, "origin": originEpochMs})
				}
				st := mkSettings(w, j.s)
				p1, _ := m.present(st, origin)
				p2, _ := m.present(st, origin)
				tw.emit(map[string]interface{}{"case": j.c.Case, "devs": j.c.Devs, "settings": j.s, "et": j.et, "conc": m.conc,
					"p1": p1, "p2": p2, "wire": m.wire != nil})
			}
		}()
	}
	id := 0
	for ci, c := range cases {
		var ss []c01Settings
		if len(c.Devs) <= 1 || *pairSettings == 0 || *tier == "thorough" {
			ss = settings
		} else {
			for k := 0; k < *pairSettings; k++ {
				ss = append(ss, settings[(ci*7+k*17+int(*seed))%len(settings)])
			}
		}
		for _, s := range ss {
			for _, et := range allEtypes {
				id++
				jobs <- job{c, s, et, id}
			}
		}
	}
	close(jobs)
	wg.Wait()
	if firstErr != nil {
		fmt.Fprintln(os.Stderr, "mint error:", firstErr)
		return firstErr
	}
	return nil
}

var pacNameOnce sync.Once
var pacNameVal string

func samplePacName() string {
	pacNameOnce.Do(func() { pacNameVal = newPacFactory().effectiveName() })
	return pacNameVal
}

// nameSrc says where a reported user name comes from
func (m *apMint) nameSrc(user string) string {
	switch user {
	case m.tktCName.PrincipalNameString():
		return "ticket"
	case m.pacName:
		return "pac"
	}
	return "other"
}
