package main

import (
	"encoding/binary"
	"encoding/json"
	"flag"
	"fmt"
	"io"
	"math/rand"
	"net"
	"strings"
	"sync"
	"sync/atomic"
	"syscall"
	"time"

	"github.com/jcmturner/gokrb5/v8/client"
	"github.com/jcmturner/gokrb5/v8/config"
	"github.com/jcmturner/gokrb5/v8/krberror"
	"github.com/jcmturner/gokrb5/v8/messages"
)

func init() {
	register("c12", "Client.Login against scripted UDP/TCP endpoints for every fault assignment (trace for TraceC12)", cmdC12)
}

type c12Beh struct {
	UDP string `json:"udp"`
	TCP string `json:"tcp"`
	// how the harness makes a "closesEarly" TCP endpoint concrete (seeded): atAccept, afterRequest, midHeader, afterHeader, midBody
	CloseAt string `json:"closeAt,omitempty"`
}
type c12Case struct {
	Beh     []c12Beh `json:"beh"`
	Limit   string   `json:"limit"`
	Prelude string   `json:"prelude,omitempty"`
}

func silentCount(c c12Case) int {
	ns := 0
	for _, e := range c.Beh {
		if e.UDP == "silent" {
			ns++
		}
		if e.TCP == "silent" {
			ns++
		}
	}
	return ns
}

// endpointSet is the set of scripted endpoints of one case
type endpointSet struct {
	addrs   []string
	closers []func()
	seen    int32
	kdc     *simKDC
	cur     []*atomic.Value // per KDC: the behaviour in force (c12Beh); an endpoint that exists can change it between exchanges
}

// reservePort binds (without listening) a TCP socket on loopback so that the port number stays ours and connections to it
// are refused; returns the port and a closer
func reservePort() (int, func(), error) {
	fd, err := syscall.Socket(syscall.AF_INET, syscall.SOCK_STREAM, 0)
	if err != nil {
		return 0, nil, err
	}
	sa := &syscall.SockaddrInet4{Port: 0, Addr: [4]byte{127, 0, 0, 1}}
	if err := syscall.Bind(fd, sa); err != nil {
		syscall.Close(fd)
		return 0, nil, err
	}
	got, err := syscall.Getsockname(fd)
	if err != nil {
		syscall.Close(fd)
		return 0, nil, err
	}
	return got.(*syscall.SockaddrInet4).Port, func() { syscall.Close(fd) }, nil
}

// start opens the endpoints of one KDC; the UDP port of the number obtained from TCP may be taken by an unrelated socket
// (an ephemeral source port), in which case another number is tried
func (es *endpointSet) start(b c12Beh) error {
	var err error
	for try := 0; try < 20; try++ {
		n := len(es.closers)
		if err = es.startOnce(b); err == nil {
			return nil
		}
		for _, c := range es.closers[n:] {
			c()
		}
		es.closers = es.closers[:n]
	}
	return err
}

func (es *endpointSet) startOnce(b0 c12Beh) error {
	cur := &atomic.Value{}
	cur.Store(b0)
	b := b0 // which sockets exist is decided by the behaviour of the judged exchange
	var port int
	var tcpL net.Listener
	if b.TCP == "refuses" {
		p, closer, err := reservePort()
		if err != nil {
			return err
		}
		port = p
		es.closers = append(es.closers, closer)
	} else {
		l, err := net.Listen("tcp", "127.0.0.1:0")
		if err != nil {
			return err
		}
		tcpL = l
		port = l.Addr().(*net.TCPAddr).Port
		es.closers = append(es.closers, func() { l.Close() })
	}
	addr := fmt.Sprintf("127.0.0.1:%d", port)
	var udpConn net.PacketConn
	if b.UDP != "refuses" {
		u, err := net.ListenPacket("udp", addr)
		if err != nil {
			return err
		}
		udpConn = u
		es.closers = append(es.closers, func() { u.Close() })
	}
	es.addrs = append(es.addrs, addr)
	es.cur = append(es.cur, cur)
	errReply := func(code int32) []byte {
		e := messages.NewKRBError(messagesPrincipal("krbtgt", "C12.TEST.GOKRB5"), "C12.TEST.GOKRB5", code, "scripted")
		bb, _ := e.Marshal()
		return bb
	}
	if tcpL != nil {
		go func() {
			for {
				c, err := tcpL.Accept()
				if err != nil {
					return
				}
				atomic.AddInt32(&es.seen, 1)
				go func() {
					defer c.Close()
					b := cur.Load().(c12Beh)
					if b.TCP == "closesEarly" && (b.CloseAt == "" || b.CloseAt == "atAccept") {
						return
					}
					c.SetDeadline(time.Now().Add(20 * time.Second))
					h := make([]byte, 4)
					if _, err := io.ReadFull(c, h); err != nil {
						return
					}
					n := binary.BigEndian.Uint32(h)
					if n > 1<<20 {
						return
					}
					req := make([]byte, n)
					if _, err := io.ReadFull(c, req); err != nil {
						return
					}
					var rep []byte
					switch b.TCP {
					case "closesEarly":
						// an orderly close (the request was read) at a later point of the answer
						full := es.kdc.handle(req, "tcp")
						binary.BigEndian.PutUint32(h, uint32(len(full)))
						switch b.CloseAt {
						case "midHeader":
							c.Write(h[:2])
						case "afterHeader":
							c.Write(h)
						case "midBody":
							c.Write(append(h, full[:len(full)/2]...))
						}
						return
					case "silent":
						io.Copy(io.Discard, c) // until the client gives up
						return
					case "krbError":
						rep = errReply(6)
					default:
						rep = es.kdc.handle(req, "tcp")
					}
					if rep == nil {
						return
					}
					binary.BigEndian.PutUint32(h, uint32(len(rep)))
					out := append(h, rep...)
					if b.TCP == "twoSegments" {
						if tc, ok := c.(*net.TCPConn); ok {
							tc.SetNoDelay(true)
						}
						c.Write(out[:2])
						time.Sleep(60 * time.Millisecond)
						c.Write(out[2:])
						return
					}
					c.Write(out)
				}()
			}
		}()
	}
	if udpConn != nil {
		u := udpConn
		go func() {
			buf := make([]byte, 65536)
			for {
				n, a, err := u.ReadFrom(buf)
				if err != nil {
					return
				}
				atomic.AddInt32(&es.seen, 1)
				req := append([]byte{}, buf[:n]...)
				var rep []byte
				b := cur.Load().(c12Beh)
				switch b.UDP {
				case "silent":
					continue
				case "krbError":
					rep = errReply(6)
				case "tooBig":
					rep = errReply(52)
				default:
					rep = es.kdc.handle(req, "udp")
				}
				if rep != nil {
					u.WriteTo(rep, a)
				}
			}
		}()
	}
	return nil
}

func (es *endpointSet) close() {
	for _, c := range es.closers {
		c()
	}
}

func cmdC12(args []string) error {
	fs := flag.NewFlagSet("c12", flag.ExitOnError)
	seed := fs.Int64("seed", 1, "seed")
	out := fs.String("out", "trace.ndjson", "trace file")
	casesF := fs.String("cases", "", "comma separated case files from GenC12")
	maxSilent := fs.Int("maxsilent", 1, "largest number of silent endpoints in a case that is run")
	silentSample := fs.Int("silentsample", 60, "number of cases with a silent endpoint that are run (N >= 2); N = 1 always all")
	workers := fs.Int("workers", 96, "parallel cases")
	fs.Parse(args)
	r := rand.New(rand.NewSource(*seed))
	var fast, slow1, slowN []c12Case
	for _, f := range strings.Split(*casesF, ",") {
		if err := readNDJSONRaw(f, func(b []byte) error {
			var c c12Case
			if err := json.Unmarshal(b, &c); err != nil {
				return err
			}
			ns := 0
			for _, e := range c.Beh {
				if e.UDP == "silent" {
					ns++
				}
				if e.TCP == "silent" {
					ns++
				}
			}
			switch {
			case ns == 0:
				fast = append(fast, c)
			case ns > *maxSilent:
			case len(c.Beh) == 1:
				slow1 = append(slow1, c)
			default:
				slowN = append(slowN, c)
			}
			return nil
		}); err != nil {
			return err
		}
	}
	r.Shuffle(len(slowN), func(i, j int) { slowN[i], slowN[j] = slowN[j], slowN[i] })
	if len(slowN) > *silentSample {
		slowN = slowN[:*silentSample]
	}
	all := append(append(slow1, slowN...), fast...) // slow ones first so that they overlap
	tw, err := newTrace(*out)
	if err != nil {
		return err
	}
	defer tw.close()
	origin := time.Now().Truncate(time.Second)
	realm := "C12.TEST.GOKRB5"
	kdc := newSimKDC(origin)
	if _, err := kdc.addPrincipal(realm, "krbtgt/"+realm, "krbtgt-secret", []int32{18}); err != nil {
		return err
	}
	if _, err := kdc.addPrincipal(realm, "alice", "c12-password", []int32{18}); err != nil {
		return err
	}
	jobs := make(chan c12Case, len(all))
	for _, c := range all {
		// the specification collapses assignments that differ by a permutation of the KDCs; the position a KDC has in the
		// configuration file is chosen here, seeded (the admissible results do not depend on it)
		bs := append([]c12Beh{}, c.Beh...)
		r.Shuffle(len(bs), func(i, j int) { bs[i], bs[j] = bs[j], bs[i] })
		for i := range bs {
			if bs[i].TCP == "closesEarly" {
				bs[i].CloseAt = []string{"atAccept", "afterRequest", "midHeader", "afterHeader", "midBody", "midBody"}[r.Intn(6)]
			}
		}
		c.Beh = bs
		// every third case without a silent endpoint is the SECOND exchange of its client: an earlier one, against the same
		// endpoints behaving differently, has gone before (what an exchange returns depends on how the endpoints behave now)
		if ns := silentCount(c); ns == 0 && r.Intn(3) == 0 {
			c.Prelude = []string{"tooBigThenTCP", "allKrbError", "allAnswer"}[r.Intn(3)]
		}
		jobs <- c
	}
	close(jobs)
	var wg sync.WaitGroup
	var firstErr error
	var emu sync.Mutex
	for wk := 0; wk < *workers; wk++ {
		wg.Add(1)
		go func() {
			defer wg.Done()
			for c := range jobs {
				if err := runC12Case(tw, kdc, realm, c); err != nil {
					emu.Lock()
					if firstErr == nil {
						firstErr = err
					}
					emu.Unlock()
				}
			}
		}()
	}
	wg.Wait()
	return firstErr
}

func runC12Case(tw *traceWriter, kdc *simKDC, realm string, c c12Case) error {
	es := &endpointSet{kdc: kdc}
	defer es.close()
	for _, b := range c.Beh {
		if err := es.start(b); err != nil {
			return err
		}
	}
	limit := map[string]string{"tcpOnly": "1", "udpFirst": "1465", "tcpFirst": "50"}[c.Limit]
	lib := map[string]string{"default_tkt_enctypes": "aes256-cts-hmac-sha1-96", "udp_preference_limit": limit, "noaddresses": "true"}
	cfg, err := config.NewFromString(simConf(realm, map[string][]string{realm: es.addrs}, lib, nil))
	if err != nil {
		return err
	}
	cl := client.NewWithPassword("alice", realm, "c12-password", cfg, client.DisablePAFXFAST(true))
	// the size class of the request this client will send
	size := 0
	if req, err := messages.NewASReqForTGT(realm, cfg, cl.Credentials.CName()); err == nil {
		if b, err := req.Marshal(); err == nil {
			size = len(b)
		}
	}
	classOK := size > 0 && ((c.Limit == "tcpOnly") || (c.Limit == "udpFirst" && size <= 1465) || (c.Limit == "tcpFirst" && size > 50))
	if c.Prelude != "" {
		// the earlier exchange of this client: the endpoints that exist behave as the prelude says, then as the case says
		for i, b := range c.Beh {
			pb := b
			switch c.Prelude {
			case "tooBigThenTCP":
				pb.UDP, pb.TCP = "tooBig", "answers"
			case "allKrbError":
				pb.UDP, pb.TCP = "krbError", "krbError"
			case "allAnswer":
				pb.UDP, pb.TCP = "answers", "answers"
			}
			es.cur[i].Store(pb)
		}
		catch(func() { cl.Login() })
		for i, b := range c.Beh {
			es.cur[i].Store(b)
		}
		atomic.StoreInt32(&es.seen, 0)
	}
	var lerr error
	t0 := time.Now()
	p := catch(func() { lerr = cl.Login() })
	el := time.Since(t0)
	res := "answer"
	text := ""
	if lerr != nil {
		text = lerr.Error()
		res = "fail"
		// a KRB-ERROR that surfaced is reported by the client with root cause KDC_Error, anything else as a networking error
		if ke, ok := lerr.(krberror.Krberror); ok && ke.RootCause == krberror.KDCError {
			res = "krbError"
		}
		if len(text) > 300 {
			text = text[:300]
		}
	}
	if p != "" {
		res = "panic"
	}
	cl.Destroy()
	tw.emit(map[string]interface{}{"beh": c.Beh, "limit": c.Limit, "prelude": c.Prelude, "obs": map[string]interface{}{"result": res, "panic": p, "text": text,
		"seen": atomic.LoadInt32(&es.seen), "classOK": classOK, "ms": int64(el / time.Millisecond), "reqsize": size}})
	return nil
}
