package main

import (
	"bufio"
	"crypto/sha256"
	"encoding/json"
	"flag"
	"fmt"
	"io"
	"io/ioutil"
	"log"
	"math/rand"
	"os"
	"os/exec"
	"runtime"
	"runtime/debug"
	"sort"
	"strconv"
	"strings"
	"sync"
	"syscall"
	"time"

	"github.com/jcmturner/gokrb5/v8/credentials"
	"github.com/jcmturner/gokrb5/v8/keytab"
	"github.com/jcmturner/gokrb5/v8/messages"
	"github.com/jcmturner/gokrb5/v8/pac"
	"github.com/jcmturner/gokrb5/v8/service"
	"github.com/jcmturner/gokrb5/v8/types"
	"github.com/jcmturner/rpc/v2/mstypes"
)

// C19: PAC images rendered and signed by the specification (GenC19) are given to the real PAC processing - directly
// (PACType.Unmarshal + ProcessPACInfoBuffers, what Ticket.GetPACType does) and inside a minted ticket to service.VerifyAPREQ -
// and, for the images marked for a sweep, again with every single bit of the image and of the key flipped.  No verdict is
// formed here: outcomes, decoded structures and exposed credentials are logged; TraceC19 judges them.
//
// PAC processing allocates from sizes found in the image, and a failed allocation kills a Go process outright, so the calls
// run in child processes (vh c19w) under an address-space limit; a child that dies is an observation ("crash") for the unit it
// was working on, and the remaining units go to a new child.

func init() {
	register("c19", "give specification-rendered PAC images, all their single-bit flips and abstract group lists to the PAC code (trace for TraceC19)", cmdC19)
	register("c19w", "worker process of c19 (reads jobs on stdin)", cmdC19Worker)
}

// ---- protocol between parent and worker -------------------------------------------------------------------------------------

type c19Job struct {
	Kind  string    `json:"kind"` // direct | ap | aplog | flip | kflip | sids
	ID    int       `json:"id"`
	Image string    `json:"image,omitempty"`
	Key   string    `json:"key,omitempty"`
	Vet   int32     `json:"vet,omitempty"`
	From  int       `json:"from"` // units From..To-1 (bit numbers for flip/kflip)
	To    int       `json:"to"`
	VI    *c19AbsVI `json:"vi,omitempty"`
}

// one observation
type c19Obs struct {
	U     int                    `json:"u"`
	O     string                 `json:"o"` // accept | reject | panic | crash
	Err   string                 `json:"err,omitempty"`
	H     string                 `json:"h,omitempty"`     // fingerprint of Dec (accepted flips are compared with the unflipped image through it)
	Dec   map[string]interface{} `json:"dec,omitempty"`   // projection of the decoded KERB_VALIDATION_INFO
	Creds map[string]interface{} `json:"creds,omitempty"` // projection of the ADCredentials attached to the identity
	IsPAC bool                   `json:"isPAC,omitempty"`
	Sids  []string               `json:"sids,omitempty"`
}

type c19AbsVI struct {
	LogonDomainID     string   `json:"logonDomainID"`
	GroupRIDs         []string `json:"groupRIDs"`
	ExtraSIDs         []string `json:"extraSIDs"`
	ResourceDomainSID string   `json:"resourceDomainSID"`
	ResourceRIDs      []string `json:"resourceRIDs"`
}

// ---- projections (plain formatting, no judgement) ----------------------------------------------------------------------------

func u32s(v uint32) string            { return strconv.FormatUint(uint64(v), 10) }
func tstr(t time.Time) string         { return t.UTC().Format(time.RFC3339Nano) }
func ftHex(f mstypes.FileTime) string { return fmt.Sprintf("%08x%08x", f.HighDateTime, f.LowDateTime) }

func projVI(k *pac.KerbValidationInfo) map[string]interface{} {
	g := []string{}
	for _, x := range k.GroupIDs {
		g = append(g, u32s(x.RelativeID))
	}
	e := []string{}
	for _, x := range k.ExtraSIDs {
		e = append(e, x.SID.String())
	}
	r := []string{}
	for _, x := range k.ResourceGroupIDs {
		r = append(r, u32s(x.RelativeID))
	}
	return map[string]interface{}{
		"effectiveName": k.EffectiveName.Value, "fullName": k.FullName.Value, "logonServer": k.LogonServer.Value, "logonDomainName": k.LogonDomainName.Value,
		"userID": u32s(k.UserID), "primaryGroupID": u32s(k.PrimaryGroupID),
		"logonDomainID": k.LogonDomainID.String(), "groupRIDs": g, "extraSIDs": e, "resourceDomainSID": k.ResourceGroupDomainSID.String(), "resourceRIDs": r,
		// the six times: the raw FILETIME (high, low) and what the dependency's conversion makes of it
		"ft": map[string]string{"logOnTime": ftHex(k.LogOnTime), "logOffTime": ftHex(k.LogOffTime), "kickOffTime": ftHex(k.KickOffTime),
			"passwordLastSet": ftHex(k.PasswordLastSet), "passwordCanChange": ftHex(k.PasswordCanChange), "passwordMustChange": ftHex(k.PasswordMustChange)},
		"logOnTime": tstr(k.LogOnTime.Time()), "logOffTime": tstr(k.LogOffTime.Time()), "kickOffTime": tstr(k.KickOffTime.Time()),
		"passwordLastSet": tstr(k.PasswordLastSet.Time()), "passwordCanChange": tstr(k.PasswordCanChange.Time()), "passwordMustChange": tstr(k.PasswordMustChange.Time()),
	}
}

func projCreds(a credentials.ADCredentials) map[string]interface{} {
	return map[string]interface{}{
		"effectiveName": a.EffectiveName, "fullName": a.FullName, "userID": strconv.Itoa(a.UserID), "primaryGroupID": strconv.Itoa(a.PrimaryGroupID),
		"logOnTime": tstr(a.LogOnTime), "logOffTime": tstr(a.LogOffTime), "passwordLastSet": tstr(a.PasswordLastSet),
		"logonServer": a.LogonServer, "logonDomainName": a.LogonDomainName, "logonDomainID": a.LogonDomainID, "groupSIDs": strs(a.GroupMembershipSIDs),
	}
}

func fingerprint(m map[string]interface{}) string {
	b, _ := json.Marshal(m) // encoding/json sorts map keys
	s := sha256.Sum256(b)
	return hx(s[:8])
}

func shortErr(err error) string {
	if err == nil {
		return ""
	}
	s := err.Error()
	if len(s) > 120 {
		s = s[:120]
	}
	return s
}

// ---- the worker ------------------------------------------------------------------------------------------------------------------

var c19Discard = log.New(ioutil.Discard, "", 0)

// processPAC is what messages.Ticket.GetPACType does with the AD-WIN2K-PAC bytes and the key from the keytab.
func processPAC(img []byte, key types.EncryptionKey, full bool) (o c19Obs) {
	var p pac.PACType
	var err error
	pn := catch(func() {
		err = p.Unmarshal(img)
		if err == nil {
			err = p.ProcessPACInfoBuffers(key, c19Discard)
		}
	})
	switch {
	case pn != "":
		o.O, o.Err = "panic", pn
		if len(o.Err) > 120 {
			o.Err = o.Err[:120]
		}
	case err != nil:
		o.O, o.Err = "reject", shortErr(err)
	default:
		o.O = "accept"
		if p.KerbValidationInfo != nil {
			d := projVI(p.KerbValidationInfo)
			o.H = fingerprint(d)
			if full {
				o.Dec = d
			}
		}
	}
	return
}

var c19SName = princNames["P"]

// presentInTicket mints a ticket for the service that carries the image as AD-IF-RELEVANT{AD-WIN2K-PAC}, sealed with the
// service key, a matching authenticator, and presents the AP-REQ to service.VerifyAPREQ.  withLogger=false leaves the
// settings as service.NewSettings makes them.
func presentInTicket(img []byte, key types.EncryptionKey, r *rand.Rand, uniq string, withLogger bool) (o c19Obs) {
	// a failure to produce the request is the harness's problem, not an observation about gokrb5
	mintErr := func(err error) c19Obs { return c19Obs{O: "mint-error", Err: err.Error()} }
	kt := keytab.New()
	if err := kt.AddEntry(princString("P"), realmR, "unused", time.Unix(1500000000, 0), 2, 23); err != nil {
		return mintErr(err)
	}
	kt.Entries[0].Key = key // the service's long-term key is the key of the case
	ad, err := wrapPAC(img)
	if err != nil {
		return mintErr(err)
	}
	now := time.Now().Truncate(time.Second)
	ts := ticketSpec{realmLabel: realmR, snameLabel: c19SName, kvnoLabel: 2, etLabel: key.KeyType, sealKey: key, sealUsage: 2,
		sessionKey: randEncKey(r, key.KeyType), crealm: "CLIENT.TEST.GOKRB5", cname: []string{"user-" + uniq},
		authTime: now.Add(-2 * time.Hour), start: now.Add(-time.Hour), end: now.Add(time.Hour), renewTill: now.Add(48 * time.Hour), authzData: ad}
	tkt, err := mintTicket(ts)
	if err != nil {
		return mintErr(err)
	}
	ea, err := mintAuthenticator(authSpec{key: ts.sessionKey, usage: 11, crealm: ts.crealm, cname: ts.cname,
		ctime: now.Add(time.Duration(1+r.Intn(999998)) * time.Microsecond), seq: r.Int63n(1 << 30)})
	if err != nil {
		return mintErr(err)
	}
	ap0 := messages.APReq{PVNO: 5, MsgType: 14, APOptions: types.NewKrbFlags(), Ticket: tkt, EncryptedAuthenticator: ea}
	wire, err := ap0.Marshal()
	if err != nil {
		return mintErr(err)
	}
	var ap messages.APReq
	if err := ap.Unmarshal(wire); err != nil {
		return mintErr(err)
	}
	opts := []func(*service.Settings){service.DecodePAC(true)}
	if withLogger {
		opts = append(opts, service.Logger(c19Discard))
	}
	st := service.NewSettings(kt, opts...)
	var ok bool
	var creds *credentials.Credentials
	var verr error
	pn := catch(func() { ok, creds, verr = service.VerifyAPREQ(&ap, st) })
	switch {
	case pn != "":
		o.O, o.Err = "panic", pn
		if len(o.Err) > 120 {
			o.Err = o.Err[:120]
		}
	case !ok || verr != nil:
		o.O, o.Err = "reject", shortErr(verr)
	default:
		o.O = "accept"
		if creds != nil {
			_, o.IsPAC = creds.Attributes()[credentials.AttributeKeyADCredentials]
			o.Creds = projCreds(creds.GetADCredentials())
			o.Creds["userName"] = creds.UserName()
			o.Creds["displayName"] = creds.DisplayName()
			az := strs(creds.AuthzAttributes())
			sort.Strings(az) // a set (map keys in random order)
			o.Creds["authzAttributes"] = az
		}
	}
	return
}

func parseSID(s string) mstypes.RPCSID {
	f := strings.Split(s, "-") // S-1-<authority>-<sub>...
	if len(f) < 3 || f[0] != "S" {
		panic("bad SID " + s)
	}
	var sid mstypes.RPCSID
	rev, _ := strconv.Atoi(f[1])
	sid.Revision = uint8(rev)
	a, err := strconv.ParseUint(f[2], 10, 48)
	if err != nil {
		panic("bad SID authority " + s)
	}
	for i := 0; i < 6; i++ {
		sid.IdentifierAuthority[5-i] = byte(a >> (8 * uint(i)))
	}
	for _, x := range f[3:] {
		v, err := strconv.ParseUint(x, 10, 32)
		if err != nil {
			panic("bad SID " + s)
		}
		sid.SubAuthority = append(sid.SubAuthority, uint32(v))
	}
	sid.SubAuthorityCount = uint8(len(sid.SubAuthority))
	return sid
}

func rid(s string) uint32 {
	v, err := strconv.ParseUint(s, 10, 32)
	if err != nil {
		panic("bad RID " + s)
	}
	return uint32(v)
}

// groupSIDsOf builds the decoded structure for an abstract validation info and asks it for the group membership.
func groupSIDsOf(a *c19AbsVI) (o c19Obs) {
	var k pac.KerbValidationInfo
	if pn := catch(func() { buildAbsVI(a, &k) }); pn != "" {
		return c19Obs{O: "mint-error", Err: pn} // a malformed case, not an observation
	}
	var out []string
	if pn := catch(func() { out = k.GetGroupMembershipSIDs() }); pn != "" {
		o.O, o.Err = "panic", pn
		return
	}
	o.O, o.Sids = "accept", strs(out)
	return
}

func buildAbsVI(a *c19AbsVI, k *pac.KerbValidationInfo) {
	k.LogonDomainID = parseSID(a.LogonDomainID)
	for _, g := range a.GroupRIDs {
		k.GroupIDs = append(k.GroupIDs, mstypes.GroupMembership{RelativeID: rid(g), Attributes: 7})
	}
	k.GroupCount = uint32(len(k.GroupIDs))
	for _, s := range a.ExtraSIDs {
		k.ExtraSIDs = append(k.ExtraSIDs, mstypes.KerbSidAndAttributes{SID: parseSID(s), Attributes: 7})
	}
	k.SIDCount = uint32(len(k.ExtraSIDs))
	if len(k.ExtraSIDs) > 0 {
		k.UserFlags |= 0x20
	}
	if len(a.ResourceRIDs) > 0 {
		k.ResourceGroupDomainSID = parseSID(a.ResourceDomainSID)
		k.UserFlags |= 0x200
	}
	for _, g := range a.ResourceRIDs {
		k.ResourceGroupIDs = append(k.ResourceGroupIDs, mstypes.GroupMembership{RelativeID: rid(g), Attributes: 0x20000007})
	}
	k.ResourceGroupCount = uint32(len(k.ResourceGroupIDs))
}

func cmdC19Worker(args []string) error {
	fs := flag.NewFlagSet("c19w", flag.ExitOnError)
	limit := fs.Uint64("aslimit", 3<<30, "address-space limit of this process in bytes (0 = none)")
	seed := fs.Int64("seed", 1, "seed")
	fs.Parse(args)
	if *limit > 0 {
		if err := syscall.Setrlimit(syscall.RLIMIT_AS, &syscall.Rlimit{Cur: *limit, Max: *limit}); err != nil {
			return err
		}
	}
	runtime.GOMAXPROCS(2)
	debug.SetGCPercent(50)
	service.GetReplayCache(24 * time.Hour)
	r := rand.New(rand.NewSource(*seed))
	in := bufio.NewReaderSize(os.Stdin, 1<<20)
	put := func(o c19Obs) {
		b, err := json.Marshal(o)
		if err != nil {
			panic(err)
		}
		os.Stdout.Write(append(b, '\n')) // unbuffered: the parent must know exactly which unit a dying worker was at
	}
	n := 0
	for {
		line, err := in.ReadBytes('\n')
		if len(line) > 1 {
			var j c19Job
			if e := json.Unmarshal(line, &j); e != nil {
				return e
			}
			var img, kv []byte
			if j.Image != "" || j.Key != "" {
				img, kv = unhx(j.Image), unhx(j.Key)
			}
			key := types.EncryptionKey{KeyType: j.Vet, KeyValue: kv}
			for u := j.From; u < j.To; u++ {
				n++
				var o c19Obs
				done := make(chan error, 1)
				go func() {
					var ferr error
					switch j.Kind {
					case "direct":
						o = processPAC(img, key, true)
					case "ap", "aplog":
						o = presentInTicket(img, key, r, fmt.Sprintf("%d-%d-%d", os.Getpid(), j.ID, n), j.Kind == "aplog")
					case "flip":
						m := append([]byte{}, img...)
						m[u/8] ^= 0x80 >> uint(u%8)
						o = processPAC(m, key, false)
						o.Err = ""
					case "kflip":
						k2 := append([]byte{}, kv...)
						k2[u/8] ^= 0x80 >> uint(u%8)
						o = processPAC(img, types.EncryptionKey{KeyType: j.Vet, KeyValue: k2}, false)
						o.Err = ""
					case "sids":
						o = groupSIDsOf(j.VI)
					case "ping":
						o.O = "pong"
					default:
						ferr = fmt.Errorf("unknown job kind %q", j.Kind)
					}
					done <- ferr
				}()
				select {
				case ferr := <-done:
					if ferr != nil {
						return ferr
					}
				case <-time.After(30 * time.Second):
					// the call does not return: that is the observation for this unit; the goroutine cannot be stopped, so the worker
					// ends here and the parent starts another one for the units that are left
					put(c19Obs{U: u, O: "crash", Err: "the call did not return within 30 s"})
					os.Exit(0)
				}
				o.U = u
				put(o)
			}
		}
		if err == io.EOF {
			return nil
		}
		if err != nil {
			return err
		}
	}
}

// ---- the parent ------------------------------------------------------------------------------------------------------------------

type c19Child struct {
	cmd *exec.Cmd
	in  io.WriteCloser
	out *bufio.Reader
}

func startC19Child(limit uint64, seed int64) (*c19Child, error) {
	exe, err := os.Executable()
	if err != nil {
		return nil, err
	}
	cmd := exec.Command(exe, "c19w", "-aslimit", strconv.FormatUint(limit, 10), "-seed", strconv.FormatInt(seed, 10))
	cmd.Stderr = nil // the runtime's dump of a dying worker is of no interest
	in, err := cmd.StdinPipe()
	if err != nil {
		return nil, err
	}
	out, err := cmd.StdoutPipe()
	if err != nil {
		return nil, err
	}
	if err := cmd.Start(); err != nil {
		return nil, err
	}
	c := &c19Child{cmd: cmd, in: in, out: bufio.NewReaderSize(out, 1<<20)}
	// a worker that cannot even answer a ping (say, the address-space limit is too small for the runtime) must not be
	// mistaken for a crash of the code under test
	if _, err := in.Write([]byte(`{"kind":"ping","from":0,"to":1}` + "\n")); err != nil {
		c.stop()
		return nil, fmt.Errorf("worker does not start: %v", err)
	}
	line, err := c.out.ReadBytes('\n')
	if err != nil || !strings.Contains(string(line), "pong") {
		c.stop()
		return nil, fmt.Errorf("worker does not start (answer to ping: %q, %v)", line, err)
	}
	return c, nil
}

func (c *c19Child) stop() {
	c.in.Close()
	io.Copy(ioutil.Discard, c.out)
	c.cmd.Wait()
}

type c19Image struct {
	ID        int    `json:"id"`
	Name      string `json:"name"`
	Image     string `json:"image"`
	VKey      string `json:"vkey"`
	Vet       int32  `json:"vet"`
	Sweep     bool   `json:"sweep"`
	Decodable bool   `json:"decodable"`
	NBits     int    `json:"nbits"`
}

type c19SidCase struct {
	ID int      `json:"id"`
	VI c19AbsVI `json:"vi"`
}

type c19Agg struct {
	img               c19Image
	direct, ap, aplog c19Obs
	flips, kflips     map[string][]int // outcome (other than reject) -> bits
	accH              map[string]bool  // fingerprints seen on accepted flips
}

func cmdC19(args []string) error {
	fs := flag.NewFlagSet("c19", flag.ExitOnError)
	imagesF := fs.String("images", "images.ndjson", "images from GenC19")
	sidsF := fs.String("sids", "", "abstract validation infos from GenC19 (optional)")
	out := fs.String("out", "trace.ndjson", "trace file")
	workers := fs.Int("workers", 8, "worker processes")
	limit := fs.Uint64("aslimit", 3<<30, "address-space limit of a worker in bytes")
	seed := fs.Int64("seed", 1, "seed")
	chunk := fs.Int("chunk", 1024, "flips per job")
	fs.Parse(args)

	var images []c19Image
	if err := readNDJSONRaw(*imagesF, func(b []byte) error {
		var x c19Image
		if err := json.Unmarshal(b, &x); err != nil {
			return err
		}
		images = append(images, x)
		return nil
	}); err != nil {
		return err
	}
	var sidCases []c19SidCase
	if *sidsF != "" {
		if err := readNDJSONRaw(*sidsF, func(b []byte) error {
			var x c19SidCase
			if err := json.Unmarshal(b, &x); err != nil {
				return err
			}
			sidCases = append(sidCases, x)
			return nil
		}); err != nil {
			return err
		}
	}
	aggs := map[int]*c19Agg{}
	var jobs []c19Job
	for _, x := range images {
		aggs[x.ID] = &c19Agg{img: x, flips: map[string][]int{}, kflips: map[string][]int{}, accH: map[string]bool{}}
		for _, k := range []string{"direct", "ap", "aplog"} {
			jobs = append(jobs, c19Job{Kind: k, ID: x.ID, Image: x.Image, Key: x.VKey, Vet: x.Vet, From: 0, To: 1})
		}
		if x.Sweep {
			nb := 4 * len(x.Image)
			for a := 0; a < nb; a += *chunk {
				b := a + *chunk
				if b > nb {
					b = nb
				}
				jobs = append(jobs, c19Job{Kind: "flip", ID: x.ID, Image: x.Image, Key: x.VKey, Vet: x.Vet, From: a, To: b})
			}
			jobs = append(jobs, c19Job{Kind: "kflip", ID: x.ID, Image: x.Image, Key: x.VKey, Vet: x.Vet, From: 0, To: 4 * len(x.VKey)})
		}
	}
	sidObs := make([]c19Obs, len(sidCases))
	for i := range sidCases {
		jobs = append(jobs, c19Job{Kind: "sids", ID: i, VI: &sidCases[i].VI, From: 0, To: 1})
	}

	var mu sync.Mutex
	record := func(j c19Job, o c19Obs) {
		mu.Lock()
		defer mu.Unlock()
		if j.Kind == "sids" {
			sidObs[j.ID] = o
			return
		}
		a := aggs[j.ID]
		switch j.Kind {
		case "direct":
			a.direct = o
		case "ap":
			a.ap = o
		case "aplog":
			a.aplog = o
		case "flip":
			if o.O != "reject" {
				a.flips[o.O] = append(a.flips[o.O], o.U)
			}
			if o.O == "accept" {
				a.accH[o.H] = true
			}
		case "kflip":
			if o.O != "reject" {
				a.kflips[o.O] = append(a.kflips[o.O], o.U)
			}
		}
	}
	queue := make(chan c19Job, len(jobs))
	for _, j := range jobs {
		queue <- j
	}
	close(queue)
	var wg sync.WaitGroup
	var firstErr error
	crashes := 0
	for w := 0; w < *workers; w++ {
		wg.Add(1)
		go func(w int) {
			defer wg.Done()
			var c *c19Child
			gen := 0
			fail := func(err error) {
				mu.Lock()
				if firstErr == nil {
					firstErr = err
				}
				mu.Unlock()
			}
			// run sends units [j.From, j.To) to the worker and records what comes back; it returns the first unit without an
			// answer (j.To if all were answered).
			run := func(j c19Job) (int, error) {
				if c == nil {
					var err error
					gen++
					if c, err = startC19Child(*limit, *seed*100000+int64(w)*1000+int64(gen)); err != nil {
						return j.From, err
					}
				}
				b, _ := json.Marshal(j)
				next := j.From
				if _, err := c.in.Write(append(b, '\n')); err == nil {
					for next < j.To {
						line, err := c.out.ReadBytes('\n')
						if err != nil {
							break
						}
						var o c19Obs
						if e := json.Unmarshal(line, &o); e != nil || o.U != next {
							return next, fmt.Errorf("worker protocol: %q (expected unit %d): %v", line, next, e)
						}
						if o.O == "mint-error" {
							return next, fmt.Errorf("could not mint the request for image %d: %s", j.ID, o.Err)
						}
						record(j, o)
						next++
					}
				}
				if next < j.To {
					c.stop()
					c = nil
				}
				return next, nil
			}
			for j := range queue {
				for j.From < j.To {
					next, err := run(j)
					if err != nil {
						fail(err)
						return
					}
					if next < j.To {
						// the worker died at unit `next`.  To attribute the death to the unit, it is given alone to a new worker:
						// only if that one dies too is "crash" recorded for the unit.
						one := j
						one.From, one.To = next, next+1
						n1, err := run(one)
						if err != nil {
							fail(err)
							return
						}
						if n1 == next {
							record(j, c19Obs{U: next, O: "crash"})
							mu.Lock()
							crashes++
							mu.Unlock()
						}
						next++
					}
					j.From = next
				}
			}
			if c != nil {
				c.stop()
			}
		}(w)
	}
	wg.Wait()
	if firstErr != nil {
		return firstErr
	}
	tw, err := newTrace(*out)
	if err != nil {
		return err
	}
	defer tw.close()
	sorted := func(m map[string][]int, k string) []int {
		v := append([]int{}, m[k]...)
		sort.Ints(v)
		return v
	}
	obs := func(o c19Obs) map[string]interface{} {
		m := map[string]interface{}{"o": o.O, "err": o.Err}
		if o.Dec != nil {
			m["dec"] = o.Dec
			m["h"] = o.H
		}
		if o.Creds != nil {
			m["creds"] = o.Creds
			m["isPAC"] = o.IsPAC
		}
		return m
	}
	for _, x := range images {
		a := aggs[x.ID]
		tw.emit(map[string]interface{}{"ev": "case", "id": x.ID, "name": x.Name, "image": x.Image, "direct": obs(a.direct), "ap": obs(a.ap), "aplog": obs(a.aplog)})
		if x.Sweep {
			hs := []string{}
			for h := range a.accH {
				hs = append(hs, h)
			}
			sort.Strings(hs)
			tw.emit(map[string]interface{}{"ev": "sweep", "id": x.ID, "name": x.Name, "nbits": 4 * len(x.Image), "nkeybits": 4 * len(x.VKey), "baseH": a.direct.H,
				"accepted": sorted(a.flips, "accept"), "panicked": sorted(a.flips, "panic"), "crashed": sorted(a.flips, "crash"), "acceptedH": hs,
				"kaccepted": sorted(a.kflips, "accept"), "kpanicked": sorted(a.kflips, "panic"), "kcrashed": sorted(a.kflips, "crash")})
		}
	}
	for i, s := range sidCases {
		tw.emit(map[string]interface{}{"ev": "sids", "id": s.ID, "vi": s.VI, "o": sidObs[i].O, "err": sidObs[i].Err, "sids": strs(sidObs[i].Sids)})
	}
	fmt.Fprintf(os.Stderr, "c19: %d images, %d jobs, %d worker crashes\n", len(images), len(jobs), crashes)
	return nil
}
