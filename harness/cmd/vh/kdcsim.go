package main

import (
	"encoding/binary"
	"fmt"
	"io"
	"math/bits"
	"net"
	"strings"
	"sync"
	"sync/atomic"
	"time"

	"github.com/jcmturner/gofork/encoding/asn1"
	"github.com/jcmturner/gokrb5/v8/asn1tools"
	"github.com/jcmturner/gokrb5/v8/crypto"
	"github.com/jcmturner/gokrb5/v8/iana/errorcode"
	"github.com/jcmturner/gokrb5/v8/iana/flags"
	"github.com/jcmturner/gokrb5/v8/iana/keyusage"
	"github.com/jcmturner/gokrb5/v8/iana/patype"
	"github.com/jcmturner/gokrb5/v8/messages"
	"github.com/jcmturner/gokrb5/v8/types"
)

// A simulated, RFC 4120 conformant KDC used by C09, C10, C11 and C12.  It answers AS and TGS requests of the real client
// over loopback UDP/TCP, logs every decoded request and every ticket it issues, and can be told to perturb a reply
// (C09) or to behave in one of several legal ways (pre-authentication policy, omitted starttime, enc-part tag 25/26,
// renewable tickets, referrals).  Test-input production only: no verdict is taken here.

type simPrincipal struct {
	name string // "comp/comp"
	keys map[int32]types.EncryptionKey
	salt string
	kvno int
}

type simPolicy struct {
	Preauth      bool          // answer PREAUTH_REQUIRED until a valid PA-ENC-TIMESTAMP arrives
	Hints        []string      // order of hints in the PREAUTH_REQUIRED e-data: "info2", "info", "pwsalt"
	Lifetime     time.Duration // maximum lifetime of service tickets
	TGTLifetime  time.Duration // maximum lifetime of ticket-granting tickets (0: same as Lifetime)
	RenewLife    time.Duration // 0: never renewable
	OmitStart    bool          // omit starttime in tickets and replies (legal: defaults to authtime)
	TGSEncTag25  bool          // tag the TGS-REP enc-part 25 (some implementations do; RFC 4120 5.4.2)
	ASEncTag26   bool
	ReplyEtypeLo bool                // pick the LAST mutually supported etype of the client's list instead of the first
	AddrLess     bool                // never put addresses into tickets
	Referrals    map[string][]string // spn -> chain of realms to refer through before the final realm issues the ticket
	ClockOffset  time.Duration       // the KDC's clock relative to the client's (legal within the clock skew)
	SaltInReply  bool                // AS replies carry PA-ETYPE-INFO2 with the principal's salt whatever the pre-authentication policy
}

// perturbation of the next reply of a kind (C09)
type perturbation struct {
	Kind  string // "AS" or "TGS"
	Field string
	Value string
	Code  int32
	once  bool
}

type issueRec struct {
	ID      int       `json:"id"`
	Kind    string    `json:"kind"`
	SPN     string    `json:"spn"`
	Realm   string    `json:"realm"`
	CName   string    `json:"cname"`
	KeyHex  string    `json:"key"`
	Etype   int32     `json:"etype"`
	Start   time.Time `json:"-"`
	End     time.Time `json:"-"`
	Renew   time.Time `json:"-"`
	StartMs int64     `json:"start"`
	EndMs   int64     `json:"end"`
	RenewMs int64     `json:"renew"`
	AtMs    int64     `json:"at"`
	Renewal bool      `json:"renewal"`
	TktHash string    `json:"tkt"`
}

type reqRec struct {
	Kind       string  `json:"kind"`
	Realm      string  `json:"realm"`
	CName      string  `json:"cname"`
	SName      string  `json:"sname"`
	Etypes     []int32 `json:"etypes"`
	Options    string  `json:"options"`
	TillMs     int64   `json:"till"`
	RTimeMs    int64   `json:"rtime"`
	HasRTime   bool    `json:"hasRtime"`
	NAddrs     int     `json:"naddrs"`
	Nonce      int     `json:"nonce"`
	PAEncTS    string  `json:"paEncTS"` // "absent", "ok", "undecryptable", "skewed"
	PATypes    []int32 `json:"patypes"`
	AtMs       int64   `json:"at"`
	Transport  string  `json:"transport"`
	Renew      bool    `json:"renew"`
	AuthOK     bool    `json:"authOK"` // TGS: PA-TGS-REQ authenticator and body checksum verified
	AuthCRealm string  `json:"authCRealm,omitempty"`
	Answer     string  `json:"answer"`
}

type simKDC struct {
	substituteTicket *messages.Ticket // the ticket put into every TGS reply instead of the one made for it
	down             int32            // 1 during an outage (set with atomic operations)
	mu               sync.Mutex
	realms           map[string]map[string]*simPrincipal
	policy           simPolicy
	pert             *perturbation
	issued           []issueRec
	requests         []reqRec
	lastGood         map[string][]byte // kind -> last unperturbed reply
	lastReq          map[string][]byte // kind -> last request bytes seen
	lastRep          map[string][]byte // kind -> last reply bytes sent
	lastKey          map[string]types.EncryptionKey
	origin           time.Time
	udp              []net.PacketConn
	tcp              []net.Listener
	skew             time.Duration
	nIssue           int
}

func newSimKDC(origin time.Time) *simKDC {
	return &simKDC{realms: map[string]map[string]*simPrincipal{}, lastGood: map[string][]byte{}, lastReq: map[string][]byte{}, lastRep: map[string][]byte{},
		lastKey: map[string]types.EncryptionKey{}, origin: origin, skew: 5 * time.Minute,
		policy: simPolicy{Lifetime: 10 * time.Hour, Hints: []string{"info2"}}}
}

// now is the KDC's clock
func (k *simKDC) now() time.Time { return time.Now().Add(k.policy.ClockOffset) }

func (k *simKDC) ms(t time.Time) int64 {
	if t.IsZero() {
		return 0
	}
	return int64(t.Sub(k.origin) / time.Millisecond)
}

// addPrincipal registers a principal with keys for the given etypes derived from password (RFC string-to-key through the
// library: test-input production; C08 checks string-to-key itself).
func (k *simKDC) addPrincipal(realm, name, password string, etypes []int32) (*simPrincipal, error) {
	if k.realms[realm] == nil {
		k.realms[realm] = map[string]*simPrincipal{}
	}
	pn := types.PrincipalName{NameType: 1, NameString: strings.Split(name, "/")}
	p := &simPrincipal{name: name, keys: map[int32]types.EncryptionKey{}, salt: pn.GetSalt(realm), kvno: 1}
	for _, et := range etypes {
		key, _, err := crypto.GetKeyFromPassword(password, pn, realm, et, types.PADataSequence{})
		if err != nil {
			return nil, err
		}
		p.keys[et] = key
	}
	k.realms[realm][name] = p
	return p, nil
}

func (k *simKDC) lookup(realm string, pn types.PrincipalName) *simPrincipal {
	if r, ok := k.realms[realm]; ok {
		return r[pn.PrincipalNameString()]
	}
	return nil
}

func pickKey(p *simPrincipal, etypes []int32, last bool) (types.EncryptionKey, bool) {
	var found types.EncryptionKey
	ok := false
	for _, et := range etypes {
		if key, has := p.keys[et]; has {
			found, ok = key, true
			if !last {
				break
			}
		}
	}
	return found, ok
}

func (k *simKDC) krbErr(code int32, realm string, cname, sname types.PrincipalName, edata []byte) []byte {
	e := messages.NewKRBError(sname, realm, code, "")
	e.CName = cname
	e.CRealm = realm
	e.EData = edata
	b, _ := e.Marshal()
	return b
}

// replyParts is a KDC reply before encryption and encoding; perturbations act on it
type replyParts struct {
	isAS     bool
	crealm   string
	cname    types.PrincipalName
	tkt      messages.Ticket
	enc      messages.EncKDCRepPart
	replyKey types.EncryptionKey
	usage    uint32
	encTag   int
	padata   types.PADataSequence
	cipher   string
	swapType bool
}

func (rp *replyParts) encode() ([]byte, error) {
	eb, err := asn1.Marshal(rp.enc)
	if err != nil {
		return nil, err
	}
	eb = asn1tools.AddASNAppTag(eb, rp.encTag)
	ed, err := crypto.GetEncryptedData(eb, rp.replyKey, rp.usage, 1)
	if err != nil {
		return nil, err
	}
	ed.Cipher = spoil(ed.Cipher, rp.cipher)
	f := messages.KDCRepFields{PVNO: 5, CRealm: rp.crealm, CName: rp.cname, Ticket: rp.tkt, EncPart: ed, PAData: rp.padata}
	asType := rp.isAS != rp.swapType
	if asType {
		f.MsgType = 11
		r := messages.ASRep{KDCRepFields: f}
		return r.Marshal()
	}
	f.MsgType = 13
	r := messages.TGSRep{KDCRepFields: f}
	return r.Marshal()
}

func otherName(pn types.PrincipalName) types.PrincipalName {
	n := append([]string{}, pn.NameString...)
	if len(n) == 0 {
		n = []string{"x"}
	}
	n[len(n)-1] = n[len(n)-1] + "-other"
	return types.PrincipalName{NameType: pn.NameType, NameString: n}
}

// regroupedName is another name that prints like pn: its components joined into one
func regroupedName(pn types.PrincipalName) types.PrincipalName {
	if len(pn.NameString) < 2 {
		return otherName(pn)
	}
	return types.PrincipalName{NameType: pn.NameType, NameString: []string{strings.Join(pn.NameString, "/")}}
}

// applyPerturbation changes one field of the reply as the C09 case says; reqAddrs are the addresses of the request
func (k *simKDC) applyPerturbation(p *perturbation, rp *replyParts, reqAddrs []types.HostAddress) {
	now := time.Now().UTC().Truncate(time.Second)
	switch p.Field {
	case "nonce":
		switch p.Value {
		case "+1":
			rp.enc.Nonce++
		case "-1":
			rp.enc.Nonce--
		case "+2^32":
			rp.enc.Nonce += 1 << 32
		case "-2^32":
			rp.enc.Nonce -= 1 << 32
		}
	case "cname":
		if p.Value == "regrouped" {
			rp.cname = regroupedName(rp.cname)
		} else {
			rp.cname = otherName(rp.cname)
		}
	case "crealm":
		rp.crealm = rp.crealm + ".OTHER"
	case "sname":
		if p.Value == "regrouped" {
			rp.enc.SName = regroupedName(rp.enc.SName)
		} else {
			rp.enc.SName = otherName(rp.enc.SName)
		}
	case "srealm":
		rp.enc.SRealm = rp.enc.SRealm + ".OTHER"
	case "tktRealm":
		rp.tkt.Realm = rp.tkt.Realm + ".OTHER"
	case "key":
		if p.Value == "other" {
			rp.replyKey = types.EncryptionKey{KeyType: rp.replyKey.KeyType, KeyValue: append([]byte{}, rp.replyKey.KeyValue...)}
			rp.replyKey.KeyValue[0] ^= 0x80
			rp.replyKey.KeyValue[len(rp.replyKey.KeyValue)-1] ^= 0x40
		}
	case "addrs":
		other := types.HostAddress{AddrType: 2, Address: []byte{192, 0, 2, 77}}
		switch p.Value {
		case "none":
			rp.enc.CAddr = nil
		case "same":
			rp.enc.CAddr = append([]types.HostAddress{}, reqAddrs...)
		case "subset":
			if len(reqAddrs) > 1 {
				rp.enc.CAddr = append([]types.HostAddress{}, reqAddrs[:1]...)
			} else {
				rp.enc.CAddr = append([]types.HostAddress{}, reqAddrs...)
			}
		case "extra":
			rp.enc.CAddr = append(append([]types.HostAddress{}, reqAddrs...), other)
		case "otherOnly":
			rp.enc.CAddr = []types.HostAddress{other}
		}
	case "times":
		if p.Value == "authBeyond" || p.Value == "bothBeyond" {
			rp.enc.AuthTime = now.Add(-k.skew - 60*time.Second)
		}
		if p.Value == "startBeyond" || p.Value == "bothBeyond" {
			rp.enc.StartTime = now.Add(k.skew + 60*time.Second)
		}
		if p.Value == "startAbsent" || p.Value == "startAbsentAuthBeyond" {
			rp.enc.StartTime = time.Time{} // OPTIONAL: not encoded
		}
		if p.Value == "startAbsentAuthBeyond" {
			rp.enc.AuthTime = now.Add(-k.skew - 60*time.Second)
		}
		if p.Value == "authZero" {
			rp.enc.AuthTime = time.Time{}
		}
	case "usage":
		if p.Value == "other" {
			// not 3 <-> 8: RFC 4757 gives those two the same message type for rc4-hmac
			rp.usage = keyusage.KDC_REP_TICKET
		}
	case "msgType":
		rp.swapType = p.Value == "swapped"
	case "cipher":
		rp.cipher = p.Value
	case "pair":
		for _, fv := range strings.Split(p.Value, ";") {
			kv := strings.SplitN(fv, "=", 2)
			k.applyPerturbation(&perturbation{Kind: p.Kind, Field: kv[0], Value: kv[1]}, rp, reqAddrs)
		}
	}
}

func (k *simKDC) recordIssue(kind, realm string, sname, cname types.PrincipalName, key types.EncryptionKey, start, end, renew time.Time, renewal bool, tkt messages.Ticket) {
	k.nIssue++
	h := ""
	if len(tkt.EncPart.Cipher) >= 8 {
		h = hx(tkt.EncPart.Cipher[len(tkt.EncPart.Cipher)-8:])
	}
	k.issued = append(k.issued, issueRec{ID: k.nIssue, Kind: kind, SPN: sname.PrincipalNameString(), Realm: realm, CName: cname.PrincipalNameString(),
		KeyHex: hx(key.KeyValue), Etype: key.KeyType, Start: start, End: end, Renew: renew, StartMs: k.ms(start), EndMs: k.ms(end), RenewMs: k.ms(renew),
		AtMs: k.ms(time.Now()), Renewal: renewal, TktHash: h})
}

// issue builds the ticket and the reply for sname in realm
func (k *simKDC) issue(isAS bool, realm string, cname types.PrincipalName, crealm string, sname types.PrincipalName, ticketRealm string, body messages.KDCReqBody,
	replyKey types.EncryptionKey, authTime time.Time, oldRenewTill time.Time, renewal bool) (*replyParts, []byte) {
	sp := k.lookup(ticketRealm, sname)
	if sp == nil {
		return nil, k.krbErr(errorcode.KDC_ERR_S_PRINCIPAL_UNKNOWN, realm, cname, sname, nil)
	}
	skey, ok := pickKey(sp, []int32{18, 17, 20, 19, 23, 16}, false)
	if !ok {
		return nil, k.krbErr(errorcode.KDC_ERR_ETYPE_NOSUPP, realm, cname, sname, nil)
	}
	// session key etype: a member of the client's list that gokrb5 and the service support
	var sessEt int32
	for _, et := range body.EType {
		if _, err := crypto.GetEtype(et); err == nil {
			sessEt = et
			if !k.policy.ReplyEtypeLo {
				break
			}
		}
	}
	if sessEt == 0 {
		return nil, k.krbErr(errorcode.KDC_ERR_ETYPE_NOSUPP, realm, cname, sname, nil)
	}
	sess := types.EncryptionKey{KeyType: sessEt, KeyValue: randKeyCrypto(sessEt)}
	now := k.now().UTC().Truncate(time.Second)
	life := k.policy.Lifetime
	if len(sname.NameString) > 0 && sname.NameString[0] == "krbtgt" && k.policy.TGTLifetime > 0 {
		life = k.policy.TGTLifetime
	}
	end := now.Add(life)
	if !body.Till.IsZero() && body.Till.Before(end) && body.Till.After(now) {
		end = body.Till.Truncate(time.Second)
	}
	fl := types.NewKrbFlags()
	var renew time.Time
	if renewal {
		// a renewed ticket keeps its renew-till and gets a new lifetime within it
		renew = oldRenewTill
		types.SetFlag(&fl, flags.Renewable)
		if end.After(renew) {
			end = renew
		}
	} else if k.policy.RenewLife > 0 && types.IsFlagSet(&body.KDCOptions, flags.Renewable) {
		types.SetFlag(&fl, flags.Renewable)
		renew = now.Add(k.policy.RenewLife)
		if !body.RTime.IsZero() && body.RTime.Before(renew) {
			renew = body.RTime.Truncate(time.Second)
		}
	}
	for _, f := range []int{flags.Forwardable, flags.Proxiable} {
		if types.IsFlagSet(&body.KDCOptions, f) {
			types.SetFlag(&fl, f)
		}
	}
	if isAS {
		types.SetFlag(&fl, flags.Initial)
		if k.policy.Preauth {
			types.SetFlag(&fl, flags.PreAuthent)
		}
	}
	start := now
	var caddr []types.HostAddress
	if !k.policy.AddrLess {
		caddr = body.Addresses
	}
	etp := messages.EncTicketPart{Flags: fl, Key: sess, CRealm: crealm, CName: cname, AuthTime: authTime, StartTime: start, EndTime: end, RenewTill: renew, CAddr: caddr}
	if k.policy.OmitStart {
		etp.StartTime = time.Time{}
	}
	eb, err := asn1.Marshal(etp)
	if err != nil {
		return nil, nil
	}
	eb = asn1tools.AddASNAppTag(eb, 3)
	ed, err := crypto.GetEncryptedData(eb, skey, keyusage.KDC_REP_TICKET, sp.kvno)
	if err != nil {
		return nil, nil
	}
	tkt := messages.Ticket{TktVNO: 5, Realm: ticketRealm, SName: sname, EncPart: ed}
	enc := messages.EncKDCRepPart{Key: sess, LastReqs: []messages.LastReq{{LRType: 0, LRValue: now}}, Nonce: body.Nonce, Flags: fl, AuthTime: authTime,
		StartTime: etp.StartTime, EndTime: end, RenewTill: renew, SRealm: ticketRealm, SName: sname, CAddr: caddr}
	if !isAS && k.substituteTicket != nil {
		tkt = *k.substituteTicket // an attacker's KDC hands out a ticket it got elsewhere (BasicAuth)
	}
	rp := &replyParts{isAS: isAS, crealm: crealm, cname: cname, tkt: tkt, enc: enc, replyKey: replyKey}
	if isAS {
		rp.usage, rp.encTag = keyusage.AS_REP_ENCPART, 25
		if k.policy.ASEncTag26 {
			rp.encTag = 26
		}
	} else {
		rp.usage, rp.encTag = keyusage.TGS_REP_ENCPART_SESSION_KEY, 26
		if k.policy.TGSEncTag25 {
			rp.encTag = 25
		}
	}
	kind := "TGS"
	if isAS {
		kind = "AS"
	}
	k.recordIssue(kind, ticketRealm, sname, cname, sess, start, end, renew, renewal, tkt)
	return rp, nil
}

func randKeyCrypto(et int32) []byte {
	e, _ := crypto.GetEtype(et)
	k, _ := types.GenerateEncryptionKey(e)
	if et == 16 {
		// a conformant KDC issues des3 session keys with DES parity (RFC 3961 6.3.1; MIT's client refuses others), whatever the
		// library under test generates: every octet gets its odd parity bit here
		for i := range k.KeyValue {
			k.KeyValue[i] = k.KeyValue[i]&0xfe | byte(1-bits.OnesCount8(k.KeyValue[i]&0xfe)%2)
		}
	}
	if len(k.KeyValue) != specKeyLen(et) {
		// never rely on the library for the key length
		b := make([]byte, specKeyLen(et))
		copy(b, k.KeyValue)
		return b
	}
	return k.KeyValue
}

func (k *simKDC) hintsEData(p *simPrincipal, et int32) []byte {
	var pas types.PADataSequence
	for _, h := range k.policy.Hints {
		switch h {
		case "info2":
			b, _ := asn1.Marshal([]etypeInfo2Entry{{EType: et, Salt: p.salt}})
			pas = append(pas, types.PAData{PADataType: patype.PA_ETYPE_INFO2, PADataValue: b})
		case "info":
			b, _ := asn1.Marshal([]etypeInfoEntry{{EType: et, Salt: []byte(p.salt)}})
			pas = append(pas, types.PAData{PADataType: patype.PA_ETYPE_INFO, PADataValue: b})
		case "pwsalt":
			pas = append(pas, types.PAData{PADataType: patype.PA_PW_SALT, PADataValue: []byte(p.salt)})
		}
	}
	pas = append(pas, types.PAData{PADataType: patype.PA_ENC_TIMESTAMP})
	b, _ := asn1.Marshal(pas)
	return b
}

// handle answers one request; transport is "udp" or "tcp"
func (k *simKDC) handle(req []byte, transport string) []byte {
	k.mu.Lock()
	defer k.mu.Unlock()
	var as messages.ASReq
	if err := as.Unmarshal(req); err == nil {
		k.lastReq["AS"] = req
		rep := k.handleAS(as, transport)
		k.lastRep["AS"] = rep
		return rep
	}
	var tgs messages.TGSReq
	if err := tgs.Unmarshal(req); err == nil {
		k.lastReq["TGS"] = req
		rep := k.handleTGS(tgs, transport)
		k.lastRep["TGS"] = rep
		return rep
	}
	k.requests = append(k.requests, reqRec{Kind: "unparseable", AtMs: k.ms(time.Now()), Transport: transport, Answer: "none"})
	return nil
}

func (k *simKDC) reqRecOf(kind string, b messages.KDCReqBody, pas types.PADataSequence, transport string) reqRec {
	r := reqRec{Kind: kind, Realm: b.Realm, CName: b.CName.PrincipalNameString(), SName: b.SName.PrincipalNameString(), Etypes: b.EType,
		Options: hx(b.KDCOptions.Bytes), TillMs: k.ms(b.Till), RTimeMs: k.ms(b.RTime), HasRTime: !b.RTime.IsZero(), NAddrs: len(b.Addresses), Nonce: b.Nonce,
		PAEncTS: "absent", AtMs: k.ms(time.Now()), Transport: transport, Renew: types.IsFlagSet(&b.KDCOptions, flags.Renew)}
	for _, pa := range pas {
		r.PATypes = append(r.PATypes, pa.PADataType)
	}
	if r.Etypes == nil {
		r.Etypes = []int32{}
	}
	if r.PATypes == nil {
		r.PATypes = []int32{}
	}
	return r
}

func (k *simKDC) handleAS(as messages.ASReq, transport string) []byte {
	b := as.ReqBody
	rec := k.reqRecOf("AS", b, as.PAData, transport)
	defer func() { k.requests = append(k.requests, rec) }()
	if p := k.pert; p != nil && p.Kind == "AS" && p.Field == "krbError" {
		if p.once {
			k.pert = nil
		}
		rec.Answer = fmt.Sprintf("krberror-%d", p.Code)
		return k.krbErr(p.Code, b.Realm, b.CName, b.SName, nil)
	}
	cp := k.lookup(b.Realm, b.CName)
	if cp == nil {
		rec.Answer = "krberror-6"
		return k.krbErr(errorcode.KDC_ERR_C_PRINCIPAL_UNKNOWN, b.Realm, b.CName, b.SName, nil)
	}
	ckey, ok := pickKey(cp, b.EType, k.policy.ReplyEtypeLo)
	if !ok {
		rec.Answer = "krberror-14"
		return k.krbErr(errorcode.KDC_ERR_ETYPE_NOSUPP, b.Realm, b.CName, b.SName, nil)
	}
	// pre-authentication
	var ts *types.PAData
	for i := range as.PAData {
		if as.PAData[i].PADataType == patype.PA_ENC_TIMESTAMP {
			ts = &as.PAData[i]
		}
	}
	if ts != nil {
		rec.PAEncTS = "undecryptable"
		var ed types.EncryptedData
		if ed.Unmarshal(ts.PADataValue) == nil {
			if pk, has := cp.keys[ed.EType]; has {
				if pt, err := crypto.DecryptEncPart(ed, pk, keyusage.AS_REQ_PA_ENC_TIMESTAMP); err == nil {
					var pats types.PAEncTSEnc
					if pats.Unmarshal(pt) == nil {
						d := k.now().Sub(pats.PATimestamp)
						if d < 0 {
							d = -d
						}
						if d <= k.skew {
							rec.PAEncTS = "ok"
						} else {
							rec.PAEncTS = "skewed"
						}
					}
				}
			}
		}
	}
	if k.policy.Preauth && rec.PAEncTS != "ok" {
		code := int32(errorcode.KDC_ERR_PREAUTH_REQUIRED)
		if ts != nil {
			code = errorcode.KDC_ERR_PREAUTH_FAILED
		}
		rec.Answer = fmt.Sprintf("krberror-%d", code)
		return k.krbErr(code, b.Realm, b.CName, b.SName, k.hintsEData(cp, ckey.KeyType))
	}
	if p := k.pert; p != nil && p.Kind == "AS" && p.Field == "nonce" && p.Value == "earlier" && k.lastGood["AS"] != nil {
		if p.once {
			k.pert = nil
		}
		rec.Answer = "replayed-earlier-reply"
		return k.lastGood["AS"]
	}
	rp, errb := k.issue(true, b.Realm, b.CName, b.Realm, b.SName, b.Realm, b, ckey, k.now().UTC().Truncate(time.Second), time.Time{}, false)
	if rp == nil {
		rec.Answer = "krberror"
		return errb
	}
	if k.policy.Preauth || k.policy.SaltInReply {
		// salt information may also accompany the reply
		e2, _ := asn1.Marshal([]etypeInfo2Entry{{EType: ckey.KeyType, Salt: cp.salt}})
		rp.padata = types.PADataSequence{{PADataType: patype.PA_ETYPE_INFO2, PADataValue: e2}}
	}
	perturbed := false
	if p := k.pert; p != nil && p.Kind == "AS" {
		k.applyPerturbation(p, rp, b.Addresses)
		perturbed = true
		if p.once {
			k.pert = nil
		}
	}
	out, err := rp.encode()
	if err != nil {
		rec.Answer = "encode-error"
		return nil
	}
	rec.Answer = "issued"
	if !perturbed {
		k.lastGood["AS"] = out
	}
	k.lastKey["AS"] = ckey
	return out
}

func (k *simKDC) handleTGS(tgs messages.TGSReq, transport string) []byte {
	b := tgs.ReqBody
	rec := k.reqRecOf("TGS", b, tgs.PAData, transport)
	defer func() { k.requests = append(k.requests, rec) }()
	var ap messages.APReq
	found := false
	for _, pa := range tgs.PAData {
		if pa.PADataType == patype.PA_TGS_REQ && ap.Unmarshal(pa.PADataValue) == nil {
			found = true
		}
	}
	noName := types.PrincipalName{}
	if !found {
		rec.Answer = "krberror-16"
		return k.krbErr(errorcode.KDC_ERR_PADATA_TYPE_NOSUPP, b.Realm, noName, b.SName, nil)
	}
	// the TGT: krbtgt/<this realm>@<issuing realm>; the key is that of the krbtgt principal in the ticket's realm
	tp := k.lookup(ap.Ticket.Realm, ap.Ticket.SName)
	if tp == nil {
		rec.Answer = "krberror-45"
		return k.krbErr(errorcode.KRB_AP_ERR_NOKEY, b.Realm, noName, b.SName, nil)
	}
	tkey, ok := tp.keys[ap.Ticket.EncPart.EType]
	if !ok {
		rec.Answer = "krberror-45"
		return k.krbErr(errorcode.KRB_AP_ERR_NOKEY, b.Realm, noName, b.SName, nil)
	}
	if err := ap.Ticket.Decrypt(tkey); err != nil {
		rec.Answer = "krberror-31"
		return k.krbErr(errorcode.KRB_AP_ERR_BAD_INTEGRITY, b.Realm, noName, b.SName, nil)
	}
	tk := ap.Ticket.DecryptedEncPart
	rec.CName = tk.CName.PrincipalNameString()
	// this process holds the keys of every simulated realm; the TGS of realm b.Realm holds only its own: the ticket must be a TGT
	// for this TGS (krbtgt/<b.Realm>, Kerberos5TGS!TGSValid), or - for a renewal - a ticket this realm issued
	if types.IsFlagSet(&b.KDCOptions, flags.Renew) {
		if ap.Ticket.Realm != b.Realm {
			rec.Answer = "krberror-35"
			return k.krbErr(errorcode.KRB_AP_ERR_NOT_US, b.Realm, tk.CName, b.SName, nil)
		}
	} else if sn := ap.Ticket.SName.NameString; len(sn) != 2 || sn[0] != "krbtgt" || sn[1] != b.Realm {
		rec.Answer = "krberror-35"
		return k.krbErr(errorcode.KRB_AP_ERR_NOT_US, b.Realm, tk.CName, b.SName, nil)
	}
	if k.now().UTC().After(tk.EndTime) {
		rec.Answer = "krberror-32"
		return k.krbErr(errorcode.KRB_AP_ERR_TKT_EXPIRED, b.Realm, tk.CName, b.SName, nil)
	}
	if err := ap.DecryptAuthenticator(tk.Key); err != nil {
		rec.Answer = "krberror-31"
		return k.krbErr(errorcode.KRB_AP_ERR_BAD_INTEGRITY, b.Realm, tk.CName, b.SName, nil)
	}
	bb, _ := tgs.ReqBody.Marshal()
	et, _ := crypto.GetEtype(tk.Key.KeyType)
	if !et.VerifyChecksum(tk.Key.KeyValue, bb, ap.Authenticator.Cksum.Checksum, keyusage.TGS_REQ_PA_TGS_REQ_AP_REQ_AUTHENTICATOR_CHKSUM) {
		rec.Answer = "krberror-41"
		return k.krbErr(errorcode.KRB_AP_ERR_MODIFIED, b.Realm, tk.CName, b.SName, nil)
	}
	// RFC 4120 3.2.3 (which 3.3.2 applies to the AP-REQ of a TGS request): the name and realm of the client in the authenticator
	// must be those of the ticket, else KRB_AP_ERR_BADMATCH (MIT's KDC does the same through krb5_rd_req)
	rec.AuthCRealm = ap.Authenticator.CRealm
	if ap.Authenticator.CRealm != tk.CRealm || !ap.Authenticator.CName.Equal(tk.CName) {
		rec.Answer = "krberror-36"
		return k.krbErr(errorcode.KRB_AP_ERR_BADMATCH, b.Realm, tk.CName, b.SName, nil)
	}
	rec.AuthOK = true
	if p := k.pert; p != nil && p.Kind == "TGS" && p.Field == "krbError" {
		if p.once {
			k.pert = nil
		}
		rec.Answer = fmt.Sprintf("krberror-%d", p.Code)
		return k.krbErr(p.Code, b.Realm, tk.CName, b.SName, nil)
	}
	renewal := types.IsFlagSet(&b.KDCOptions, flags.Renew)
	if renewal {
		if !types.IsFlagSet(&tk.Flags, flags.Renewable) || k.now().UTC().After(tk.RenewTill) {
			rec.Answer = "krberror-13"
			return k.krbErr(errorcode.KDC_ERR_BADOPTION, b.Realm, tk.CName, b.SName, nil)
		}
	}
	if p := k.pert; p != nil && p.Kind == "TGS" && p.Field == "nonce" && p.Value == "earlier" && k.lastGood["TGS"] != nil {
		if p.once {
			k.pert = nil
		}
		rec.Answer = "replayed-earlier-reply"
		return k.lastGood["TGS"]
	}
	// this KDC process serves all simulated realms; the TGS asked is that of b.Realm
	sname := b.SName
	ticketRealm := b.Realm
	spn := sname.PrincipalNameString()
	if len(sname.NameString) > 0 && sname.NameString[0] != "krbtgt" {
		if chain, ok := k.policy.Referrals[spn]; ok {
			// refer through the chain: position of this realm in the chain decides the next hop
			next := ""
			for i, r := range chain {
				if r == b.Realm && i+1 < len(chain) {
					next = chain[i+1]
				}
			}
			if next != "" {
				sname = types.PrincipalName{NameType: 2, NameString: []string{"krbtgt", next}}
			}
		}
	}
	rp, errb := k.issue(false, b.Realm, tk.CName, tk.CRealm, sname, ticketRealm, b, tk.Key, tk.AuthTime, tk.RenewTill, renewal)
	if rp == nil {
		rec.Answer = "krberror"
		return errb
	}
	perturbed := false
	if p := k.pert; p != nil && p.Kind == "TGS" {
		k.applyPerturbation(p, rp, b.Addresses)
		perturbed = true
		if p.once {
			k.pert = nil
		}
	}
	out, err := rp.encode()
	if err != nil {
		rec.Answer = "encode-error"
		return nil
	}
	rec.Answer = "issued"
	if !perturbed {
		k.lastGood["TGS"] = out
	}
	k.lastKey["TGS"] = tk.Key
	return out
}

// listen opens one UDP and one TCP socket on a loopback port and serves until close()
func (k *simKDC) listen() (string, error) {
	l, err := net.Listen("tcp", "127.0.0.1:0")
	if err != nil {
		return "", err
	}
	addr := l.Addr().String()
	u, err := net.ListenPacket("udp", addr)
	if err != nil {
		l.Close()
		return "", err
	}
	k.tcp, k.udp = append(k.tcp, l), append(k.udp, u)
	go func() {
		buf := make([]byte, 65536)
		for {
			n, a, err := u.ReadFrom(buf)
			if err != nil {
				return
			}
			req := append([]byte{}, buf[:n]...)
			if atomic.LoadInt32(&k.down) != 0 {
				continue
			}
			go func() {
				if r := k.handle(req, "udp"); r != nil {
					u.WriteTo(r, a)
				}
			}()
		}
	}()
	go func() {
		for {
			c, err := l.Accept()
			if err != nil {
				return
			}
			go func() {
				defer c.Close()
				if atomic.LoadInt32(&k.down) != 0 {
					return // an outage: connections are dropped at once
				}
				c.SetDeadline(time.Now().Add(10 * time.Second))
				h := make([]byte, 4)
				if _, err := io.ReadFull(c, h); err != nil {
					return
				}
				n := binary.BigEndian.Uint32(h)
				if n > 1<<20 {
					return
				}
				req := make([]byte, n)
				if _, err := io.ReadFull(c, req); err != nil {
					return
				}
				r := k.handle(req, "tcp")
				if r == nil {
					return
				}
				binary.BigEndian.PutUint32(h, uint32(len(r)))
				c.Write(append(h, r...))
			}()
		}
	}()
	return addr, nil
}

func (k *simKDC) close() {
	for _, l := range k.tcp {
		l.Close()
	}
	for _, u := range k.udp {
		u.Close()
	}
}

// confText renders a krb5.conf for the simulated realms
func simConf(defaultRealm string, realmKDCs map[string][]string, lib map[string]string, domainRealm map[string]string) string {
	s := "[libdefaults]\n  default_realm = " + defaultRealm + "\n  dns_lookup_kdc = false\n  dns_lookup_realm = false\n"
	for k, v := range lib {
		s += "  " + k + " = " + v + "\n"
	}
	s += "[realms]\n"
	for r, ks := range realmKDCs {
		s += "  " + r + " = {\n"
		for _, a := range ks {
			s += "    kdc = " + a + "\n"
		}
		s += "  }\n"
	}
	s += "[domain_realm]\n"
	for d, r := range domainRealm {
		s += "  " + d + " = " + r + "\n"
	}
	return s
}
