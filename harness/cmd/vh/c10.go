package main

import (
	"flag"
	"fmt"
	"math/rand"
	"strings"
	"sync"
	"sync/atomic"
	"time"

	"github.com/jcmturner/gokrb5/v8/client"
	"github.com/jcmturner/gokrb5/v8/config"
	"github.com/jcmturner/gokrb5/v8/keytab"
	"github.com/jcmturner/gokrb5/v8/messages"
	"github.com/jcmturner/gokrb5/v8/types"
)

func init() {
	register("c10", "client operation histories in scaled real time against the simulated KDC (trace for TraceC10)", cmdC10)
}

// one scenario: a configuration and a word of operations
type c10Config struct {
	Cred         string   `json:"cred"`
	Etypes       []int32  `json:"etypes"`    // default_tkt_enctypes (AS requests)
	TGSEtypes    []int32  `json:"tgsEtypes"` // default_tgs_enctypes (TGS requests)
	Preauth      bool     `json:"preauth"`
	Hints        []string `json:"hints"`
	Forwardable  bool     `json:"forwardable"`
	Proxiable    bool     `json:"proxiable"`
	Canonicalize bool     `json:"canonicalize"`
	Renewable    bool     `json:"renewable"`
	RenewLife    int      `json:"renewLife"`  // seconds, krb5.conf renew_lifetime (0 = off)
	TicketLife   int      `json:"ticketLife"` // seconds, krb5.conf ticket_lifetime
	NoAddresses  bool     `json:"noaddresses"`
	Topology     string   `json:"topology"` // single | cross (spn "X" lives in realm B, mapped by domain_realm)
	Chain        int      `json:"chain"`    // length of the referral chain for spn "R" (0 = lives in the client's realm)
	OmitStart    bool     `json:"omitStart"`
	TGSTag25     bool     `json:"tgsTag25"`
	ReplyEtypeLo bool     `json:"replyEtypeLo"`
	KDCRenewable bool     `json:"kdcRenewable"` // the KDC grants renewable tickets when asked
}

const c10Password = "c10-password"

var c10spns = map[string]string{"1": "HTTP/one.a.c10test", "2": "HTTP/two.a.c10test", "X": "HTTP/svc.b.c10test", "R": "HTTP/referred.far.example"}

func c10realm(i int) string { return fmt.Sprintf("R%d.C10.TEST", i) }

func cmdC10(args []string) error {
	fs := flag.NewFlagSet("c10", flag.ExitOnError)
	seed := fs.Int64("seed", 1, "seed")
	n := fs.Int("n", 32, "number of scenarios")
	out := fs.String("out", "trace.ndjson", "trace file")
	par := fs.Int("par", 48, "scenarios run in parallel")
	fs.Parse(args)
	r := rand.New(rand.NewSource(*seed))
	tw, err := newTrace(*out)
	if err != nil {
		return err
	}
	defer tw.close()
	type job struct {
		cfg  c10Config
		word []string
		id   int
	}
	var jobs []job
	etLists := [][]int32{{18}, {17}, {23}, {18, 17}, {17, 18, 23}, {20, 19, 18}, {16, 23}, {19}}
	hintOrders := [][]string{{"info2"}, {"info2", "info", "pwsalt"}, {"pwsalt", "info", "info2"}, {"info"}, {"info", "info2"}}
	for i := 0; i < *n; i++ {
		c := c10Config{Cred: []string{"password", "keytab"}[r.Intn(2)], Etypes: etLists[(i+int(*seed))%len(etLists)], Preauth: r.Intn(2) == 0,
			Hints: hintOrders[r.Intn(len(hintOrders))], Forwardable: r.Intn(2) == 0, Proxiable: r.Intn(3) == 0, Canonicalize: r.Intn(3) == 0,
			NoAddresses: r.Intn(3) != 0, Topology: []string{"single", "cross"}[r.Intn(2)], OmitStart: r.Intn(4) == 0, TGSTag25: r.Intn(4) == 0,
			ReplyEtypeLo: r.Intn(4) == 0, KDCRenewable: r.Intn(2) == 0}
		c.TGSEtypes = c.Etypes
		if r.Intn(2) == 0 {
			c.TGSEtypes = etLists[r.Intn(len(etLists))]
		}
		c.TicketLife = []int{3600, 86400, 4, 600}[r.Intn(4)]
		if r.Intn(2) == 0 {
			c.Renewable = true
			c.RenewLife = []int{30, 3600, 604800}[r.Intn(3)]
		}
		c.Chain = []int{0, 0, 1, 2, 3, 5, 6, 7, 8}[(i*5+int(*seed))%9]
		// the word: a seeded walk over the operations, biased to cross expiry points
		ops := []string{"L", "G1", "G2", "W", "W", "G1", "D"}
		if c.Topology == "cross" {
			ops = append(ops, "GX", "GX")
		}
		if c.Chain > 0 {
			ops = append(ops, "GR")
		}
		var w []string
		ln := 3 + r.Intn(4)
		for j := 0; j < ln; j++ {
			o := ops[r.Intn(len(ops))]
			if o == "D" && j < ln-2 {
				o = "W"
			}
			w = append(w, o)
		}
		if i%4 == 0 {
			w = []string{"L", "G1", "W", "W", "W", "G1", "G2"} // across the service ticket's expiry
		}
		if i%4 == 1 {
			w = []string{"G1", "W", "W", "W", "W", "W", "G1"} // across the TGT's expiry and its background refresh
		}
		if i%4 == 2 && c.Chain > 0 {
			w = []string{"L", "GR", "G1", "GR"}
		}
		if i%8 == 3 {
			// the KDC is away while the TGT runs out (its background refresh fails), and back afterwards; alternately with a TGT that
			// could still have been renewed by its renew-till time, and with one that cannot be renewed at all
			w = []string{"L", "G1", "O", "W", "W", "W", "W", "W", "G2", "U", "G2", "G1"}
			c.Renewable, c.KDCRenewable, c.RenewLife = i%16 == 3, i%16 == 3, 0
			if c.Renewable {
				c.RenewLife = 3600
			}
		}
		if i%8 == 7 {
			w = []string{"L", "O", "W", "G1", "W", "U", "G1", "W", "W", "W", "G2"} // a short outage
		}
		jobs = append(jobs, job{c, w, i})
	}
	sem := make(chan struct{}, *par)
	var wg sync.WaitGroup
	var emu sync.Mutex
	var firstErr error
	for _, j := range jobs {
		j := j
		wg.Add(1)
		sem <- struct{}{}
		go func() {
			defer wg.Done()
			defer func() { <-sem }()
			if err := runC10(tw, j.cfg, j.word, j.id); err != nil {
				emu.Lock()
				if firstErr == nil {
					firstErr = fmt.Errorf("scenario %d: %v", j.id, err)
				}
				emu.Unlock()
			}
		}()
	}
	wg.Wait()
	return firstErr
}

func etNames(ets []int32) string {
	var s []string
	for _, e := range ets {
		s = append(s, etypeNames[e])
	}
	return strings.Join(s, " ")
}

func runC10(tw *traceWriter, c c10Config, word []string, id int) error {
	origin := time.Now().Truncate(time.Second)
	k := newSimKDC(origin)
	k.policy = simPolicy{Preauth: c.Preauth, Hints: c.Hints, Lifetime: 3 * time.Second, TGTLifetime: 6 * time.Second, OmitStart: c.OmitStart,
		TGSEncTag25: c.TGSTag25, ReplyEtypeLo: c.ReplyEtypeLo, Referrals: map[string][]string{}}
	if c.KDCRenewable {
		k.policy.RenewLife = 12 * time.Second
	}
	allEt := []int32{18, 17, 23, 16, 19, 20}
	nRealms := c.Chain + 2
	home := c10realm(0)
	for i := 0; i < nRealms; i++ {
		if _, err := k.addPrincipal(c10realm(i), "krbtgt/"+c10realm(i), fmt.Sprintf("tgs-%d", i), allEt); err != nil {
			return err
		}
		// cross-realm keys: krbtgt/R(j)@R(i) for every pair (the TGS of R(j) finds the key through the ticket's realm R(i))
		for j := 0; j < nRealms; j++ {
			if i != j {
				if _, err := k.addPrincipal(c10realm(i), "krbtgt/"+c10realm(j), fmt.Sprintf("x-%d-%d", i, j), allEt); err != nil {
					return err
				}
			}
		}
	}
	if _, err := k.addPrincipal(home, "alice", c10Password, c.Etypes); err != nil {
		return err
	}
	for _, s := range []string{"1", "2"} {
		if _, err := k.addPrincipal(home, c10spns[s], "svc-"+s, allEt); err != nil {
			return err
		}
	}
	if _, err := k.addPrincipal(c10realm(1), c10spns["X"], "svc-x", allEt); err != nil {
		return err
	}
	// the referred service lives in the last realm of the chain; every realm before refers to the next one
	var chain []string
	for i := 0; i <= c.Chain; i++ {
		chain = append(chain, c10realm(i))
	}
	if c.Chain > 0 {
		k.policy.Referrals[c10spns["R"]] = chain
		if _, err := k.addPrincipal(c10realm(c.Chain), c10spns["R"], "svc-r", allEt); err != nil {
			return err
		}
	}
	addr, err := k.listen()
	if err != nil {
		return err
	}
	defer k.close()
	lib := map[string]string{"default_tkt_enctypes": etNames(c.Etypes), "default_tgs_enctypes": etNames(c.TGSEtypes), "permitted_enctypes": etNames(append(append([]int32{}, c.Etypes...), c.TGSEtypes...)),
		"udp_preference_limit": "1", "noaddresses": fmt.Sprint(c.NoAddresses), "forwardable": fmt.Sprint(c.Forwardable), "proxiable": fmt.Sprint(c.Proxiable),
		"canonicalize": fmt.Sprint(c.Canonicalize), "ticket_lifetime": fmt.Sprint(c.TicketLife)}
	if c.Renewable {
		lib["renew_lifetime"] = fmt.Sprint(c.RenewLife)
	}
	realmKDCs := map[string][]string{}
	for i := 0; i < nRealms; i++ {
		realmKDCs[c10realm(i)] = []string{addr}
	}
	dr := map[string]string{".a.c10test": home}
	if c.Topology == "cross" {
		dr[".b.c10test"] = c10realm(1)
	}
	cfg, err := config.NewFromString(simConf(home, realmKDCs, lib, dr))
	if err != nil {
		return err
	}
	var cl *client.Client
	if c.Cred == "keytab" {
		kt := keytab.New()
		for _, et := range c.Etypes {
			if err := kt.AddEntry("alice", home, c10Password, time.Now(), 1, et); err != nil {
				return err
			}
		}
		cl = client.NewWithKeytab("alice", home, kt, cfg, client.DisablePAFXFAST(true))
	} else {
		cl = client.NewWithPassword("alice", home, c10Password, cfg, client.DisablePAFXFAST(true))
	}
	ms := func() int64 { return int64(time.Since(origin) / time.Millisecond) }
	var ops []map[string]interface{}
	for _, o := range word {
		ev := map[string]interface{}{"op": o, "t0": ms(), "spn": "", "ok": true, "tkt": "", "key": "", "panic": ""}
		k.mu.Lock()
		ev["req0"] = len(k.requests)
		k.mu.Unlock()
		switch {
		case o == "L":
			var e error
			ev["panic"] = catch(func() { e = cl.Login() })
			ev["ok"] = e == nil
			if e != nil {
				ev["err"] = trunc(e.Error(), 200)
			}
		case o == "W":
			time.Sleep(1300 * time.Millisecond)
		case o == "O": // an outage of the KDC begins: it drops every connection
			atomic.StoreInt32(&k.down, 1)
		case o == "U": // the outage ends
			atomic.StoreInt32(&k.down, 0)
		case o == "D":
			ev["panic"] = catch(func() { cl.Destroy() })
		case strings.HasPrefix(o, "G"):
			spn := c10spns[o[1:]]
			if o == "GX" && c.Topology != "cross" {
				spn = c10spns["1"]
			}
			ev["spn"] = spn
			var tkt messages.Ticket
			var key types.EncryptionKey
			var e error
			ev["panic"] = catch(func() { tkt, key, e = cl.GetServiceTicket(spn) })
			ev["ok"] = e == nil
			if e != nil {
				ev["err"] = trunc(e.Error(), 200)
			} else {
				if len(tkt.EncPart.Cipher) >= 8 {
					ev["tkt"] = hx(tkt.EncPart.Cipher[len(tkt.EncPart.Cipher)-8:])
				}
				ev["key"] = hx(key.KeyValue)
				ev["tktSpn"] = tkt.SName.PrincipalNameString()
			}
		}
		ev["t1"] = ms() + 1
		k.mu.Lock()
		ev["req1"] = len(k.requests)
		k.mu.Unlock()
		ops = append(ops, ev)
	}
	cl.Destroy()
	time.Sleep(20 * time.Millisecond)
	k.mu.Lock()
	issued := append([]issueRec{}, k.issued...)
	reqs := append([]reqRec{}, k.requests...)
	k.mu.Unlock()
	if issued == nil {
		issued = []issueRec{}
	}
	if reqs == nil {
		reqs = []reqRec{}
	}
	known := map[string]bool{c10spns["1"]: true, c10spns["2"]: true, c10spns["X"]: true, c10spns["R"]: c.Chain > 0}
	tw.emit(map[string]interface{}{"id": id, "cfg": c, "word": word, "ops": ops, "issued": issued, "reqs": reqs, "known": known,
		"optbits": optionBits(reqs)})
	return nil
}

func trunc(s string, n int) string {
	if len(s) > n {
		return s[:n]
	}
	return s
}

// optionBits decodes the KDC option flags of each recorded request (bit numbering of RFC 4120: bit 0 is the most significant)
func optionBits(reqs []reqRec) []map[string]bool {
	out := []map[string]bool{}
	for _, r := range reqs {
		b := unhx(r.Options)
		bit := func(i int) bool { return len(b) > i/8 && b[i/8]&(0x80>>uint(i%8)) != 0 }
		out = append(out, map[string]bool{"fwd": bit(1), "prx": bit(3), "renewable": bit(8), "canon": bit(15), "renewableOK": bit(27), "renew": bit(30)})
	}
	return out
}
