package main

import (
	"flag"
	"fmt"
	"math/rand"
	"os"
	"runtime"
	"sort"
	"strings"
	"sync"
	"time"

	"github.com/jcmturner/gokrb5/v8/client"
	"github.com/jcmturner/gokrb5/v8/config"
	"github.com/jcmturner/gokrb5/v8/messages"
	"github.com/jcmturner/gokrb5/v8/types"
)

func init() {
	register("c11", "concurrent use of one client and one configuration (run the -race build; trace for TraceC11)", cmdC11)
}

func cmdC11(args []string) error {
	fs := flag.NewFlagSet("c11", flag.ExitOnError)
	seed := fs.Int64("seed", 1, "seed")
	rounds := fs.Int("rounds", 40, "rounds")
	out := fs.String("out", "trace.ndjson", "trace file")
	withDestroy := fs.Bool("destroy", false, "in every round one goroutine destroys the client while the others use it")
	fs.Parse(args)
	r := rand.New(rand.NewSource(*seed))
	tw, err := newTrace(*out)
	if err != nil {
		return err
	}
	defer tw.close()
	origin := time.Now().Truncate(time.Second)
	realm := "C11.TEST.GOKRB5"
	spns := []string{"HTTP/a.c11.test", "HTTP/b.c11.test", "HTTP/c.c11.test", "host/d.c11.test"}
	for round := 0; round < *rounds; round++ {
		k := newSimKDC(origin)
		// short TGTs so that the background renewal goroutine fires while workers are busy in the longer rounds
		k.policy = simPolicy{Lifetime: 2 * time.Second, TGTLifetime: 3 * time.Second, Hints: []string{"info2"}, Preauth: round%2 == 0}
		if round%3 == 0 {
			k.policy.RenewLife = 10 * time.Second
		}
		// every fifth round the KDC's clock is 270 s behind the client's (legal: inside the 300 s skew) and tickets live 300 s: a fresh
		// TGT is then already in the last sixth of its life, so that every service-ticket request that misses the cache refreshes the
		// session itself (ensureValidSession -> refreshSession: renewal or a new login) instead of leaving that to the background goroutine
		behind := round%5 == 4
		if behind {
			k.policy.ClockOffset, k.policy.Lifetime, k.policy.TGTLifetime = -270*time.Second, 300*time.Second, 300*time.Second
			if round%2 == 0 {
				k.policy.RenewLife = 900 * time.Second
			}
		}
		for _, p := range append([]string{"krbtgt/" + realm, "alice"}, spns...) {
			if _, err := k.addPrincipal(realm, p, "pw-"+p, []int32{17}); err != nil {
				return err
			}
		}
		nk := 1 + round%3
		var addrs []string
		for i := 0; i < nk; i++ {
			a, err := k.listen()
			if err != nil {
				return err
			}
			addrs = append(addrs, a)
		}
		lib := map[string]string{"default_tkt_enctypes": etypeNames[17], "default_tgs_enctypes": etypeNames[17], "permitted_enctypes": etypeNames[17],
			"udp_preference_limit": "1"}
		if round%3 == 0 {
			lib["renew_lifetime"] = "10"
		}
		if behind && round%2 == 0 {
			lib["renew_lifetime"] = "900"
		}
		conf := simConf(realm, map[string][]string{realm: addrs}, lib, map[string]string{".c11.test": realm})
		// password-change servers (never contacted: only their resolution is exercised)
		kps := []string{"127.0.0.1:4641", "127.0.0.1:4642", "127.0.0.1:4643", "127.0.0.1:4644"}[:2+round%3]
		kpl := ""
		for _, a := range kps {
			kpl += "    kpasswd_server = " + a + "\n"
		}
		conf = strings.Replace(conf, "  }\n", kpl+"  }\n", 1)
		cfg, err := config.NewFromString(conf)
		if err != nil {
			return err
		}
		cfgBefore, _ := cfg.JSON()
		cl := client.NewWithPassword("alice", realm, "pw-alice", cfg, client.DisablePAFXFAST(true))
		g := 2 + r.Intn(15)
		long := round%4 == 3       // a longer round: it lasts until the renewal point of the TGT (5/6 of its 3 s) has passed
		destroyMid := *withDestroy // one goroutine destroys the client while the others use it
		type res struct {
			Op      string   `json:"op"`
			SPN     string   `json:"spn"`
			Ok      bool     `json:"ok"`
			Tkt     string   `json:"tkt"`
			Key     string   `json:"key"`
			KeyEnd  string   `json:"keyEnd"` // the same key object read again when the round is over (after Destroy)
			Servers []string `json:"servers"`
			Count   int      `json:"count"`
			Panic   string   `json:"panic"`
			Err     string   `json:"err"`
		}
		var mu sync.Mutex
		var results []res
		held := map[int]types.EncryptionKey{} // index in results -> the key object a caller was handed and keeps
		add := func(x res) { mu.Lock(); results = append(results, x); mu.Unlock() }
		addHeld := func(x res, key types.EncryptionKey) {
			mu.Lock()
			results = append(results, x)
			held[len(results)-1] = key
			mu.Unlock()
		}
		var wg sync.WaitGroup
		start := make(chan struct{})
		for i := 0; i < g; i++ {
			i := i
			rr := rand.New(rand.NewSource(*seed*7919 + int64(round*100+i)))
			wg.Add(1)
			go func() {
				defer wg.Done()
				<-start
				n := 3 + rr.Intn(4)
				t0 := time.Now()
				for j := 0; j < n || (long && time.Since(t0) < 3300*time.Millisecond && j < 40); j++ {
					if destroyMid && i == 0 && j == 1 {
						x := res{Op: "destroy", Ok: true}
						x.Panic = catch(func() { cl.Destroy() })
						add(x)
						continue
					}
					switch c := rr.Intn(10); {
					case c < 5:
						spn := spns[rr.Intn(len(spns))]
						var tkt messages.Ticket
						var key types.EncryptionKey
						var e error
						x := res{Op: "get", SPN: spn}
						x.Panic = catch(func() { tkt, key, e = cl.GetServiceTicket(spn) })
						x.Ok = e == nil && x.Panic == ""
						if e != nil {
							x.Err = trunc(e.Error(), 160)
						}
						if x.Ok && len(tkt.EncPart.Cipher) >= 8 {
							x.Tkt, x.Key = hx(tkt.EncPart.Cipher[len(tkt.EncPart.Cipher)-8:]), hx(key.KeyValue)
							addHeld(x, key)
						} else {
							add(x)
						}
					case c < 7 && rr.Intn(2) == 0:
						x := res{Op: "kpasswd"}
						x.Panic = catch(func() {
							cnt, m, e := cfg.GetKpasswdServers(realm, rr.Intn(2) == 0)
							x.Ok, x.Count = e == nil, cnt
							for q := 1; q <= len(m); q++ {
								x.Servers = append(x.Servers, m[q])
							}
						})
						sort.Strings(x.Servers)
						add(x)
					case c < 8:
						x := res{Op: "kdcs"}
						x.Panic = catch(func() {
							cnt, m, e := cfg.GetKDCs(realm, rr.Intn(2) == 0)
							x.Ok, x.Count = e == nil, cnt
							for q := 1; q <= len(m); q++ {
								x.Servers = append(x.Servers, m[q])
							}
						})
						sort.Strings(x.Servers)
						add(x)
					case c < 9:
						var e error
						x := res{Op: "login"}
						x.Panic = catch(func() { e = cl.Login() })
						x.Ok = e == nil && x.Panic == ""
						if e != nil {
							x.Err = trunc(e.Error(), 160)
						}
						add(x)
					default:
						x := res{Op: "diag", Ok: true}
						x.Panic = catch(func() { var sb strings.Builder; cl.Print(&sb) })
						add(x)
					}
					if long {
						time.Sleep(time.Duration(200+rr.Intn(400)) * time.Millisecond)
					}
				}
			}()
		}
		done := make(chan struct{})
		go func() { wg.Wait(); close(done) }()
		close(start)
		deadlock := false
		select {
		case <-done:
		case <-time.After(60 * time.Second):
			deadlock = true
		}
		destroyed := make(chan struct{})
		go func() { cl.Destroy(); close(destroyed) }()
		select {
		case <-destroyed:
		case <-time.After(20 * time.Second):
			deadlock = true
		}
		cfgAfter, _ := cfg.JSON()
		k.mu.Lock()
		issued := append([]issueRec{}, k.issued...)
		k.mu.Unlock()
		k.close()
		sort.Strings(addrs)
		mu.Lock()
		for i, key := range held {
			results[i].KeyEnd = hx(key.KeyValue)
		}
		for i := range results {
			if results[i].Servers == nil {
				results[i].Servers = []string{}
			}
		}
		tw.emit(map[string]interface{}{"round": round, "g": g, "nkdc": nk, "long": long, "behind": behind, "destroyMid": destroyMid, "configured": addrs, "kpConfigured": kps, "results": results, "issued": issued,
			"deadlock": deadlock, "configUnchanged": cfgBefore == cfgAfter})
		mu.Unlock()
		if deadlock {
			buf := make([]byte, 1<<20)
			fmt.Fprintf(os.Stderr, "==== goroutines of the round that did not finish ====\n%s\n", buf[:runtime.Stack(buf, true)])
			return fmt.Errorf("watchdog: round %d did not finish (recorded as deadlock)", round)
		}
	}
	return nil
}
