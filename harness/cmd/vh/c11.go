package main

import (
	"flag"
	"fmt"
	"math/rand"
	"os"
	"runtime"
	"sort"
	"strings"
	"sync"
	"sync/atomic"
	"time"

	"github.com/jcmturner/gokrb5/v8/client"
	"github.com/jcmturner/gokrb5/v8/config"
	"github.com/jcmturner/gokrb5/v8/messages"
	"github.com/jcmturner/gokrb5/v8/types"
)

func init() {
	register("c11", "concurrent use of one client and one configuration (run the -race build; trace for TraceC11)", cmdC11)
}

func cmdC11(args []string) error {
	fs := flag.NewFlagSet("c11", flag.ExitOnError)
	seed := fs.Int64("seed", 1, "seed")
	rounds := fs.Int("rounds", 40, "rounds")
	out := fs.String("out", "trace.ndjson", "trace file")
	withDestroy := fs.Bool("destroy", false, "in every round one goroutine destroys the client while the others use it")
	stress := fs.Bool("stress", false, "free-running rounds of two seconds: twelve goroutines, a third of them logging in, the others asking for tickets that miss the cache and refresh the session by renewal")
	fs.Parse(args)
	r := rand.New(rand.NewSource(*seed))
	tw, err := newTrace(*out)
	if err != nil {
		return err
	}
	defer tw.close()
	// the hook is installed once, before any client exists; it hands every event to the observer of the round in progress
	client.VerifLockHook = func(ev, class, mode string, obj uintptr) {
		if o, ok := curLockObserver.Load().(*lockObserver); ok && o != nil {
			o.hook(ev, class, mode, obj)
		}
	}
	origin := time.Now().Truncate(time.Second)
	realm := "C11.TEST.GOKRB5"
	spns := []string{"HTTP/a.c11.test", "HTTP/b.c11.test", "HTTP/c.c11.test", "host/d.c11.test"}
	for round := 0; round < *rounds; round++ {
		k := newSimKDC(origin)
		// short TGTs so that the background renewal goroutine fires while workers are busy in the longer rounds
		k.policy = simPolicy{Lifetime: 2 * time.Second, TGTLifetime: 3 * time.Second, Hints: []string{"info2"}, Preauth: round%2 == 0}
		if round%3 == 0 {
			k.policy.RenewLife = 10 * time.Second
		}
		// every fifth round the KDC's clock is 270 s behind the client's (legal: inside the 300 s skew) and tickets live 300 s: a fresh
		// TGT is then already in the last sixth of its life, so that every service-ticket request that misses the cache refreshes the
		// session itself (ensureValidSession -> refreshSession: renewal or a new login) instead of leaving that to the background goroutine
		behind := round%5 == 4 || *stress
		if behind {
			k.policy.ClockOffset, k.policy.Lifetime, k.policy.TGTLifetime = -270*time.Second, 300*time.Second, 300*time.Second
			if round%2 == 0 || *stress {
				k.policy.RenewLife = 900 * time.Second
			}
			if *stress {
				k.policy.Lifetime = 270 * time.Second // service tickets are at their end when they arrive: every request misses the cache
			}
		}
		// in those rounds the requests go to many more services than the cache already knows, so that most of them miss the cache and
		// refresh the session (by renewal or by a new login) while other goroutines log in
		rspns := spns
		if behind {
			rspns = append([]string{}, spns...)
			for i := 0; i < 28; i++ {
				rspns = append(rspns, fmt.Sprintf("HTTP/h%d.c11.test", i))
			}
		}
		for _, p := range append([]string{"krbtgt/" + realm, "alice"}, rspns...) {
			if _, err := k.addPrincipal(realm, p, "pw-"+p, []int32{17}); err != nil {
				return err
			}
		}
		nk := 1 + round%3
		var addrs []string
		for i := 0; i < nk; i++ {
			a, err := k.listen()
			if err != nil {
				return err
			}
			addrs = append(addrs, a)
		}
		lib := map[string]string{"default_tkt_enctypes": etypeNames[17], "default_tgs_enctypes": etypeNames[17], "permitted_enctypes": etypeNames[17],
			"udp_preference_limit": "1"}
		if round%3 == 0 {
			lib["renew_lifetime"] = "10"
		}
		if behind && (round%2 == 0 || *stress) {
			lib["renew_lifetime"] = "900"
		}
		conf := simConf(realm, map[string][]string{realm: addrs}, lib, map[string]string{".c11.test": realm})
		// password-change servers (never contacted: only their resolution is exercised)
		kps := []string{"127.0.0.1:4641", "127.0.0.1:4642", "127.0.0.1:4643", "127.0.0.1:4644"}[:2+round%3]
		kpl := ""
		for _, a := range kps {
			kpl += "    kpasswd_server = " + a + "\n"
		}
		conf = strings.Replace(conf, "  }\n", kpl+"  }\n", 1)
		cfg, err := config.NewFromString(conf)
		if err != nil {
			return err
		}
		cfgBefore, _ := cfg.JSON()
		lo := newLockObserver()
		curLockObserver.Store(lo)
		cl := client.NewWithPassword("alice", realm, "pw-alice", cfg, client.DisablePAFXFAST(true))
		g := 2 + r.Intn(15)
		if *stress {
			g = 12
		}
		long := round%4 == 3       // a longer round: it lasts until the renewal point of the TGT (5/6 of its 3 s) has passed
		destroyMid := *withDestroy // one goroutine destroys the client while the others use it
		type res struct {
			Op      string   `json:"op"`
			SPN     string   `json:"spn"`
			Ok      bool     `json:"ok"`
			Tkt     string   `json:"tkt"`
			Key     string   `json:"key"`
			KeyEnd  string   `json:"keyEnd"` // the same key object read again when the round is over (after Destroy)
			Servers []string `json:"servers"`
			Count   int      `json:"count"`
			Panic   string   `json:"panic"`
			Err     string   `json:"err"`
		}
		var mu sync.Mutex
		var results []res
		held := map[int]types.EncryptionKey{} // index in results -> the key object a caller was handed and keeps
		add := func(x res) { mu.Lock(); results = append(results, x); mu.Unlock() }
		addHeld := func(x res, key types.EncryptionKey) {
			mu.Lock()
			results = append(results, x)
			held[len(results)-1] = key
			mu.Unlock()
		}
		var wg sync.WaitGroup
		start := make(chan struct{})
		for i := 0; i < g; i++ {
			i := i
			rr := rand.New(rand.NewSource(*seed*7919 + int64(round*100+i)))
			wg.Add(1)
			go func() {
				defer wg.Done()
				<-start
				n := 3 + rr.Intn(4)
				if behind {
					n = 12 + rr.Intn(9)
				}
				t0 := time.Now()
				if *stress {
					// no pauses, no bookkeeping beyond a sample: what is looked for is a schedule
					for j := 0; time.Since(t0) < 2*time.Second; j++ {
						if i%3 == 0 {
							var e error
							x := res{Op: "login"}
							x.Panic = catch(func() { e = cl.Login() })
							x.Ok = e == nil && x.Panic == ""
							if e != nil {
								x.Err = trunc(e.Error(), 160)
							}
							if j%10 == 0 || !x.Ok {
								add(x)
							}
							continue
						}
						spn := rspns[rr.Intn(len(rspns))]
						var tkt messages.Ticket
						var key types.EncryptionKey
						var e error
						x := res{Op: "get", SPN: spn}
						x.Panic = catch(func() { tkt, key, e = cl.GetServiceTicket(spn) })
						x.Ok = e == nil && x.Panic == ""
						if e != nil {
							x.Err = trunc(e.Error(), 160)
						}
						if x.Ok && len(tkt.EncPart.Cipher) >= 8 {
							x.Tkt, x.Key = hx(tkt.EncPart.Cipher[len(tkt.EncPart.Cipher)-8:]), hx(key.KeyValue)
							if j%10 == 0 {
								addHeld(x, key)
							}
						} else {
							add(x)
						}
					}
					return
				}
				for j := 0; j < n || (long && time.Since(t0) < 3300*time.Millisecond && j < 40); j++ {
					if destroyMid && i == 0 && j == 1 {
						x := res{Op: "destroy", Ok: true}
						x.Panic = catch(func() { cl.Destroy() })
						add(x)
						continue
					}
					switch c := rr.Intn(10); {
					case c < 5:
						spn := rspns[rr.Intn(len(rspns))]
						var tkt messages.Ticket
						var key types.EncryptionKey
						var e error
						x := res{Op: "get", SPN: spn}
						x.Panic = catch(func() { tkt, key, e = cl.GetServiceTicket(spn) })
						x.Ok = e == nil && x.Panic == ""
						if e != nil {
							x.Err = trunc(e.Error(), 160)
						}
						if x.Ok && len(tkt.EncPart.Cipher) >= 8 {
							x.Tkt, x.Key = hx(tkt.EncPart.Cipher[len(tkt.EncPart.Cipher)-8:]), hx(key.KeyValue)
							addHeld(x, key)
						} else {
							add(x)
						}
					case c < 7 && rr.Intn(2) == 0:
						x := res{Op: "kpasswd"}
						x.Panic = catch(func() {
							cnt, m, e := cfg.GetKpasswdServers(realm, rr.Intn(2) == 0)
							x.Ok, x.Count = e == nil, cnt
							for q := 1; q <= len(m); q++ {
								x.Servers = append(x.Servers, m[q])
							}
						})
						sort.Strings(x.Servers)
						add(x)
					case c < 8:
						x := res{Op: "kdcs"}
						x.Panic = catch(func() {
							cnt, m, e := cfg.GetKDCs(realm, rr.Intn(2) == 0)
							x.Ok, x.Count = e == nil, cnt
							for q := 1; q <= len(m); q++ {
								x.Servers = append(x.Servers, m[q])
							}
						})
						sort.Strings(x.Servers)
						add(x)
					case c < 9:
						var e error
						x := res{Op: "login"}
						x.Panic = catch(func() { e = cl.Login() })
						x.Ok = e == nil && x.Panic == ""
						if e != nil {
							x.Err = trunc(e.Error(), 160)
						}
						add(x)
					default:
						x := res{Op: "diag", Ok: true}
						x.Panic = catch(func() { var sb strings.Builder; cl.Print(&sb) })
						add(x)
					}
					if long {
						time.Sleep(time.Duration(200+rr.Intn(400)) * time.Millisecond)
					}
				}
			}()
		}
		done := make(chan struct{})
		go func() { wg.Wait(); close(done) }()
		close(start)
		deadlock := false
		select {
		case <-done:
		case <-time.After(map[bool]time.Duration{false: 60 * time.Second, true: 20 * time.Second}[*stress]):
			deadlock = true
		}
		destroyed := make(chan struct{})
		go func() { cl.Destroy(); close(destroyed) }()
		select {
		case <-destroyed:
		case <-time.After(20 * time.Second):
			deadlock = true
		}
		cfgAfter, _ := cfg.JSON()
		k.mu.Lock()
		issued := append([]issueRec{}, k.issued...)
		k.mu.Unlock()
		k.close()
		sort.Strings(addrs)
		mu.Lock()
		if *stress {
			// the issue log of such a round is long: keep the records of the tickets that were sampled
			want := map[string]bool{}
			for _, x := range results {
				want[x.Tkt] = true
			}
			var keep []issueRec
			for _, ir := range issued {
				if want[ir.TktHash] {
					keep = append(keep, ir)
				}
			}
			issued = keep
			if issued == nil {
				issued = []issueRec{}
			}
		}
		for i, key := range held {
			results[i].KeyEnd = hx(key.KeyValue)
		}
		for i := range results {
			if results[i].Servers == nil {
				results[i].Servers = []string{}
			}
		}
		nest, kdcHolding, lockEvents := lo.report()
		tw.emit(map[string]interface{}{"nestings": nest, "kdcHolding": kdcHolding, "lockEvents": lockEvents, "round": round, "g": g, "nkdc": nk, "long": long, "behind": behind, "destroyMid": destroyMid, "configured": addrs, "kpConfigured": kps, "results": results, "issued": issued,
			"deadlock": deadlock, "configUnchanged": cfgBefore == cfgAfter})
		mu.Unlock()
		if deadlock {
			buf := make([]byte, 1<<20)
			fmt.Fprintf(os.Stderr, "==== goroutines of the round that did not finish ====\n%s\n", buf[:runtime.Stack(buf, true)])
			return fmt.Errorf("watchdog: round %d did not finish (recorded as deadlock)", round)
		}
	}
	return nil
}

// ---- the locks of the client as the hooks in client/session.go, cache.go and network.go report them ------------------------
// The observer keeps, per goroutine, the locks it has requested and not yet released, and records every NESTING it sees: a lock
// requested while another is held (classes, modes, whether it is the very same lock), and every exchange with a KDC begun while
// a lock is held.  Which nestings the protocol allows is the specification's business (ClientConcurrency!Nesting, TraceC11).
var curLockObserver atomic.Value

type heldLock struct {
	class, mode string
	obj         uintptr
}
type lockNesting struct {
	Outer   string `json:"outer"`
	OMode   string `json:"omode"`
	Inner   string `json:"inner"`
	IMode   string `json:"imode"`
	SameObj bool   `json:"sameObj"`
	Site    string `json:"site"`
	N       int    `json:"n"`
}
type lockObserver struct {
	mu       sync.Mutex
	held     map[int64][]heldLock
	nestings map[string]*lockNesting
	kdc      map[string]*lockNesting // an exchange with a KDC begun while holding Outer
	events   int
}

func newLockObserver() *lockObserver {
	return &lockObserver{held: map[int64][]heldLock{}, nestings: map[string]*lockNesting{}, kdc: map[string]*lockNesting{}}
}

func callerSite() string {
	pc, _, _, ok := runtime.Caller(4)
	if !ok {
		return "?"
	}
	name := runtime.FuncForPC(pc).Name()
	return name[strings.LastIndex(name, "/")+1:]
}

func (o *lockObserver) hook(ev, class, mode string, obj uintptr) {
	g := goid()
	o.mu.Lock()
	defer o.mu.Unlock()
	o.events++
	switch ev {
	case "want":
		for _, h := range o.held[g] {
			key := h.class + h.mode + ">" + class + mode + fmt.Sprint(h.obj == obj)
			n := o.nestings[key]
			if n == nil {
				n = &lockNesting{Outer: h.class, OMode: h.mode, Inner: class, IMode: mode, SameObj: h.obj == obj, Site: callerSite()}
				o.nestings[key] = n
			}
			n.N++
		}
		o.held[g] = append(o.held[g], heldLock{class, mode, obj})
	case "rel":
		hs := o.held[g]
		for i := len(hs) - 1; i >= 0; i-- {
			if hs[i].obj == obj && hs[i].class == class && hs[i].mode == mode {
				o.held[g] = append(hs[:i], hs[i+1:]...)
				break
			}
		}
		if len(o.held[g]) == 0 {
			delete(o.held, g)
		}
	case "kdc":
		for _, h := range o.held[g] {
			key := h.class + h.mode
			n := o.kdc[key]
			if n == nil {
				n = &lockNesting{Outer: h.class, OMode: h.mode, Inner: "kdc", Site: callerSite()}
				o.kdc[key] = n
			}
			n.N++
		}
	}
}

func (o *lockObserver) report() (nest, kdc []lockNesting, events int) {
	o.mu.Lock()
	defer o.mu.Unlock()
	nest, kdc = []lockNesting{}, []lockNesting{}
	var ks []string
	for k := range o.nestings {
		ks = append(ks, k)
	}
	sort.Strings(ks)
	for _, k := range ks {
		nest = append(nest, *o.nestings[k])
	}
	ks = nil
	for k := range o.kdc {
		ks = append(ks, k)
	}
	sort.Strings(ks)
	for _, k := range ks {
		kdc = append(kdc, *o.kdc[k])
	}
	return nest, kdc, o.events
}
