package main

import (
	"fmt"
	"math/rand"
	"sync"
	"sync/atomic"
	"time"

	"github.com/jcmturner/gokrb5/v8/iana/errorcode"
	"github.com/jcmturner/gokrb5/v8/messages"
	"github.com/jcmturner/gokrb5/v8/service"
)

// The same histories at the level of the property's other observable: service.VerifyAPREQ returning success vs
// KRB_AP_ERR_REPEAT for minted AP-REQs (process-wide replay cache).

type apreqWorld struct {
	w      *ktWorld
	st     *service.Settings
	origin time.Time
	r      *rand.Rand
	n      int
}

func newAPReqWorld(r *rand.Rand) (*apreqWorld, error) {
	w, err := newKtWorld(17, r)
	if err != nil {
		return nil, err
	}
	service.GetReplayCache(24 * time.Hour)
	return &apreqWorld{w: w, st: service.NewSettings(w.kt, service.DecodePAC(false)), origin: time.Now().Truncate(time.Second), r: r}, nil
}

var c01nominal = map[string]string{"sealedBy": "sel", "kvnoLabel": "k2", "realmLabel": "R", "snameLabel": "P", "etLabel": "E",
	"tktCipher": "intact", "tktUsage": "right", "trailer": "none", "start": "past", "end": "future", "invalid": "no", "caddr": "none",
	"authKey": "session", "authUsage": "right", "authCipher": "intact", "cname": "match", "crealm": "match", "ctime": "now", "pac": "none"}

// mint returns the wire bytes of a fresh valid AP-REQ (its own client name and authenticator)
func (aw *apreqWorld) mint(tag string) ([]byte, error) {
	aw.n++
	m, err := mintAPReq(aw.w, c01nominal, c01Settings{Skew: "default", ClientAddr: "unset", Override: "none"}, aw.r, aw.origin, time.Now(),
		fmt.Sprintf("c02-%s-%d-%d", tag, aw.r.Int31(), aw.n), nil)
	if err != nil {
		return nil, err
	}
	if m.wire == nil {
		return nil, fmt.Errorf("nominal AP-REQ did not marshal")
	}
	return m.wire, nil
}

// presentAPReq verifies wire once and logs inv/ret; auth identifies the authenticator in the trace
func (aw *apreqWorld) presentAPReq(lg *c02log, t0 time.Time, wire []byte, auth absAuth) string {
	op := atomic.AddInt64(&c02op, 1)
	lg.add(atomic.AddInt64(&c02seq, 1), map[string]interface{}{"ev": "inv", "op": op, "a": auth, "now": int(time.Since(t0) / time.Millisecond)})
	r := "other"
	var ap messages.APReq
	if err := ap.Unmarshal(wire); err == nil {
		var ok bool
		var verr error
		if p := catch(func() { ok, _, verr = service.VerifyAPREQ(&ap, aw.st) }); p != "" {
			r = "panic"
		} else if ok {
			r = "fresh"
		} else if ke, isK := verr.(messages.KRBError); isK && ke.ErrorCode == errorcode.KRB_AP_ERR_REPEAT {
			r = "replay"
		} else if verr != nil {
			r = "other:" + verr.Error()
		}
	}
	lg.add(atomic.AddInt64(&c02seq, 1), map[string]interface{}{"ev": "ret", "op": op, "r": r, "now": int(time.Since(t0) / time.Millisecond)})
	return r
}

// c02apreqStress: G goroutines present the same (and a second) AP-REQ at once through VerifyAPREQ
func c02apreqStress(tw *traceWriter, r *rand.Rand, rounds int) error {
	aw, err := newAPReqWorld(r)
	if err != nil {
		return err
	}
	for round := 0; round < rounds; round++ {
		a, err := aw.mint("s")
		if err != nil {
			return err
		}
		b, err := aw.mint("s")
		if err != nil {
			return err
		}
		lg := &c02log{}
		t0 := time.Now()
		g := 2 + r.Intn(7)
		var wg sync.WaitGroup
		start := make(chan struct{})
		for i := 0; i < g; i++ {
			i := i
			wg.Add(1)
			go func() {
				defer wg.Done()
				<-start
				if round%3 == 2 && i%2 == 1 {
					aw.presentAPReq(lg, t0, b, absAuth{1, 0, 0, 0})
				} else {
					aw.presentAPReq(lg, t0, a, absAuth{0, 0, 0, 0})
				}
			}()
		}
		close(start)
		wg.Wait()
		// a late sequential replay of both
		aw.presentAPReq(lg, t0, a, absAuth{0, 0, 0, 0})
		lg.flush(tw, map[string]interface{}{"kind": "apreq-stress", "g": g})
	}
	return nil
}

// c02apreqSched: every schedule of G concurrent VerifyAPREQ calls on one AP-REQ (plus a clean-up) at the yield points
func c02apreqSched(tw *traceWriter, r *rand.Rand, ng int) error {
	aw, err := newAPReqWorld(r)
	if err != nil {
		return err
	}
	install := func(f func(string)) { service.VerifYield = f }
	for _, withClean := range []bool{false, true} {
		var cur *c02log
		_, err := exploreSchedules(install, func() []schedOp {
			wire, merr := aw.mint("d")
			if merr != nil {
				panic(merr)
			}
			cur = &c02log{}
			t0 := time.Now()
			var ops []schedOp
			for i := 0; i < ng; i++ {
				ops = append(ops, func() { aw.presentAPReq(cur, t0, wire, absAuth{0, 0, 0, 0}) })
			}
			if withClean {
				ops = append(ops, func() { service.GetReplayCache(time.Hour).ClearOldEntries(5 * time.Minute) })
			}
			return ops
		}, func(taken []int, steps []string) {
			cur.flush(tw, map[string]interface{}{"kind": "apreq-sched", "scenario": fmt.Sprintf("verifyapreq x%d clean=%v", ng, withClean), "schedule": taken, "steps": steps})
		}, 0)
		if err != nil {
			return err
		}
	}
	return nil
}
