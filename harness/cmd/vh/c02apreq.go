package main

import (
	"fmt"
	"math/rand"
	"sync"
	"sync/atomic"
	"time"

	"github.com/jcmturner/gokrb5/v8/iana/errorcode"
	"github.com/jcmturner/gokrb5/v8/messages"
	"github.com/jcmturner/gokrb5/v8/service"
)

// The same histories at the level of the property's other observable: service.VerifyAPREQ returning success vs
// KRB_AP_ERR_REPEAT for minted AP-REQs (process-wide replay cache).

type apreqWorld struct {
	w      *ktWorld
	st     *service.Settings
	origin time.Time
	r      *rand.Rand
	n      int
	unitMs int // milliseconds per time unit of the trace (0: one)
}

func (aw *apreqWorld) units(d time.Duration) int {
	if aw.unitMs > 1 {
		return int(d/time.Millisecond) / aw.unitMs
	}
	return int(d / time.Millisecond)
}

func newAPReqWorld(r *rand.Rand) (*apreqWorld, error) {
	return newAPReqWorldCache(r, true)
}

// inert = false leaves the creation of the process-wide cache to the first VerifyAPREQ, as an application does (skew: the default 5 min)
func newAPReqWorldCache(r *rand.Rand, inert bool) (*apreqWorld, error) {
	w, err := newKtWorld(17, r)
	if err != nil {
		return nil, err
	}
	if inert {
		service.GetReplayCache(24 * time.Hour)
	}
	return &apreqWorld{w: w, st: service.NewSettings(w.kt, service.DecodePAC(false)), origin: time.Now().Truncate(time.Second), r: r}, nil
}

var c01nominal = map[string]string{"sealedBy": "sel", "kvnoLabel": "k2", "realmLabel": "R", "snameLabel": "P", "etLabel": "E",
	"tktCipher": "intact", "tktUsage": "right", "trailer": "none", "start": "past", "end": "future", "invalid": "no", "caddr": "none",
	"authKey": "session", "authUsage": "right", "authCipher": "intact", "cname": "match", "crealm": "match", "ctime": "now", "pac": "none"}

// mint returns the wire bytes of a fresh valid AP-REQ (its own client name and authenticator)
func (aw *apreqWorld) mint(tag string) ([]byte, error) {
	aw.n++
	m, err := mintAPReq(aw.w, c01nominal, c01Settings{Skew: "default", ClientAddr: "unset", Override: "none"}, aw.r, aw.origin, time.Now(),
		fmt.Sprintf("c02-%s-%d-%d", tag, aw.r.Int31(), aw.n), nil)
	if err != nil {
		return nil, err
	}
	if m.wire == nil {
		return nil, fmt.Errorf("nominal AP-REQ did not marshal")
	}
	return m.wire, nil
}

// presentAPReq verifies wire once and logs inv/ret; auth identifies the authenticator in the trace
func (aw *apreqWorld) presentAPReq(lg *c02log, t0 time.Time, wire []byte, auth absAuth) string {
	op := atomic.AddInt64(&c02op, 1)
	s0 := atomic.AddInt64(&c02seq, 1)
	now0 := aw.units(time.Since(t0))
	r := "other"
	var ap messages.APReq
	if err := ap.Unmarshal(wire); err == nil {
		var ok bool
		var verr error
		if p := catch(func() { ok, _, verr = service.VerifyAPREQ(&ap, aw.st) }); p != "" {
			r = "panic"
		} else if ok {
			r = "fresh"
		} else if ke, isK := verr.(messages.KRBError); isK && ke.ErrorCode == errorcode.KRB_AP_ERR_REPEAT {
			r = "replay"
		} else if isK && ke.ErrorCode == errorcode.KRB_AP_ERR_SKEW {
			// refused for its time before the cache was asked: no event of the cache (the authenticator has left the window)
			return "skew"
		} else if verr != nil {
			r = "other:" + verr.Error()
		}
	}
	s1 := atomic.AddInt64(&c02seq, 1)
	lg.add(s0, map[string]interface{}{"ev": "inv", "op": op, "a": auth, "now": now0})
	lg.add(s1, map[string]interface{}{"ev": "ret", "op": op, "r": r, "now": aw.units(time.Since(t0))})
	return r
}

// c02apreqStress: G goroutines present the same (and a second) AP-REQ at once through VerifyAPREQ
func c02apreqStress(tw *traceWriter, r *rand.Rand, rounds int) error {
	aw, err := newAPReqWorld(r)
	if err != nil {
		return err
	}
	for round := 0; round < rounds; round++ {
		a, err := aw.mint("s")
		if err != nil {
			return err
		}
		b, err := aw.mint("s")
		if err != nil {
			return err
		}
		lg := &c02log{}
		t0 := time.Now()
		g := 2 + r.Intn(7)
		var wg sync.WaitGroup
		start := make(chan struct{})
		for i := 0; i < g; i++ {
			i := i
			wg.Add(1)
			go func() {
				defer wg.Done()
				<-start
				if round%3 == 2 && i%2 == 1 {
					aw.presentAPReq(lg, t0, b, absAuth{1, 0, 0, 0})
				} else {
					aw.presentAPReq(lg, t0, a, absAuth{0, 0, 0, 0})
				}
			}()
		}
		close(start)
		wg.Wait()
		// a late sequential replay of both
		aw.presentAPReq(lg, t0, a, absAuth{0, 0, 0, 0})
		lg.flush(tw, map[string]interface{}{"kind": "apreq-stress", "g": g})
	}
	return nil
}

// c02apreqSched: every schedule of G concurrent VerifyAPREQ calls on one AP-REQ (plus a clean-up) at the yield points
func c02apreqSched(tw *traceWriter, r *rand.Rand, ng int) error {
	aw, err := newAPReqWorld(r)
	if err != nil {
		return err
	}
	install := func(f func(string)) { service.VerifYield = f }
	for _, withClean := range []bool{false, true} {
		var cur *c02log
		_, err := exploreSchedules(install, func() []schedOp {
			wire, merr := aw.mint("d")
			if merr != nil {
				panic(merr)
			}
			cur = &c02log{}
			t0 := time.Now()
			var ops []schedOp
			for i := 0; i < ng; i++ {
				ops = append(ops, func() { aw.presentAPReq(cur, t0, wire, absAuth{0, 0, 0, 0}) })
			}
			if withClean {
				ops = append(ops, func() { service.GetReplayCache(time.Hour).ClearOldEntries(5 * time.Minute) })
			}
			return ops
		}, func(taken []int, steps []string) {
			cur.flush(tw, map[string]interface{}{"kind": "apreq-sched", "scenario": fmt.Sprintf("verifyapreq x%d clean=%v", ng, withClean), "schedule": taken, "steps": steps})
		}, 0)
		if err != nil {
			return err
		}
	}
	return nil
}

// mintDated returns a valid AP-REQ of client uniq whose authenticator is dated now, just inside the past end or just inside the
// future end of the skew window
func (aw *apreqWorld) mintDated(uniq, when string) ([]byte, error) {
	w, _, err := aw.mintDatedAt(uniq, when)
	return w, err
}

// mintDatedAt also returns the client time the authenticator carries
func (aw *apreqWorld) mintDatedAt(uniq, when string) ([]byte, time.Time, error) {
	c := map[string]string{}
	for k, v := range c01nominal {
		c[k] = v
	}
	c["ctime"] = when
	m, err := mintAPReq(aw.w, c, c01Settings{Skew: "default", ClientAddr: "unset", Override: "none"}, aw.r, aw.origin, time.Now(), uniq, nil)
	if err != nil {
		return nil, time.Time{}, err
	}
	if m.wire == nil {
		return nil, time.Time{}, fmt.Errorf("dated AP-REQ did not marshal")
	}
	ctMs, _ := m.conc["ctime"].(int64)
	return m.wire, aw.origin.Add(time.Duration(ctMs) * time.Millisecond), nil
}

// c02apreqDated: sequential histories through VerifyAPREQ on the process-wide cache AS AN APPLICATION GETS IT (created by the first
// verification, with the service's skew), over authenticators of one client dated at the two ends and in the middle of the skew window.
// Nothing has to be waited for: all of them stay acceptable for the whole history, so each is accepted exactly once.
func c02apreqDated(tw *traceWriter, r *rand.Rand, maxLen int) error {
	aw, err := newAPReqWorldCache(r, false)
	if err != nil {
		return err
	}
	aw.unitMs = 300 // the default skew is 300 s: one unit of skew/1000 is 300 ms
	whens := []string{"pastInside", "now", "futureInside"}
	ts := []int{-990, 0, 990} // in units of skew/1000
	var words [][]int
	var rec func(w []int)
	rec = func(w []int) {
		if len(w) >= 2 {
			words = append(words, w)
		}
		if len(w) == maxLen {
			return
		}
		for s := 0; s < 3; s++ {
			rec(append(append([]int{}, w...), s))
		}
	}
	rec(nil)
	for wi, w := range words {
		uniq := fmt.Sprintf("c02-dated-%d-%d", aw.r.Int31(), wi)
		var wires [3][]byte
		for i := range whens {
			if wires[i], err = aw.mintDated(uniq, whens[i]); err != nil {
				return err
			}
		}
		lg := &c02log{}
		t0 := time.Now()
		for _, sy := range w {
			aw.presentAPReq(lg, t0, wires[sy], absAuth{0, ts[sy], 0, 0})
		}
		lg.flush(tw, map[string]interface{}{"kind": "apreq-dated", "word": w})
	}
	return nil
}

// c02apreqBackground: the process-wide cache is created by the first verification with a SHORT skew (3 s), so that its own background
// clean-up - which every other driver makes inert with a 24 h window - runs many times while the histories last: an accepted AP-REQ is
// presented again after pauses that stay inside the window, and must be refused every time.
func c02apreqBackground(tw *traceWriter, r *rand.Rand, n int) error {
	aw, err := newAPReqWorldCache(r, false)
	if err != nil {
		return err
	}
	skew := 3 * time.Second
	aw.st = service.NewSettings(aw.w.kt, service.DecodePAC(false), service.MaxClockSkew(skew))
	aw.unitMs = 3
	var mu sync.Mutex
	var wg sync.WaitGroup
	var firstErr error
	for i := 0; i < n; i++ {
		i := i
		var pauses []int
		total := 0
		for total < 1700 {
			d := 150 + r.Intn(600)
			if total+d > 1800 {
				break
			}
			pauses = append(pauses, d)
			total += d
		}
		uniq := fmt.Sprintf("c02-bg-%d-%d", aw.r.Int31(), i)
		mu.Lock() // minting uses the world's random source
		wire, ct, err := aw.mintDatedAt(uniq, "now")
		mu.Unlock()
		if err != nil {
			return err
		}
		wg.Add(1)
		go func() {
			defer wg.Done()
			lg := &c02log{}
			t0 := time.Now()
			// the authenticator's own client time, in units, relative to the start of the history (a whole second plus microseconds
			// around the instant it was made: up to a second before or after)
			a := absAuth{0, aw.units(ct.Sub(t0)), 0, 0}
			aw.presentAPReq(lg, t0, wire, a)
			for _, d := range pauses {
				time.Sleep(time.Duration(d) * time.Millisecond)
				aw.presentAPReq(lg, t0, wire, a)
			}
			mu.Lock()
			lg.flush(tw, map[string]interface{}{"kind": "apreq-background", "word": pauses})
			mu.Unlock()
		}()
	}
	_ = firstErr
	wg.Wait()
	return nil
}
