package main

import (
	"flag"
	"fmt"
	"math/rand"
	"strings"
	"time"

	"github.com/jcmturner/gokrb5/v8/client"
	"github.com/jcmturner/gokrb5/v8/config"
	"github.com/jcmturner/gokrb5/v8/keytab"
	"github.com/jcmturner/gokrb5/v8/messages"
	"github.com/jcmturner/gokrb5/v8/service"
	"github.com/jcmturner/gokrb5/v8/types"
)

func init() {
	register("sys", "end-to-end scenarios (real client, simulated KDC, real service, attacker moves) for the system specification (trace for TraceK5)", cmdSys)
}

func cmdSys(args []string) error {
	fs := flag.NewFlagSet("sys", flag.ExitOnError)
	seed := fs.Int64("seed", 1, "seed")
	rounds := fs.Int("rounds", 12, "scenarios")
	out := fs.String("out", "trace.ndjson", "trace file")
	fs.Parse(args)
	r := rand.New(rand.NewSource(*seed))
	tw, err := newTrace(*out)
	if err != nil {
		return err
	}
	defer tw.close()
	service.GetReplayCache(24 * time.Hour)
	origin := time.Now().Truncate(time.Second)
	realm := "GOOD.SYS.TEST"
	spn := "HTTP/svc.sys.test"
	for round := 0; round < *rounds; round++ {
		et := allEtypes[round%len(allEtypes)]
		k := newSimKDC(origin)
		k.policy.Preauth = round%2 == 0
		tag := fmt.Sprintf("%d-%d", *seed, round)
		alice, mallory := "alice"+tag, "mallory"+tag
		for _, p := range []struct{ n, pw string }{{"krbtgt/" + realm, "tgs"}, {alice, "pw-a"}, {mallory, "pw-m"}, {spn, "svc-secret"}, {"HTTP/other.sys.test", "other-secret"}} {
			if _, err := k.addPrincipal(realm, p.n, p.pw, []int32{et}); err != nil {
				return err
			}
		}
		addr, err := k.listen()
		if err != nil {
			return err
		}
		lib := map[string]string{"default_tkt_enctypes": etypeNames[et], "default_tgs_enctypes": etypeNames[et], "permitted_enctypes": etypeNames[et], "udp_preference_limit": "1"}
		cfg, err := config.NewFromString(simConf(realm, map[string][]string{realm: {addr}}, lib, map[string]string{".sys.test": realm}))
		if err != nil {
			return err
		}
		skt := keytab.New()
		if err := skt.AddEntry(spn, realm, "svc-secret", time.Now(), 1, et); err != nil {
			return err
		}
		st := service.NewSettings(skt, service.DecodePAC(false))
		tw.emit(map[string]interface{}{"ev": "reset", "round": round, "et": et})
		logged := 0
		keyID := map[string]int{}
		flushIssues := func() {
			k.mu.Lock()
			for ; logged < len(k.issued); logged++ {
				i := k.issued[logged]
				keyID[i.KeyHex] = i.ID
				tw.emit(map[string]interface{}{"ev": "issue", "c": i.CName, "realm": realm, "s": i.SPN, "k": i.ID})
			}
			k.mu.Unlock()
		}
		type held struct {
			tkt messages.Ticket
			key types.EncryptionKey
		}
		get := func(user, pw, s string) (*held, *client.Client, error) {
			cl := client.NewWithPassword(user, realm, pw, cfg, client.DisablePAFXFAST(true))
			if err := cl.Login(); err != nil {
				return nil, nil, err
			}
			t, key, err := cl.GetServiceTicket(s)
			if err != nil {
				return nil, nil, err
			}
			flushIssues()
			tw.emit(map[string]interface{}{"ev": "store", "c": user, "realm": realm, "s": s, "k": keyID[hx(key.KeyValue)]})
			return &held{t, key}, cl, nil
		}
		a, acl, err := get(alice, "pw-a", spn)
		if err != nil {
			return err
		}
		m, mcl, err := get(mallory, "pw-m", spn)
		if err != nil {
			return err
		}
		o, ocl, err := get(alice, "pw-a", "HTTP/other.sys.test") // a ticket for another service, presented to this one
		if err != nil {
			return err
		}
		authN := 0
		present := func(t *held, sealKey types.EncryptionKey, cname, crealm string, replayOf *messages.APReq) *messages.APReq {
			var ap messages.APReq
			authN++
			id := authN
			if replayOf != nil {
				ap = *replayOf
				id = -1
			} else {
				au, _ := types.NewAuthenticator(crealm, types.PrincipalName{NameType: 1, NameString: strings.Split(cname, "/")})
				var err error
				ap, err = messages.NewAPReq(t.tkt, sealKey, au)
				if err != nil {
					panic(err)
				}
			}
			b, err := ap.Marshal()
			if err != nil {
				panic(err)
			}
			var wire messages.APReq
			if err := wire.Unmarshal(b); err != nil {
				panic(err)
			}
			ok, creds, _ := service.VerifyAPREQ(&wire, st)
			res, ic, ir := "reject", "", ""
			if ok && creds != nil {
				res, ic, ir = "accept", creds.UserName(), creds.Domain()
			}
			line := map[string]interface{}{"ev": "ap", "tk": keyID[hx(t.key.KeyValue)], "ak": keyID[hx(sealKey.KeyValue)], "c": cname, "realm": crealm,
				"id": id, "result": res, "identityC": ic, "identityRealm": ir}
			if replayOf != nil {
				line["id"] = replayIDs[replayOf]
			} else {
				replayIDs[&ap] = id
			}
			tw.emit(line)
			return &ap
		}
		// a randomised order of honest and attacker moves
		var last *messages.APReq
		moves := r.Perm(8)
		for _, mv := range moves {
			switch mv {
			case 0, 1:
				last = present(a, a.key, alice, realm, nil) // honest
			case 2:
				if last != nil {
					present(a, a.key, alice, realm, last) // replay of the last honest AP-REQ, byte for byte
				}
			case 3:
				present(m, m.key, mallory, realm, nil) // mallory as herself: legitimate
			case 4:
				present(m, m.key, mallory, "OTHER.SYS.TEST", nil) // mallory claims another realm in the authenticator
			case 5:
				present(m, m.key, alice, realm, nil) // mallory's ticket, authenticator names alice
			case 6:
				present(a, m.key, alice, realm, nil) // alice's ticket (seen on the wire), authenticator under mallory's key
			case 7:
				present(o, o.key, alice, realm, nil) // a ticket issued for another service
			}
		}
		acl.Destroy()
		mcl.Destroy()
		ocl.Destroy()
		k.close()
	}
	return nil
}

var replayIDs = map[*messages.APReq]int{}
