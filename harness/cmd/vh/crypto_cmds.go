package main

import (
	"flag"
	"fmt"
	"math/rand"

	"github.com/jcmturner/gokrb5/v8/crypto"
	"github.com/jcmturner/gokrb5/v8/crypto/etype"
)

var allEtypes = []int32{16, 17, 18, 19, 20, 23}

// usageSet is the set of key usages C05..C07 quantify over: every usage gokrb5 itself uses plus boundary values.
var usageSet = []uint32{1, 2, 3, 4, 5, 6, 7, 8, 9, 10, 11, 12, 13, 22, 23, 24, 25, 127, 128, 255, 256, 1024, 1 << 31}

func mustEtype(id int32) etype.EType {
	e, err := crypto.GetEtype(id)
	if err != nil {
		panic(err)
	}
	return e
}

// specKeyLen is the protocol key length the RFCs give for each etype (the harness must not ask the library).
func specKeyLen(et int32) int {
	switch et {
	case 16:
		return 24
	case 17, 19, 23:
		return 16
	}
	return 32
}

func randKey(r *rand.Rand, et int32) []byte {
	k := rbytes(r, specKeyLen(et))
	if et == 16 {
		// a des3 protocol key has odd parity in every byte; weak keys have probability 2^-50
		for i := range k {
			b := k[i] &^ 1
			ones := 0
			for j := uint(1); j < 8; j++ {
				if b>>j&1 == 1 {
					ones++
				}
			}
			if ones%2 == 0 {
				b |= 1
			}
			k[i] = b
		}
	}
	return k
}

func init() {
	register("c05", "encrypt/decrypt grid for all etypes (trace for TraceC05)", cmdC05)
}

func cmdC05(args []string) error {
	fs := flag.NewFlagSet("c05", flag.ExitOnError)
	seed := fs.Int64("seed", 1, "seed")
	tier := fs.String("tier", "quick", "quick|thorough")
	out := fs.String("out", "trace.ndjson", "trace file")
	gen := fs.String("gen", "", "spec-minted ciphertexts (ndjson) to decrypt with the library")
	maxLen := fs.Int("maxlen", 130, "largest plaintext length")
	fs.Parse(args)
	r := rand.New(rand.NewSource(*seed))
	tw, err := newTrace(*out)
	if err != nil {
		return err
	}
	defer tw.close()
	perCell, nRand := 3, 1
	lens := []int{}
	for n := 0; n <= *maxLen; n++ {
		lens = append(lens, n)
	}
	if *tier == "thorough" {
		perCell, nRand = len(usageSet), 10
		// beyond the block-boundary range: long messages around powers of two
		lens = append(lens, 131, 159, 160, 161, 255, 256, 257, 300, 511, 512, 513, 1000, 1023, 1024, 1025, 2048, 4099, 16384)
	}
	// one cell: two encryptions of plain under (key, u) and the decryption of the first
	cell := func(et int32, e etype.EType, key, plain []byte, u uint32) {
		line := map[string]interface{}{"ev": "enc", "et": et, "key": hx(key), "u": be32(u), "plain": hx(plain)}
		var c1, c2, back []byte
		var e1, e2, e3 error
		p := catch(func() {
			_, c1, e1 = e.EncryptMessage(key, append([]byte{}, plain...), u)
			_, c2, e2 = e.EncryptMessage(key, append([]byte{}, plain...), u)
			if e1 == nil {
				back, e3 = e.DecryptMessage(key, append([]byte{}, c1...), u)
			}
		})
		line["panic"] = p
		line["encerr"] = e1 != nil || e2 != nil
		line["cipher"] = hx(c1)
		line["cipher2"] = hx(c2)
		line["libok"] = p == "" && e1 == nil && e3 == nil
		line["lib"] = hx(back)
		tw.emit(line)
	}
	rot := int(*seed) % len(usageSet)
	sharedStage := func() {
		// ---- the same key bytes, usage and plaintext under every etype whose keys have that length, in both orders, the key held
		// in one buffer that is overwritten for every round (encryption is a function of its arguments and the confounder: nothing
		// the library remembers about an earlier call - for another etype, or for other bytes in the same slice - may change a later one)
		rounds := 6
		if *tier == "thorough" {
			rounds = 60
		}
		for _, grp := range [][]int32{{17, 19, 23}, {18, 20}, {16}} {
			buf := make([]byte, 0, 32)
			for round := 0; round < rounds; round++ {
				order := append([]int32{}, grp...)
				if round%2 == 1 {
					for i, j := 0, len(order)-1; i < j; i, j = i+1, j-1 {
						order[i], order[j] = order[j], order[i]
					}
				}
				buf = append(buf[:0], randKey(r, order[0])...)
				u := usageSet[(rot+round/2)%len(usageSet)] // two rounds in a row share the usage: only the key bytes in the buffer change
				plain := rbytes(r, []int{0, 1, 16, 33, 100, 7}[round%6])
				for rep := 0; rep < 2; rep++ {
					for _, et := range order {
						cell(et, mustEtype(et), buf, plain, u)
					}
				}
			}
		}
	}
	sharedStage() // first of all (whatever the library remembers, it remembers from the start of a process), and again after the grid
	for _, et := range allEtypes {
		e := mustEtype(et)
		for _, n := range lens {
			for j := 0; j < perCell+nRand; j++ {
				var u uint32
				if j < perCell {
					u = usageSet[(rot+n*perCell+j)%len(usageSet)]
				} else if j == perCell {
					u = uint32(1 + r.Intn(2047)) // seeded usages outside the fixed set per cell: one small,
				} else {
					u = r.Uint32() // the others over the whole 32-bit range (the usage enters key derivation through n-fold)
				}
				key := randKey(r, et)
				plain := rbytes(r, n)
				cell(et, e, key, plain, u)
			}
		}
	}
	sharedStage()
	if *gen != "" {
		err := readNDJSON(*gen, func(m map[string]interface{}) error {
			et := int32(num(m, "et"))
			e := mustEtype(et)
			ub := m["u"].([]interface{})
			var u uint32
			for _, x := range ub {
				u = u<<8 | uint32(x.(float64))
			}
			var back []byte
			var derr error
			p := catch(func() { back, derr = e.DecryptMessage(unhx(str(m, "key")), unhx(str(m, "cipher")), u) })
			m["ev"] = "dec"
			m["panic"] = p
			m["libok"] = p == "" && derr == nil
			m["lib"] = hx(back)
			tw.emit(m)
			return nil
		})
		if err != nil {
			return fmt.Errorf("reading %s: %v", *gen, err)
		}
	}
	return nil
}
