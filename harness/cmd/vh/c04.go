package main

import (
	"bytes"
	"encoding/base64"
	"encoding/binary"
	"encoding/hex"
	"flag"
	"fmt"
	"github.com/jcmturner/gofork/encoding/asn1"
	"github.com/jcmturner/gokrb5/v8/client"
	"github.com/jcmturner/gokrb5/v8/service"
	"log"
	"os"
	"regexp"
	"runtime"
	"runtime/debug"
	"sort"
	"strings"
	"sync/atomic"
	"syscall"
	"time"

	"github.com/jcmturner/gokrb5/v8/config"
	"github.com/jcmturner/gokrb5/v8/credentials"
	"github.com/jcmturner/gokrb5/v8/crypto"
	"github.com/jcmturner/gokrb5/v8/gssapi"
	"github.com/jcmturner/gokrb5/v8/kadmin"
	"github.com/jcmturner/gokrb5/v8/keytab"
	"github.com/jcmturner/gokrb5/v8/messages"
	"github.com/jcmturner/gokrb5/v8/pac"
	"github.com/jcmturner/gokrb5/v8/spnego"
	"github.com/jcmturner/gokrb5/v8/test/testdata"
	"github.com/jcmturner/gokrb5/v8/types"
)

func init() {
	register("c04", "robustness worker: one entry point, corruption classes applied to its corpus (trace for TraceC04)", cmdC04)
	register("c04list", "list the entry points of c04", func([]string) error {
		for _, n := range c04names() {
			fmt.Println(n)
		}
		return nil
	})
}

// an entry point: a function consuming external bytes, and its corpus of valid inputs
type c04entry struct {
	name   string
	format string // "der", "bin", "text"
	corpus func() [][]byte
	call   func(b []byte) error
}

func hexes(hs ...string) func() [][]byte {
	return func() [][]byte {
		var r [][]byte
		for _, h := range hs {
			b, err := hex.DecodeString(h)
			if err != nil {
				panic(err)
			}
			r = append(r, b)
		}
		return r
	}
}

var c04nilLogger = log.New(os.Stderr, "", 0)

func c04entries() []c04entry {
	key18 := types.EncryptionKey{KeyType: 18, KeyValue: make([]byte, 32)}
	var es []c04entry
	add := func(name, format string, corpus func() [][]byte, call func(b []byte) error) {
		es = append(es, c04entry{name, format, corpus, call})
	}
	// ---- Kerberos messages
	add("messages.ASReq", "der", hexes(testdata.MarshaledKRB5as_req, testdata.MarshaledKRB5as_reqOptionalsNULLexceptsecond_ticket), func(b []byte) error { var m messages.ASReq; return m.Unmarshal(b) })
	add("messages.TGSReq", "der", hexes(testdata.MarshaledKRB5tgs_req, testdata.MarshaledKRB5tgs_reqOptionalsNULLexceptsecond_ticket), func(b []byte) error { var m messages.TGSReq; return m.Unmarshal(b) })
	add("messages.KDCReqBody", "der", hexes(testdata.MarshaledKRB5kdc_req_body, testdata.MarshaledKRB5kdc_req_bodyOptionalsNULLexceptserver), func(b []byte) error { var m messages.KDCReqBody; return m.Unmarshal(b) })
	add("messages.ASRep", "der", hexes(testdata.MarshaledKRB5as_rep, testdata.MarshaledKRB5as_repOptionalsNULL), func(b []byte) error { var m messages.ASRep; return m.Unmarshal(b) })
	add("messages.TGSRep", "der", hexes(testdata.MarshaledKRB5tgs_rep, testdata.MarshaledKRB5tgs_repOptionalsNULL), func(b []byte) error { var m messages.TGSRep; return m.Unmarshal(b) })
	add("messages.EncKDCRepPart", "der", hexes(testdata.MarshaledKRB5enc_kdc_rep_part, testdata.MarshaledKRB5enc_kdc_rep_partOptionalsNULL), func(b []byte) error { var m messages.EncKDCRepPart; return m.Unmarshal(b) })
	add("messages.APReq", "der", hexes(testdata.MarshaledKRB5ap_req), func(b []byte) error { var m messages.APReq; return m.Unmarshal(b) })
	add("messages.APRep", "der", hexes(testdata.MarshaledKRB5ap_rep), func(b []byte) error { var m messages.APRep; return m.Unmarshal(b) })
	add("messages.EncAPRepPart", "der", hexes(testdata.MarshaledKRB5ap_rep_enc_part, testdata.MarshaledKRB5ap_rep_enc_partOptionalsNULL), func(b []byte) error { var m messages.EncAPRepPart; return m.Unmarshal(b) })
	add("messages.KRBError", "der", hexes(testdata.MarshaledKRB5error, testdata.MarshaledKRB5errorOptionalsNULL), func(b []byte) error { var m messages.KRBError; return m.Unmarshal(b) })
	add("messages.KRBPriv", "der", hexes(testdata.MarshaledKRB5priv), func(b []byte) error { var m messages.KRBPriv; return m.Unmarshal(b) })
	add("messages.EncKrbPrivPart", "der", hexes(testdata.MarshaledKRB5enc_priv_part, testdata.MarshaledKRB5enc_priv_partOptionalsNULL), func(b []byte) error { var m messages.EncKrbPrivPart; return m.Unmarshal(b) })
	add("messages.KRBSafe", "der", hexes(testdata.MarshaledKRB5safe, testdata.MarshaledKRB5safeOptionalsNULL), func(b []byte) error { var m messages.KRBSafe; return m.Unmarshal(b) })
	add("messages.KRBCred", "der", hexes(testdata.MarshaledKRB5cred), func(b []byte) error { var m messages.KRBCred; return m.Unmarshal(b) })
	add("messages.EncKrbCredPart", "der", hexes(testdata.MarshaledKRB5enc_cred_part, testdata.MarshaledKRB5enc_cred_partOptionalsNULL), func(b []byte) error { var m messages.EncKrbCredPart; return m.Unmarshal(b) })
	add("messages.Ticket", "der", hexes(testdata.MarshaledKRB5ticket), func(b []byte) error { var m messages.Ticket; return m.Unmarshal(b) })
	add("messages.EncTicketPart", "der", hexes(testdata.MarshaledKRB5enc_tkt_part, testdata.MarshaledKRB5enc_tkt_partOptionalsNULL), func(b []byte) error { var m messages.EncTicketPart; return m.Unmarshal(b) })
	// ---- types
	add("types.Authenticator", "der", hexes(testdata.MarshaledKRB5authenticator, testdata.MarshaledKRB5authenticatorOptionalsNULL), func(b []byte) error { var m types.Authenticator; return m.Unmarshal(b) })
	add("types.EncryptedData", "der", hexes(testdata.MarshaledKRB5enc_data, testdata.MarshaledKRB5enc_dataMSBSetkvno), func(b []byte) error { var m types.EncryptedData; return m.Unmarshal(b) })
	add("types.EncryptionKey", "der", hexes(testdata.MarshaledKRB5keyblock), func(b []byte) error { var m types.EncryptionKey; return m.Unmarshal(b) })
	add("types.PADataSequence", "der", hexes(testdata.MarshaledKRB5padata_sequence, testdata.MarshaledKRB5padataSequenceEmpty), func(b []byte) error { var m types.PADataSequence; return m.Unmarshal(b) })
	add("types.ETypeInfo", "der", hexes(testdata.MarshaledKRB5etype_info, testdata.MarshaledKRB5etype_infoOnly1, testdata.MarshaledKRB5etype_infoNoInfo), func(b []byte) error { var m types.ETypeInfo; return m.Unmarshal(b) })
	add("types.ETypeInfo2", "der", hexes(testdata.MarshaledKRB5etype_info2, testdata.MarshaledKRB5etype_info2Only1), func(b []byte) error { var m types.ETypeInfo2; return m.Unmarshal(b) })
	add("types.AuthorizationData", "der", hexes(testdata.MarshaledKRB5authorization_data), func(b []byte) error { var m types.AuthorizationData; return m.Unmarshal(b) })
	add("types.PAEncTSEnc", "der", hexes(testdata.MarshaledKRB5pa_enc_ts, testdata.MarshaledKRB5pa_enc_tsNoUsec), func(b []byte) error { var m types.PAEncTSEnc; return m.Unmarshal(b) })
	add("types.TypedDataSequence", "der", hexes(testdata.MarshaledKRB5typed_data), func(b []byte) error { var m types.TypedDataSequence; return m.Unmarshal(b) })
	// ---- key derivation from KDC supplied PA-DATA (the bytes are the value of a PA-ETYPE-INFO / PA-ETYPE-INFO2 element)
	cname := types.PrincipalName{NameType: 1, NameString: []string{"u"}}
	add("crypto.GetKeyFromPassword/info2", "der", hexes(testdata.MarshaledKRB5etype_info2, testdata.MarshaledKRB5etype_info2Only1, "3000"), func(b []byte) error {
		_, _, err := crypto.GetKeyFromPassword("pw", cname, "R", 18, types.PADataSequence{{PADataType: 19, PADataValue: b}})
		return err
	})
	add("crypto.GetKeyFromPassword/info", "der", hexes(testdata.MarshaledKRB5etype_info, testdata.MarshaledKRB5etype_infoNoInfo, "3000"), func(b []byte) error {
		_, _, err := crypto.GetKeyFromPassword("pw", cname, "R", 18, types.PADataSequence{{PADataType: 11, PADataValue: b}})
		return err
	})
	// ---- SPNEGO / GSS
	spInit := func() [][]byte {
		st := spnego.SPNEGOToken{Init: true, NegTokenInit: spnego.NegTokenInit{MechTypes: mechList("krb5_other"), MechTokenBytes: krb5MechToken([]byte{1, 0}, hexes(testdata.MarshaledKRB5ap_req)()[0])}}
		b, _ := st.Marshal()
		sr := spnego.SPNEGOToken{Resp: true, NegTokenResp: spnego.NegTokenResp{NegState: 1, SupportedMech: mechList("krb5")[0], ResponseToken: []byte{1, 2, 3}}}
		b2, _ := sr.Marshal()
		return [][]byte{b, b2}
	}
	add("spnego.SPNEGOToken", "der", spInit, func(b []byte) error { var m spnego.SPNEGOToken; return m.Unmarshal(b) })
	add("spnego.AcceptSecContext", "der", spInit, func(b []byte) error {
		var m spnego.SPNEGOToken
		if err := m.Unmarshal(b); err != nil {
			return err
		}
		kt := keytab.New()
		_, _, st := spnego.SPNEGOService(kt).AcceptSecContext(&m)
		return st
	})
	add("spnego.UnmarshalNegToken", "der", func() [][]byte {
		var out [][]byte
		for _, b := range spInit() {
			// the negotiation token inside the initial context token framing (NegTokenResp is sent bare)
			if i := bytes.Index(b, []byte{0xa0}); i >= 0 && b[0] == 0x60 {
				out = append(out, b[i:])
			} else {
				out = append(out, b)
			}
		}
		return out
	}, func(b []byte) error { _, _, err := spnego.UnmarshalNegToken(b); return err })
	// ---- further ASN.1 types with exported decoders (corpus: the MIT vector where the repository has one, else the library's own encoding)
	libDER := func(v interface{}) func() [][]byte {
		return func() [][]byte {
			b, err := asn1.Marshal(v)
			if err != nil {
				panic(err)
			}
			return [][]byte{b}
		}
	}
	add("types.ADKDCIssued", "der", hexes(testdata.MarshaledKRB5ad_kdcissued), func(b []byte) error { var m types.ADKDCIssued; return m.Unmarshal(b) })
	add("types.PAData", "der", libDER(types.PAData{PADataType: 2, PADataValue: []byte("0123456789abcdef")}), func(b []byte) error { var m types.PAData; return m.Unmarshal(b) })
	add("types.Checksum", "der", libDER(types.Checksum{CksumType: 16, Checksum: []byte("0123456789ab")}), func(b []byte) error { var m types.Checksum; return m.Unmarshal(b) })
	add("types.AuthorizationDataEntry", "der", libDER(types.AuthorizationDataEntry{ADType: 1, ADData: []byte("0123456789abcdef")}), func(b []byte) error {
		var m types.AuthorizationDataEntry
		return m.Unmarshal(b)
	})
	add("types.ETypeInfoEntry", "der", libDER(types.ETypeInfoEntry{EType: 18, Salt: []byte("REALMuser")}), func(b []byte) error { var m types.ETypeInfoEntry; return m.Unmarshal(b) })
	add("types.ParseSPNString", "text", func() [][]byte {
		return [][]byte{[]byte("HTTP/host.example.com@EXAMPLE.COM"), []byte("host/a.b"), []byte("user@R")}
	}, func(b []byte) error {
		types.ParseSPNString(string(b))
		return nil
	})
	// (credentials.Credentials.Unmarshal is not an entry point: it reads the gob the library itself wrote into the application's session
	// store - not data "originating outside the process" - and encoding/gob is documented as not hardened against hostile input)
	add("spnego.KRB5Token", "der", func() [][]byte {
		ap := hexes(testdata.MarshaledKRB5ap_req, testdata.MarshaledKRB5ap_rep, testdata.MarshaledKRB5error)()
		return [][]byte{krb5MechToken([]byte{1, 0}, ap[0]), krb5MechToken([]byte{2, 0}, ap[1]), krb5MechToken([]byte{3, 0}, ap[2])}
	}, func(b []byte) error { var m spnego.KRB5Token; return m.Unmarshal(b) })
	gssKey := types.EncryptionKey{KeyType: 17, KeyValue: make([]byte, 16)}
	wrapCorpus := func() [][]byte {
		t, _ := gssapi.NewInitiatorWrapToken([]byte("payload of the wrap token"), gssKey)
		b, _ := t.Marshal()
		return [][]byte{b}
	}
	add("gssapi.WrapToken", "bin", wrapCorpus, func(b []byte) error {
		var t gssapi.WrapToken
		if err := t.Unmarshal(b, false); err != nil {
			return err
		}
		_, err := t.Verify(gssKey, 24)
		return err
	})
	micCorpus := func() [][]byte {
		t, _ := gssapi.NewInitiatorMICToken([]byte("payload of the mic token"), gssKey)
		b, _ := t.Marshal()
		return [][]byte{b}
	}
	add("gssapi.MICToken", "bin", micCorpus, func(b []byte) error {
		var t gssapi.MICToken
		if err := t.Unmarshal(b, false); err != nil {
			return err
		}
		t.Payload = []byte("payload of the mic token")
		_, err := t.Verify(gssKey, 25)
		return err
	})
	// ---- PAC
	add("pac.PACType.Unmarshal+Process", "bin", hexes(testdata.MarshaledPAC_AD_WIN2K_PAC), func(b []byte) error {
		var p pac.PACType
		if err := p.Unmarshal(b); err != nil {
			return err
		}
		return p.ProcessPACInfoBuffers(key18, c04nilLogger)
	})
	add("pac.KerbValidationInfo", "bin", hexes(testdata.MarshaledPAC_Kerb_Validation_Info, testdata.MarshaledPAC_Kerb_Validation_Info_Trust), func(b []byte) error { var m pac.KerbValidationInfo; return m.Unmarshal(b) })
	add("pac.ClientInfo", "bin", hexes(testdata.MarshaledPAC_Client_Info), func(b []byte) error { var m pac.ClientInfo; return m.Unmarshal(b) })
	add("pac.UPNDNSInfo", "bin", hexes(testdata.MarshaledPAC_UPN_DNS_Info), func(b []byte) error { var m pac.UPNDNSInfo; return m.Unmarshal(b) })
	add("pac.SignatureData", "bin", hexes(testdata.MarshaledPAC_Server_Signature, testdata.MarshaledPAC_KDC_Signature), func(b []byte) error { var m pac.SignatureData; _, err := m.Unmarshal(b); return err })
	add("pac.ClientClaimsInfo", "bin", hexes(testdata.MarshaledPAC_ClientClaimsInfoStr, testdata.MarshaledPAC_ClientClaimsInfoMulti), func(b []byte) error { var m pac.ClientClaimsInfo; return m.Unmarshal(b) })
	add("pac.CredentialsInfo", "bin", hexes("0000000012000000"+strings.Repeat("ab", 60)), func(b []byte) error { var m pac.CredentialsInfo; return m.Unmarshal(b, key18) })
	add("messages.Ticket.GetPACType", "der", hexes(testdata.MarshaledPAC_AuthorizationData_GOKRB5, testdata.MarshaledPAC_AuthorizationData_MS, "3000"), func(b []byte) error {
		var ad types.AuthorizationData
		if err := ad.Unmarshal(b); err != nil {
			return err
		}
		t := messages.Ticket{SName: types.PrincipalName{NameType: 3, NameString: []string{"HTTP", "x"}}, Realm: "R", DecryptedEncPart: messages.EncTicketPart{AuthorizationData: ad}}
		_, _, err := t.GetPACType(keytab.New(), nil, c04nilLogger)
		return err
	})
	add("messages.Ticket.GetPACType/nil-logger", "der", hexes(testdata.MarshaledPAC_AuthorizationData_GOKRB5, "3000"), func(b []byte) error {
		var ad types.AuthorizationData
		if err := ad.Unmarshal(b); err != nil {
			return err
		}
		t := messages.Ticket{SName: types.PrincipalName{NameType: 3, NameString: []string{"HTTP", "x"}}, Realm: "R", DecryptedEncPart: messages.EncTicketPart{AuthorizationData: ad}}
		_, _, err := t.GetPACType(keytab.New(), nil, nil) // service.Settings hands a nil logger to GetPACType unless one is configured
		return err
	})
	// ---- kadmin
	add("kadmin.Reply", "bin", hexes(testdata.MarshaledKpasswd_Rep), func(b []byte) error { var m kadmin.Reply; return m.Unmarshal(b) })
	add("kadmin.Reply.Decrypt", "bin", hexes(testdata.MarshaledKpasswd_Rep), func(b []byte) error {
		var m kadmin.Reply
		if err := m.Unmarshal(b); err != nil {
			return err
		}
		return m.Decrypt(key18)
	})
	// ---- message decryption, one entry point per etype (the corpus is a genuine ciphertext)
	for _, et := range allEtypes {
		et := et
		e := mustEtype(et)
		key := make([]byte, specKeyLen(et))
		for i := range key {
			key[i] = byte(i*7 + 1)
		}
		add(fmt.Sprintf("crypto.DecryptMessage/%d", et), "bin", func() [][]byte {
			_, c, _ := e.EncryptMessage(key, []byte("a plaintext of thirty-three bytes!"), 7)
			_, c0, _ := e.EncryptMessage(key, []byte{}, 7)
			return [][]byte{c, c0}
		}, func(b []byte) error { _, err := e.DecryptMessage(key, b, 7); return err })
	}
	// ---- files and text
	add("keytab.Unmarshal", "bin", func() [][]byte {
		kt := keytab.New()
		kt.AddEntry("HTTP/a.b", "REALM.TEST", "pw", time.Unix(1500000000, 0), 2, 23)
		kt.AddEntry("user", "REALM.TEST", "pw", time.Unix(1500000001, 0), 3, 17)
		b, _ := kt.Marshal()
		return [][]byte{b}
	}, func(b []byte) error { var kt keytab.Keytab; return kt.Unmarshal(b) })
	add("credentials.CCache.Unmarshal", "bin", hexes(testdata.CCACHE_TEST), func(b []byte) error {
		var c credentials.CCache
		if err := c.Unmarshal(b); err != nil {
			return err
		}
		c.GetEntries()
		return nil
	})
	// ---- HTTP basic authentication: the bytes are the decoded credentials of an "Authorization: Basic" header (the harness encodes
	// them; corruptions act on the decoded form so that they are not all absorbed by the base64 decoder); "accepted" = the header was
	// taken apart and the log-in was attempted (no KDC is configured, so the log-in itself fails at once)
	basicCfg, _ := config.NewFromString("[libdefaults]\n  default_realm = R.TEST\n  dns_lookup_kdc = false\n  dns_lookup_realm = false\n[realms]\n  R.TEST = {\n    kdc = 127.0.0.1:1\n  }\n")
	basicSettings := NewC04BasicSettings()
	add("service.KRB5BasicAuthenticator", "bin", func() [][]byte {
		return [][]byte{[]byte("alice@NOSUCH.TEST:password"), []byte("NOSUCH.TEST\\alice:pass:word"), []byte("alice:pw")}
	}, func(b []byte) error {
		a := service.NewKRB5BasicAuthenticator(base64.StdEncoding.EncodeToString(b), basicCfg, basicSettings, client.NewSettings())
		_, _, err := a.Authenticate()
		if err != nil && strings.Contains(err.Error(), "error with user credentials during login") {
			return nil
		}
		return err
	})
	add("service.KRB5BasicAuthenticator/header", "text", func() [][]byte {
		return [][]byte{[]byte(base64.StdEncoding.EncodeToString([]byte("alice@NOSUCH.TEST:password")))}
	}, func(b []byte) error {
		a := service.NewKRB5BasicAuthenticator(string(b), basicCfg, basicSettings, client.NewSettings())
		_, _, err := a.Authenticate()
		if err != nil && strings.Contains(err.Error(), "error with user credentials during login") {
			return nil
		}
		return err
	})
	add("config.NewFromString", "text", func() [][]byte {
		return [][]byte{[]byte("[libdefaults]\n default_realm = A.B\n ticket_lifetime = 1d2h\n forwardable = yes\n default_tkt_enctypes = aes256-cts rc4-hmac\n[realms]\n A.B = {\n  kdc = k1.a.b:88\n  kdc = k2.a.b*\n  admin_server = k1.a.b\n  auth_to_local_names = {\n   x = y\n  }\n }\n[domain_realm]\n .a.b = A.B\n a.b = A.B\n")}
	}, func(b []byte) error { _, err := config.NewFromString(string(b)); return err })
	return es
}

func c04names() []string {
	var n []string
	for _, e := range c04entries() {
		n = append(n, e.name)
	}
	sort.Strings(n)
	return n
}

// ---- corruption classes -----------------------------------------------------------------------------------------------------------
type c04input struct {
	class string
	ci    int // corpus item
	idx   int // index within the class
	b     []byte
}

// derLengthOctets returns the offsets of the (first) length octet of every TLV found by a tolerant walk of b
func derLengthOctets(b []byte) []int {
	var pos []int
	var walk func(start, end, depth int)
	walk = func(start, end, depth int) {
		p := start
		for p+1 < end && depth < 12 {
			tag := b[p]
			lp := p + 1
			if tag&0x1f == 0x1f {
				return
			}
			l := int(b[lp])
			hl := 1
			if l&0x80 != 0 {
				n := l & 0x7f
				if n == 0 || n > 3 || lp+n >= end {
					return
				}
				l = 0
				for i := 1; i <= n; i++ {
					l = l<<8 | int(b[lp+i])
				}
				hl = 1 + n
			}
			pos = append(pos, lp)
			cs, ce := lp+hl, lp+hl+l
			if ce > end {
				return
			}
			if tag&0x20 != 0 || tag == 0x04 {
				walk(cs, ce, depth+1) // constructed, or an OCTET STRING that may wrap DER (best effort)
			}
			p = ce
		}
	}
	walk(0, len(b), 0)
	return pos
}

func c04inputs(e c04entry, thorough bool, each func(in c04input) bool) {
	// five fixed values, two bit flips and the two neighbours of the value that is there (an identifier becomes the next one)
	subs := func(b byte) []byte { return []byte{0x00, 0x01, 0x7f, 0x80, 0xff, b ^ 0x01, b ^ 0x80, b + 1, b - 1} }
	for ci, item := range e.corpus() {
		if !each(c04input{"valid", ci, 0, item}) {
			return
		}
		for k := 0; k < len(item); k++ {
			if !each(c04input{"truncate", ci, k, item[:k]}) {
				return
			}
		}
		idx := 0
		for pos := 0; pos < len(item); pos++ {
			var vals []byte
			if thorough {
				for v := 0; v < 256; v++ {
					vals = append(vals, byte(v))
				}
			} else if e.format == "text" {
				vals = append([]byte("#;={}[]\n\r\t ,*\"/."), 0x00, 0xff) // the characters the text format gives a meaning to
			} else {
				vals = subs(item[pos])
			}
			for _, v := range vals {
				if v == item[pos] {
					continue
				}
				m := append([]byte{}, item...)
				m[pos] = v
				idx++
				if !each(c04input{"substitute", ci, pos*256 + int(v), m}) {
					return
				}
			}
		}
		if e.format == "bin" || (thorough && e.format == "der") {
			// length / count / offset fields of the binary formats are 16, 32 or 64 bits wide in either byte order: every position is
			// overwritten with the values at which signed/unsigned arithmetic on such a field goes wrong
			words := [][]byte{{0, 0, 0, 0}, {0xff, 0xff, 0xff, 0xff}, {0xff, 0xff, 0xff, 0xfc}, {0xff, 0xff, 0xff, 0xf8}, {0x80, 0, 0, 0}, {0x7f, 0xff, 0xff, 0xff},
				{0xfc, 0xff, 0xff, 0xff}, {0xf8, 0xff, 0xff, 0xff}, {0, 0, 0, 0x80}, {0xff, 0xff, 0xff, 0x7f},
				{0xff, 0xff}, {0x80, 0x00}, {0x00, 0x80}, {0x7f, 0xff}, {0xff, 0x7f}, {0xff, 0xfe}, {0xfe, 0xff},
				{0xff, 0xff, 0xff, 0xff, 0xff, 0xff, 0xff, 0xff}, {0, 0, 0, 0, 0, 0, 0, 0x80}, {0xff, 0xff, 0xff, 0xff, 0xff, 0xff, 0xff, 0x7f},
				// a length that is too small for what it announces: 1, 2, 3, 6
				{0, 0, 0, 1}, {0, 0, 0, 2}, {0, 0, 0, 3}, {0, 0, 0, 6}, {1, 0, 0, 0}, {2, 0, 0, 0}, {3, 0, 0, 0}, {6, 0, 0, 0}, {0, 1}, {0, 2}, {1, 0}, {2, 0}}
			for pos := 0; pos < len(item); pos++ {
				for wi, w := range words {
					if pos+len(w) > len(item) || bytes.Equal(item[pos:pos+len(w)], w) {
						continue
					}
					m := append([]byte{}, item...)
					copy(m[pos:], w)
					if !each(c04input{"setword", ci, pos*64 + wi, m}) {
						return
					}
				}
			}
		}
		if e.format == "der" {
			for _, lp := range derLengthOctets(item) {
				orig := int(item[lp])
				for vi, enc := range [][]byte{{0x00}, {0x01}, {byte(orig + 1)}, {byte(orig - 1)}, {0x7f}, {0x80}, {0x81, 0xff}, {0x82, 0xff, 0xff}, {0x83, 0xff, 0xff, 0xff},
					{0x84, 0x7f, 0xff, 0xff, 0xff}, {0x84, 0xff, 0xff, 0xff, 0xff}, {0x88, 0xff, 0xff, 0xff, 0xff, 0xff, 0xff, 0xff, 0xff}} {
					m := append(append(append([]byte{}, item[:lp]...), enc...), item[lp+1:]...)
					if !each(c04input{"setlen", ci, lp*16 + vi, m}) {
						return
					}
				}
			}
		}
		if e.format == "text" {
			lines := strings.Split(string(item), "\n")
			k := 0
			for li := range lines {
				for _, repl := range []string{"", "}", "{", " x = {", "=", "= =", " [realms", "[x]", " A.B = { kdc = k }", "\t", strings.Repeat("a", 5000)} {
					cp := append([]string{}, lines...)
					cp[li] = repl
					k++
					if !each(c04input{"line", ci, k, []byte(strings.Join(cp, "\n"))}) {
						return
					}
					cp = append(append(append([]string{}, lines[:li]...), repl), lines[li:]...)
					k++
					if !each(c04input{"line", ci, k, []byte(strings.Join(cp, "\n"))}) {
						return
					}
				}
			}
		}
	}
}

var c04frame = regexp.MustCompile(`\n(github\.com/jcmturner/[^\n]+)\n`)

// topSite extracts the innermost frame inside gokrb5 or its jcmturner dependencies from a panic stack
func topSite(stack string) string {
	ms := c04frame.FindAllStringSubmatch(stack, -1)
	for _, m := range ms {
		f := m[1]
		if strings.Contains(f, "verifharness") {
			continue
		}
		if i := strings.LastIndex(f, "("); i > 0 {
			f = f[:i]
		}
		f = strings.TrimPrefix(f, "github.com/jcmturner/")
		f = strings.Replace(f, "gokrb5/v8/", "", 1)
		return f
	}
	return "unknown"
}

func panicClass(p string) string {
	for _, c := range []string{"index out of range", "slice bounds out of range", "nil pointer", "makeslice", "out of memory", "divide by zero", "nil map"} {
		if strings.Contains(p, c) {
			return c
		}
	}
	return "other: " + trunc(p, 40)
}

func cmdC04(args []string) error {
	fs := flag.NewFlagSet("c04", flag.ExitOnError)
	entry := fs.String("entry", "", "entry point name")
	tier := fs.String("tier", "quick", "quick|thorough")
	out := fs.String("out", "trace.ndjson", "trace file (appended)")
	progress := fs.String("progress", "", "mmap'ed progress file")
	skip := fs.String("skip", "", "comma separated class:ci:idx inputs to skip (they killed an earlier worker)")
	after := fs.String("after", "", "resume after this input (class:ci:idx)")
	extra := fs.String("extra", "", "file with further inputs (hex, one per line), executed as class \"fuzz\" after the enumerated classes")
	fs.Parse(args)
	var e *c04entry
	for _, x := range c04entries() {
		if x.name == *entry {
			x := x
			e = &x
		}
	}
	if e == nil {
		return fmt.Errorf("unknown entry point %q", *entry)
	}
	skips := map[string]bool{}
	for _, s := range strings.Split(*skip, ",") {
		if s != "" {
			skips[s] = true
		}
	}
	f, err := os.OpenFile(*out, os.O_APPEND|os.O_CREATE|os.O_WRONLY, 0644)
	if err != nil {
		return err
	}
	tw := &traceWriter{f: f, w: bufioWriter(f)}
	defer tw.close()
	// progress register that survives the death of this process
	var reg []byte
	if *progress != "" {
		pf, err := os.OpenFile(*progress, os.O_RDWR|os.O_CREATE, 0644)
		if err != nil {
			return err
		}
		pf.Truncate(64)
		reg, err = syscall.Mmap(int(pf.Fd()), 0, 64, syscall.PROT_READ|syscall.PROT_WRITE, syscall.MAP_SHARED)
		if err != nil {
			return err
		}
	}
	debug.SetGCPercent(400)
	type agg struct {
		n, value, errs, panics, slow, big int
		maxAlloc                          uint64
		maxRatioMilli                     uint64
		maxMs                             int64
	}
	aggs := map[string]*agg{}
	var cur atomic.Value
	cur.Store("")
	var started int64
	// watchdog: an input that runs for more than 10 s is a hang; the worker reports it and exits (the driver restarts it)
	go func() {
		for {
			time.Sleep(500 * time.Millisecond)
			s := atomic.LoadInt64(&started)
			if s != 0 && time.Now().UnixNano()-s > int64(10*time.Second) {
				tw.emit(map[string]interface{}{"ev": "fail", "entry": e.name, "kind": "timeout", "input": cur.Load().(string), "site": "unknown", "pclass": "hang", "len": 0})
				tw.close()
				os.Exit(7)
			}
		}
	}()
	nfail := 0
	var ms runtime.MemStats
	flush := func() {
		for k, a := range aggs {
			tw.emit(map[string]interface{}{"ev": "agg", "entry": e.name, "cell": k, "n": a.n, "value": a.value, "errors": a.errs, "panics": a.panics, "slow": a.slow,
				"big": a.big, "maxAlloc": a.maxAlloc, "maxAllocPermille": a.maxRatioMilli, "maxMs": a.maxMs})
		}
		aggs = map[string]*agg{}
		tw.mu.Lock()
		tw.w.Flush()
		tw.mu.Unlock()
	}
	waiting := *after != ""
	count := 0
	handle := func(in c04input) bool {
		id := fmt.Sprintf("%s:%d:%d", in.class, in.ci, in.idx)
		if waiting {
			if id == *after {
				waiting = false
			}
			return true
		}
		if skips[id] {
			return true
		}
		count++
		if count%100 == 0 {
			flush() // partial aggregates survive the death of the worker
		}
		if reg != nil {
			copy(reg[0:16], []byte(fmt.Sprintf("%-16s", in.class)))
			binary.LittleEndian.PutUint64(reg[16:], uint64(in.ci))
			binary.LittleEndian.PutUint64(reg[24:], uint64(in.idx))
			binary.LittleEndian.PutUint64(reg[32:], uint64(len(in.b)))
		}
		key := fmt.Sprintf("%s/%d", in.class, in.ci)
		a := aggs[key]
		if a == nil {
			a = &agg{}
			aggs[key] = a
		}
		a.n++
		cur.Store(id)
		buf := append([]byte{}, in.b...)
		runtime.ReadMemStats(&ms)
		before := ms.TotalAlloc
		t0 := time.Now()
		atomic.StoreInt64(&started, t0.UnixNano())
		var cerr error
		var stack string
		p := func() (p string) {
			defer func() {
				if r := recover(); r != nil {
					p = fmt.Sprint(r)
					stack = string(debug.Stack())
				}
			}()
			cerr = e.call(buf)
			return ""
		}()
		atomic.StoreInt64(&started, 0)
		el := time.Since(t0)
		runtime.ReadMemStats(&ms)
		alloc := ms.TotalAlloc - before
		bound := uint64(64*len(in.b) + 1<<20)
		if alloc > a.maxAlloc {
			a.maxAlloc = alloc
		}
		if r := alloc * 1000 / bound; r > a.maxRatioMilli {
			a.maxRatioMilli = r
		}
		if int64(el/time.Millisecond) > a.maxMs {
			a.maxMs = int64(el / time.Millisecond)
		}
		kind := ""
		switch {
		case p != "":
			a.panics++
			kind = "panic"
		case el > 2*time.Second:
			a.slow++
			kind = "slow"
		case alloc > bound:
			a.big++
			kind = "alloc"
		case cerr != nil:
			a.errs++
		default:
			a.value++
		}
		if kind != "" && nfail < 400 {
			nfail++
			site, pc := "n/a", kind
			if kind == "panic" {
				site, pc = topSite(stack), panicClass(p)
			}
			tw.emit(map[string]interface{}{"ev": "fail", "entry": e.name, "kind": kind, "input": id, "site": site, "pclass": pc, "len": len(in.b),
				"hex": trunc(hex.EncodeToString(in.b), 600), "alloc": alloc, "ms": int64(el / time.Millisecond), "panic": trunc(p, 160)})
		}
		return true
	}
	c04inputs(*e, *tier == "thorough", handle)
	if *extra != "" {
		// inputs found by the coverage-guided fuzzer (fuzz_test.go)
		if xb, err := os.ReadFile(*extra); err == nil {
			for i, ln := range strings.Split(string(xb), "\n") {
				b, err := hex.DecodeString(strings.TrimSpace(ln))
				if err != nil || (len(b) == 0 && strings.TrimSpace(ln) == "") {
					continue
				}
				handle(c04input{"fuzz", 0, i, b})
			}
		}
	}
	flush()
	return nil
}

// NewC04BasicSettings gives the service settings the basic authenticator is constructed with (never reached: no log-in succeeds)
func NewC04BasicSettings() *service.Settings {
	return service.NewSettings(keytab.New())
}
