package main

import (
	"encoding/json"
	"flag"
	"fmt"
	"sort"
	"strings"

	"github.com/jcmturner/gokrb5/v8/config"
)

func init() {
	register("c16", "krb5.conf models rendered to text: load, realm resolution, KDC selection (trace for TraceC16)", cmdC16)
}

func strs(s []string) []string {
	if s == nil {
		return []string{}
	}
	return s
}

func ints32(s []int32) []int {
	r := []int{}
	for _, x := range s {
		r = append(r, int(x))
	}
	return r
}

// projLib projects the libdefaults values the models can set, keyed by the krb5.conf key
func projLib(l config.LibDefaults) map[string]interface{} {
	b := func(v bool) map[string]interface{} { return map[string]interface{}{"b": v} }
	d := func(v int64) map[string]interface{} { return map[string]interface{}{"secs": v} }
	n := func(v int) map[string]interface{} { return map[string]interface{}{"n": v} }
	s := func(v string) map[string]interface{} { return map[string]interface{}{"s": v} }
	ids := func(v []int32) map[string]interface{} { return map[string]interface{}{"ids": ints32(v)} }
	return map[string]interface{}{
		"allow_weak_crypto": b(l.AllowWeakCrypto), "canonicalize": b(l.Canonicalize), "dns_canonicalize_hostname": b(l.DNSCanonicalizeHostname),
		"dns_lookup_kdc": b(l.DNSLookupKDC), "dns_lookup_realm": b(l.DNSLookupRealm), "forwardable": b(l.Forwardable),
		"ignore_acceptor_hostname": b(l.IgnoreAcceptorHostname), "k5login_authoritative": b(l.K5LoginAuthoritative), "noaddresses": b(l.NoAddresses),
		"proxiable": b(l.Proxiable), "rdns": b(l.RDNS), "verify_ap_req_nofail": b(l.VerifyAPReqNofail),
		"clockskew": d(int64(l.Clockskew.Seconds())), "renew_lifetime": d(int64(l.RenewLifetime.Seconds())), "ticket_lifetime": d(int64(l.TicketLifetime.Seconds())),
		"default_tgs_enctypes": ids(l.DefaultTGSEnctypeIDs), "default_tkt_enctypes": ids(l.DefaultTktEnctypeIDs), "permitted_enctypes": ids(l.PermittedEnctypeIDs),
		"ccache_type": n(l.CCacheType), "kdc_timesync": n(l.KDCTimeSync), "realm_try_domains": n(l.RealmTryDomains), "safe_checksum_type": n(l.SafeChecksumType),
		"udp_preference_limit": n(l.UDPPreferenceLimit),
		"default_realm":        s(l.DefaultRealm), "default_keytab_name": s(l.DefaultKeytabName), "default_client_keytab_name": s(l.DefaultClientKeytabName),
		"k5login_directory": s(l.K5LoginDirectory),
	}
}

func cmdC16(args []string) error {
	fs := flag.NewFlagSet("c16", flag.ExitOnError)
	out := fs.String("out", "trace.ndjson", "trace file")
	hostsF := fs.String("hosts", "hosts.ndjson", "hostnames")
	subsetsF := fs.String("subsets", "subsets.ndjson", "mapping subsets")
	confsF := fs.String("confs", "confs.ndjson", "rendered configuration models")
	fs.Parse(args)
	tw, err := newTrace(*out)
	if err != nil {
		return err
	}
	defer tw.close()
	// ---- resolution, exhaustive
	type hostRec struct {
		H []string `json:"h"`
	}
	var hosts []hostRec
	if err := readNDJSONRaw(*hostsF, func(b []byte) error {
		var h hostRec
		if err := json.Unmarshal(b, &h); err != nil {
			return err
		}
		hosts = append(hosts, h)
		return nil
	}); err != nil {
		return err
	}
	if err := readNDJSONRaw(*subsetsF, func(b []byte) error {
		var s struct {
			D [][]interface{} `json:"d"`
		}
		if err := json.Unmarshal(b, &s); err != nil {
			return err
		}
		text := "[libdefaults]\n default_realm = DEFAULT.TEST\n[domain_realm]\n"
		for i, k := range s.D {
			var labels []string
			for _, l := range k[1].([]interface{}) {
				labels = append(labels, l.(string))
			}
			name := strings.Join(labels, ".")
			if k[0].(string) == "dom" {
				name = "." + name
			}
			text += fmt.Sprintf("  %s = R%d\n", name, i+1)
		}
		cfg, cerr := config.NewFromString(text)
		for _, h := range hosts {
			line := map[string]interface{}{"ev": "resolve", "h": h.H, "d": s.D}
			got := ""
			line["panic"] = catch(func() {
				if cerr != nil {
					panic("configuration did not load: " + cerr.Error())
				}
				got = cfg.ResolveRealm(strings.Join(h.H, "."))
			})
			line["got"] = got
			tw.emit(line)
		}
		return nil
	}); err != nil {
		return err
	}
	// ---- configuration models
	return readNDJSONRaw(*confsF, func(b []byte) error {
		var m struct {
			Model json.RawMessage `json:"model"`
			Text  string          `json:"text"`
			NReal int             `json:"nrealms"`
			Names []string        `json:"realmnames"`
		}
		if err := json.Unmarshal(b, &m); err != nil {
			return err
		}
		line := map[string]interface{}{"ev": "conf", "model": m.Model, "text": m.Text}
		var cfg *config.Config
		var cerr error
		got := map[string]interface{}{"lib": map[string]interface{}{}, "realms": []interface{}{}, "domains": []interface{}{}, "kdcs": []interface{}{}, "unchanged": false}
		line["panic"] = catch(func() {
			cfg, cerr = config.NewFromString(m.Text)
			if cerr != nil || cfg == nil {
				return
			}
			got["lib"] = projLib(cfg.LibDefaults)
			var rs []interface{}
			for _, r := range cfg.Realms {
				rs = append(rs, map[string]interface{}{"name": r.Realm, "kdc": strs(r.KDC), "admin": strs(r.AdminServer), "kpasswd": strs(r.KPasswdServer),
					"master": strs(r.MasterKDC), "defaultDomain": r.DefaultDomain})
			}
			if rs == nil {
				rs = []interface{}{}
			}
			got["realms"] = rs
			var ds [][]string
			for k, v := range cfg.DomainRealm {
				ds = append(ds, []string{k, v})
			}
			sort.Slice(ds, func(i, j int) bool { return ds[i][0] < ds[j][0] })
			if ds == nil {
				ds = [][]string{}
			}
			got["domains"] = ds
			before, _ := cfg.JSON()
			var ks []interface{}
			for rep := 0; rep < 3; rep++ {
				for i, name := range m.Names {
					c, mp, e := cfg.GetKDCs(name, rep%2 == 1)
					var sv []string
					for j := 1; j <= len(mp); j++ {
						sv = append(sv, mp[j])
					}
					pc, pmp, pe := cfg.GetKpasswdServers(name, false)
					var psv []string
					for j := 1; j <= len(pmp); j++ {
						psv = append(psv, pmp[j])
					}
					ks = append(ks, map[string]interface{}{"realm": i + 1, "err": e != nil, "count": c, "servers": strs(sv),
						"perr": pe != nil, "pcount": pc, "pservers": strs(psv)})
				}
			}
			if ks == nil {
				ks = []interface{}{}
			}
			got["kdcs"] = ks
			after, _ := cfg.JSON()
			got["unchanged"] = before == after
		})
		line["err"] = cerr != nil
		if cerr != nil {
			line["errtext"] = cerr.Error()
		}
		line["got"] = got
		tw.emit(line)
		return nil
	})
}
