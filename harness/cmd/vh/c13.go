package main

// C13: Kerberos and SPNEGO messages survive encode/decode and match the RFC ASN.1.
//
// The harness has no notion of ASN.1.  For every case it receives an abstract value (JSON whose keys are the names of
// gokrb5's own struct fields) and the bytes the TLA+ specification (DER.tla / KrbASN1.tla) encoded for that value.  It
// populates the gokrb5 struct by reflection, calls the type's own Marshal, calls the type's own Unmarshal on the
// specification's bytes, projects the struct back by reflection, marshals it again, and logs everything.  TLC decides.

import (
	"bytes"
	"crypto/sha256"
	"encoding/base64"
	"encoding/json"
	"flag"
	"fmt"
	"math/rand"
	"net/http"
	"net/http/httptest"
	"reflect"
	"strconv"
	"strings"
	"time"

	"github.com/jcmturner/gofork/encoding/asn1"
	"github.com/jcmturner/gokrb5/v8/asn1tools"
	"github.com/jcmturner/gokrb5/v8/client"
	"github.com/jcmturner/gokrb5/v8/config"
	"github.com/jcmturner/gokrb5/v8/credentials"
	"github.com/jcmturner/gokrb5/v8/crypto"
	"github.com/jcmturner/gokrb5/v8/iana/flags"
	"github.com/jcmturner/gokrb5/v8/kadmin"
	"github.com/jcmturner/gokrb5/v8/keytab"
	"github.com/jcmturner/gokrb5/v8/messages"
	"github.com/jcmturner/gokrb5/v8/spnego"
	"github.com/jcmturner/gokrb5/v8/types"
)

func init() {
	register("c13", "abstract message values + the specification's DER bytes: Marshal, Unmarshal, re-Marshal, operations in between, length helpers (trace for TraceC13)", cmdC13)
}

// ---- the types under test: a constructor per specification type name --------------------------------------------------

var c13Types = map[string]func() interface{}{
	"Ticket":            func() interface{} { return &messages.Ticket{} },
	"EncTicketPart":     func() interface{} { return &messages.EncTicketPart{} },
	"Authenticator":     func() interface{} { return &types.Authenticator{} },
	"EncryptedData":     func() interface{} { return &types.EncryptedData{} },
	"EncryptionKey":     func() interface{} { return &types.EncryptionKey{} },
	"Checksum":          func() interface{} { return &types.Checksum{} },
	"PAData":            func() interface{} { return &types.PAData{} },
	"PADataSequence":    func() interface{} { return &types.PADataSequence{} },
	"AuthorizationData": func() interface{} { return &types.AuthorizationData{} },
	"KDCReqBody":        func() interface{} { return &messages.KDCReqBody{} },
	"ASReq":             func() interface{} { return &messages.ASReq{} },
	"TGSReq":            func() interface{} { return &messages.TGSReq{} },
	"ASRep":             func() interface{} { return &messages.ASRep{} },
	"TGSRep":            func() interface{} { return &messages.TGSRep{} },
	"EncASRepPart":      func() interface{} { return &messages.EncKDCRepPart{} },
	"EncTGSRepPart":     func() interface{} { return &messages.EncKDCRepPart{} },
	"APReq":             func() interface{} { return &messages.APReq{} },
	"APRep":             func() interface{} { return &messages.APRep{} },
	"EncAPRepPart":      func() interface{} { return &messages.EncAPRepPart{} },
	"KRBSafe":           func() interface{} { return &messages.KRBSafe{} },
	"KRBPriv":           func() interface{} { return &messages.KRBPriv{} },
	"EncKrbPrivPart":    func() interface{} { return &messages.EncKrbPrivPart{} },
	"KRBCred":           func() interface{} { return &messages.KRBCred{} },
	"EncKrbCredPart":    func() interface{} { return &messages.EncKrbCredPart{} },
	"KRBError":          func() interface{} { return &messages.KRBError{} },
	"ChangePasswdData":  func() interface{} { return &kadmin.ChangePasswdData{} },
	"NegTokenInit":      func() interface{} { return &spnego.NegTokenInit{} },
	"NegTokenResp":      func() interface{} { return &spnego.NegTokenResp{} },
	"SPNEGOToken":       func() interface{} { return &spnego.SPNEGOToken{} },
	"KRB5Token":         func() interface{} { return &spnego.KRB5Token{} },
}

type c13Marshaler interface{ Marshal() ([]byte, error) }
type c13Unmarshaler interface{ Unmarshal([]byte) error }

// struct fields that are not part of the ASN.1 value (results of later processing / request bookkeeping)
var c13Skip = map[string]bool{"DecryptedEncPart": true, "Authenticator": true, "Renewal": true}

var (
	tTime = reflect.TypeOf(time.Time{})
	tBits = reflect.TypeOf(asn1.BitString{})
	tOID  = reflect.TypeOf(asn1.ObjectIdentifier{})
)

func hex64(i int64) string { return fmt.Sprintf("%016x", uint64(i)) }

func unhex64(s string) int64 {
	u, err := strconv.ParseUint(s, 16, 64)
	if err != nil {
		panic("bad 64-bit hex integer " + s)
	}
	return int64(u)
}

const c13TimeLayout = "20060102150405"

// c13Build populates rv from the abstract value j.
func c13Build(rv reflect.Value, j interface{}) {
	switch rv.Type() {
	case tTime:
		t, err := time.Parse(c13TimeLayout, j.(string))
		if err != nil {
			panic(err)
		}
		rv.Set(reflect.ValueOf(t.UTC()))
		return
	case tBits:
		switch x := j.(type) {
		case []interface{}: // KerberosFlags: the RFC numbers of the bits that are set; built with the library's own SetFlag
			f := types.NewKrbFlags()
			for _, b := range x {
				types.SetFlag(&f, int(b.(float64)))
			}
			rv.Set(reflect.ValueOf(f))
		case map[string]interface{}:
			rv.Set(reflect.ValueOf(asn1.BitString{Bytes: unhx(x["Bytes"].(string)), BitLength: int(x["BitLength"].(float64))}))
		}
		return
	case tOID:
		var o asn1.ObjectIdentifier
		for _, a := range j.([]interface{}) {
			o = append(o, int(a.(float64)))
		}
		rv.Set(reflect.ValueOf(o))
		return
	}
	switch rv.Kind() {
	case reflect.Int, reflect.Int32, reflect.Int64:
		switch x := j.(type) {
		case string:
			rv.SetInt(unhex64(x))
		case float64:
			rv.SetInt(int64(x))
		}
	case reflect.Bool:
		rv.SetBool(j.(bool))
	case reflect.String:
		rv.SetString(string(unhx(j.(string))))
	case reflect.Slice:
		if rv.Type().Elem().Kind() == reflect.Uint8 {
			rv.SetBytes(append([]byte{}, unhx(j.(string))...))
			return
		}
		l := j.([]interface{})
		s := reflect.MakeSlice(rv.Type(), len(l), len(l))
		for i := range l {
			c13Build(s.Index(i), l[i])
		}
		rv.Set(s)
	case reflect.Struct:
		m := j.(map[string]interface{})
		for i := 0; i < rv.NumField(); i++ {
			f := rv.Type().Field(i)
			if f.PkgPath != "" {
				continue
			}
			if f.Anonymous {
				c13Build(rv.Field(i), j)
				continue
			}
			if v, ok := m[f.Name]; ok {
				c13Build(rv.Field(i), v)
			}
		}
	default:
		panic("c13Build: unsupported kind " + rv.Kind().String())
	}
}

// c13Proj is the inverse of c13Build; fields that hold their zero value are reported as such (Go has no "absent").
func c13Proj(rv reflect.Value) interface{} {
	switch rv.Type() {
	case tTime:
		t := rv.Interface().(time.Time)
		if t.IsZero() {
			return ""
		}
		return t.UTC().Format(c13TimeLayout)
	case tBits:
		b := rv.Interface().(asn1.BitString)
		set := []int{}
		for i := 0; i < b.BitLength && i/8 < len(b.Bytes); i++ {
			if types.IsFlagSet(&b, i) {
				set = append(set, i)
			}
		}
		return map[string]interface{}{"Bytes": hx(b.Bytes), "BitLength": b.BitLength, "Set": set}
	case tOID:
		o := []int{}
		for _, a := range rv.Interface().(asn1.ObjectIdentifier) {
			o = append(o, a)
		}
		return o
	}
	switch rv.Kind() {
	case reflect.Int, reflect.Int32, reflect.Int64:
		if rv.Type().PkgPath() == "github.com/jcmturner/gofork/encoding/asn1" || rv.Type().Name() == "NegState" {
			return rv.Int() // ENUMERATED: a small number
		}
		return hex64(rv.Int())
	case reflect.Bool:
		return rv.Bool()
	case reflect.String:
		return hx([]byte(rv.String()))
	case reflect.Slice:
		if rv.Type().Elem().Kind() == reflect.Uint8 {
			return hx(rv.Bytes())
		}
		l := []interface{}{}
		for i := 0; i < rv.Len(); i++ {
			l = append(l, c13Proj(rv.Index(i)))
		}
		return l
	case reflect.Struct:
		m := map[string]interface{}{}
		c13ProjInto(rv, m)
		return m
	}
	panic("c13Proj: unsupported kind " + rv.Kind().String())
}

func c13ProjInto(rv reflect.Value, m map[string]interface{}) {
	for i := 0; i < rv.NumField(); i++ {
		f := rv.Type().Field(i)
		if f.PkgPath != "" || c13Skip[f.Name] {
			continue
		}
		if f.Anonymous {
			c13ProjInto(rv.Field(i), m)
			continue
		}
		m[f.Name] = c13Proj(rv.Field(i))
	}
}

// ---- the two token framings have unexported state; they are built and projected through the exported API --------------

func c13BuildToken(typ string, j map[string]interface{}, spec []byte) (interface{}, error) {
	switch typ {
	case "SPNEGOToken":
		t := &spnego.SPNEGOToken{}
		c13Build(reflect.ValueOf(t).Elem(), j)
		return t, nil
	case "KRB5Token":
		// the TOK_ID is unexported: obtain a token of the right kind from the library's own Unmarshal, then replace its content
		t := &spnego.KRB5Token{}
		if err := t.Unmarshal(spec); err != nil {
			return nil, fmt.Errorf("cannot obtain a KRB5Token with this TOK_ID: %v", err)
		}
		var o asn1.ObjectIdentifier
		for _, a := range j["OID"].([]interface{}) {
			o = append(o, int(a.(float64)))
		}
		t.OID = o
		switch j["TokID"].(string) {
		case "0100":
			t.APReq = messages.APReq{}
			c13Build(reflect.ValueOf(&t.APReq).Elem(), j["Msg"])
		case "0200":
			t.APRep = messages.APRep{}
			c13Build(reflect.ValueOf(&t.APRep).Elem(), j["Msg"])
		case "0300":
			t.KRBError = messages.KRBError{}
			c13Build(reflect.ValueOf(&t.KRBError).Elem(), j["Msg"])
		}
		return t, nil
	}
	return nil, fmt.Errorf("not a token type")
}

func c13ProjToken(x interface{}) interface{} {
	switch t := x.(type) {
	case *spnego.SPNEGOToken:
		m := map[string]interface{}{"Init": t.Init, "Resp": t.Resp}
		if t.Init {
			m["Tok"] = c13Proj(reflect.ValueOf(t.NegTokenInit))
		} else {
			m["Tok"] = c13Proj(reflect.ValueOf(t.NegTokenResp))
		}
		return m
	case *spnego.KRB5Token:
		m := map[string]interface{}{"OID": c13Proj(reflect.ValueOf(t.OID))}
		switch {
		case t.IsAPReq():
			m["TokID"], m["Msg"] = "0100", c13Proj(reflect.ValueOf(t.APReq))
		case t.IsAPRep():
			m["TokID"], m["Msg"] = "0200", c13Proj(reflect.ValueOf(t.APRep))
		case t.IsKRBError():
			m["TokID"], m["Msg"] = "0300", c13Proj(reflect.ValueOf(t.KRBError))
		default:
			m["TokID"], m["Msg"] = "", ""
		}
		return m
	}
	return nil
}

func c13IsToken(typ string) bool { return typ == "SPNEGOToken" || typ == "KRB5Token" }

func c13ProjAny(typ string, x interface{}) interface{} {
	if c13IsToken(typ) {
		return c13ProjToken(x)
	}
	return c13Proj(reflect.ValueOf(x).Elem())
}

func errStr(e error) string {
	if e == nil {
		return ""
	}
	if e.Error() == "" {
		return "error"
	}
	return e.Error()
}

// ---- codec lines ---------------------------------------------------------------------------------------------------

type c13Case struct {
	ID   int             `json:"id"`
	Type string          `json:"type"`
	V    json.RawMessage `json:"v"`
	Spec string          `json:"spec"`
}

func c13Codec(tw *traceWriter, c c13Case) {
	line := map[string]interface{}{"ev": "codec", "id": c.ID, "type": c.Type, "v": c.V, "spec": c.Spec}
	mk, ok := c13Types[c.Type]
	if !ok {
		panic("unknown type " + c.Type)
	}
	var j interface{}
	if err := json.Unmarshal(c.V, &j); err != nil {
		panic(err)
	}
	spec := unhx(c.Spec)
	// value -> struct -> Marshal
	var lib []byte
	var lerr error
	hasM := false
	line["panicM"] = catch(func() {
		var x interface{}
		if c13IsToken(c.Type) {
			x, lerr = c13BuildToken(c.Type, j.(map[string]interface{}), spec)
			if lerr != nil {
				hasM = true
				return
			}
		} else {
			x = mk()
			c13Build(reflect.ValueOf(x).Elem(), j)
		}
		if m, ok := x.(c13Marshaler); ok {
			hasM = true
			lib, lerr = m.Marshal()
		}
	})
	line["hasMarshal"], line["lib"], line["liberr"] = hasM, hx(lib), errStr(lerr)
	// the library's own bytes -> Unmarshal -> projection
	var oerr error
	var projOwn interface{} = ""
	own := false
	line["panicO"] = catch(func() {
		y := mk()
		u, ok := y.(c13Unmarshaler)
		if !ok || !hasM || lerr != nil || lib == nil {
			return
		}
		own = true
		if oerr = u.Unmarshal(append([]byte{}, lib...)); oerr == nil {
			projOwn = c13ProjAny(c.Type, y)
		}
	})
	line["own"], line["oerr"], line["projOwn"] = own, errStr(oerr), projOwn
	// the specification's bytes -> Unmarshal -> projection -> Marshal again
	var uerr, rerr error
	var re []byte
	var proj interface{} = ""
	hasU := false
	line["panicU"] = catch(func() {
		y := mk()
		u, ok := y.(c13Unmarshaler)
		if !ok {
			return
		}
		hasU = true
		uerr = u.Unmarshal(append([]byte{}, spec...))
		if uerr != nil {
			return
		}
		proj = c13ProjAny(c.Type, y)
		if m, ok := y.(c13Marshaler); ok {
			re, rerr = m.Marshal()
		}
	})
	line["hasUnmarshal"], line["uerr"], line["proj"], line["re"], line["reerr"] = hasU, errStr(uerr), proj, hx(re), errStr(rerr)
	// the specification's bytes -> Unmarshal into the value that holds the previous message of this type (a receiver that is used again)
	var rerr2 error
	var projReused interface{} = ""
	reused := false
	line["panicR"] = catch(func() {
		prev, ok := c13Used[c.Type]
		if !ok {
			y := mk()
			if u, isU := y.(c13Unmarshaler); isU && u.Unmarshal(append([]byte{}, spec...)) == nil {
				c13Used[c.Type] = y
			}
			return
		}
		u := prev.(c13Unmarshaler)
		reused = true
		if rerr2 = u.Unmarshal(append([]byte{}, spec...)); rerr2 == nil {
			projReused = c13ProjAny(c.Type, prev)
		} else {
			delete(c13Used, c.Type)
		}
	})
	if line["panicR"] != "" {
		delete(c13Used, c.Type)
	}
	line["reused"], line["rerr2"], line["projReused"] = reused, errStr(rerr2), projReused
	tw.emit(line)
}

// c13Used holds, per type, the value the previous message of that type was decoded into
var c13Used = map[string]interface{}{}

// ---- operations in between: decrypt, then marshal again --------------------------------------------------------------

type c13Part struct {
	Path  []string        `json:"path"` // where the EncryptedData sits in the outer value
	Type  string          `json:"type"`
	V     json.RawMessage `json:"v"`
	Key   string          `json:"key"`
	Et    int32           `json:"et"`
	Usage uint32          `json:"usage"`
	Kvno  int             `json:"kvno"`
	Plain string          `json:"plain"` // the specification's encoding of V
}

type c13Op struct {
	ID    int                    `json:"id"`
	Op    string                 `json:"op"`
	Type  string                 `json:"type"`
	V     map[string]interface{} `json:"v"`
	Parts []c13Part              `json:"parts"`
}

func c13Key(p c13Part) types.EncryptionKey {
	return types.EncryptionKey{KeyType: p.Et, KeyValue: unhx(p.Key)}
}

// keytab holding exactly one entry for the given principal with the given key (input production only)
func c13Keytab(pn types.PrincipalName, realm string, kvno int, key types.EncryptionKey) *keytab.Keytab {
	kt := keytab.New()
	if err := kt.AddEntry("x", realm, "x", time.Unix(1500000000, 0), uint8(kvno), key.KeyType); err != nil {
		panic(err)
	}
	kt.Entries[0].Key = key
	kt.Entries[0].Principal.Components = pn.NameString
	kt.Entries[0].Principal.NumComponents = int16(len(pn.NameString))
	kt.Entries[0].KVNO = uint32(kvno)
	return kt
}

func c13RunOp(tw *traceWriter, o c13Op) {
	line := map[string]interface{}{"ev": "op", "id": o.ID, "op": o.Op, "type": o.Type}
	// encrypt the specification's plaintexts with the library (input production) and put the ciphertexts into the value
	for _, p := range o.Parts {
		ed, err := crypto.GetEncryptedData(unhx(p.Plain), c13Key(p), p.Usage, p.Kvno)
		if err != nil {
			panic(err)
		}
		m := o.V
		for _, k := range p.Path {
			m = m[k].(map[string]interface{})
		}
		m["Cipher"] = hx(ed.Cipher)
	}
	line["v"], line["parts"] = o.V, o.Parts
	var orig, after []byte
	var e0, e1, e2, e3 error
	projs := []interface{}{}
	line["panic"] = catch(func() {
		switch o.Op {
		case "ticket", "ticket_kt":
			var t, t2 messages.Ticket
			c13Build(reflect.ValueOf(&t).Elem(), o.V)
			orig, e0 = t.Marshal()
			if e0 != nil {
				return
			}
			if e1 = t2.Unmarshal(orig); e1 != nil {
				return
			}
			if o.Op == "ticket" {
				e2 = t2.Decrypt(c13Key(o.Parts[0]))
			} else {
				e2 = t2.DecryptEncPart(c13Keytab(t2.SName, t2.Realm, o.Parts[0].Kvno, c13Key(o.Parts[0])), nil)
			}
			if e2 != nil {
				return
			}
			projs = append(projs, c13Proj(reflect.ValueOf(t2.DecryptedEncPart)))
			after, e3 = t2.Marshal()
		case "apreq":
			var a, a2 messages.APReq
			c13Build(reflect.ValueOf(&a).Elem(), o.V)
			orig, e0 = a.Marshal()
			if e0 != nil {
				return
			}
			if e1 = a2.Unmarshal(orig); e1 != nil {
				return
			}
			if e2 = a2.Ticket.Decrypt(c13Key(o.Parts[0])); e2 != nil {
				return
			}
			if e2 = a2.DecryptAuthenticator(a2.Ticket.DecryptedEncPart.Key); e2 != nil {
				return
			}
			projs = append(projs, c13Proj(reflect.ValueOf(a2.Ticket.DecryptedEncPart)), c13Proj(reflect.ValueOf(a2.Authenticator)))
			after, e3 = a2.Marshal()
		case "apreq_verify":
			// in between: the service's whole verification, with a keytab principal that overrides the ticket's server name
			// (an alias: the key is found under another name); whatever Verify decides, the message stays what was received
			var a, a2 messages.APReq
			c13Build(reflect.ValueOf(&a).Elem(), o.V)
			orig, e0 = a.Marshal()
			if e0 != nil {
				return
			}
			if e1 = a2.Unmarshal(orig); e1 != nil {
				return
			}
			alias := types.PrincipalName{NameType: 1, NameString: []string{"svc-account"}}
			kt := c13Keytab(alias, a2.Ticket.Realm, o.Parts[0].Kvno, c13Key(o.Parts[0]))
			a2.Verify(kt, 5*time.Minute, types.HostAddress{}, &alias)
			if len(a2.Ticket.DecryptedEncPart.Key.KeyValue) == 0 {
				e2 = fmt.Errorf("Verify did not decrypt the ticket")
				return
			}
			if e2 = a2.DecryptAuthenticator(a2.Ticket.DecryptedEncPart.Key); e2 != nil {
				return
			}
			projs = append(projs, c13Proj(reflect.ValueOf(a2.Ticket.DecryptedEncPart)), c13Proj(reflect.ValueOf(a2.Authenticator)))
			after, e3 = a2.Marshal()
		case "krbpriv":
			var k, k2 messages.KRBPriv
			c13Build(reflect.ValueOf(&k).Elem(), o.V)
			orig, e0 = k.Marshal()
			if e0 != nil {
				return
			}
			if e1 = k2.Unmarshal(orig); e1 != nil {
				return
			}
			if e2 = k2.DecryptEncPart(c13Key(o.Parts[0])); e2 != nil {
				return
			}
			projs = append(projs, c13Proj(reflect.ValueOf(k2.DecryptedEncPart)))
			after, e3 = k2.Marshal()
		case "tgsrep":
			var k, k2 messages.TGSRep
			c13Build(reflect.ValueOf(&k).Elem(), o.V)
			orig, e0 = k.Marshal()
			if e0 != nil {
				return
			}
			if e1 = k2.Unmarshal(orig); e1 != nil {
				return
			}
			if e2 = k2.DecryptEncPart(c13Key(o.Parts[0])); e2 != nil {
				return
			}
			projs = append(projs, c13Proj(reflect.ValueOf(k2.DecryptedEncPart)))
			after, e3 = k2.Marshal()
		case "asrep":
			var k, k2 messages.ASRep
			c13Build(reflect.ValueOf(&k).Elem(), o.V)
			orig, e0 = k.Marshal()
			if e0 != nil {
				return
			}
			if e1 = k2.Unmarshal(orig); e1 != nil {
				return
			}
			cr := credentials.NewFromPrincipalName(k2.CName, k2.CRealm).WithKeytab(c13Keytab(k2.CName, k2.CRealm, o.Parts[0].Kvno, c13Key(o.Parts[0])))
			if _, e2 = k2.DecryptEncPart(cr); e2 != nil {
				return
			}
			projs = append(projs, c13Proj(reflect.ValueOf(k2.DecryptedEncPart)))
			after, e3 = k2.Marshal()
		default:
			panic("unknown op " + o.Op)
		}
	})
	line["orig"], line["after"], line["projs"] = hx(orig), hx(after), projs
	line["errs"] = []string{errStr(e0), errStr(e1), errStr(e2), errStr(e3)}
	tw.emit(line)
}

// ---- the length-octet helpers -----------------------------------------------------------------------------------------

type c13Lens struct {
	Ns   []int    `json:"ns"`
	Hdrs []string `json:"hdrs"` // per n: an identifier octet followed by the specification's length octets for n
}

func c13RunLens(tw *traceWriter, l c13Lens) {
	m := make([]string, len(l.Ns))
	nb := make([]int, len(l.Ns))
	gl := make([]int, len(l.Ns))
	p := catch(func() {
		for i, n := range l.Ns {
			m[i] = hx(asn1tools.MarshalLengthBytes(n))
			h := unhx(l.Hdrs[i])
			nb[i] = asn1tools.GetNumberBytesInLengthHeader(h)
			gl[i] = asn1tools.GetLengthFromASN(h)
		}
	})
	tw.emit(map[string]interface{}{"ev": "lens", "ns": l.Ns, "hdrs": l.Hdrs, "marshal": m, "numbytes": nb, "getlen": gl, "panic": p})
}

// ---- encodings the library produces through its own constructors ----------------------------------------------------
// Nothing is compared here: the bytes and the projection of the struct they were made from are logged; the
// specification's decoder must accept the bytes and obtain the same field values.

func c13Made(tw *traceWriter, seed int64) {
	r := rand.New(rand.NewSource(seed))
	emit := func(what, typ string, b []byte, x interface{}, err error) {
		// decrypted plaintexts may carry the cipher's padding (RFC 3961 6.3); the specification is told where the bytes come from
		line := map[string]interface{}{"ev": "made", "what": what, "type": typ, "bytes": hx(b), "err": errStr(err), "hasproj": x != nil, "proj": "",
			"decrypted": strings.Contains(what, ".EncPart") || strings.HasSuffix(what, ".Authenticator"), "skipped": false}
		if x != nil {
			line["proj"] = c13ProjAny(typ, x)
		}
		tw.emit(line)
	}
	// a constructor that could not do its work (environment, not encoding): recorded, not judged
	skip := func(what, typ string, err error) {
		tw.emit(map[string]interface{}{"ev": "made", "what": what, "type": typ, "bytes": "", "err": errStr(err), "hasproj": false, "proj": "",
			"decrypted": false, "skipped": true})
	}
	// the decrypted inside of an EncryptedData: projected through the library's own decoder
	inner := func(what, typ string, ed types.EncryptedData, key types.EncryptionKey, usage uint32) []byte {
		pb, err := crypto.DecryptEncPart(ed, key, usage)
		if err != nil {
			skip(what, typ, err)
			return nil
		}
		y := c13Types[typ]()
		if e := y.(c13Unmarshaler).Unmarshal(append([]byte{}, pb...)); e != nil {
			emit(what, typ, pb, nil, e)
			return pb
		}
		emit(what, typ, pb, y, nil)
		return pb
	}
	names := [][]string{{}, {"user"}, {"HTTP", "host.test.gokrb5"}, {"a", "b", "c"}, {"krbtgt", "TEST.GOKRB5"}}
	realm := "TEST.GOKRB5"
	p := catch(func() {
		for i, n := range names {
			k := messages.NewKRBError(types.PrincipalName{NameType: int32(i), NameString: n}, realm, []int32{0, 6, 25, 60, 127}[i], []string{"", "x", "some text", strings.Repeat("e", 200), "y"}[i])
			b, err := k.Marshal()
			emit("NewKRBError", "KRBError", b, &k, err)
		}
		cfg := config.New()
		cfg.LibDefaults.NoAddresses = true
		cfg.LibDefaults.DefaultTktEnctypeIDs = []int32{18, 17, 23}
		cfg.LibDefaults.DefaultTGSEnctypeIDs = []int32{18, 17}
		for i, et := range []int32{18, 17, 23, 16, 19, 20} {
			cname := types.PrincipalName{NameType: 1, NameString: names[1+i%2]}
			sname := types.PrincipalName{NameType: 2, NameString: names[2+i%3]}
			svcKey := randEncKey(r, et)
			kvno := 1 + r.Intn(200)
			fl := types.NewKrbFlags()
			types.SetFlag(&fl, flags.Forwardable)
			if i%2 == 0 {
				types.SetFlag(&fl, flags.Renewable)
				types.SetFlag(&fl, flags.PreAuthent)
			}
			now := time.Now().UTC()
			var start, renew time.Time
			if i%2 == 0 {
				start, renew = now.Add(-time.Minute), now.Add(48*time.Hour)
			}
			tkt, skey, err := messages.NewTicket(cname, realm, sname, realm, fl, c13Keytab(sname, realm, kvno, svcKey), et, kvno, now, start, now.Add(10*time.Hour), renew)
			if err != nil {
				skip("NewTicket", "Ticket", err)
				continue
			}
			b, err := tkt.Marshal()
			emit("NewTicket", "Ticket", b, &tkt, err)
			inner("NewTicket.EncPart", "EncTicketPart", tkt.EncPart, svcKey, 2)
			// authenticators
			auth, err := types.NewAuthenticator(realm, cname)
			if err != nil {
				skip("NewAuthenticator", "Authenticator", err)
				continue
			}
			if i%2 == 1 {
				auth.GenerateSeqNumberAndSubKey(et, len(skey.KeyValue))
			}
			if i%3 == 0 {
				auth.Cksum = types.Checksum{CksumType: 32771, Checksum: rbytes(r, 24)}
			}
			b, err = auth.Marshal()
			emit("NewAuthenticator", "Authenticator", b, &auth, err)
			ap, err := messages.NewAPReq(tkt, skey, auth)
			if err != nil {
				skip("NewAPReq", "APReq", err)
				continue
			}
			if i%2 == 0 {
				types.SetFlag(&ap.APOptions, flags.APOptionMutualRequired)
			}
			b, err = ap.Marshal()
			emit("NewAPReq", "APReq", b, &ap, err)
			usage := uint32(11)
			if len(sname.NameString) > 0 && sname.NameString[0] == "krbtgt" {
				usage = 7
			}
			inner("NewAPReq.Authenticator", "Authenticator", ap.EncryptedAuthenticator, skey, usage)
			// KDC requests
			cfg.LibDefaults.Forwardable, cfg.LibDefaults.Proxiable, cfg.LibDefaults.Canonicalize = i%2 == 0, i%3 == 0, i%4 == 1
			cfg.LibDefaults.RenewLifetime = time.Duration(i%2) * 24 * time.Hour
			cfg.LibDefaults.NoAddresses = i != 5
			as, err := messages.NewASReqForTGT(realm, cfg, cname)
			if i%3 == 2 {
				as, err = messages.NewASReqForChgPasswd(realm, cfg, cname)
			}
			if err != nil {
				skip("NewASReq", "ASReq", err)
			} else {
				if i%2 == 1 {
					as.PAData = append(as.PAData, types.PAData{PADataType: 149})
				}
				b, err = as.Marshal()
				emit("NewASReq", "ASReq", b, &as, err)
			}
			var tgs messages.TGSReq
			if i%2 == 0 {
				tgs, err = messages.NewTGSReq(cname, realm, cfg, tkt, skey, sname, i%4 == 0)
			} else {
				tgs, err = messages.NewUser2UserTGSReq(cname, realm, cfg, tkt, skey, sname, false, tkt)
			}
			if err != nil {
				skip("NewTGSReq", "TGSReq", err)
			} else {
				b, err = tgs.Marshal()
				emit("NewTGSReq", "TGSReq", b, &tgs, err)
			}
			if err == nil && len(tgs.PAData) > 0 {
				var a2 messages.APReq
				e := a2.Unmarshal(tgs.PAData[0].PADataValue)
				emit("NewTGSReq.PA-TGS-REQ", "APReq", tgs.PAData[0].PADataValue, &a2, e)
			}
			// KRB-PRIV and the change-password request built from it
			kp := messages.NewKRBPriv(messages.EncKrbPrivPart{UserData: rbytes(r, 1+r.Intn(40)), Timestamp: now, Usec: r.Intn(1000000),
				SequenceNumber: int64(r.Uint32()), SAddress: types.HostAddress{AddrType: 2, Address: []byte{10, 0, 0, byte(i)}}})
			if err = kp.EncryptEncPart(skey); err != nil {
				skip("NewKRBPriv", "KRBPriv", err)
			} else {
				b, err = kp.Marshal()
				emit("NewKRBPriv", "KRBPriv", b, &kp, err)
				inner("NewKRBPriv.EncPart", "EncKrbPrivPart", kp.EncPart, skey, 13)
			}
			req, k2, err := kadmin.ChangePasswdMsg(cname, realm, "newpassword"+fmt.Sprint(i), tkt, skey)
			if err != nil {
				skip("ChangePasswdMsg", "APReq", err)
			} else {
				b, err = req.APREQ.Marshal()
				emit("ChangePasswdMsg.APREQ", "APReq", b, &req.APREQ, err)
				b, err = req.KRBPriv.Marshal()
				emit("ChangePasswdMsg.KRBPriv", "KRBPriv", b, &req.KRBPriv, err)
				if pb := inner("ChangePasswdMsg.KRBPriv.EncPart", "EncKrbPrivPart", req.KRBPriv.EncPart, k2, 13); pb != nil {
					var ep messages.EncKrbPrivPart
					if ep.Unmarshal(pb) == nil {
						emit("ChangePasswdMsg.ChangePasswdData", "ChangePasswdData", ep.UserData, nil, nil)
					}
				}
			}
			// SPNEGO
			cl := client.NewWithPassword("user", realm, "pw", cfg)
			nt, err := spnego.NewNegTokenInitKRB5(cl, tkt, skey)
			st := spnego.SPNEGOToken{}
			if err != nil {
				skip("NewNegTokenInitKRB5", "NegTokenInit", err)
			} else {
				b, err = nt.Marshal()
				emit("NewNegTokenInitKRB5", "NegTokenInit", b, &nt, err)
				st = spnego.SPNEGOToken{Init: true, NegTokenInit: nt}
				b, err = st.Marshal()
				emit("SPNEGOToken.Init", "SPNEGOToken", b, &st, err)
				var k5 spnego.KRB5Token
				e := k5.Unmarshal(nt.MechTokenBytes)
				emit("NewKRB5TokenAPREQ", "KRB5Token", nt.MechTokenBytes, &k5, e)
			}
			resp := spnego.NegTokenResp{NegState: asn1.Enumerated(i % 4)}
			if i%2 == 0 {
				resp.SupportedMech = asn1.ObjectIdentifier{1, 2, 840, 113554, 1, 2, 2}
			}
			if i%3 == 0 {
				resp.ResponseToken = rbytes(r, 30)
			}
			b, err = resp.Marshal()
			emit("NegTokenResp", "NegTokenResp", b, &resp, err)
			st = spnego.SPNEGOToken{Resp: true, NegTokenResp: resp}
			b, err = st.Marshal()
			emit("SPNEGOToken.Resp", "SPNEGOToken", b, &st, err)
		}
		// the constant WWW-Authenticate header the HTTP service answers a defective token with
		h := spnego.SPNEGOKRB5Authenticate(http.HandlerFunc(func(http.ResponseWriter, *http.Request) {}), keytab.New())
		rq := httptest.NewRequest("GET", "http://host.test.gokrb5/", nil)
		rq.Header.Set("Authorization", "Negotiate "+base64.StdEncoding.EncodeToString([]byte{0xa1, 0x00}))
		w := httptest.NewRecorder()
		h.ServeHTTP(w, rq)
		if hv := w.Header().Get("WWW-Authenticate"); strings.HasPrefix(hv, "Negotiate ") {
			b, err := base64.StdEncoding.DecodeString(strings.TrimPrefix(hv, "Negotiate "))
			emit("HTTP reject header", "NegTokenResp", b, nil, err)
		}
	})
	if p != "" {
		tw.emit(map[string]interface{}{"ev": "made", "what": "panic: " + p, "type": "KRBError", "bytes": "", "err": p, "hasproj": false, "proj": "", "decrypted": false, "skipped": false})
	}
}

// ---- one very long octet string (encodings beyond 2^24 octets: four length octets); only digests are logged ------------

type c13BigCase struct {
	ID    int             `json:"id"`
	Type  string          `json:"type"`
	V     json.RawMessage `json:"v"`
	Field string          `json:"field"`
	N     int             `json:"n"`
	Fill  int             `json:"fill"`
	FillH string          `json:"fillhex"`
	Head  string          `json:"head"` // the specification's encoding up to the long run of the fill octet, which ends it
}

func sha(b []byte) string { h := sha256.Sum256(b); return hx(h[:]) }

func c13Big(tw *traceWriter, c c13BigCase) {
	line := map[string]interface{}{"ev": "big", "id": c.ID, "type": c.Type, "v": c.V, "field": c.Field, "n": c.N, "fill": c.Fill, "fillhex": c.FillH}
	var j interface{}
	if err := json.Unmarshal(c.V, &j); err != nil {
		panic(err)
	}
	spec := append(unhx(c.Head), bytes.Repeat([]byte{byte(c.Fill)}, c.N)...)
	line["speclen"], line["specsha"] = len(spec), sha(spec)
	var lib, re []byte
	var lerr, uerr, rerr error
	var proj interface{} = ""
	line["panic"] = catch(func() {
		x := c13Types[c.Type]()
		c13Build(reflect.ValueOf(x).Elem(), j)
		reflect.ValueOf(x).Elem().FieldByName(c.Field).SetBytes(bytes.Repeat([]byte{byte(c.Fill)}, c.N))
		lib, lerr = x.(c13Marshaler).Marshal()
		y := c13Types[c.Type]()
		if uerr = y.(c13Unmarshaler).Unmarshal(spec); uerr != nil {
			return
		}
		re, rerr = y.(c13Marshaler).Marshal()
		f := reflect.ValueOf(y).Elem().FieldByName(c.Field)
		h := sha256.Sum256(f.Bytes())
		line["fieldlen"] = f.Len()
		f.SetBytes(h[:]) // the projection carries the digest of the long field
		proj = c13Proj(reflect.ValueOf(y).Elem())
	})
	line["liblen"], line["libsha"], line["liberr"] = len(lib), sha(lib), errStr(lerr)
	line["uerr"], line["proj"], line["relen"], line["resha"], line["reerr"] = errStr(uerr), proj, len(re), sha(re), errStr(rerr)
	if _, ok := line["fieldlen"]; !ok {
		line["fieldlen"] = -1
	}
	tw.emit(line)
}

func cmdC13(args []string) error {
	fs := flag.NewFlagSet("c13", flag.ExitOnError)
	out := fs.String("out", "trace.ndjson", "trace file")
	cases := fs.String("cases", "enc.ndjson", "abstract values with the specification's encodings")
	ops := fs.String("ops", "", "operation cases with the specification's plaintexts")
	lens := fs.String("lens", "", "length-octet cases")
	made := fs.Int64("made", 0, "seed for the constructor-made encodings (0 = none)")
	bigs := fs.String("bigs", "", "cases with one very long octet string")
	fs.Parse(args)
	tw, err := newTrace(*out)
	if err != nil {
		return err
	}
	defer tw.close()
	if err := readNDJSONRaw(*cases, func(b []byte) error {
		var c c13Case
		if err := json.Unmarshal(b, &c); err != nil {
			return err
		}
		c13Codec(tw, c)
		return nil
	}); err != nil {
		return err
	}
	if *ops != "" {
		if err := readNDJSONRaw(*ops, func(b []byte) error {
			var o c13Op
			if err := json.Unmarshal(b, &o); err != nil {
				return err
			}
			c13RunOp(tw, o)
			return nil
		}); err != nil {
			return err
		}
	}
	if *made != 0 {
		c13Made(tw, *made)
	}
	if *bigs != "" {
		if err := readNDJSONRaw(*bigs, func(b []byte) error {
			var c c13BigCase
			if err := json.Unmarshal(b, &c); err != nil {
				return err
			}
			c13Big(tw, c)
			return nil
		}); err != nil {
			return err
		}
	}
	if *lens != "" {
		if err := readNDJSONRaw(*lens, func(b []byte) error {
			var l c13Lens
			if err := json.Unmarshal(b, &l); err != nil {
				return err
			}
			c13RunLens(tw, l)
			return nil
		}); err != nil {
			return err
		}
	}
	return nil
}
