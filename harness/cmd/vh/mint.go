package main

import (
	"fmt"
	"math/rand"
	"time"

	"github.com/jcmturner/gofork/encoding/asn1"
	"github.com/jcmturner/gokrb5/v8/asn1tools"
	"github.com/jcmturner/gokrb5/v8/crypto"
	"github.com/jcmturner/gokrb5/v8/iana/asnAppTag"
	"github.com/jcmturner/gokrb5/v8/iana/flags"
	"github.com/jcmturner/gokrb5/v8/keytab"
	"github.com/jcmturner/gokrb5/v8/messages"
	"github.com/jcmturner/gokrb5/v8/types"
)

// ---- the concrete world behind APExchange.tla's keytab model KT ---------------------------------------------------------

const (
	realmR  = "R1.TEST.GOKRB5"
	realmR2 = "R2.TEST.GOKRB5"
)

var princNames = map[string][]string{
	"P": {"HTTP", "p.test.gokrb5"}, "Q": {"HTTP", "q.test.gokrb5"}, "Z": {"HTTP", "z.test.gokrb5"}, "P1": {"HTTP"}, "empty": {},
}

func princString(id string) string {
	n := princNames[id]
	s := ""
	for i, c := range n {
		if i > 0 {
			s += "/"
		}
		s += c
	}
	return s
}

type ktWorld struct {
	E, E2 int32
	kt    *keytab.Keytab
	keys  map[string]types.EncryptionKey // by entry id of the specification's KT
}

func otherEtype(e int32) int32 {
	if e == 18 {
		return 17
	}
	return 18
}

// newKtWorld builds the keytab of the specification for etype e.  The keys are read back from the entries the
// library created (test-input production only; C14 checks the keytab code itself).
func newKtWorld(e int32, r *rand.Rand) (*ktWorld, error) {
	w := &ktWorld{E: e, E2: otherEtype(e), kt: keytab.New(), keys: map[string]types.EncryptionKey{}}
	type ent struct {
		id, princ, realm string
		kvno             uint8
		et               int32
		ts               int64
	}
	ents := []ent{
		{"sel", "P", realmR, 2, w.E, 1}, {"oRealm", "P", realmR2, 2, w.E, 2}, {"oKvno", "P", realmR, 3, w.E, 2},
		{"oPrinc", "Q", realmR, 2, w.E, 2}, {"oEtype", "P", realmR, 2, w.E2, 2}, {"prefix", "P1", realmR, 2, w.E, 2},
	}
	for _, x := range ents {
		pw := fmt.Sprintf("pw-%s-%d", x.id, r.Int63())
		if err := w.kt.AddEntry(princString(x.princ), x.realm, pw, time.Unix(1500000000+x.ts*86400, 0), x.kvno, x.et); err != nil {
			return nil, err
		}
		w.keys[x.id] = w.kt.Entries[len(w.kt.Entries)-1].Key
	}
	return w, nil
}

func randEncKey(r *rand.Rand, et int32) types.EncryptionKey {
	return types.EncryptionKey{KeyType: et, KeyValue: randKey(r, et)}
}

// ticketSpec is the concrete description of a service ticket to be minted
type ticketSpec struct {
	realmLabel  string
	snameLabel  []string
	kvnoLabel   int
	etLabel     int32
	sealKey     types.EncryptionKey
	sealUsage   uint32
	flagInvalid bool
	sessionKey  types.EncryptionKey
	crealm      string
	cname       []string
	authTime    time.Time
	start       time.Time // zero = absent
	end         time.Time
	renewTill   time.Time
	caddr       types.HostAddresses
	authzData   types.AuthorizationData
	extraFlags  []int
}

func mintTicket(s ticketSpec) (messages.Ticket, error) {
	t, _, err := mintTicketParts(s)
	return t, err
}

// shadow structures used to put a ticket with a trailing, cleartext EncTicketPart on the wire
type trailerTicket struct {
	TktVNO  int                    `asn1:"explicit,tag:0"`
	Realm   string                 `asn1:"generalstring,explicit,tag:1"`
	SName   types.PrincipalName    `asn1:"explicit,tag:2"`
	EncPart types.EncryptedData    `asn1:"explicit,tag:3"`
	Trailer messages.EncTicketPart // what Ticket.Unmarshal would put into DecryptedEncPart
}
type wireAPReq struct {
	PVNO                   int                 `asn1:"explicit,tag:0"`
	MsgType                int                 `asn1:"explicit,tag:1"`
	APOptions              asn1.BitString      `asn1:"explicit,tag:2"`
	Ticket                 asn1.RawValue       `asn1:"explicit,tag:3"`
	EncryptedAuthenticator types.EncryptedData `asn1:"explicit,tag:4"`
}

func marshalAPReqWithTrailer(ap messages.APReq, etp messages.EncTicketPart) ([]byte, error) {
	tb, err := asn1.Marshal(trailerTicket{TktVNO: ap.Ticket.TktVNO, Realm: ap.Ticket.Realm, SName: ap.Ticket.SName, EncPart: ap.Ticket.EncPart, Trailer: etp})
	if err != nil {
		return nil, err
	}
	tb = asn1tools.AddASNAppTag(tb, asnAppTag.Ticket)
	b, err := asn1.Marshal(wireAPReq{PVNO: ap.PVNO, MsgType: ap.MsgType, APOptions: ap.APOptions,
		Ticket: asn1.RawValue{Class: asn1.ClassContextSpecific, IsCompound: true, Tag: 3, Bytes: tb}, EncryptedAuthenticator: ap.EncryptedAuthenticator})
	if err != nil {
		return nil, err
	}
	return asn1tools.AddASNAppTag(b, asnAppTag.APREQ), nil
}

func mintTicketParts(s ticketSpec) (messages.Ticket, messages.EncTicketPart, error) {
	fl := types.NewKrbFlags()
	if s.flagInvalid {
		types.SetFlag(&fl, flags.Invalid)
	}
	for _, f := range s.extraFlags {
		types.SetFlag(&fl, f)
	}
	etp := messages.EncTicketPart{
		Flags: fl, Key: s.sessionKey, CRealm: s.crealm,
		CName:     types.PrincipalName{NameType: 1, NameString: s.cname},
		Transited: messages.TransitedEncoding{}, AuthTime: s.authTime, StartTime: s.start, EndTime: s.end, RenewTill: s.renewTill,
		CAddr: s.caddr, AuthorizationData: s.authzData,
	}
	b, err := asn1.Marshal(etp)
	if err != nil {
		return messages.Ticket{}, etp, err
	}
	b = asn1tools.AddASNAppTag(b, asnAppTag.EncTicketPart)
	ed, err := crypto.GetEncryptedData(b, s.sealKey, s.sealUsage, s.kvnoLabel)
	if err != nil {
		return messages.Ticket{}, etp, err
	}
	ed.EType = s.etLabel
	return messages.Ticket{TktVNO: 5, Realm: s.realmLabel, SName: types.PrincipalName{NameType: 3, NameString: s.snameLabel}, EncPart: ed}, etp, nil
}

type authSpec struct {
	key    types.EncryptionKey
	usage  uint32
	crealm string
	cname  []string
	ctime  time.Time // includes microseconds
	cksum  types.Checksum
	subkey types.EncryptionKey
	seq    int64
}

func mintAuthenticator(a authSpec) (types.EncryptedData, error) {
	sec := a.ctime.Truncate(time.Second)
	au := types.Authenticator{AVNO: 5, CRealm: a.crealm, CName: types.PrincipalName{NameType: 1, NameString: a.cname},
		Cksum: a.cksum, Cusec: int(a.ctime.Sub(sec) / time.Microsecond), CTime: sec.UTC(), SeqNumber: a.seq, SubKey: a.subkey}
	b, err := au.Marshal()
	if err != nil {
		return types.EncryptedData{}, err
	}
	return crypto.GetEncryptedData(b, a.key, a.usage, 0)
}

// spoil applies a ciphertext defect
func spoil(c []byte, how string) []byte {
	m := append([]byte{}, c...)
	switch how {
	case "flippedBody", "flipped":
		m[len(m)/3] ^= 0x10
	case "flippedMac":
		m[len(m)-1] ^= 0x01
	case "truncated":
		m = m[:len(m)-5]
	}
	return m
}
