package main

// A simulated password-change service (RFC 3244, the 0xff80 request form gokrb5 sends) next to the simulated KDC, an attacker
// who answers in its place, and the scenarios `vh kpasswd` runs the real Client.ChangePasswd through (trace for TraceKPasswd).
// Test-input production and observation only: no verdict is taken here.
//
// Events:
//	reset
//	server   u new sub action        the service opened a request of user u (new password labelled new, subkey number sub) and
//	                                 applied or refused it
//	client   u new sub reply ok pwAfter   Client.ChangePasswd(new) returned ok; reply = what was put on the wire in answer (genuine,
//	                                 refused, reflected, errorform0, earlier, wrongkey, tampered, truncated); pwAfter = the password the
//	                                 client's credentials hold afterwards (label)
//	login    u pw ok                 a fresh client logs in with password pw

import (
	"crypto/rand"
	"encoding/binary"
	"encoding/json"
	"flag"
	"fmt"
	"io"
	mrand "math/rand"
	"net"
	"os"
	"os/exec"
	"strings"
	"sync"
	"time"

	"github.com/jcmturner/gofork/encoding/asn1"
	"github.com/jcmturner/gokrb5/v8/asn1tools"
	"github.com/jcmturner/gokrb5/v8/client"
	"github.com/jcmturner/gokrb5/v8/config"
	"github.com/jcmturner/gokrb5/v8/crypto"
	"github.com/jcmturner/gokrb5/v8/kadmin"
	"github.com/jcmturner/gokrb5/v8/messages"
	"github.com/jcmturner/gokrb5/v8/types"
)

func init() {
	register("kpasswd", "Client.ChangePasswd against a simulated password-change service and an attacker (trace for TraceKPasswd)", cmdKPasswd)
}

type kpServed struct {
	User   string
	NewPw  string
	SubHex string
	Action string // applied | refused | undecodable
}

type kpasswdSim struct {
	mu       sync.Mutex
	kdc      *simKDC
	realm    string
	etypes   map[string]int32 // user -> etype of its long-term key
	l        net.Listener
	served   []kpServed
	mode     string // what the next reply on the wire is
	lastGood []byte // the last genuine success reply (of an earlier exchange)
}

func (s *kpasswdSim) listen() (string, error) {
	l, err := net.Listen("tcp", "127.0.0.1:0")
	if err != nil {
		return "", err
	}
	s.l = l
	go func() {
		for {
			c, err := l.Accept()
			if err != nil {
				return
			}
			go func() {
				defer c.Close()
				c.SetDeadline(time.Now().Add(10 * time.Second))
				h := make([]byte, 4)
				if _, err := io.ReadFull(c, h); err != nil {
					return
				}
				n := binary.BigEndian.Uint32(h)
				if n > 1<<20 {
					return
				}
				req := make([]byte, n)
				if _, err := io.ReadFull(c, req); err != nil {
					return
				}
				r := s.handle(req)
				if r == nil {
					return
				}
				binary.BigEndian.PutUint32(h, uint32(len(r)))
				c.Write(append(h, r...))
			}()
		}
	}()
	return l.Addr().String(), nil
}

func (s *kpasswdSim) close() { s.l.Close() }

// frame builds the reply message: length, version 1, AP-REP length, AP-REP, then the KRB-PRIV or KRB-ERROR
func kpFrame(aprep, rest []byte) []byte {
	b := make([]byte, 6)
	binary.BigEndian.PutUint16(b[0:2], uint16(6+len(aprep)+len(rest)))
	binary.BigEndian.PutUint16(b[2:4], 1)
	binary.BigEndian.PutUint16(b[4:6], uint16(len(aprep)))
	return append(append(b, aprep...), rest...)
}

func kpResult(code uint16, text string) []byte {
	b := make([]byte, 2)
	binary.BigEndian.PutUint16(b, code)
	return append(b, []byte(text)...)
}

func (s *kpasswdSim) handle(req []byte) []byte {
	s.mu.Lock()
	defer s.mu.Unlock()
	mode := s.mode
	if len(req) < 6 {
		return nil
	}
	apLen := int(binary.BigEndian.Uint16(req[4:6]))
	if 6+apLen > len(req) {
		return nil
	}
	apB, privB := req[6:6+apLen], req[6+apLen:]
	var ap messages.APReq
	var priv messages.KRBPriv
	rec := kpServed{Action: "undecodable"}
	defer func() { s.served = append(s.served, rec) }()
	if ap.Unmarshal(apB) != nil || priv.Unmarshal(privB) != nil {
		return nil
	}
	s.kdc.mu.Lock()
	sp := s.kdc.lookup(s.realm, ap.Ticket.SName)
	s.kdc.mu.Unlock()
	if sp == nil {
		return nil
	}
	skey, ok := sp.keys[ap.Ticket.EncPart.EType]
	if !ok || ap.Ticket.Decrypt(skey) != nil {
		return nil
	}
	sess := ap.Ticket.DecryptedEncPart.Key
	if ap.DecryptAuthenticator(sess) != nil || len(ap.Authenticator.SubKey.KeyValue) == 0 {
		return nil
	}
	sub := ap.Authenticator.SubKey
	if priv.DecryptEncPart(sub) != nil {
		return nil
	}
	var cd kadmin.ChangePasswdData
	if binary.BigEndian.Uint16(req[2:4]) == 1 {
		// the original change-password request (RFC 3244 section 2, version 1): the user data is the new password itself
		cd.NewPasswd = priv.DecryptedEncPart.UserData
	} else if _, err := asn1.Unmarshal(priv.DecryptedEncPart.UserData, &cd); err != nil {
		return nil
	}
	user := ap.Ticket.DecryptedEncPart.CName.PrincipalNameString()
	rec = kpServed{User: user, NewPw: string(cd.NewPasswd), SubHex: hx(sub.KeyValue), Action: "applied"}
	code, text := uint16(0), "Password changed"
	if mode == "refused" {
		rec.Action, code, text = "refused", 4, "Password does not meet the policy"
	} else {
		// the change takes effect in the KDC's database
		s.kdc.mu.Lock()
		_, err := s.kdc.addPrincipal(s.realm, user, string(cd.NewPasswd), []int32{s.etypes[user]})
		s.kdc.mu.Unlock()
		if err != nil {
			rec.Action, code, text = "refused", 2, "internal error"
		}
	}
	// ---- the genuine reply
	encAP := messages.EncAPRepPart{CTime: ap.Authenticator.CTime, Cusec: ap.Authenticator.Cusec, SequenceNumber: ap.Authenticator.SeqNumber}
	eb, err := asn1.Marshal(encAP)
	if err != nil {
		return nil
	}
	eb = asn1tools.AddASNAppTag(eb, 27)
	ed, err := crypto.GetEncryptedData(eb, sess, 12, 0)
	if err != nil {
		return nil
	}
	rb, err := asn1.Marshal(messages.APRep{PVNO: 5, MsgType: 15, EncPart: ed})
	if err != nil {
		return nil
	}
	aprep := asn1tools.AddASNAppTag(rb, 15)
	mkPriv := func(key types.EncryptionKey, data []byte) []byte {
		kp := messages.NewKRBPriv(messages.EncKrbPrivPart{UserData: data, Timestamp: time.Now().UTC(), SequenceNumber: ap.Authenticator.SeqNumber,
			SAddress: types.HostAddress{AddrType: 2, Address: []byte{127, 0, 0, 1}}})
		if kp.EncryptEncPart(key) != nil {
			return nil
		}
		b, _ := kp.Marshal()
		return b
	}
	genuine := kpFrame(aprep, mkPriv(sub, kpResult(code, text)))
	defer func() {
		if code == 0 {
			s.lastGood = genuine
		}
	}()
	// ---- what the attacker puts on the wire instead
	switch mode {
	case "genuine", "refused":
		return genuine
	case "reflected": // the client's own KRB-PRIV, which it can open: same key, same key usage
		return kpFrame(aprep, privB)
	case "reflected-kvno", "reflected-etype": // the same, with an unauthenticated outer field of the EncryptedData changed (decryption ignores both)
		var kp messages.KRBPriv
		if kp.Unmarshal(privB) != nil {
			return kpFrame(aprep, privB)
		}
		if mode == "reflected-kvno" {
			kp.EncPart.KVNO += 1
		} else {
			kp.EncPart.EType = map[int32]int32{17: 18, 18: 17, 19: 20, 20: 19, 16: 23, 23: 16}[kp.EncPart.EType]
		}
		b, err := kp.Marshal()
		if err != nil {
			return kpFrame(aprep, privB)
		}
		return kpFrame(aprep, b)
	case "errorform0": // the error form (no AP-REP) whose unauthenticated e-data says "success"
		e := messages.NewKRBError(ap.Ticket.SName, s.realm, 60, "")
		e.EData = kpResult(0, "Password changed")
		b, _ := e.Marshal()
		return kpFrame(nil, b)
	case "earlier": // the genuine success reply of an earlier exchange
		if s.lastGood != nil {
			return s.lastGood
		}
		return kpFrame(aprep, mkPriv(randEncKeyCrypto(sub.KeyType), kpResult(0, "Password changed")))
	case "wrongkey": // "success" under a key the attacker made up
		return kpFrame(aprep, mkPriv(randEncKeyCrypto(sub.KeyType), kpResult(0, "Password changed")))
	case "sessionkey": // "success" under the ticket's session key instead of the subkey
		return kpFrame(aprep, mkPriv(sess, kpResult(0, "Password changed")))
	case "tampered":
		g := append([]byte{}, genuine...)
		g[len(g)-5] ^= 0x10
		return g
	case "truncated":
		return genuine[:len(genuine)/2]
	}
	return genuine
}

func randEncKeyCrypto(et int32) types.EncryptionKey {
	return types.EncryptionKey{KeyType: et, KeyValue: randKeyCrypto(et)}
}

var kpModes = []string{"genuine", "refused", "reflected", "reflected-kvno", "reflected-etype", "errorform0", "earlier", "wrongkey", "sessionkey", "tampered", "truncated"}

func cmdKPasswd(args []string) error {
	fs := flag.NewFlagSet("kpasswd", flag.ExitOnError)
	seed := fs.Int64("seed", 1, "seed")
	rounds := fs.Int("rounds", 6, "rounds")
	out := fs.String("out", "trace.ndjson", "trace file")
	mitRef := fs.String("mitref", "", "path of the mitref binary: MIT's client changes the password at the simulated service too")
	fs.Parse(args)
	r := mrand.New(mrand.NewSource(*seed))
	tw, err := newTrace(*out)
	if err != nil {
		return err
	}
	defer tw.close()
	origin := time.Now().Truncate(time.Second)
	realm := "KPW.TEST.GOKRB5"
	for round := 0; round < *rounds; round++ {
		et := allEtypes[round%len(allEtypes)]
		k := newSimKDC(origin)
		k.policy.Preauth = round%2 == 0
		user := fmt.Sprintf("alice%d", round)
		nonce := make([]byte, 6)
		rand.Read(nonce)
		pwOf := func(i int) string { return fmt.Sprintf("pw-%d-%s", i, hx(nonce)) }
		label := map[string]string{pwOf(0): "p0"}
		cur := 0 // index of the password in the database
		for _, p := range []struct{ n, pw string }{{"krbtgt/" + realm, "tgs"}, {user, pwOf(0)}, {"kadmin/changepw", "kadmin-secret"}} {
			if _, err := k.addPrincipal(realm, p.n, p.pw, []int32{et}); err != nil {
				return err
			}
		}
		addr, err := k.listen()
		if err != nil {
			return err
		}
		sim := &kpasswdSim{kdc: k, realm: realm, etypes: map[string]int32{user: et}}
		kaddr, err := sim.listen()
		if err != nil {
			return err
		}
		lib := map[string]string{"default_tkt_enctypes": etypeNames[et], "default_tgs_enctypes": etypeNames[et], "permitted_enctypes": etypeNames[et], "udp_preference_limit": "1"}
		conf := simConf(realm, map[string][]string{realm: {addr}}, lib, nil)
		conf = replaceFirst(conf, "  }\n", "    kpasswd_server = "+kaddr+"\n  }\n")
		cfg, err := config.NewFromString(conf)
		if err != nil {
			return err
		}
		tw.emit(map[string]interface{}{"ev": "reset", "round": round, "et": et})
		subID := map[string]int{}
		served := 0
		flush := func() {
			sim.mu.Lock()
			for ; served < len(sim.served); served++ {
				x := sim.served[served]
				if x.Action == "undecodable" {
					continue
				}
				if _, ok := subID[x.SubHex]; !ok {
					subID[x.SubHex] = len(subID) + 1
				}
				tw.emit(map[string]interface{}{"ev": "server", "u": x.User, "new": label[x.NewPw], "sub": subID[x.SubHex], "action": x.Action})
			}
			sim.mu.Unlock()
		}
		login := func(pwIdx int) {
			c := client.NewWithPassword(user, realm, pwOf(pwIdx), cfg, client.DisablePAFXFAST(true))
			err := c.Login()
			tw.emit(map[string]interface{}{"ev": "login", "u": user, "pw": label[pwOf(pwIdx)], "ok": err == nil})
			c.Destroy()
		}
		modes := append([]string{"genuine"}, kpModes...)
		r.Shuffle(len(modes)-1, func(i, j int) { modes[i+1], modes[j+1] = modes[j+1], modes[i+1] })
		next := 1
		for _, mode := range modes {
			newIdx := next
			next++
			label[pwOf(newIdx)] = fmt.Sprintf("p%d", newIdx)
			cl := client.NewWithPassword(user, realm, pwOf(cur), cfg, client.DisablePAFXFAST(true))
			sim.mu.Lock()
			sim.mode = mode
			before := len(sim.served)
			sim.mu.Unlock()
			var ok bool
			var cerr error
			pn := catchT(30*time.Second, func() {
				o, e := cl.ChangePasswd(pwOf(newIdx))
				ok, cerr = o, e
			})
			flush()
			sim.mu.Lock()
			sub := 0
			if len(sim.served) > before {
				sub = subID[sim.served[len(sim.served)-1].SubHex]
				if sim.served[len(sim.served)-1].Action == "applied" {
					cur = newIdx
				}
			}
			sim.mu.Unlock()
			after := "other"
			if pn == "" {
				if l, has := label[cl.Credentials.Password()]; has {
					after = l
				}
			}
			et2 := ""
			if cerr != nil {
				et2 = trunc(cerr.Error(), 160)
			}
			tw.emit(map[string]interface{}{"ev": "client", "u": user, "new": label[pwOf(newIdx)], "sub": sub, "reply": mode, "ok": ok && pn == "", "panic": pn,
				"pwAfter": after, "err": et2})
			cl.Destroy()
			login(newIdx)
			if newIdx > 0 {
				login(newIdx - 1)
			}
		}
		if *mitRef != "" {
			// an independent client at the simulated service: MIT's krb5_change_password (request version 1); the service must apply
			// it, MIT must read the reply as success, and the new password must work afterwards
			newIdx := next
			label[pwOf(newIdx)] = fmt.Sprintf("p%d", newIdx)
			cf := fmt.Sprintf("%s/kpw_%d_%d.conf", os.TempDir(), os.Getpid(), round)
			if err := os.WriteFile(cf, []byte(conf), 0600); err != nil {
				return err
			}
			sim.mu.Lock()
			sim.mode = "genuine"
			sim.mu.Unlock()
			cmd := exec.Command(*mitRef)
			cmd.Env = append(os.Environ(), "KRB5_CONFIG="+cf)
			cmd.Stdin = strings.NewReader(fmt.Sprintf("chpw %s@%s %s %s\n", user, realm, pwOf(cur), pwOf(newIdx)))
			ob, _ := cmd.Output()
			os.Remove(cf)
			var mo struct {
				RC     int `json:"rc"`
				Stage  int `json:"stage"`
				Result int `json:"result"`
			}
			json.Unmarshal(ob, &mo)
			flush()
			tw.emit(map[string]interface{}{"ev": "mitclient", "u": user, "new": label[pwOf(newIdx)], "stage": mo.Stage, "rc": mo.RC, "result": mo.Result})
			login(newIdx)
		}
		sim.close()
		k.close()
	}
	return nil
}

func replaceFirst(s, old, new string) string {
	for i := 0; i+len(old) <= len(s); i++ {
		if s[i:i+len(old)] == old {
			return s[:i] + new + s[i+len(old):]
		}
	}
	return s
}
