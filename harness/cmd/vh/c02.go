package main

import (
	"flag"
	"fmt"
	"math/rand"
	"sort"
	"sync"
	"sync/atomic"
	"time"

	"github.com/jcmturner/gokrb5/v8/service"
	"github.com/jcmturner/gokrb5/v8/types"
)

func init() {
	register("c02", "replay cache histories: sequential, timed, free-running stress, systematic schedules (trace for TraceC02)", cmdC02)
}

// An abstract authenticator: indices into small alphabets.  Identity = (client principal incl. realm, ctime incl. usec, service).
type absAuth struct {
	C int `json:"c"`
	T int `json:"t"` // client time in units of skew/1000 relative to the history origin
	S int `json:"s"`
	U int `json:"u"` // additional microseconds: authenticators differing only here differ "in the microseconds only"
}

type c02event struct {
	seq  int64
	line map[string]interface{}
}

// c02log collects events of one history; ordering by a global atomic sequence number taken immediately before the call
// (inv) and immediately after it returned (ret): consistent with real time, never by wall clock across goroutines.
type c02log struct {
	mu  sync.Mutex
	evs []c02event
}

var c02seq int64
var c02op int64

func (l *c02log) add(seq int64, m map[string]interface{}) {
	l.mu.Lock()
	l.evs = append(l.evs, c02event{seq, m})
	l.mu.Unlock()
}

func (l *c02log) flush(tw *traceWriter, meta map[string]interface{}) {
	sort.Slice(l.evs, func(i, j int) bool { return l.evs[i].seq < l.evs[j].seq })
	meta["ev"] = "reset"
	tw.emit(meta)
	for _, e := range l.evs {
		tw.emit(e.line)
	}
}

// names of a history: fresh per history so that histories sharing the process-wide cache are independent
type c02names struct {
	hid   int
	t0    time.Time // origin of the history
	skew  time.Duration
	cache *service.Cache
}

func (n *c02names) client(c int) (types.PrincipalName, string) {
	// c: 0 = alice@R1, 1 = bob@R1, 2 = alice@R2 (same name, other realm), 3 = alice/admin@R1 (extension of the name)
	name := []string{fmt.Sprintf("h%d-alice", n.hid)}
	realm := "R1.TEST"
	switch c {
	case 1:
		name = []string{fmt.Sprintf("h%d-bob", n.hid)}
	case 2:
		realm = "R2.TEST"
	case 3:
		name = append(name, "admin")
	}
	return types.PrincipalName{NameType: 1, NameString: name}, realm
}

func (n *c02names) svc(s int) types.PrincipalName {
	// 0 = HTTP/h1, 1 = HTTP/h2 (same service, other host), 2 = host/h1 (other service, same host)
	switch s {
	case 1:
		return types.PrincipalName{NameType: 3, NameString: []string{"HTTP", "h2.test"}}
	case 2:
		return types.PrincipalName{NameType: 3, NameString: []string{"host", "h1.test"}}
	}
	return types.PrincipalName{NameType: 3, NameString: []string{"HTTP", "h1.test"}}
}

// units converts a duration since the origin to skew/1000 units
func (n *c02names) units(d time.Duration) int { return int(int64(d) * 1000 / int64(n.skew)) }

func (n *c02names) authenticator(a absAuth) types.Authenticator {
	cn, realm := n.client(a.C)
	ct := n.t0.Add(time.Duration(int64(a.T)*int64(n.skew)/1000) + time.Duration(a.U)*time.Microsecond)
	usec := ct.Nanosecond() / 1000
	return types.Authenticator{AVNO: 5, CName: cn, CRealm: realm, CTime: ct.Truncate(time.Second).UTC(), Cusec: usec}
}

// present performs one recorded IsReplay call
func (n *c02names) present(lg *c02log, a absAuth) string {
	auth := n.authenticator(a)
	sn := n.svc(a.S)
	op := atomic.AddInt64(&c02op, 1)
	t0 := time.Since(n.t0)
	lg.add(atomic.AddInt64(&c02seq, 1), map[string]interface{}{"ev": "inv", "op": op, "a": a, "now": n.units(t0)})
	r := "fresh"
	if p := catch(func() {
		if n.cache.IsReplay(sn, auth) {
			r = "replay"
		}
	}); p != "" {
		r = "panic"
	}
	s := atomic.AddInt64(&c02seq, 1)
	lg.add(s, map[string]interface{}{"ev": "ret", "op": op, "r": r, "now": n.units(time.Since(n.t0))})
	return r
}

func cmdC02(args []string) error {
	fs := flag.NewFlagSet("c02", flag.ExitOnError)
	seed := fs.Int64("seed", 1, "seed")
	mode := fs.String("mode", "seq", "seq|timed|stress|sched")
	out := fs.String("out", "trace.ndjson", "trace file")
	maxLen := fs.Int("len", 3, "history length bound (seq, timed)")
	rounds := fs.Int("rounds", 2000, "stress rounds")
	skewMs := fs.Int("skewms", 300, "skew for timed histories in ms")
	sample := fs.Int("sample", 0, "additionally run this many random longer histories (seq)")
	ng := fs.Int("g", 2, "goroutines for sched mode")
	fs.Parse(args)
	r := rand.New(rand.NewSource(*seed))
	tw, err := newTrace(*out)
	if err != nil {
		return err
	}
	defer tw.close()
	if *mode == "apreq-background" {
		return c02apreqBackground(tw, r, *rounds)
	}
	if *mode == "apreq-dated" {
		return c02apreqDated(tw, r, *maxLen) // before anything creates the process-wide cache
	}
	// the process-wide cache; the background cleaner is made inert (first caller's duration wins)
	cache := service.GetReplayCache(24 * time.Hour)
	hid := int(*seed%1000) * 1000000
	switch *mode {
	case "seq":
		return c02seqHistories(tw, r, cache, &hid, *maxLen, *sample)
	case "timed":
		return c02timed(tw, r, cache, &hid, *maxLen, time.Duration(*skewMs)*time.Millisecond)
	case "stress":
		return c02stress(tw, r, cache, &hid, *rounds)
	case "sched":
		return c02sched(tw, r, &hid, *ng)
	case "apreq-stress":
		return c02apreqStress(tw, r, *rounds)
	case "apreq-sched":
		return c02apreqSched(tw, r, *ng)
	}
	return fmt.Errorf("unknown mode %s", *mode)
}

// the eight authenticators of the sequential alphabet: a base and its near misses (one coordinate changed at a time)
var c02alphabet = []absAuth{
	{0, 0, 0, 0},   // base
	{1, 0, 0, 0},   // other client name
	{2, 0, 0, 0},   // same name, other realm
	{3, 0, 0, 0},   // name extended by a component
	{0, 0, 0, 1},   // client time differs by one microsecond only
	{0, -40, 0, 0}, // other second
	{0, 0, 1, 0},   // other host of the same service
	{0, 0, 2, 0},   // other service on the same host
}

func c02seqHistories(tw *traceWriter, r *rand.Rand, cache *service.Cache, hid *int, maxLen, sample int) error {
	skew := 5 * time.Minute
	nsym := len(c02alphabet) + 1 // + clean-up
	runOne := func(word []int) {
		*hid++
		n := &c02names{hid: *hid, t0: time.Now(), skew: skew, cache: cache}
		lg := &c02log{}
		for _, sy := range word {
			if sy == len(c02alphabet) {
				cache.ClearOldEntries(skew)
				lg.add(atomic.AddInt64(&c02seq, 1), map[string]interface{}{"ev": "clear", "now": n.units(time.Since(n.t0))})
				continue
			}
			n.present(lg, c02alphabet[sy])
		}
		lg.flush(tw, map[string]interface{}{"kind": "seq", "word": word})
	}
	var rec func(word []int)
	rec = func(word []int) {
		if len(word) > 0 {
			runOne(word)
		}
		if len(word) == maxLen {
			return
		}
		for s := 0; s < nsym; s++ {
			rec(append(append([]int{}, word...), s))
		}
	}
	rec(nil)
	for i := 0; i < sample; i++ {
		w := make([]int, maxLen+1+r.Intn(6))
		for j := range w {
			w[j] = r.Intn(nsym)
		}
		runOne(w)
	}
	return nil
}

// timed histories: authenticators dated before/at/after the origin, real sleeps across expiry points, explicit clean-ups
func c02timed(tw *traceWriter, r *rand.Rand, cache *service.Cache, hid *int, maxLen int, skew time.Duration) error {
	// symbols: 0..2 present the authenticator dated origin + {-800, 0, +800} units; 3 = wait 550 units; 4 = clean-up
	offs := []int{-800, 0, 800}
	var words [][]int
	var rec func(word []int)
	rec = func(word []int) {
		if len(word) >= 2 {
			np := 0
			for _, s := range word {
				if s < 3 {
					np++
				}
			}
			if np >= 2 && word[len(word)-1] < 3 { // two presentations at least, the last symbol being one
				words = append(words, word)
			}
		}
		if len(word) == maxLen {
			return
		}
		for s := 0; s < 5; s++ {
			rec(append(append([]int{}, word...), s))
		}
	}
	rec(nil)
	var mu sync.Mutex
	sem := make(chan struct{}, 96)
	var wg sync.WaitGroup
	for _, w := range words {
		w := w
		*hid++
		h := *hid
		wg.Add(1)
		sem <- struct{}{}
		go func() {
			defer wg.Done()
			defer func() { <-sem }()
			n := &c02names{hid: h, t0: time.Now(), skew: skew, cache: cache}
			lg := &c02log{}
			for _, sy := range w {
				switch {
				case sy < 3:
					a := absAuth{0, offs[sy], 0, 0}
					// only authenticators the skew test would admit reach the cache (margin 10%)
					now := n.units(time.Since(n.t0))
					if d := now - a.T; d > 900 || d < -900 {
						continue
					}
					n.present(lg, a)
				case sy == 3:
					time.Sleep(skew * 550 / 1000)
				default:
					cache.ClearOldEntries(skew)
					lg.add(atomic.AddInt64(&c02seq, 1), map[string]interface{}{"ev": "clear", "now": n.units(time.Since(n.t0))})
				}
			}
			mu.Lock()
			lg.flush(tw, map[string]interface{}{"kind": "timed", "word": w})
			mu.Unlock()
		}()
	}
	wg.Wait()
	return nil
}

// free-running stress: G goroutines present identical and distinct authenticators at once
func c02stress(tw *traceWriter, r *rand.Rand, cache *service.Cache, hid *int, rounds int) error {
	skew := 5 * time.Minute
	for round := 0; round < rounds; round++ {
		*hid++
		n := &c02names{hid: *hid, t0: time.Now(), skew: skew, cache: cache}
		lg := &c02log{}
		g := 2 + r.Intn(15)
		if round%4 == 0 {
			g = 2 + r.Intn(3)
		}
		mix := r.Intn(3) // 0: all identical; 1: two authenticators; 2: identical + a cleaner
		// make sure the client entry exists in half of the rounds (the race differs)
		if round%2 == 0 {
			n.present(lg, absAuth{0, -40, 0, 0})
		}
		var wg sync.WaitGroup
		start := make(chan struct{})
		var ready int32
		for i := 0; i < g; i++ {
			i := i
			wg.Add(1)
			go func() {
				defer wg.Done()
				atomic.AddInt32(&ready, 1)
				<-start
				if mix == 2 && i == 0 {
					cache.ClearOldEntries(skew)
					return
				}
				a := absAuth{0, 0, 0, 0}
				if mix == 1 && i%2 == 1 {
					a = absAuth{0, 0, 0, 1}
				}
				n.present(lg, a)
			}()
		}
		for atomic.LoadInt32(&ready) < int32(g) {
			time.Sleep(time.Microsecond)
		}
		close(start)
		wg.Wait()
		lg.flush(tw, map[string]interface{}{"kind": "stress", "g": g, "mix": mix})
	}
	return nil
}
