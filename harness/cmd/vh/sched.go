package main

import (
	"fmt"
	"runtime"
	"sort"
	"strings"
	"sync"
	"time"
)

// A cooperative scheduler over the guarded yield points of gokrb5 (build tag verif).  Every worker goroutine parks at
// each yield point until the scheduler grants it; exactly one worker runs between two yield points.  explore() enumerates
// ALL schedules by depth-first search over the choice points.  Yield points lie outside critical sections, so the running
// worker never blocks on a lock held by a parked one.
type coopSched struct {
	mu     sync.Mutex
	gids   map[int64]int
	parked map[int]chan struct{}
	labels map[int]string
	arrive chan int
}

func goid() int64 {
	var buf [64]byte
	n := runtime.Stack(buf[:], false)
	var id int64
	fmt.Sscanf(strings.TrimPrefix(string(buf[:n]), "goroutine "), "%d", &id)
	return id
}

func (s *coopSched) yield(label string) {
	s.mu.Lock()
	w, ok := s.gids[goid()]
	if !ok {
		s.mu.Unlock()
		return // not a scheduled goroutine (e.g. set-up code)
	}
	ch := make(chan struct{})
	s.parked[w] = ch
	s.labels[w] = label
	s.mu.Unlock()
	s.arrive <- w
	<-ch
}

type schedOp func()

// runSchedule executes ops under the schedule prefix; beyond the prefix the lowest enabled worker is picked.
// It returns the schedule taken, the enabled set at each choice point, and the step labels.
func runSchedule(install func(func(string)), ops []schedOp, prefix []int) (taken []int, enabled [][]int, steps []string, err error) {
	s := &coopSched{gids: map[int64]int{}, parked: map[int]chan struct{}{}, labels: map[int]string{}, arrive: make(chan int)}
	install(s.yield)
	defer install(nil)
	fin := make(chan int)
	for i := range ops {
		i := i
		ready := make(chan struct{})
		go func() {
			s.mu.Lock()
			s.gids[goid()] = i
			s.mu.Unlock()
			close(ready)
			s.yield("start")
			ops[i]()
			fin <- i
		}()
		<-ready
		<-s.arrive
	}
	for step := 0; ; step++ {
		s.mu.Lock()
		var en []int
		for w := range s.parked {
			en = append(en, w)
		}
		s.mu.Unlock()
		if len(en) == 0 {
			break
		}
		sort.Ints(en)
		pick := en[0]
		if step < len(prefix) {
			pick = prefix[step]
		}
		enabled = append(enabled, en)
		taken = append(taken, pick)
		s.mu.Lock()
		ch, ok := s.parked[pick]
		lbl := s.labels[pick]
		delete(s.parked, pick)
		s.mu.Unlock()
		if !ok {
			return taken, enabled, steps, fmt.Errorf("schedule prefix picks worker %d which is not enabled", pick)
		}
		steps = append(steps, fmt.Sprintf("g%d:%s", pick, lbl))
		close(ch)
		select {
		case <-s.arrive:
		case <-fin:
		case <-time.After(10 * time.Second):
			return taken, enabled, steps, fmt.Errorf("worker %d blocked after %s (a yield point inside a critical section?)", pick, lbl)
		}
	}
	return
}

// exploreSchedules runs mk() under every schedule; visit is called once per complete schedule.
func exploreSchedules(install func(func(string)), mk func() []schedOp, visit func(taken []int, steps []string), limit int) (int, error) {
	n := 0
	stack := [][]int{nil}
	for len(stack) > 0 {
		prefix := stack[len(stack)-1]
		stack = stack[:len(stack)-1]
		taken, enabled, steps, err := runSchedule(install, mk(), prefix)
		if err != nil {
			return n, err
		}
		n++
		visit(taken, steps)
		if limit > 0 && n >= limit {
			return n, nil
		}
		for i := len(prefix); i < len(taken); i++ {
			for _, alt := range enabled[i] {
				if alt > taken[i] {
					stack = append(stack, append(append([]int{}, taken[:i]...), alt))
				}
			}
		}
	}
	return n, nil
}
