// Command vh is the conformance harness that binds the TLA+ specification in /verif/spec to gokrb5.
// It contains no oracle: every sub-command concretises abstract cases, runs the real code, and logs
// what it observed as ndjson; TLC compares the log with the specification.
package main

import (
	"fmt"
	"os"
	"sort"
)

type command struct {
	run  func(args []string) error
	help string
}

var commands = map[string]command{}

func register(name, help string, run func(args []string) error) {
	commands[name] = command{run: run, help: help}
}

func main() {
	if len(os.Args) < 2 {
		usage()
		os.Exit(2)
	}
	c, ok := commands[os.Args[1]]
	if !ok {
		usage()
		os.Exit(2)
	}
	if err := c.run(os.Args[2:]); err != nil {
		fmt.Fprintf(os.Stderr, "vh %s: %v\n", os.Args[1], err)
		os.Exit(3)
	}
}

func usage() {
	fmt.Fprintln(os.Stderr, "usage: vh <command> [flags]")
	var names []string
	for n := range commands {
		names = append(names, n)
	}
	sort.Strings(names)
	for _, n := range names {
		fmt.Fprintf(os.Stderr, "  %-12s %s\n", n, commands[n].help)
	}
}
