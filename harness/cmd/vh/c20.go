package main

import (
	"bytes"
	"encoding/base64"
	"encoding/hex"
	"encoding/json"
	"flag"
	"fmt"
	"log"
	"math/rand"
	"strings"
	"time"

	"github.com/jcmturner/gokrb5/v8/client"
	"github.com/jcmturner/gokrb5/v8/config"
	"github.com/jcmturner/gokrb5/v8/credentials"
	"github.com/jcmturner/gokrb5/v8/keytab"
	"github.com/jcmturner/gokrb5/v8/messages"
	"github.com/jcmturner/gokrb5/v8/service"
	"github.com/jcmturner/gokrb5/v8/test/testdata"
	"github.com/jcmturner/gokrb5/v8/types"
)

func init() {
	register("c20", "marker secrets through operation sequences; every output searched in raw/hex/base64 form (trace for TraceC20)", cmdC20)
}

type secretMarker struct {
	kind string
	b    []byte
}

type hit struct {
	Kind string `json:"kind"`
	Enc  string `json:"enc"`
}

// findMarkers searches out for every marker raw, hex (both cases), base64 std/url in all three alignments
func findMarkers(out []byte, ms []secretMarker) []hit {
	hs := []hit{}
	lower := bytes.ToLower(out)
	for _, m := range ms {
		if len(m.b) < 8 {
			continue
		}
		if bytes.Contains(out, m.b) {
			hs = append(hs, hit{m.kind, "raw"})
		}
		if bytes.Contains(lower, []byte(hex.EncodeToString(m.b))) {
			hs = append(hs, hit{m.kind, "hex"})
		}
		for al := 0; al < 3; al++ {
			// the base64 of the marker at alignment al: encode with al bytes of padding in front and cut the affected characters
			pad := append(make([]byte, al), m.b...)
			for _, enc := range []*base64.Encoding{base64.RawStdEncoding, base64.RawURLEncoding} {
				s := enc.EncodeToString(pad)
				cutFront := (al*8 + 5) / 6
				cutBack := 0
				if (len(pad)*8)%6 != 0 {
					cutBack = 1
				}
				if len(s) > cutFront+cutBack+8 {
					core := s[cutFront : len(s)-cutBack]
					if bytes.Contains(out, []byte(core)) {
						hs = append(hs, hit{m.kind, "base64"})
					}
				}
			}
		}
	}
	return hs
}

func cmdC20(args []string) error {
	fs := flag.NewFlagSet("c20", flag.ExitOnError)
	seed := fs.Int64("seed", 1, "seed")
	tier := fs.String("tier", "quick", "quick|thorough")
	out := fs.String("out", "trace.ndjson", "trace file")
	seqF := fs.String("sequences", "sequences.ndjson", "operation sequences from GenC20")
	fs.Parse(args)
	r := rand.New(rand.NewSource(*seed))
	tw, err := newTrace(*out)
	if err != nil {
		return err
	}
	defer tw.close()
	var seqs [][]string
	if err := readNDJSONRaw(*seqF, func(b []byte) error {
		var s struct {
			Ops []string `json:"ops"`
		}
		if err := json.Unmarshal(b, &s); err != nil {
			return err
		}
		seqs = append(seqs, s.Ops)
		return nil
	}); err != nil {
		return err
	}
	service.GetReplayCache(24 * time.Hour)
	etypes := []int32{18, 23}
	if *tier == "thorough" {
		etypes = allEtypes
	}
	for si, ops := range seqs {
		et := etypes[si%len(etypes)]
		cred := []string{"password", "keytab"}[(si/len(etypes))%2]
		if err := runC20(tw, r, ops, et, cred); err != nil {
			return fmt.Errorf("sequence %v: %v", ops, err)
		}
	}
	return c20truncations(tw, r, *tier == "thorough")
}

func runC20(tw *traceWriter, r *rand.Rand, ops []string, et int32, cred string) error {
	origin := time.Now().Truncate(time.Second)
	realm := "C20.TEST.GOKRB5"
	password := "Pw-" + base64.RawURLEncoding.EncodeToString(rbytes(r, 18)) // high-entropy marker
	k := newSimKDC(origin)
	k.policy.Preauth = r.Intn(2) == 0
	if _, err := k.addPrincipal(realm, "krbtgt/"+realm, "tgs-"+hx(rbytes(r, 8)), []int32{18, 17, 23, 16, 19, 20}); err != nil {
		return err
	}
	cp, err := k.addPrincipal(realm, "alice", password, []int32{et})
	if err != nil {
		return err
	}
	svcPw := "svc-" + hx(rbytes(r, 12))
	sp, err := k.addPrincipal(realm, "HTTP/svc.c20.test", svcPw, []int32{et})
	if err != nil {
		return err
	}
	addr, err := k.listen()
	if err != nil {
		return err
	}
	defer k.close()
	lib := map[string]string{"default_tkt_enctypes": etypeNames[et], "default_tgs_enctypes": etypeNames[et], "permitted_enctypes": etypeNames[et], "udp_preference_limit": "1"}
	confText := simConf(realm, map[string][]string{realm: {addr}}, lib, map[string]string{".c20.test": realm})
	cfg, err := config.NewFromString(confText)
	if err != nil {
		return err
	}
	var kp *kpasswdSim // the password-change service, started by the first changePassword operation
	var kpCfg *config.Config
	curPw := password
	defer func() {
		if kp != nil {
			kp.close()
		}
	}()
	var logbuf bytes.Buffer
	lg := log.New(&logbuf, "", 0)
	kt := keytab.New()
	if err := kt.AddEntry("alice", realm, password, time.Now(), 1, et); err != nil {
		return err
	}
	skt := keytab.New()
	if err := skt.AddEntry("HTTP/svc.c20.test", realm, svcPw, time.Now(), 1, et); err != nil {
		return err
	}
	var cl *client.Client
	if cred == "keytab" {
		cl = client.NewWithKeytab("alice", realm, kt, cfg, client.DisablePAFXFAST(true), client.Logger(lg))
	} else {
		cl = client.NewWithPassword("alice", realm, password, cfg, client.DisablePAFXFAST(true), client.Logger(lg))
	}
	markers := []secretMarker{{"password", []byte(password)}, {"ltkey", cp.keys[et].KeyValue}, {"svc-ltkey", sp.keys[et].KeyValue}}
	type output struct {
		surface string
		b       []byte
	}
	var outs []output
	emitErr := func(where string, e error) {
		if e != nil {
			outs = append(outs, output{"errortext:" + where, []byte(e.Error())})
		}
	}
	var tkt messages.Ticket
	var skey types.EncryptionKey
	haveTkt := false
	addIssuedKeys := func() {
		k.mu.Lock()
		for _, i := range k.issued {
			kind := "svckey"
			if strings.HasPrefix(i.SPN, "krbtgt") {
				kind = "tgtkey"
			}
			markers = append(markers, secretMarker{kind, unhx(i.KeyHex)})
		}
		k.mu.Unlock()
	}
	panics := ""
	for _, op := range ops {
		p := catch(func() {
			switch op {
			case "login":
				emitErr("login", cl.Login())
			case "loginBadPassword":
				wrong := "Wrong-" + base64.RawURLEncoding.EncodeToString(rbytes(r, 18))
				markers = append(markers, secretMarker{"password", []byte(wrong)})
				bad := client.NewWithPassword("alice", realm, wrong, cfg, client.DisablePAFXFAST(true), client.Logger(lg))
				emitErr("loginBadPassword", bad.Login())
				var sb bytes.Buffer
				bad.Print(&sb)
				outs = append(outs, output{"print:badclient", sb.Bytes()})
			case "getTicket":
				t, sk, e := cl.GetServiceTicket("HTTP/svc.c20.test")
				emitErr("getTicket", e)
				if e == nil {
					tkt, skey, haveTkt = t, sk, true
				}
			case "getTicketUnknown":
				_, _, e := cl.GetServiceTicket("HTTP/nosuch.c20.test")
				emitErr("getTicketUnknown", e)
			case "serviceVerify", "decryptTicket":
				if !haveTkt {
					// mint one directly
					w, e := newKtWorld(et, r)
					if e != nil {
						panic(e)
					}
					sess := randEncKey(r, et)
					markers = append(markers, secretMarker{"svckey", sess.KeyValue}, secretMarker{"svc-ltkey", w.keys["sel"].KeyValue})
					t, e := mintTicket(ticketSpec{realmLabel: realmR, snameLabel: princNames["P"], kvnoLabel: 2, etLabel: et, sealKey: w.keys["sel"], sealUsage: 2,
						sessionKey: sess, crealm: "C.R", cname: []string{"u"}, authTime: time.Now(), start: time.Now().Add(-time.Minute), end: time.Now().Add(time.Hour)})
					if e != nil {
						panic(e)
					}
					emitErr("decrypt", t.DecryptEncPart(w.kt, nil))
					b, _ := t.Marshal()
					outs = append(outs, output{"wire:ticket-after-decrypt", b})
					return
				}
				addIssuedKeys()
				if op == "decryptTicket" {
					t2 := tkt
					emitErr("decrypt", t2.DecryptEncPart(skt, nil))
					b, _ := t2.Marshal()
					outs = append(outs, output{"wire:ticket-after-decrypt", b})
					jb, _ := json.Marshal(t2)
					outs = append(outs, output{"json:ticket-after-decrypt", jb})
				} else {
					auth, _ := types.NewAuthenticator(realm, types.PrincipalName{NameType: 1, NameString: []string{"alice"}})
					et0 := mustEtype(skey.KeyType)
					auth.GenerateSeqNumberAndSubKey(skey.KeyType, et0.GetKeyByteSize())
					markers = append(markers, secretMarker{"subkey", auth.SubKey.KeyValue})
					ap, e := messages.NewAPReq(tkt, skey, auth)
					if e != nil {
						panic(e)
					}
					var slog bytes.Buffer
					st := service.NewSettings(skt, service.Logger(log.New(&slog, "", 0)), service.DecodePAC(true))
					ok, creds, e := service.VerifyAPREQ(&ap, st)
					emitErr("verifyAPREQ", e)
					outs = append(outs, output{"logline:service", slog.Bytes()})
					b, _ := ap.Marshal()
					outs = append(outs, output{"wire:apreq-after-verify", b})
					tb, _ := ap.Ticket.Marshal()
					outs = append(outs, output{"wire:ticket-after-verify", tb})
					if ok && creds != nil {
						j, _ := creds.JSON()
						outs = append(outs, output{"json:identity", []byte(j)})
						gb, _ := creds.Marshal()
						outs = append(outs, output{"gob:identity", gb})
					}
					// a replay produces an error
					_, _, e = service.VerifyAPREQ(&ap, st)
					emitErr("verifyAPREQ-replay", e)
				}
			case "krbPrivRoundTrip":
				key := randEncKey(r, et)
				markers = append(markers, secretMarker{"subkey", key.KeyValue})
				var kp messages.KRBPriv
				if e := kp.Unmarshal(unhx(testdata.MarshaledKRB5priv)); e != nil {
					panic(e)
				}
				secretPayload := rbytes(r, 24)
				markers = append(markers, secretMarker{"subkey", secretPayload})
				kp.DecryptedEncPart = messages.EncKrbPrivPart{UserData: secretPayload, SAddress: types.HostAddress{AddrType: 2, Address: []byte{10, 0, 0, 1}}}
				emitErr("krbpriv-encrypt", kp.EncryptEncPart(key))
				emitErr("krbpriv-decrypt", kp.DecryptEncPart(key))
				b, _ := kp.Marshal()
				outs = append(outs, output{"wire:krbpriv-after-decrypt", b})
				wrong := randEncKey(r, et)
				emitErr("krbpriv-decrypt-wrongkey", kp.DecryptEncPart(wrong))
			case "keyLookupMiss":
				// the keytabs hold keys of these principals, but not for the key version / encryption type asked for
				otherEt := int32(17)
				if et == 17 {
					otherEt = 18
				}
				alice := types.PrincipalName{NameType: 1, NameString: []string{"alice"}}
				svc := types.PrincipalName{NameType: 2, NameString: []string{"HTTP", "svc.c20.test"}}
				_, _, e := kt.GetEncryptionKey(alice, realm, 7, et)
				emitErr("keytab-lookup-kvno", e)
				_, _, e = kt.GetEncryptionKey(alice, realm, 1, otherEt)
				emitErr("keytab-lookup-etype", e)
				_, _, e = skt.GetEncryptionKey(svc, realm, 7, et)
				emitErr("keytab-lookup-kvno", e)
				_, _, e = skt.GetEncryptionKey(svc, realm, 0, otherEt)
				emitErr("keytab-lookup-etype", e)
				// a client whose keytab lacks the encryption type it is configured for
				kt2 := keytab.New()
				if e := kt2.AddEntry("alice", realm, password, time.Now(), 1, otherEt); e != nil {
					panic(e)
				}
				ko, _, _ := kt2.GetEncryptionKey(alice, realm, 1, otherEt)
				markers = append(markers, secretMarker{"ltkey", ko.KeyValue})
				var lb bytes.Buffer
				c2 := client.NewWithKeytab("alice", realm, kt2, cfg, client.DisablePAFXFAST(true), client.AssumePreAuthentication(r.Intn(2) == 0), client.Logger(log.New(&lb, "", 0)))
				emitErr("login-keytab-without-etype", c2.Login())
				outs = append(outs, output{"logline:client-keytab-without-etype", lb.Bytes()})
				c2.Destroy()
				// a service offered a ticket sealed with a key version it does not hold
				if haveTkt {
					t2 := tkt
					t2.EncPart.KVNO = 7
					auth, _ := types.NewAuthenticator(realm, alice)
					ap, e := messages.NewAPReq(t2, skey, auth)
					if e != nil {
						panic(e)
					}
					var slog bytes.Buffer
					_, _, e = service.VerifyAPREQ(&ap, service.NewSettings(skt, service.Logger(log.New(&slog, "", 0))))
					emitErr("verifyAPREQ-unknown-kvno", e)
					if ke, ok := e.(messages.KRBError); ok {
						if b, me := ke.Marshal(); me == nil {
							outs = append(outs, output{"wire:krberror-unknown-kvno", b})
						}
					}
					outs = append(outs, output{"logline:service-unknown-kvno", slog.Bytes()})
				}
			case "diagnoseMisfit":
				// Client.Diagnostics / Print of clients whose keytab does not fit their realm or configuration: every complaint names
				// what is missing, never what the keytab holds
				otherEt := int32(17)
				if et == 17 {
					otherEt = 18
				}
				kt2 := keytab.New()
				if e := kt2.AddEntry("alice", realm, password, time.Now(), 1, otherEt); e != nil {
					panic(e)
				}
				ko, _, _ := kt2.GetEncryptionKey(types.PrincipalName{NameType: 1, NameString: []string{"alice"}}, realm, 1, otherEt)
				markers = append(markers, secretMarker{"ltkey", ko.KeyValue})
				noKDC, e := config.NewFromString(simConf(realm, map[string][]string{"ELSEWHERE.C20.TEST": {addr}}, lib, nil))
				if e != nil {
					panic(e)
				}
				for _, v := range []struct {
					name  string
					realm string
					kt    *keytab.Keytab
					cfg   *config.Config
				}{{"other-realm", "OTHER.C20.TEST.GOKRB5", kt, cfg}, {"realm-case", strings.ToLower(realm), kt, cfg}, {"other-etype", realm, kt2, cfg},
					{"no-kdc", realm, kt, noKDC}, {"empty-keytab", realm, keytab.New(), cfg}} {
					var lb, sb bytes.Buffer
					c2 := client.NewWithKeytab("alice", v.realm, v.kt, v.cfg, client.DisablePAFXFAST(true), client.Logger(log.New(&lb, "", 0)))
					emitErr("diagnostics-misfit-"+v.name, c2.Diagnostics(&sb))
					outs = append(outs, output{"diagnostics:client-misfit-" + v.name, append([]byte{}, sb.Bytes()...)})
					sb.Reset()
					c2.Print(&sb)
					outs = append(outs, output{"print:client-misfit-" + v.name, append([]byte{}, sb.Bytes()...)})
					ok, ce := c2.IsConfigured()
					_ = ok
					emitErr("isconfigured-misfit-"+v.name, ce)
					outs = append(outs, output{"logline:client-misfit-" + v.name, append([]byte{}, lb.Bytes()...)})
				}
			case "embedTicket":
				var t2 messages.Ticket
				if haveTkt {
					addIssuedKeys()
					t2 = tkt
					emitErr("decrypt", t2.DecryptEncPart(skt, nil))
				} else {
					w, e := newKtWorld(et, r)
					if e != nil {
						panic(e)
					}
					sess := randEncKey(r, et)
					markers = append(markers, secretMarker{"svckey", sess.KeyValue}, secretMarker{"svc-ltkey", w.keys["sel"].KeyValue})
					t2, e = mintTicket(ticketSpec{realmLabel: realmR, snameLabel: princNames["P"], kvnoLabel: 2, etLabel: et, sealKey: w.keys["sel"], sealUsage: 2,
						sessionKey: sess, crealm: "C.R", cname: []string{"u"}, authTime: time.Now(), start: time.Now().Add(-time.Minute), end: time.Now().Add(time.Hour)})
					if e != nil {
						panic(e)
					}
					emitErr("decrypt", t2.DecryptEncPart(w.kt, nil))
				}
				if rv, e := messages.MarshalTicketSequence([]messages.Ticket{t2, t2}); e == nil {
					outs = append(outs, output{"wire:ticket-sequence-after-decrypt", rv.FullBytes})
					outs = append(outs, output{"wire:ticket-sequence-after-decrypt", rv.Bytes})
				}
				body := messages.KDCReqBody{KDCOptions: types.NewKrbFlags(), Realm: realm, SName: types.PrincipalName{NameType: 2, NameString: []string{"HTTP", "x"}},
					Till: time.Now().Add(time.Hour).UTC(), Nonce: 7, EType: []int32{et}, AdditionalTickets: []messages.Ticket{t2}}
				if b, e := body.Marshal(); e == nil {
					outs = append(outs, output{"wire:kdc-req-body-additional-ticket", b})
				} else {
					emitErr("kdc-req-body-marshal", e)
				}
				tgsq := messages.TGSReq{KDCReqFields: messages.KDCReqFields{PVNO: 5, MsgType: 12, ReqBody: body}}
				if b, e := tgsq.Marshal(); e == nil {
					outs = append(outs, output{"wire:tgs-req-additional-ticket", b})
				}
				enc := types.EncryptedData{EType: et, KVNO: 1, Cipher: rbytes(r, 48)}
				rep := messages.KDCRepFields{PVNO: 5, CRealm: realm, CName: types.PrincipalName{NameType: 1, NameString: []string{"alice"}}, Ticket: t2, EncPart: enc}
				asr := messages.ASRep{KDCRepFields: rep}
				asr.MsgType = 11
				if b, e := asr.Marshal(); e == nil {
					outs = append(outs, output{"wire:as-rep-with-decrypted-ticket", b})
				}
				tgr := messages.TGSRep{KDCRepFields: rep}
				tgr.MsgType = 13
				if b, e := tgr.Marshal(); e == nil {
					outs = append(outs, output{"wire:tgs-rep-with-decrypted-ticket", b})
				}
				apq := messages.APReq{PVNO: 5, MsgType: 14, APOptions: types.NewKrbFlags(), Ticket: t2, EncryptedAuthenticator: enc}
				if b, e := apq.Marshal(); e == nil {
					outs = append(outs, output{"wire:ap-req-with-decrypted-ticket", b})
				}
			case "changePassword":
				// every kind of answer, the service's own and the attacker's; the client under test is a fresh one that knows the
				// current password (cl's credentials are not touched)
				if kp == nil {
					if _, e := k.addPrincipal(realm, "kadmin/changepw", "kadmin-"+hx(rbytes(r, 8)), []int32{et}); e != nil {
						panic(e)
					}
					kp = &kpasswdSim{kdc: k, realm: realm, etypes: map[string]int32{"alice": et}}
					ka, e := kp.listen()
					if e != nil {
						panic(e)
					}
					kpCfg, e = config.NewFromString(replaceFirst(confText, "  }\n", "    kpasswd_server = "+ka+"\n  }\n"))
					if e != nil {
						panic(e)
					}
				}
				for _, mode := range kpModes {
					newPw := "New-" + base64.RawURLEncoding.EncodeToString(rbytes(r, 18))
					markers = append(markers, secretMarker{"password", []byte(newPw)})
					var lb bytes.Buffer
					c2 := client.NewWithPassword("alice", realm, curPw, kpCfg, client.DisablePAFXFAST(true), client.Logger(log.New(&lb, "", 0)))
					kp.mu.Lock()
					kp.mode = mode
					n0 := len(kp.served)
					kp.mu.Unlock()
					_, e := c2.ChangePasswd(newPw)
					emitErr("changePasswd-"+mode, e)
					var sb bytes.Buffer
					c2.Print(&sb)
					outs = append(outs, output{"print:client-after-changePasswd-" + mode, append([]byte{}, sb.Bytes()...)})
					outs = append(outs, output{"logline:client-changePasswd-" + mode, append([]byte{}, lb.Bytes()...)})
					if j, je := c2.Credentials.JSON(); je == nil {
						outs = append(outs, output{"json:credentials-after-changePasswd-" + mode, []byte(j)})
					}
					c2.Destroy()
					kp.mu.Lock()
					if len(kp.served) > n0 && kp.served[len(kp.served)-1].Action == "applied" {
						curPw = newPw
					}
					kp.mu.Unlock()
				}
			case "loginOddKDC":
				// logins of a client with the same credentials and the same logger at KDCs that answer with every kind of
				// referral, error and unusable reply (the library's reactions - log lines, errors, dumps - are outputs too)
				other := "ODD.C20.TEST"
				scripts := [][]asStep{
					{{T: "wrongrealm", To: other}, {T: "error", Code: 6}},
					{{T: "wrongrealm", To: other}, {T: "wrongrealm", To: realm}, {T: "wrongrealm", To: other}, {T: "wrongrealm", To: realm}, {T: "wrongrealm", To: other}, {T: "wrongrealm", To: realm}, {T: "wrongrealm", To: other}, {T: "wrongrealm", To: realm}},
					{{T: "wrongrealm", To: other}, {T: "auto"}},
					{{T: "preauth", Code: 24, Hint: et}, {T: "preauth", Code: 24, Hint: et}},
					{{T: "preauth", Code: 25, Hint: 0}},
					{{T: "preauth", Code: 25, Hint: et, More: 17}, {T: "error", Code: 18}},
					{{T: "error", Code: 60}},
					{{T: "reply", Good: false}},
					{{T: "netfail"}},
				}
				for vi, sc := range scripts {
					w := &asWorld{k: k, user: "alice", pw: curPw, home: realm, et: et, requirePA: vi%2 == 0, ktKeys: map[int32]types.EncryptionKey{}}
					pn := types.PrincipalName{NameType: 1, NameString: []string{"alice"}}
					w.defSalt = pn.GetSalt(realm)
					w.salt = w.defSalt
					w.script = append([]asStep{}, sc...)
					a1, e1 := w.listen(realm)
					a2, e2 := w.listen(other)
					if e1 != nil || e2 != nil {
						w.close()
						continue
					}
					oddCfg, e := config.NewFromString(simConf(realm, map[string][]string{realm: {a1}, other: {a2}}, lib, nil))
					if e != nil {
						w.close()
						continue
					}
					var c2 *client.Client
					if cred == "keytab" {
						c2 = client.NewWithKeytab("alice", realm, kt, oddCfg, client.DisablePAFXFAST(vi%3 != 0), client.Logger(lg))
					} else {
						c2 = client.NewWithPassword("alice", realm, curPw, oddCfg, client.DisablePAFXFAST(vi%3 != 0), client.Logger(lg))
					}
					emitErr(fmt.Sprintf("loginOddKDC-%d", vi), c2.Login())
					var sb bytes.Buffer
					c2.Print(&sb)
					outs = append(outs, output{fmt.Sprintf("print:oddclient-%d", vi), append([]byte{}, sb.Bytes()...)})
					sb.Reset()
					emitErr(fmt.Sprintf("diagnostics-odd-%d", vi), c2.Diagnostics(&sb))
					outs = append(outs, output{fmt.Sprintf("diagnostics:oddclient-%d", vi), append([]byte{}, sb.Bytes()...)})
					c2.Destroy()
					w.close()
				}
			case "basicAuth":
				// the service checks a user name and password itself (HTTP basic authentication): right and wrong passwords, passwords
				// with the characters the header format gives a meaning to, and values that are no pair at all
				st := service.NewSettings(skt, service.SName("HTTP/svc.c20.test"), service.Logger(lg))
				mk := func(tag string) string {
					v := tag + base64.RawURLEncoding.EncodeToString(rbytes(r, 15))
					markers = append(markers, secretMarker{"password", []byte(v)})
					return v
				}
				pws := []string{curPw, mk("Wrong-"), mk("Co") + ":" + mk("lon-") + ":x", mk("At-") + "@" + mk("sign-"), mk("Back-") + `\` + mk("slash-")}
				for pi, pw := range pws {
					for ui, user := range []string{"alice@" + realm, realm + `\alice`, "alice", "nobody@" + realm} {
						h := base64.StdEncoding.EncodeToString([]byte(user + ":" + pw))
						id, ok, e := service.NewKRB5BasicAuthenticator(h, cfg, st, nil).Authenticate()
						emitErr(fmt.Sprintf("basicAuth-%d-%d", pi, ui), e)
						if ok && id != nil {
							if c, isC := id.(*credentials.Credentials); isC {
								if j, e := c.JSON(); e == nil {
									outs = append(outs, output{fmt.Sprintf("json:basicauth-identity-%d-%d", pi, ui), []byte(j)})
								}
							}
						}
					}
				}
				// no pair at all: the whole value is what the user typed into the password field
				whole := mk("Nopair-")
				_, _, e := service.NewKRB5BasicAuthenticator(base64.StdEncoding.EncodeToString([]byte(whole)), cfg, st, nil).Authenticate()
				emitErr("basicAuth-nopair", e)
				_, _, e = service.NewKRB5BasicAuthenticator(whole, cfg, st, nil).Authenticate() // not even base64
				emitErr("basicAuth-nobase64", e)
			case "destroy":
				cl.Destroy()
			}
		})
		if p != "" {
			panics += op + ": " + p + "; "
		}
	}
	addIssuedKeys()
	// ---- every diagnostic surface
	var sb bytes.Buffer
	catch(func() { cl.Print(&sb) })
	outs = append(outs, output{"print:client", append([]byte{}, sb.Bytes()...)})
	sb.Reset()
	catch(func() { emitErr("diagnostics", cl.Diagnostics(&sb)) })
	outs = append(outs, output{"diagnostics:client", append([]byte{}, sb.Bytes()...)})
	if j, e := kt.JSON(); e == nil {
		outs = append(outs, output{"json:keytab", []byte(j)})
	}
	if j, e := cfg.JSON(); e == nil {
		outs = append(outs, output{"json:config", []byte(j)})
	}
	cr := credentials.New("alice", realm).WithPassword(password).WithKeytab(kt)
	if j, e := cr.JSON(); e == nil {
		outs = append(outs, output{"json:credentials", []byte(j)})
	}
	if gb, e := cr.Marshal(); e == nil {
		outs = append(outs, output{"gob:credentials", gb})
	}
	outs = append(outs, output{"logline:client", logbuf.Bytes()})
	for _, o := range outs {
		tw.emit(map[string]interface{}{"ev": "surface", "ops": ops, "et": et, "cred": cred, "surface": o.surface, "len": len(o.b), "hits": findMarkers(o.b, markers), "panic": panics})
	}
	cl.Destroy()
	return nil
}

// truncations of secret-bearing keytab and ccache images at every offset: the error text must not contain the keys
func c20truncations(tw *traceWriter, r *rand.Rand, thorough bool) error {
	kt := keytab.New()
	pw := "TruncPw-" + hx(rbytes(r, 10))
	kt.AddEntry("HTTP/svc.trunc.test", "TRUNC.TEST", pw, time.Unix(1600000000, 0), 3, 18)
	kt.AddEntry("HTTP/svc.trunc.test", "TRUNC.TEST", pw, time.Unix(1600000000, 0), 3, 23)
	img, err := kt.Marshal()
	if err != nil {
		return err
	}
	markers := []secretMarker{{"ltkey", kt.Entries[0].Key.KeyValue}, {"ltkey", kt.Entries[1].Key.KeyValue}}
	for cut := 0; cut <= len(img); cut++ {
		var k2 keytab.Keytab
		var e error
		p := catch(func() { e = k2.Unmarshal(img[:cut]) })
		text := ""
		if e != nil {
			text = e.Error()
		}
		tw.emit(map[string]interface{}{"ev": "truncation", "file": "keytab", "cut": cut, "of": len(img), "err": e != nil, "hits": findMarkers([]byte(text), markers), "panic": ""})
		_ = p // a panic here is C04's finding, not a leak
	}
	// the same image with a 16-bit field overwritten at every position: a damaged inner length makes a name swallow what follows it
	// (the key), and whatever the parser then says about that name is an output
	for pos := 0; pos+2 <= len(img); pos++ {
		rest := len(img) - pos - 2
		for _, v := range []int{rest, rest - 1, rest / 2, 0xffff, 0x7fff, 0x0100, int(img[pos])<<8 | int(img[pos+1]) + 17, int(img[pos])<<8 | int(img[pos+1]) + 40} {
			if v < 0 {
				continue
			}
			m := append([]byte{}, img...)
			m[pos], m[pos+1] = byte(v>>8), byte(v)
			var k2 keytab.Keytab
			var e error
			p := catch(func() { e = k2.Unmarshal(m) })
			text := p
			if e != nil {
				text += e.Error()
			}
			tw.emit(map[string]interface{}{"ev": "truncation", "file": "keytab-damaged", "cut": pos*65536 + v, "of": len(img), "err": e != nil, "hits": findMarkers([]byte(text), markers), "panic": ""})
		}
	}
	cc := unhx(testdata.CCACHE_TEST)
	var c credentials.CCache
	if err := c.Unmarshal(cc); err != nil {
		return err
	}
	var cm []secretMarker
	for _, cr := range c.Credentials {
		cm = append(cm, secretMarker{"svckey", cr.Key.KeyValue})
	}
	step := 7
	if thorough {
		step = 1
	}
	for cut := 0; cut <= len(cc); cut += step {
		var c2 credentials.CCache
		var e error
		p := catch(func() { e = c2.Unmarshal(cc[:cut]) })
		text := p
		if e != nil {
			text += e.Error()
		}
		tw.emit(map[string]interface{}{"ev": "truncation", "file": "ccache", "cut": cut, "of": len(cc), "err": e != nil, "hits": findMarkers([]byte(text), cm), "panic": ""})
	}
	return nil
}
