package main

import (
	"bytes"
	"flag"
	"math/rand"
	"sync"
)

func init() {
	register("c06", "exhaustive tampering of library ciphertexts (trace for TraceC06)", cmdC06)
}

type succEntry struct {
	Pos  int    `json:"pos"`
	Same bool   `json:"same"`
	Key  string `json:"key"`
	U    []int  `json:"u"`
}

func cmdC06(args []string) error {
	fs := flag.NewFlagSet("c06", flag.ExitOnError)
	seed := fs.Int64("seed", 1, "seed")
	tier := fs.String("tier", "quick", "quick|thorough")
	out := fs.String("out", "trace.ndjson", "trace file")
	fs.Parse(args)
	r := rand.New(rand.NewSource(*seed))
	tw, err := newTrace(*out)
	if err != nil {
		return err
	}
	defer tw.close()
	lens := []int{0, 1, 15, 16, 17, 31, 32, 64}
	if *tier == "thorough" {
		lens = nil
		for i := 0; i <= 100; i++ {
			lens = append(lens, i)
		}
		lens = append(lens, 127, 128, 129, 255, 256, 257, 511, 512, 513, 1024)
	}
	for _, et := range allEtypes {
		e := mustEtype(et)
		for li, n := range lens {
			u := usageSet[(int(*seed)+li*7+int(et))%(len(usageSet)-1)]
			if et == 23 && li%3 == 0 {
				u = []uint32{3, 9, 8, 23, 13}[(li/3)%5] // make sure the aliased usages are the authentic usage often enough
			}
			key := randKey(r, et)
			plain := rbytes(r, n)
			var c []byte
			if p := catch(func() { _, c, err = e.EncryptMessage(key, append([]byte{}, plain...), u) }); p != "" || err != nil {
				tw.emit(map[string]interface{}{"et": et, "u": be32(u), "plainlen": n, "class": "encrypt-failed", "total": 0,
					"succ": []succEntry{}, "panics": []string{p}, "leaks": 0})
				continue
			}
			// present runs one decryption and classifies the observation
			type agg struct {
				total, leaks int
				succ         []succEntry
				panics       []string
			}
			present := func(a *agg, pos int, k []byte, keyName string, uu uint32, ct []byte) {
				a.total++
				var pt []byte
				var derr error
				p := catch(func() { pt, derr = e.DecryptMessage(k, append([]byte{}, ct...), uu) })
				if p != "" {
					if len(a.panics) < 5 {
						a.panics = append(a.panics, p)
					}
					return
				}
				if derr != nil {
					if len(pt) != 0 {
						a.leaks++
					}
					return
				}
				a.succ = append(a.succ, succEntry{Pos: pos, Same: bytes.Equal(ct, c), Key: keyName, U: be32(uu)})
			}
			flush := func(class string, a *agg) {
				if a.succ == nil {
					a.succ = []succEntry{}
				}
				if a.panics == nil {
					a.panics = []string{}
				}
				tw.emit(map[string]interface{}{"et": et, "u": be32(u), "plainlen": n, "cipherlen": len(c), "class": class,
					"total": a.total, "succ": a.succ, "panics": a.panics, "leaks": a.leaks})
			}
			// identity (vacuity guard: the authentic message must be readable)
			a := &agg{}
			present(a, 0, key, "k", u, c)
			flush("identity", a)
			// a recycled key buffer, straight after the authentic use: the very slice the message was encrypted under now holds
			// an unrelated key (nothing the library remembers about a key may outlive the bytes it was told); then the same
			// unrelated key in a fresh slice, and the authentic key again
			a = &agg{}
			saved := append([]byte{}, key...)
			k3 := randKey(r, et)
			copy(key, k3)
			present(a, -10, key, "other", u, c)
			present(a, -11, append([]byte{}, k3...), "other", u, c)
			copy(key, saved)
			present(a, -12, key, "k", u, c)
			flush("recycled", a)
			// every single-bit flip of the whole ciphertext
			a = &agg{}
			for bit := 0; bit < 8*len(c); bit++ {
				m := append([]byte{}, c...)
				m[bit/8] ^= 0x80 >> uint(bit%8)
				present(a, bit, key, "k", u, m)
			}
			flush("flip", a)
			// every truncation length
			a = &agg{}
			for k := 0; k < len(c); k++ {
				present(a, k, key, "k", u, c[:k])
			}
			flush("truncate", a)
			// appended bytes
			a = &agg{}
			for k := 1; k <= 17; k++ {
				present(a, k, key, "k", u, append(append([]byte{}, c...), rbytes(r, k)...))
			}
			flush("append", a)
			// swapped blocks
			a = &agg{}
			bs := 16
			if et == 16 || et == 23 {
				bs = 8
			}
			nb := len(c) / bs
			for i := 0; i < nb; i++ {
				for j := i + 1; j < nb; j++ {
					m := append([]byte{}, c...)
					copy(m[i*bs:], c[j*bs:(j+1)*bs])
					copy(m[j*bs:], c[i*bs:(i+1)*bs])
					present(a, i*1000+j, key, "k", u, m)
				}
			}
			flush("swap", a)
			// every other usage of the set
			a = &agg{}
			for _, u2 := range usageSet {
				if u2 != u {
					present(a, int(u2&0xffff), key, "k", u2, c)
				}
			}
			flush("usage", a)
			// unrelated keys, and keys differing in one (non-parity) bit per byte
			a = &agg{}
			for i := 0; i < 3; i++ {
				present(a, -1-i, randKey(r, et), "other", u, c)
			}
			for i := range key {
				k2 := append([]byte{}, key...)
				k2[i] ^= 0x80
				present(a, i, k2, "other", u, c)
			}
			flush("key", a)
			// the flips once more, presented by several goroutines at once while others keep decrypting the authentic message
			// (decryption is a function of its arguments: what one caller presents must not depend on what another does)
			if li%4 == int(*seed)%4 || *tier == "thorough" {
				a = &agg{}
				var mu sync.Mutex
				var wg sync.WaitGroup
				stop := make(chan struct{})
				for g := 0; g < 4; g++ {
					wg.Add(1)
					go func() {
						defer wg.Done()
						for {
							select {
							case <-stop:
								return
							default:
							}
							catch(func() { e.DecryptMessage(append([]byte{}, key...), append([]byte{}, c...), u) })
						}
					}()
				}
				const workers = 8
				var wg2 sync.WaitGroup
				for g := 0; g < workers; g++ {
					wg2.Add(1)
					go func(g int) {
						defer wg2.Done()
						local := &agg{}
						for rep := 0; rep < 3; rep++ {
							for bit := g; bit < 8*len(c); bit += workers {
								m := append([]byte{}, c...)
								m[bit/8] ^= 0x80 >> uint(bit%8)
								present(local, bit, append([]byte{}, key...), "k", u, m)
							}
						}
						mu.Lock()
						a.total += local.total
						a.leaks += local.leaks
						a.succ = append(a.succ, local.succ...)
						a.panics = append(a.panics, local.panics...)
						mu.Unlock()
					}(g)
				}
				wg2.Wait()
				close(stop)
				wg.Wait()
				if len(a.panics) > 5 {
					a.panics = a.panics[:5]
				}
				flush("flip-concurrent", a)
			}
		}
	}
	return nil
}
