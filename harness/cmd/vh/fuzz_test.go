package main

// Coverage-guided fuzzing of one C04 entry point (Go's native fuzzer), used by the C04 check as an INPUT GENERATOR: the
// corpus of the entry point seeds the fuzzer; inputs on which the call panics, is slow or allocates beyond the contract's
// bound are written to VH_FUZZ_OUT (hex, one per line) and fuzzing goes on.  The inputs found - and the ones on which the
// fuzzer's worker died, which the fuzzer itself saves under testdata/fuzz - are afterwards executed by the ordinary C04 worker as
// class "fuzz", and judged by TLC like every other input.  Nothing is decided here.

import (
	"encoding/hex"
	"os"
	"runtime"
	"testing"
	"time"
)

func FuzzEntry(f *testing.F) {
	name := os.Getenv("VH_FUZZ_ENTRY")
	var e *c04entry
	for _, x := range c04entries() {
		if x.name == name {
			x := x
			e = &x
		}
	}
	if e == nil {
		f.Skip("VH_FUZZ_ENTRY does not name an entry point")
	}
	for _, item := range e.corpus() {
		f.Add(item)
	}
	out := os.Getenv("VH_FUZZ_OUT")
	record := func(b []byte) {
		if out == "" {
			return
		}
		if st, err := os.Stat(out); err == nil && st.Size() > 1<<20 {
			return
		}
		if fh, err := os.OpenFile(out, os.O_APPEND|os.O_CREATE|os.O_WRONLY, 0644); err == nil {
			fh.WriteString(hex.EncodeToString(b) + "\n")
			fh.Close()
		}
	}
	n := 0
	f.Fuzz(func(t *testing.T, b []byte) {
		if len(b) > 1<<16 {
			return
		}
		n++
		measure := n%16 == 0 // reading the memory statistics stops the world: sampled
		var m0, m1 runtime.MemStats
		if measure {
			runtime.ReadMemStats(&m0)
		}
		t0 := time.Now()
		defer func() {
			if r := recover(); r != nil {
				record(b)
			}
		}()
		e.call(b)
		if time.Since(t0) > 2*time.Second {
			record(b)
		}
		if measure {
			runtime.ReadMemStats(&m1)
			if m1.TotalAlloc-m0.TotalAlloc > uint64(64*len(b)+1<<20) {
				record(b)
			}
		}
	})
}
