package main

import (
	"encoding/binary"
	"encoding/json"
	"flag"
	"math/rand"
	"sync"

	"github.com/jcmturner/gokrb5/v8/gssapi"
	"github.com/jcmturner/gokrb5/v8/types"
)

func init() {
	register("c17", "GSS-API MIC / Wrap tokens: build, decode, verify, every bit flip and truncation, changed fields (trace for TraceC17)", cmdC17)
}

type c17Case struct {
	Kind  string `json:"kind"`
	Et    int32  `json:"et"`
	Key   string `json:"key"`
	U     []int  `json:"u"`
	Flags int    `json:"flags"`
	Seq   string `json:"sn"`
	Msg   string `json:"msg"`
	Rrc   int    `json:"rrc"`
	Acc   bool   `json:"acc"`
	Image string `json:"image"`
}

type c17Run struct {
	O string `json:"o"`
	F int    `json:"f"`
	T int    `json:"t"`
}

// c17Token is the harness' view of either token type: the fields a caller of gokrb5 sets and the operations it has.
type c17Token struct {
	mic  *gssapi.MICToken
	wrap *gssapi.WrapToken
}

func c17New(kind string, flags byte, seq uint64, rrc uint16, msg []byte) c17Token {
	m := append(make([]byte, 0, len(msg)), msg...) // never nil: a zero-length message is a message
	if kind == "mic" {
		return c17Token{mic: &gssapi.MICToken{Flags: flags, SndSeqNum: seq, Payload: m}}
	}
	return c17Token{wrap: &gssapi.WrapToken{Flags: flags, RRC: rrc, SndSeqNum: seq, Payload: m}}
}

func (t c17Token) setChecksum(key types.EncryptionKey, u uint32) error {
	if t.mic != nil {
		return t.mic.SetChecksum(key, u)
	}
	if err := t.wrap.SetCheckSum(key, u); err != nil {
		return err
	}
	t.wrap.EC = uint16(len(t.wrap.CheckSum)) // "EC: checksum length"
	return nil
}

func (t c17Token) marshal() ([]byte, error) {
	if t.mic != nil {
		return t.mic.Marshal()
	}
	return t.wrap.Marshal()
}

// verify reports acceptance the way either calling convention would see it: the boolean, or the absence of an error.
func (t c17Token) verify(key types.EncryptionKey, u uint32) (accepted bool, strict bool) {
	var ok bool
	var err error
	if t.mic != nil {
		ok, err = t.mic.Verify(key, u)
	} else {
		ok, err = t.wrap.Verify(key, u)
	}
	return ok || err == nil, ok && err == nil
}

func (t c17Token) clone() c17Token {
	if t.mic != nil {
		c := *t.mic
		c.Payload = append(make([]byte, 0, len(c.Payload)), c.Payload...)
		c.Checksum = append([]byte{}, c.Checksum...)
		return c17Token{mic: &c}
	}
	c := *t.wrap
	c.Payload = append(make([]byte, 0, len(c.Payload)), c.Payload...)
	c.CheckSum = append([]byte{}, c.CheckSum...)
	return c17Token{wrap: &c}
}

// c17Outcome presents octets b to the library's reader: d = Unmarshal error, v = Verify refused, a = accepted, p = panic.
func c17Outcome(kind string, b []byte, expAcc bool, key types.EncryptionKey, u uint32, msg []byte) string {
	o := "d"
	p := catch(func() {
		var t c17Token
		var err error
		if kind == "mic" {
			t = c17Token{mic: &gssapi.MICToken{}}
			err = t.mic.Unmarshal(b, expAcc)
			if err == nil {
				t.mic.Payload = append(make([]byte, 0, len(msg)), msg...) // the message travels beside a MIC token
			}
		} else {
			t = c17Token{wrap: &gssapi.WrapToken{}}
			err = t.wrap.Unmarshal(b, expAcc)
		}
		if err != nil {
			return
		}
		if acc, _ := t.verify(key, u); acc {
			o = "a"
		} else {
			o = "v"
		}
	})
	if p != "" {
		return "p"
	}
	return o
}

func c17RLE(n int, f func(i int) string) []c17Run {
	runs := []c17Run{}
	for i := 0; i < n; i++ {
		o := f(i)
		if k := len(runs) - 1; k >= 0 && runs[k].O == o {
			runs[k].T = i
		} else {
			runs = append(runs, c17Run{o, i, i})
		}
	}
	return runs
}

func c17One(c c17Case, r *rand.Rand) map[string]interface{} {
	key := types.EncryptionKey{KeyType: c.Et, KeyValue: unhx(c.Key)}
	var u uint32
	for _, x := range c.U {
		u = u<<8 | uint32(x)
	}
	seq := binary.BigEndian.Uint64(unhx(c.Seq))
	msg := unhx(c.Msg)
	img := unhx(c.Image)
	flags := byte(c.Flags)
	line := map[string]interface{}{"kind": c.Kind, "et": c.Et, "key": c.Key, "u": c.U, "flags": c.Flags, "sn": c.Seq, "msg": c.Msg,
		"rrc": c.Rrc, "acc": c.Acc, "image": c.Image}

	// the library's writer
	var built c17Token
	{
		var out []byte
		var err error
		p := catch(func() {
			built = c17New(c.Kind, flags, seq, uint16(c.Rrc), msg)
			if err = built.setChecksum(key, u); err == nil {
				out, err = built.marshal()
			}
		})
		line["build"] = map[string]interface{}{"hex": hx(out), "err": err != nil, "panic": p}
	}
	{
		var out []byte
		var err error
		p := catch(func() {
			if c.Kind == "mic" {
				var t *gssapi.MICToken
				if t, err = gssapi.NewInitiatorMICToken(append(make([]byte, 0, len(msg)), msg...), key); err == nil {
					out, err = t.Marshal()
				}
			} else {
				var t *gssapi.WrapToken
				if t, err = gssapi.NewInitiatorWrapToken(append(make([]byte, 0, len(msg)), msg...), key); err == nil {
					out, err = t.Marshal()
				}
			}
		})
		line["ctor"] = map[string]interface{}{"hex": hx(out), "err": err != nil, "panic": p}
	}

	if c.Kind == "wrap" {
		// observation only: a caller who leaves EC at zero (SetCheckSum does not set it)
		var out []byte
		var err error
		p := catch(func() {
			t := c17New(c.Kind, flags, seq, 0, msg)
			if err = t.wrap.SetCheckSum(key, u); err == nil {
				out, err = t.wrap.Marshal()
			}
		})
		line["ecunset"] = map[string]interface{}{"len": len(out), "err": err != nil, "panic": p}
	}

	// the library's reader on the specification's image
	{
		dec := map[string]interface{}{"flags": 0, "ec": 0, "rrc": 0, "seq": "", "msg": "", "cksum": ""}
		ver := map[string]interface{}{"ok": false, "panic": ""}
		var err error
		var t c17Token
		p := catch(func() {
			b := append([]byte{}, img...)
			if c.Kind == "mic" {
				t = c17Token{mic: &gssapi.MICToken{}}
				if err = t.mic.Unmarshal(b, c.Acc); err == nil {
					var s [8]byte
					binary.BigEndian.PutUint64(s[:], t.mic.SndSeqNum)
					dec["flags"], dec["seq"], dec["cksum"] = int(t.mic.Flags), hx(s[:]), hx(t.mic.Checksum)
				}
			} else {
				t = c17Token{wrap: &gssapi.WrapToken{}}
				if err = t.wrap.Unmarshal(b, c.Acc); err == nil {
					var s [8]byte
					binary.BigEndian.PutUint64(s[:], t.wrap.SndSeqNum)
					dec["flags"], dec["seq"], dec["cksum"] = int(t.wrap.Flags), hx(s[:]), hx(t.wrap.CheckSum)
					dec["ec"], dec["rrc"], dec["msg"] = int(t.wrap.EC), int(t.wrap.RRC), hx(t.wrap.Payload)
				}
			}
		})
		dec["err"] = err != nil
		dec["panic"] = p
		line["dec"] = dec
		re := map[string]interface{}{"hex": "", "err": false, "panic": ""}
		if p == "" && err == nil {
			// the decoded token marshalled again
			var out []byte
			var merr error
			re["panic"] = catch(func() { out, merr = t.marshal() })
			re["hex"], re["err"] = hx(out), merr != nil
		}
		line["remarshal"] = re
		if p == "" && err == nil {
			ver["panic"] = catch(func() {
				if t.mic != nil {
					t.mic.Payload = append(make([]byte, 0, len(msg)), msg...)
				}
				_, strict := t.verify(key, u)
				ver["ok"] = strict
			})
		}
		line["ver"] = ver
	}
	line["other"] = c17Outcome(c.Kind, append([]byte{}, img...), !c.Acc, key, u, msg)

	// every single-bit flip, under both expectations; every truncation; one extension
	flip := func(exp bool) []c17Run {
		return c17RLE(8*len(img), func(i int) string {
			m := append([]byte{}, img...)
			m[i/8] ^= 0x80 >> uint(i%8)
			return c17Outcome(c.Kind, m, exp, key, u, msg)
		})
	}
	line["flips"] = flip(c.Acc)
	line["flipsOther"] = flip(!c.Acc)
	line["truncs"] = c17RLE(len(img), func(n int) string { return c17Outcome(c.Kind, append([]byte{}, img[:n]...), c.Acc, key, u, msg) })
	line["ext"] = c17Outcome(c.Kind, append(append([]byte{}, img...), 0), c.Acc, key, u, msg)

	// Wrap: every value of the EC field on otherwise unchanged octets; the checksum cut to its first k octets with EC = k
	ecs, strips := []c17Run{}, []c17Run{}
	if c.Kind == "wrap" && len(img) >= 16 {
		ecs = c17RLE(len(img)-16+2, func(k int) string {
			m := append([]byte{}, img...)
			binary.BigEndian.PutUint16(m[4:6], uint16(k))
			return c17Outcome(c.Kind, m, c.Acc, key, u, msg)
		})
		strips = c17RLE(len(img)-16-len(msg), func(k int) string {
			m := append([]byte{}, img[:16+len(msg)+k]...)
			binary.BigEndian.PutUint16(m[4:6], uint16(k))
			return c17Outcome(c.Kind, m, c.Acc, key, u, msg)
		})
	}
	line["ecs"], line["strips"] = ecs, strips

	// fields changed between checksum computation and verification
	offered := map[string]int{"flags": 0, "seq": 0, "msg": 0, "key": 0, "usage": 0, "ec": 0, "rrc": 0}
	accepted := []map[string]interface{}{}
	cp := catch(func() {
		base := c17New(c.Kind, flags, seq, uint16(c.Rrc), msg)
		if err := base.setChecksum(key, u); err != nil {
			return
		}
		try := func(what string, mod func(t c17Token), k2 []byte, u2 uint32) {
			offered[what]++
			t := base.clone()
			if mod != nil {
				mod(t)
			}
			kk := key
			if k2 != nil {
				kk = types.EncryptionKey{KeyType: c.Et, KeyValue: k2}
			}
			acc, _ := t.verify(kk, u2)
			if !acc {
				return
			}
			// an acceptance is recorded with everything that was presented
			e := map[string]interface{}{"what": what, "u": be32(u2), "key": "=", "msg": "="}
			if k2 != nil {
				e["key"] = hx(k2)
			}
			var s [8]byte
			if t.mic != nil {
				e["flags"] = int(t.mic.Flags)
				binary.BigEndian.PutUint64(s[:], t.mic.SndSeqNum)
				e["msg"] = hx(t.mic.Payload)
			} else {
				e["flags"] = int(t.wrap.Flags)
				binary.BigEndian.PutUint64(s[:], t.wrap.SndSeqNum)
				e["msg"] = hx(t.wrap.Payload)
			}
			e["seq"] = hx(s[:])
			accepted = append(accepted, e)
		}
		for bit := uint(0); bit < 8; bit++ {
			try("flags", func(t c17Token) {
				if t.mic != nil {
					t.mic.Flags ^= 1 << bit
				} else {
					t.wrap.Flags ^= 1 << bit
				}
			}, nil, u)
		}
		for bit := uint(0); bit < 64; bit++ {
			try("seq", func(t c17Token) {
				if t.mic != nil {
					t.mic.SndSeqNum ^= 1 << bit
				} else {
					t.wrap.SndSeqNum ^= 1 << bit
				}
			}, nil, u)
		}
		setMsg := func(m []byte) func(t c17Token) {
			return func(t c17Token) {
				if t.mic != nil {
					t.mic.Payload = m
				} else {
					t.wrap.Payload = m
				}
			}
		}
		try("msg", setMsg(append(append(make([]byte, 0, len(msg)+1), msg...), 0)), nil, u)
		try("msg", setMsg(append(append(make([]byte, 0, len(msg)+1), 0), msg...)), nil, u)
		if n := len(msg); n > 0 {
			m := append([]byte{}, msg...)
			m[r.Intn(n)] ^= 1 << uint(r.Intn(8))
			try("msg", setMsg(m), nil, u)
			try("msg", setMsg(append(make([]byte, 0, n), msg[:n-1]...)), nil, u)
			try("msg", setMsg(append(make([]byte, 0, n), msg[1:]...)), nil, u)
		}
		try("key", nil, randKey(r, c.Et), u)
		k2 := append([]byte{}, key.KeyValue...)
		k2[r.Intn(len(k2))] ^= 0x80
		try("key", nil, k2, u)
		for _, u2 := range usageSet {
			if u2 != u {
				try("usage", nil, nil, u2)
			}
		}
		if c.Kind == "wrap" {
			for _, d := range []uint16{1, 256, 65535} { // three values different from the checksum length
				d := d
				try("ec", func(t c17Token) { t.wrap.EC += d }, nil, u)
			}
			for _, rrc := range []uint16{1, 28, 65535} {
				rrc := rrc
				try("rrc", func(t c17Token) { t.wrap.RRC += rrc }, nil, u)
			}
		}
	})
	line["changes"] = map[string]interface{}{"offered": offered, "accepted": accepted, "panic": cp}
	return line
}

func cmdC17(args []string) error {
	fs := flag.NewFlagSet("c17", flag.ExitOnError)
	seed := fs.Int64("seed", 1, "seed")
	images := fs.String("images", "images.ndjson", "cases with the images the specification rendered")
	out := fs.String("out", "trace.ndjson", "trace file")
	workers := fs.Int("workers", 8, "goroutines")
	fs.Parse(args)
	var cases []c17Case
	if err := readNDJSONRaw(*images, func(b []byte) error {
		var c c17Case
		if err := json.Unmarshal(b, &c); err != nil {
			return err
		}
		cases = append(cases, c)
		return nil
	}); err != nil {
		return err
	}
	tw, err := newTrace(*out)
	if err != nil {
		return err
	}
	defer tw.close()
	lines := make([]map[string]interface{}, len(cases))
	var wg sync.WaitGroup
	next := make(chan int)
	for w := 0; w < *workers; w++ {
		wg.Add(1)
		go func() {
			defer wg.Done()
			for i := range next {
				lines[i] = c17One(cases[i], rand.New(rand.NewSource(*seed*1000003+int64(i))))
			}
		}()
	}
	for i := range cases {
		next <- i
	}
	close(next)
	wg.Wait()
	for _, l := range lines {
		tw.emit(l)
	}
	return nil
}
