package main

import (
	"encoding/binary"
	"flag"
	"fmt"
	"math/rand"
	"net"
	"sort"
	"strings"
	"sync"
	"time"

	"github.com/jcmturner/gokrb5/v8/client"
	"github.com/jcmturner/gokrb5/v8/config"
)

func init() {
	register("dnssrv", "KDC discovery through DNS SRV records (dns_lookup_kdc): Config.GetKDCs and Client.Login against a stub name server on 127.0.0.1:53 (trace for TraceSRV)", cmdDNSSRV)
}

// ---- a stub name server: SRV record sets by name, A = 127.0.0.1 for every host name, nothing else ------------------------------

type srvRec struct {
	Prio   int    `json:"prio"`
	Weight int    `json:"weight"`
	Port   int    `json:"port"`
	Target string `json:"target"`
	Host   string `json:"host"` // the target without its final dot
}

type stubDNS struct {
	mu      sync.Mutex
	srv     map[string][]srvRec // lower-cased query name (without the final dot) -> records
	conn    net.PacketConn
	queries int
}

func dnsName(b []byte, off int) (string, int, bool) {
	var labels []string
	for {
		if off >= len(b) {
			return "", 0, false
		}
		l := int(b[off])
		off++
		if l == 0 {
			break
		}
		if l&0xc0 != 0 || off+l > len(b) {
			return "", 0, false
		}
		labels = append(labels, string(b[off:off+l]))
		off += l
	}
	return strings.Join(labels, "."), off, true
}

func dnsEncodeName(n string) []byte {
	var out []byte
	for _, l := range strings.Split(strings.TrimSuffix(n, "."), ".") {
		if l == "" {
			continue
		}
		out = append(out, byte(len(l)))
		out = append(out, l...)
	}
	return append(out, 0)
}

func (d *stubDNS) serve() {
	buf := make([]byte, 4096)
	for {
		n, addr, err := d.conn.ReadFrom(buf)
		if err != nil {
			return
		}
		q := append([]byte{}, buf[:n]...)
		if len(q) < 12 || binary.BigEndian.Uint16(q[4:6]) != 1 {
			continue
		}
		name, off, ok := dnsName(q, 12)
		if !ok || off+4 > len(q) {
			continue
		}
		qtype := binary.BigEndian.Uint16(q[off : off+2])
		question := q[12 : off+4]
		var answers [][]byte
		rcode := uint16(0)
		d.mu.Lock()
		d.queries++
		recs, isSRV := d.srv[strings.ToLower(name)]
		d.mu.Unlock()
		switch {
		case qtype == 33 && isSRV:
			for _, r := range recs {
				rd := make([]byte, 6)
				binary.BigEndian.PutUint16(rd[0:], uint16(r.Prio))
				binary.BigEndian.PutUint16(rd[2:], uint16(r.Weight))
				binary.BigEndian.PutUint16(rd[4:], uint16(r.Port))
				rd = append(rd, dnsEncodeName(r.Target)...)
				a := []byte{0xc0, 0x0c, 0, 33, 0, 1, 0, 0, 0, 5, byte(len(rd) >> 8), byte(len(rd))}
				answers = append(answers, append(a, rd...))
			}
		case qtype == 33:
			rcode = 3 // no such name
		case qtype == 1 && !strings.HasPrefix(strings.ToLower(name), "_"):
			answers = append(answers, []byte{0xc0, 0x0c, 0, 1, 0, 1, 0, 0, 0, 5, 0, 4, 127, 0, 0, 1})
		}
		resp := make([]byte, 12)
		copy(resp[0:2], q[0:2])
		binary.BigEndian.PutUint16(resp[2:], 0x8180|rcode)
		binary.BigEndian.PutUint16(resp[4:], 1)
		binary.BigEndian.PutUint16(resp[6:], uint16(len(answers)))
		resp = append(resp, question...)
		for _, a := range answers {
			resp = append(resp, a...)
		}
		d.conn.WriteTo(resp, addr)
	}
}

func cmdDNSSRV(args []string) error {
	fs := flag.NewFlagSet("dnssrv", flag.ExitOnError)
	seed := fs.Int64("seed", 1, "seed")
	out := fs.String("out", "trace.ndjson", "trace file")
	n := fs.Int("n", 40, "record sets")
	fs.Parse(args)
	r := rand.New(rand.NewSource(*seed))
	tw, err := newTrace(*out)
	if err != nil {
		return err
	}
	defer tw.close()
	conn, err := net.ListenPacket("udp", "127.0.0.1:53")
	if err != nil {
		// the port belongs to somebody else (another run): nothing is observed, and that is said
		tw.emit(map[string]interface{}{"ev": "skipped", "why": err.Error()})
		return nil
	}
	defer conn.Close()
	d := &stubDNS{srv: map[string][]srvRec{}, conn: conn}
	go d.serve()
	origin := time.Now().Truncate(time.Second)
	for i := 0; i < *n; i++ {
		realm := fmt.Sprintf("SRV%d-%d.DNS.TEST", *seed, i)
		k := newSimKDC(origin)
		k.addPrincipal(realm, "krbtgt/"+realm, "tgs-secret", []int32{18})
		k.addPrincipal(realm, "alice", "dns-password", []int32{18})
		live, err := k.listen()
		if err != nil {
			return err
		}
		livePort := 0
		fmt.Sscanf(live[strings.LastIndex(live, ":")+1:], "%d", &livePort)
		// a record set: 1..5 records over 1..3 priorities, weights including 0, one of them (seeded) leads to the KDC that answers;
		// the others to ports nobody listens on
		nrec := 1 + r.Intn(5)
		var recs []srvRec
		liveIdx := r.Intn(nrec)
		for j := 0; j < nrec; j++ {
			port := 20000 + r.Intn(20000)
			var closer func()
			if p, c, err := reservePort(); err == nil { // bound, not listening: connections are refused
				port, closer = p, c
				defer closer()
			}
			if j == liveIdx {
				port = livePort
			}
			recs = append(recs, srvRec{Prio: []int{0, 10, 10, 20}[r.Intn(4)], Weight: []int{0, 0, 1, 5, 100}[r.Intn(5)], Port: port,
				Target: fmt.Sprintf("kdc%d.srv%d.dns.test.", j, i), Host: fmt.Sprintf("kdc%d.srv%d.dns.test", j, i)})
		}
		empty := i%10 == 9 // a realm without records
		d.mu.Lock()
		if !empty {
			d.srv[strings.ToLower("_kerberos._tcp."+realm)] = recs
			d.srv[strings.ToLower("_kerberos._udp."+realm)] = recs
		}
		d.mu.Unlock()
		lib := map[string]string{"dns_lookup_kdc": "true", "default_tkt_enctypes": etypeNames[18], "udp_preference_limit": "1"}
		text := "[libdefaults]\n  default_realm = " + realm + "\n"
		keys := make([]string, 0)
		for kk := range lib {
			keys = append(keys, kk)
		}
		sort.Strings(keys)
		for _, kk := range keys {
			text += "  " + kk + " = " + lib[kk] + "\n"
		}
		text += "[realms]\n  " + realm + " = {\n    default_domain = dns.test\n  }\n"
		cfg, err := config.NewFromString(text)
		if err != nil {
			return err
		}
		// ---- the look-up, several times (the order among equal priorities is random)
		for rep := 0; rep < 6; rep++ {
			var cnt int
			var m map[int]string
			var gerr error
			p := catch(func() { cnt, m, gerr = cfg.GetKDCs(realm, rep%2 == 0) })
			var keysI []int
			for kk := range m {
				keysI = append(keysI, kk)
			}
			sort.Ints(keysI)
			var got []string
			for _, kk := range keysI {
				got = append(got, m[kk])
			}
			if got == nil {
				got = []string{}
			}
			if keysI == nil {
				keysI = []int{}
			}
			rr := recs
			if empty {
				rr = []srvRec{}
			}
			tw.emit(map[string]interface{}{"ev": "lookup", "realm": realm, "records": rr, "tcp": rep%2 == 0, "count": cnt, "keys": keysI, "servers": got,
				"err": gerr != nil, "panic": p})
		}
		// ---- and a login that has nothing but DNS to find the KDC with
		cl := client.NewWithPassword("alice", realm, "dns-password", cfg, client.DisablePAFXFAST(true))
		var lerr error
		p := catch(func() { lerr = cl.Login() })
		text2 := ""
		if lerr != nil {
			text2 = trunc(lerr.Error(), 200)
		}
		cl.Destroy()
		tw.emit(map[string]interface{}{"ev": "login", "realm": realm, "hasRecords": !empty, "ok": lerr == nil && p == "", "err": text2, "panic": p})
		k.close()
	}
	d.mu.Lock()
	q := d.queries
	d.mu.Unlock()
	tw.emit(map[string]interface{}{"ev": "done", "queries": q})
	return nil
}
