package main

// C17 against an independent implementation: MIT Kerberos' GSS-API establishes a context (initiator = a user logged in at the
// simulated KDC, acceptor = the service's keytab) inside spec/mit/mitref and protects a message in both directions with gss_get_mic
// and gss_wrap (integrity only); gokrb5 decodes and verifies those tokens with the context key; then gokrb5 builds MIC and Wrap tokens
// for both directions and MIT's gss_verify_mic / gss_unwrap judge them.  RFC 4121 tokens are used with the AES etypes only (MIT
// uses the RFC 1964 formats for des3 and rc4, which gokrb5 does not implement).  One trace line per scenario (TraceMITGSS).

import (
	"bufio"
	"encoding/hex"
	"encoding/json"
	"flag"
	"fmt"
	"io"
	"math/rand"
	"os"
	"os/exec"
	"time"

	"github.com/jcmturner/gokrb5/v8/gssapi"
	"github.com/jcmturner/gokrb5/v8/keytab"
	"github.com/jcmturner/gokrb5/v8/types"
)

func init() {
	register("mitgss", "MIT's GSS-API per-message tokens against gokrb5's and the other way round (trace for TraceMITGSS)", cmdMITGSS)
}

func cmdMITGSS(args []string) error {
	fs := flag.NewFlagSet("mitgss", flag.ExitOnError)
	out := fs.String("out", "trace.ndjson", "trace file")
	ref := fs.String("mitref", "", "path of the mitref binary")
	dir := fs.String("dir", ".", "scratch directory")
	seed := fs.Int64("seed", 1, "seed")
	fs.Parse(args)
	tw, err := newTrace(*out)
	if err != nil {
		return err
	}
	defer tw.close()
	origin := time.Now().Truncate(time.Second)
	realm := "GSS.TEST.GOKRB5"
	allEt := []int32{18, 17, 23, 16, 19, 20}
	n := 0
	for _, et := range []int32{17, 18, 19, 20} {
		for _, mlen := range []int{0, 1, 16, 17, 300} {
			n++
			k := newSimKDC(origin)
			user, pw, spn, host := fmt.Sprintf("gssuser%d", n), fmt.Sprintf("pw-%d-Gg", n), "HTTP/svc.gss.test", "svc.gss.test"
			for _, p := range []struct{ n, pw string }{{"krbtgt/" + realm, "tgs"}, {user, pw}} {
				if _, err := k.addPrincipal(realm, p.n, p.pw, allEt); err != nil {
					return err
				}
			}
			if _, err := k.addPrincipal(realm, spn, "svc-secret", []int32{et}); err != nil {
				return err
			}
			addr, err := k.listen()
			if err != nil {
				return err
			}
			conf := simConf(realm, map[string][]string{realm: {addr}}, map[string]string{"default_tkt_enctypes": etypeNames[et], "default_tgs_enctypes": etypeNames[et],
				"permitted_enctypes": etypeNames[et], "udp_preference_limit": "1", "rdns": "false", "dns_canonicalize_hostname": "false"}, map[string]string{".gss.test": realm})
			cf, ktf, ccf := fmt.Sprintf("%s/g%d.conf", *dir, n), fmt.Sprintf("%s/g%d.keytab", *dir, n), fmt.Sprintf("%s/g%d.cc", *dir, n)
			if err := os.WriteFile(cf, []byte(conf), 0600); err != nil {
				return err
			}
			skt := keytab.New()
			if err := skt.AddEntry(spn, realm, "svc-secret", time.Now(), 1, et); err != nil {
				return err
			}
			kb, _ := skt.Marshal()
			if err := os.WriteFile(ktf, kb, 0600); err != nil {
				return err
			}
			msg := rbytes(newSeeded(*seed, n), mlen)
			cmd := exec.Command(*ref)
			cmd.Env = append(os.Environ(), "KRB5_CONFIG="+cf, "KRB5_KTNAME=FILE:"+ktf, "KRB5CCNAME=FILE:"+ccf, "KRB5RCACHETYPE=none")
			stdin, _ := cmd.StdinPipe()
			stdout, _ := cmd.StdoutPipe()
			if err := cmd.Start(); err != nil {
				return err
			}
			rd := bufio.NewReaderSize(stdout, 1<<20)
			line := map[string]interface{}{"ev": "mitgss", "et": et, "msglen": mlen}
			mh := hx(msg)
			if mh == "" {
				mh = "-"
			}
			fmt.Fprintf(stdin, "gss %s@%s %s HTTP@%s %s\n", user, realm, pw, host, mh)
			var mo struct {
				RC    int    `json:"rc"`
				Stage int    `json:"stage"`
				Key   string `json:"key"`
				MicI  string `json:"micI"`
				WrapI string `json:"wrapI"`
				MicA  string `json:"micA"`
				WrapA string `json:"wrapA"`
			}
			ob, rerr := rd.ReadBytes('\n')
			if rerr != nil || json.Unmarshal(ob, &mo) != nil {
				mo.Stage = -1
			}
			line["mitStage"], line["mitRC"] = mo.Stage, mo.RC
			// ---- gokrb5 reads MIT's tokens
			type verdict struct {
				Decoded  bool   `json:"decoded"`
				Verified bool   `json:"verified"`
				Payload  bool   `json:"payloadIsMessage"`
				Flags    int    `json:"flags"`
				Panic    string `json:"panic"`
				Err      string `json:"err"`
			}
			key := types.EncryptionKey{KeyType: et, KeyValue: unhxOK(mo.Key)}
			readMIC := func(tokHex string, fromAcceptor bool, usage uint32) verdict {
				var v verdict
				v.Panic = catch(func() {
					var t gssapi.MICToken
					if e := t.Unmarshal(unhxOK(tokHex), fromAcceptor); e != nil {
						v.Err = trunc(e.Error(), 120)
						return
					}
					v.Decoded, v.Flags = true, int(t.Flags)
					t.Payload = msg
					ok, e := t.Verify(key, usage)
					v.Verified = ok
					if e != nil {
						v.Err = trunc(e.Error(), 120)
					}
					v.Payload = true
				})
				return v
			}
			readWrap := func(tokHex string, fromAcceptor bool, usage uint32) verdict {
				var v verdict
				v.Panic = catch(func() {
					var t gssapi.WrapToken
					if e := t.Unmarshal(unhxOK(tokHex), fromAcceptor); e != nil {
						v.Err = trunc(e.Error(), 120)
						return
					}
					v.Decoded, v.Flags = true, int(t.Flags)
					ok, e := t.Verify(key, usage)
					v.Verified = ok
					if e != nil {
						v.Err = trunc(e.Error(), 120)
					}
					v.Payload = string(t.Payload) == string(msg)
				})
				return v
			}
			if mo.Stage == 6 {
				line["goMicI"] = readMIC(mo.MicI, false, 25)    // initiator sign
				line["goWrapI"] = readWrap(mo.WrapI, false, 24) // initiator seal
				line["goMicA"] = readMIC(mo.MicA, true, 23)     // acceptor sign
				line["goWrapA"] = readWrap(mo.WrapA, true, 22)  // acceptor seal
				// ---- MIT reads gokrb5's tokens: built for both directions with the flags MIT's own tokens carry (acceptor subkey bit)
				flagsI, flagsA := byte(0), byte(1)
				if t := unhxOK(mo.MicI); len(t) > 2 {
					flagsI = t[2] &^ 1
					flagsA = t[2] | 1
				}
				build := func(flags byte, usageMic, usageWrap uint32, seq uint64) (string, string, string) {
					mic := gssapi.MICToken{Flags: flags, SndSeqNum: seq, Payload: msg}
					wrap := gssapi.WrapToken{Flags: flags, SndSeqNum: seq + 1, Payload: msg}
					var mb, wb []byte
					p := catch(func() {
						if e := mic.SetChecksum(key, usageMic); e != nil {
							panic(e)
						}
						if e := wrap.SetCheckSum(key, usageWrap); e != nil {
							panic(e)
						}
						wrap.EC = uint16(len(wrap.CheckSum))
						var e error
						if mb, e = mic.Marshal(); e != nil {
							panic(e)
						}
						if wb, e = wrap.Marshal(); e != nil {
							panic(e)
						}
					})
					return hx(mb), hx(wb), p
				}
				ask := func(by string, micHex, wrapHex string) map[string]interface{} {
					fmt.Fprintf(stdin, "gssverify %s %s %s %s\n", by, mh, micHex, wrapHex)
					var vo struct {
						Mic    uint32 `json:"mic"`
						Unwrap uint32 `json:"unwrap"`
						Plain  string `json:"plain"`
					}
					ob, rerr := rd.ReadBytes('\n')
					if rerr != nil || json.Unmarshal(ob, &vo) != nil {
						return map[string]interface{}{"micOK": false, "unwrapOK": false, "plainIsMessage": false, "answered": false}
					}
					return map[string]interface{}{"micOK": vo.Mic == 0, "unwrapOK": vo.Unwrap == 0, "plainIsMessage": vo.Plain == hx(msg), "answered": true}
				}
				// sequence numbers: MIT's contexts expect the peer's next numbers only when sequencing was negotiated (it was not)
				mI, wI, pI := build(flagsI, 25, 24, (1<<32)+100) // a sequence number beyond 32 bits: all 64 are covered by the checksum
				mA, wA, pA := build(flagsA, 23, 22, 200)
				line["buildPanic"] = pI + pA
				line["mitReadsInitiatorTokens"] = ask("A", mI, wI)
				line["mitReadsAcceptorTokens"] = ask("I", mA, wA)
				// and a token with one bit of the message changed must not verify
				if len(msg) > 0 {
					bad := append([]byte{}, msg...)
					bad[0] ^= 1
					fmt.Fprintf(stdin, "gssverify A %s %s %s\n", hx(bad), mI, wI)
					var vo struct {
						Mic uint32 `json:"mic"`
					}
					ob, _ := rd.ReadBytes('\n')
					json.Unmarshal(ob, &vo)
					line["mitRefusesChangedMessage"] = vo.Mic != 0
				} else {
					line["mitRefusesChangedMessage"] = true
				}
			}
			stdin.Close()
			io.Copy(io.Discard, rd)
			cmd.Wait()
			tw.emit(line)
			k.close()
		}
	}
	return nil
}

func unhxOK(s string) []byte {
	b, err := hexDecode(s)
	if err != nil {
		return nil
	}
	return b
}

func hexDecode(s string) ([]byte, error) { return hex.DecodeString(s) }

func newSeeded(seed int64, n int) *rand.Rand {
	return rand.New(rand.NewSource(seed*1000003 + int64(n)))
}
