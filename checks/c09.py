"""C09 - the client accepts a KDC reply only if it answers the request it sent."""
import os, shutil, json
import vlib
from cryptocommon import line_trace


def main(tier):
    run = vlib.Run("C09", "model_checking", tier)
    vlib.build_harness()
    wd = vlib.spec_scratch(["c09", "crypto"])
    try:
        res = vlib.tlc(wd, "MCReply", timeout=900)
        if res.violation or res.rc != 0 or not res.finished:
            raise vlib.Inconclusive("KDCReplyCheck model fails its own invariant:\n" + res.out[-3000:])
        run.add_model(res)
        g = vlib.tlc_or_die(wd, "GenC09", cfg="GenC09.cfg", workers=1, timeout=300)
        run.extra["perturbation_space"] = "singles, pairs = " + (g.tags("COUNTS") or ["?"])[0]
        trace = os.path.join(wd, "trace.ndjson")
        vlib.run_harness(["c09", "-tier", run.tier, "-out", trace, "-cases", os.path.join(wd, "cases.ndjson")], timeout=3400)
        lines = vlib.read_ndjson(trace)
        run.cov["evaluations"] = len(lines)
        bad = line_trace(run, wd, "TraceC09", len(lines), timeout=3000)
        ok_exchanges = sum(1 for x in lines if x["ev"] == "reply" and not x["client"]["err"])
        run.extra["accepted_exchanges"] = ok_exchanges
        run.extra["rejected_exchanges"] = sum(1 for x in lines if x["ev"] == "reply" and x["client"]["err"])
        if not bad and ok_exchanges == 0:
            raise vlib.Inconclusive("vacuous: no exchange with the simulated KDC succeeded")
        run.cov["distinct_nontrivial"] = len({json.dumps([x["ev"], x["kind"], x["cred"], x["reqAddrs"], x["preauth"], x["et"], x.get("devs"), x.get("code")]) for x in lines if x.get("devs") or x["ev"] == "krberror"})
        run.cov["rule"] = ("every single-field perturbation of the correct reply (thorough: every pair too), enumerated by TLC from KDCReplyCheck.tla, x "
                           "{AS, TGS, TGS answered by a referral} x etypes (quick 18,23; thorough all six) x credential kind x request with/without addresses x KDC with/without "
                           "required pre-authentication; plus 11 KRB-ERROR codes per kind. Each case is one real exchange over loopback TCP with the "
                           "simulated KDC, observed through Client.Login/GetServiceTicket and through the exported Verify methods on the same bytes")
        for x in (lines[0], lines[5], lines[-1]):
            run.sample({k: v for k, v in x.items() if k != "seq"})
        for i in bad:
            x = lines[i - 1]
            facts = {"ev": x["ev"], "kind": x["kind"], "devs": x.get("devs", []), "code": x.get("code", 0), "client_err": x["client"]["err"],
                     "verify_ok": x.get("verify", {}).get("ok", False), "panic": bool(x["client"]["panic"] or x.get("verify", {}).get("panic", "")), "setupOK": x["setupOK"]}
            run.violation(facts, {"line": x})
        run.extra["rejected_lines"] = len(bad)
        # ---- the acceptance predicate against MIT Kerberos' client on the same perturbations of the simulated KDC's replies (validates KDCReplyCheck)
        import mitcross
        mr = mitcross.spec_stage(run, mitcross.mit_reply_cross, wd)
        run.extra["kdcreplycheck_vs_mit_client"] = {k: v for k, v in mr.items() if k != "first"}
        if mr.get("disagreements"):
            vlib.spec_validation_problem(run, "KDCReplyCheck and MIT's client disagree on %d perturbed replies: %s" % (mr["disagreements"], mr["first"]))
        # ---- the password-change exchange (KPasswd.tla), bound end to end: replies of a service the client can authenticate, and an attacker's
        import sysk5
        info, slines, problem = sysk5.run_kpasswd(run, quick=not run.thorough)
        run.extra["system_spec_kpasswd"] = info
        if problem:
            run.violation({"system_trace": "kpasswd"}, {"problem": problem, "events": slines[:400]})
        else:
            run.cov["traces_validated_against_impl"] += info.get("events", 0)
            run.cov["evaluations"] += info["exchanges"]
        run.assumptions += ["times are 60 s beyond the 300 s skew; exact boundaries are not distinguished",
                            "ticket realm of an AS-REP and server name of a TGS-REP are not constrained by the statement (either outcome accepted)",
                            "TGSRep.Verify is not given the client's realm: crealm is required only at the Client level",
                            "KRB-ERROR codes 24, 25, 52, 68 are acted upon by the client and are not in the 'surfaced' set"]
    finally:
        shutil.rmtree(wd, ignore_errors=True)
    run.finish(exhaustive=True)


def replay(rep):
    main(rep.get("tier", "quick"))
