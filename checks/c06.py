"""C06 - decryption returns plaintext only for authentic ciphertexts.
Role A: the ideal functionality AEAD.tla is model checked (NoForgery, NoMalleability) for the rc4 alias map and the
identity map; role C: exhaustive tampering of real library ciphertexts, every successful decryption must be
Authentic in that model."""
import os, shutil
import vlib
from cryptocommon import *


def main(tier):
    run = vlib.Run("C06", "model_checking", tier)
    vlib.build_harness()
    wd = vlib.spec_scratch(["crypto"])
    try:
        for cfg in ("MCAEAD.cfg", "MCAEADid.cfg"):
            res = vlib.tlc_or_die(wd, "MCAEAD", cfg=cfg, timeout=900)
            if res.violation:
                raise vlib.Inconclusive("AEAD model violates its own invariant:\n" + res.out[-2000:])
            run.add_model(res)
        trace = os.path.join(wd, "trace.ndjson")
        vlib.run_harness(["c06", "-seed", str(run.seed), "-tier", run.tier, "-out", trace], timeout=3000)
        lines = vlib.read_ndjson(trace)
        run.cov["evaluations"] = sum(x["total"] for x in lines)
        bad = line_trace(run, wd, "TraceC06", len(lines))
        ident_ok = sum(1 for x in lines if x["class"] == "identity" and len(x["succ"]) == 1)
        ident = sum(1 for x in lines if x["class"] == "identity")
        if ident == 0 or ident_ok < ident:
            # vacuity guard: the library does not even read its own authentic messages; C05 reports that
            run.extra["vacuity_identity_failures"] = ident - ident_ok
            if ident_ok == 0:
                raise vlib.Inconclusive("no authentic message was readable: C06 exercised vacuously")
        run.cov["distinct_nontrivial"] = len({(x["et"], x["plainlen"], x["class"]) for x in lines if x["class"] != "identity"})
        run.cov["rule"] = ("per etype x plaintext length (quick: 0,1,15,16,17,31,32,64; thorough: 0..100 and ten longer ones up to 1024) one library ciphertext; "
                           "mutation classes applied exhaustively: every single-bit flip, every truncation, 1..17 appended bytes, "
                           "all block swaps, every other usage of the 23-usage set, unrelated keys and one-bit key changes. "
                           "evaluations = decryptions attempted; distinct = (etype, length, class) cells other than identity")
        run.extra["authentic_alias_successes"] = sum(len(x["succ"]) for x in lines if x["class"] == "usage")
        for x in lines[1:4]:
            run.sample({k: x[k] for k in ("et", "u", "plainlen", "class", "total", "succ", "panics", "leaks")})
        for i in bad:
            x = lines[i - 1]
            facts = {"et": x["et"], "class": x["class"], "panic": bool(x["panics"]), "succ": bool(x["succ"])}
            run.violation(facts, {"line": x})
        run.assumptions += ["a des3 key differing only in parity bits is the same key and is not presented as 'other'",
                            "the harness classifies a presented string only by byte equality with the authentic one (same)"]
        run.extra["rejected_lines"] = len(bad)
    finally:
        shutil.rmtree(wd, ignore_errors=True)
    run.finish(exhaustive=run.thorough)


def replay(rep):
    main(rep.get("tier", "quick"))
