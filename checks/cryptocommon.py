"""shared pieces of the crypto checks C05-C08"""
import os, random, json, shutil
import vlib

ETYPES = [16, 17, 18, 19, 20, 23]
KEYLEN = {16: 24, 17: 16, 18: 32, 19: 16, 20: 32, 23: 16}
CONFLEN = {16: 8, 17: 16, 18: 16, 19: 16, 20: 16, 23: 8}
USAGES = [1, 2, 3, 4, 5, 6, 7, 8, 9, 10, 11, 12, 13, 22, 23, 24, 25, 127, 128, 255, 256, 1024, 1 << 31]


def be32(u):
    return [(u >> 24) & 255, (u >> 16) & 255, (u >> 8) & 255, u & 255]


def rkey(rnd, et):
    k = bytearray(rnd.getrandbits(8) for _ in range(KEYLEN[et]))
    if et == 16:
        for i in range(len(k)):
            b = k[i] & 0xFE
            if bin(b).count("1") % 2 == 0:
                b |= 1
            k[i] = b
    return bytes(k)


def rbytes(rnd, n):
    return bytes(rnd.getrandbits(8) for _ in range(n))


def line_trace(run, wd, module, nlines, timeout=3000, shards=16, chunk_bytes=48 << 20, chunk_lines=40000):
    """run a LineTrace-shaped validation; returns list of rejected 1-based line numbers.
    Large traces are validated in consecutive chunks (TLC holds the deserialized trace in memory; several hundred MB of
    JSON make the JVM spend its time collecting garbage), line numbers are mapped back."""
    trace = os.path.join(wd, "trace.ndjson")
    bad = _line_trace_all(run, wd, module, nlines, timeout, chunk_bytes, chunk_lines, trace)
    if nlines > 0 and os.path.exists(trace):
        binding_selftest(run, wd, module, trace, timeout, exclude=bad)
    return bad


def binding_selftest(run, wd, module, trace, timeout, exclude=()):
    """DESIGN 0.6: a few ACCEPTED lines of the trace with one observed field changed must all be rejected.  Lines the
    specification rejected (exclude: 1-based numbers) are not used: corrupting a wrong observation may make it right.  When the
    trace has rejected lines the verdict of the check is a violation anyway and a failing self-test is only recorded."""
    import binding
    excl = set(exclude)
    with open(trace, "rb") as f:
        raw, n = [], 0
        for ln in f:
            if ln.strip():
                n += 1
                if n not in excl:
                    raw.append(ln)
            if len(raw) >= 40000:
                break
    lines = binding.corrupted_sample(module, raw, run.seed)
    if lines is None:
        return
    if not lines:
        run.extra.setdefault("binding_selftest", {})[module] = "no line of this trace offers an unambiguous corruption"
        return
    keep = trace + ".accepted"
    os.rename(trace, keep)
    try:
        with open(trace, "w") as f:
            f.write("\n".join(lines) + "\n")
        res = vlib.tlc_or_die(wd, module, timeout=timeout)
        rejected = sorted(int(v) for v in res.tags("BADLINE"))
    finally:
        os.replace(keep, trace)
    run.extra.setdefault("binding_selftest", {})[module] = {"corrupted_lines": len(lines), "rejected": len(rejected)}
    if len(rejected) != len(lines) and not excl:
        missing = [i for i in range(1, len(lines) + 1) if i not in rejected]
        raise vlib.Inconclusive("binding self-test: %s accepted %d of %d lines whose observation was corrupted (first: %s)"
                                % (module, len(missing), len(lines), lines[missing[0] - 1][:600]))


def _line_trace_all(run, wd, module, nlines, timeout, chunk_bytes, chunk_lines, trace):
    if os.path.exists(trace) and (os.path.getsize(trace) > chunk_bytes or nlines > chunk_lines):
        full = trace + ".full"
        os.rename(trace, full)
        bad, off, buf, size = [], 0, [], 0
        try:
            def flush():
                nonlocal off, buf, size
                if buf:
                    with open(trace, "wb") as f:
                        f.writelines(buf)
                    bad.extend(off + i for i in _line_trace_one(run, wd, module, len(buf), timeout))
                    off += len(buf)
                    buf, size = [], 0
            with open(full, "rb") as f:
                for ln in f:
                    if not ln.strip():
                        continue
                    buf.append(ln)
                    size += len(ln)
                    if size >= chunk_bytes or len(buf) >= chunk_lines:
                        flush()
            flush()
        finally:
            os.replace(full, trace)
        if off != nlines:
            raise vlib.Inconclusive("%s: %d lines validated in chunks, expected %d" % (module, off, nlines))
        return bad
    return _line_trace_one(run, wd, module, nlines, timeout)


def _line_trace_one(run, wd, module, nlines, timeout):
    res = vlib.tlc_or_die(wd, module, timeout=timeout)
    bad = sorted(int(v) for v in res.tags("BADLINE"))
    # one state per line + the initial state; anything else means lines were skipped
    expect = nlines + 1
    if res.distinct != expect:
        raise vlib.Inconclusive("%s: TLC visited %d states, expected %d (lines skipped?)\n%s" % (module, res.distinct, expect, res.out[-2000:]))
    run.cov["traces_validated_against_impl"] += nlines - len(bad)
    run.add_model(res)
    return bad
