"""shared pieces of the crypto checks C05-C08"""
import os, random, json, shutil
import vlib

ETYPES = [16, 17, 18, 19, 20, 23]
KEYLEN = {16: 24, 17: 16, 18: 32, 19: 16, 20: 32, 23: 16}
CONFLEN = {16: 8, 17: 16, 18: 16, 19: 16, 20: 16, 23: 8}
USAGES = [1, 2, 3, 4, 5, 6, 7, 8, 9, 10, 11, 12, 13, 22, 23, 24, 25, 127, 128, 255, 256, 1024, 1 << 31]


def be32(u):
    return [(u >> 24) & 255, (u >> 16) & 255, (u >> 8) & 255, u & 255]


def rkey(rnd, et):
    k = bytearray(rnd.getrandbits(8) for _ in range(KEYLEN[et]))
    if et == 16:
        for i in range(len(k)):
            b = k[i] & 0xFE
            if bin(b).count("1") % 2 == 0:
                b |= 1
            k[i] = b
    return bytes(k)


def rbytes(rnd, n):
    return bytes(rnd.getrandbits(8) for _ in range(n))


def line_trace(run, wd, module, nlines, timeout=3000, shards=16):
    """run a LineTrace-shaped validation; returns list of rejected 1-based line numbers"""
    res = vlib.tlc_or_die(wd, module, timeout=timeout)
    bad = sorted(int(v) for v in res.tags("BADLINE"))
    # one state per line + the initial state; anything else means lines were skipped
    expect = nlines + 1
    if res.distinct != expect:
        raise vlib.Inconclusive("%s: TLC visited %d states, expected %d (lines skipped?)\n%s" % (module, res.distinct, expect, res.out[-2000:]))
    run.cov["traces_validated_against_impl"] += nlines - len(bad)
    run.add_model(res)
    return bad
