"""C05 - message encryption interoperates with the RFC definitions for all six etypes.
Role B: the TLA+ RFC transcription mints ciphertexts; role C: TLC validates every recorded library encryption
(decrypts it with the RFC transcription, re-encrypts with the extracted confounder, compares bytes)."""
import os, random, shutil, json
import vlib
from cryptocommon import *


def main(tier):
    run = vlib.Run("C05", "exploration", tier)
    vlib.build_harness()
    wd = vlib.spec_scratch(["crypto"])
    try:
        # ---- the specification itself against MIT Kerberos (string-to-key, checksums, encryption in both directions; no gokrb5 code)
        import mitcross
        run.extra["krbcrypto_vs_mit"] = mitcross.spec_stage(run, mitcross.run_mit_cross, run.seed, 8 if not run.thorough else 80)
        rnd = random.Random(run.seed)
        # role B input: per etype, plaintext lengths around every block boundary
        lens = list(range(0, 41)) if not run.thorough else list(range(0, 131))
        gin = []
        for et in ETYPES:
            for n in lens:
                u = USAGES[(run.seed + n) % (len(USAGES) - 1)]   # 2^31 excluded for spec-minted: covered by enc lines
                gin.append({"et": et, "key": rkey(rnd, et).hex(), "u": be32(u), "plain": rbytes(rnd, n).hex(),
                            "conf": rbytes(rnd, CONFLEN[et]).hex()})
        vlib.write_ndjson(os.path.join(wd, "gen_in.ndjson"), gin)
        vlib.tlc_or_die(wd, "GenC05", cfg="Gen.cfg", workers=1, timeout=1200)
        gout = os.path.join(wd, "gen_out.ndjson")
        if len(vlib.read_ndjson(gout)) != len(gin):
            raise vlib.Inconclusive("GenC05 produced a short file")
        trace = os.path.join(wd, "trace.ndjson")
        vlib.run_harness(["c05", "-seed", str(run.seed), "-tier", run.tier, "-out", trace, "-gen", gout])
        lines = vlib.read_ndjson(trace)
        run.cov["evaluations"] = len(lines)
        bad = line_trace(run, wd, "TraceC05", len(lines))
        cells = set()
        for x in lines:
            cells.add((x["ev"], x["et"], len(x["plain"]) // 2, tuple(x["u"])))
        run.cov["distinct_nontrivial"] = len(cells)
        run.cov["rule"] = ("enc lines: etype x plaintext length 0..130 (thorough: and 18 longer ones up to 16 384) x key usages (3 fixed + 1 seeded per cell in quick, all 23 + 10 seeded over the 32-bit range in thorough), random "
                           "keys/contents, library encrypts twice and decrypts once; dec lines: ciphertexts minted by the TLA+ RFC "
                           "transcription for seeded keys/confounders, library decrypts. distinct = distinct (direction, etype, "
                           "length, usage) cells; every cell is non-trivial (a byte-exact comparison of a full message)")
        for x in lines[:2] + lines[-2:]:
            run.sample({k: x[k] for k in ("ev", "et", "u", "plain", "cipher", "libok")})
        for i in bad:
            x = lines[i - 1]
            un = (x["u"][0] << 24) | (x["u"][1] << 16) | (x["u"][2] << 8) | x["u"][3]
            facts = {"ev": x["ev"], "et": x["et"], "usage_class": ">=128" if un >= 128 else "<128",
                     "panic": bool(x.get("panic"))}
            run.violation(facts, {"line": x, "usage": un, "len": len(x["plain"]) // 2})
        run.assumptions += ["trusted base: javax.crypto AES/DESede/HMAC/MD5, own MD4 and RC4 (KrbPrims.java); all Kerberos structure is TLA+",
                            "spec validated against RFC 3961/3962/8009 vectors by selftest"]
        run.extra["rejected_lines"] = len(bad)
    finally:
        shutil.rmtree(wd, ignore_errors=True)
    run.finish(exhaustive=False)


def replay(rep):
    os.environ["VERIF_SEED"] = str(rep["seed"])
    main(rep.get("tier", "quick"))
