"""C17 - GSS-API MIC and Wrap tokens follow RFC 4121 and bind header and payload."""
import os, shutil, random, json, time
import vlib
from cryptocommon import ETYPES, rkey, rbytes, be32, line_trace

GSS_USAGES = [22, 23, 24, 25]          # acceptor seal, acceptor sign, initiator seal, initiator sign
SEQS = [0, 1, 1 << 32, (1 << 64) - 1]
QLENS = [0, 1, 15, 16, 17, 64, 255, 300]
CHUNK = 8000                          # trace lines per TLC run
MACLEN = {16: 20, 17: 12, 18: 12, 19: 16, 20: 24, 23: 16}     # only used to label violations (bit classes), never for the verdict


def case(rnd, kind, et, n, flags, seq, usage, rrc=0):
    return {"kind": kind, "et": et, "key": rkey(rnd, et).hex(), "u": be32(usage), "flags": flags, "sn": "%016x" % seq,
            "msg": rbytes(rnd, n).hex(), "rrc": rrc}


def gen_cases(rnd, thorough):
    cs = []
    for et in ETYPES:
        for kind in ("wrap", "mic"):
            for li, n in enumerate(QLENS):
                for flags in range(8):
                    for si, seq in enumerate(SEQS):
                        if thorough:                       # the full product on the boundary lengths
                            for usage in GSS_USAGES:
                                cs.append(case(rnd, kind, et, n, flags, seq, usage))
                        else:                              # every pair (flags, seq), (flags, usage), (seq, usage)
                            cs.append(case(rnd, kind, et, n, flags, seq, GSS_USAGES[(flags + si + li) % 4]))
                # one seeded case per cell outside the fixed sets
                cs.append(case(rnd, kind, et, n, rnd.randrange(8), rnd.getrandbits(64), rnd.choice(GSS_USAGES)))
            if thorough:
                for n in range(301):                       # every length x every flags value, (seq, usage) rotating through all 16 pairs
                    for flags in range(8):
                        idx = (n + 3 * flags) % 16
                        for j in (idx, (5 * idx + 7) % 16):
                            cs.append(case(rnd, kind, et, n, flags, SEQS[j % 4], GSS_USAGES[j // 4]))
            else:
                for n in sorted(rnd.sample(range(301), 6)):    # a few seeded lengths besides the boundary ones
                    cs.append(case(rnd, kind, et, n, rnd.randrange(8), rnd.choice(SEQS), rnd.choice(GSS_USAGES)))
        # conforming tokens with a rotation count (gokrb5 does not un-rotate: documented deviation, outcome unconstrained)
        for n in (0, 1, 17, 64):
            for rrc in (1, 12, 28, 65535):
                cs.append(case(rnd, "wrap", et, n, rnd.choice([0, 1, 4, 5]), rnd.choice(SEQS), rnd.choice([22, 24]), rrc=rrc))
    # the same key octets, usage, flags, sequence number and message under every etype whose keys have that length, in both orders (a
    # token is a function of what it is built from: nothing remembered from a token of another etype may change it)
    shared = []
    for grp in ((17, 19, 23), (18, 20)):
        for rep in range(4 if not thorough else 24):
            order = grp if rep % 2 == 0 else tuple(reversed(grp))
            base = case(rnd, "mic", order[0], [4, 17, 64, 0][rep % 4], rnd.randrange(8), rnd.choice(SEQS), GSS_USAGES[rep % 4])
            for _ in range(2):
                for et in order:
                    for kind in ("mic", "wrap"):
                        shared.append(dict(base, et=et, kind=kind))
    # they come first (and once more at the end): whatever the library remembers, it remembers from the start of a process
    return shared + cs + shared


def bit_class(kind, n, ck, i):
    """label only (mirrors GSSTokens.Segs) - used to describe a violation, not to decide it"""
    if i < 16: return "id"
    if i < 23: return "flags"
    if i == 23: return "dir"
    if kind == "mic":
        return "filler" if i < 64 else "seq" if i < 128 else "cksum"
    if i < 32: return "filler"
    if i < 48: return "ec"
    if i < 64: return "rrc"
    if i < 128: return "seq"
    return "payload" if i < 128 + 8 * n else "cksum"


def accepted_classes(x, runs):
    n = len(x["msg"]) // 2 if x["kind"] == "wrap" else 0
    out = set()
    for r in runs:
        if r["o"] == "a":
            for i in range(r["f"], r["t"] + 1):
                out.add(bit_class(x["kind"], n, MACLEN[x["et"]], i))
    return out


def facts_of(x):
    f = {"kind": x["kind"], "et": x["et"]}
    if x["rrc"]:
        f["rrc_line"] = True
        return f
    f["build_is_image"] = x["build"]["hex"] == x["image"] and not x["build"]["err"]
    f["ctor_err"] = bool(x["ctor"]["err"])
    f["ctor_length_is_image_length"] = len(x["ctor"]["hex"]) == len(x["image"])
    f["dec_err"] = bool(x["dec"]["err"])
    f["ver_ok"] = bool(x["ver"]["ok"])
    f["wrong_direction"] = x["other"]
    f["accepted_flips"] = sorted(accepted_classes(x, x["flips"]) - {"rrc"})
    f["accepted_flips_other_direction"] = sorted(accepted_classes(x, x["flipsOther"]))
    f["accepted_truncations"] = sum(r["t"] - r["f"] + 1 for r in x["truncs"] if r["o"] == "a")
    f["ext"] = x["ext"]
    true_ec = len(x["image"]) // 2 - 16 - len(x["msg"]) // 2
    f["accepted_wrong_ec_values"] = sum(1 for r in x["ecs"] if r["o"] == "a" for k in range(r["f"], r["t"] + 1) if k != true_ec)
    f["accepted_cut_checksums"] = sum(r["t"] - r["f"] + 1 for r in x["strips"] if r["o"] == "a")
    # label: EC/RRC changes must be accepted (not signed), and for rc4 key usage 23 and 13 share a message type (RFC 4757)
    f["accepted_changes"] = sorted({c["what"] for c in x["changes"]["accepted"]
                                    if not (x["et"] == 23 and c["what"] == "usage" and {c["u"][3], x["u"][3]} == {13, 23})} - {"ec", "rrc"})
    f["remarshal_is_image"] = x["remarshal"]["hex"] == x["image"]
    f["panic"] = (any(x[k]["panic"] for k in ("build", "ctor", "dec", "ver", "changes", "remarshal")) or "p" in (x["other"], x["ext"])
                  or any(r["o"] == "p" for k in ("flips", "flipsOther", "truncs", "ecs", "strips") for r in x[k]))
    return f


def main(tier):
    run = vlib.Run("C17", "exploration", tier)
    vlib.build_harness()
    wd = vlib.spec_scratch(["c17", "crypto"])
    try:
        # the specification against tokens it did not produce
        t0 = time.time()
        def phase(name):
            nonlocal t0
            run.extra.setdefault("phase_seconds", {})[name] = round(time.time() - t0, 1)
            t0 = time.time()
        v = vlib.tlc_or_die(wd, "GSSVectors", workers=1, timeout=300)
        if v.tags("VECTORFAIL"):
            raise vlib.Inconclusive("GSSTokenFormat does not reproduce the captured tokens: %s" % v.tags("VECTORFAIL"))
        run.extra["spec_vectors"] = "4 captured tokens reproduced and accepted; rotation round trip"
        # role A: the reader rule obeys the bit classification
        res = vlib.tlc(wd, "MCGSSTokens", cfg="MCGSSTokensT.cfg" if run.thorough else "MCGSSTokens.cfg", timeout=1500)
        if res.violation or res.rc != 0 or not res.finished:
            raise vlib.Inconclusive("GSSTokens: the reader rule does not obey its own classification:\n" + res.out[-3000:])
        run.add_model(res)
        run.extra["classification_states"] = res.distinct
        phase("vectors_and_classification_model")
        # role B
        rnd = random.Random(run.seed)
        cases = gen_cases(rnd, run.thorough)
        vlib.write_ndjson(os.path.join(wd, "cases.ndjson"), cases)
        g = vlib.tlc_or_die(wd, "GenC17", workers=1, timeout=1800, xmx="12g")
        if (g.tags("COUNTS") or [""])[0] != str(len(cases)):
            raise vlib.Inconclusive("GenC17 rendered %s of %d cases" % (g.tags("COUNTS"), len(cases)))
        phase("generate")
        trace = os.path.join(wd, "trace.ndjson")
        vlib.run_harness(["c17", "-seed", str(run.seed), "-images", os.path.join(wd, "images.ndjson"), "-out", trace,
                          "-workers", str(vlib.NCPU)], timeout=2400)
        lines = vlib.read_ndjson(trace)
        if len(lines) != len(cases):
            raise vlib.Inconclusive("harness reported %d of %d cases" % (len(lines), len(cases)))
        phase("harness")
        # role C
        # (in chunks: TLC holds the whole trace as values in memory, some 25 kB per line)
        bad = []
        raw = open(trace).read().splitlines(True)
        for off in range(0, len(raw), CHUNK):
            open(trace, "w").writelines(raw[off:off + CHUNK])
            bad += [off + i for i in line_trace(run, wd, "TraceC17", len(raw[off:off + CHUNK]), timeout=3000)]
        del raw
        phase("trace_validation")
        span = lambda runs: sum(r["t"] - r["f"] + 1 for r in runs)
        nflips = sum(span(x["flips"]) + span(x["flipsOther"]) for x in lines)
        ntrunc = sum(span(x["truncs"]) for x in lines)
        nvar = sum(span(x["ecs"]) + span(x["strips"]) for x in lines)
        nchg = sum(sum(x["changes"]["offered"].values()) for x in lines)
        run.cov["evaluations"] = 7 * len(lines) + nflips + ntrunc + nvar + nchg
        norm = [x for x in lines if not x["rrc"]]
        run.cov["distinct_nontrivial"] = len({(x["kind"], x["et"], len(x["msg"]), x["flags"], x["sn"], tuple(x["u"])) for x in norm})
        run.extra.update({
            "cases": len(lines), "bit_flips_presented": nflips, "truncations_presented": ntrunc, "ec_and_cut_checksum_variants": nvar, "changed_field_verifications": nchg,
            "etypes": sorted({x["et"] for x in lines}), "lengths": len({len(x["msg"]) for x in lines}),
            "deviation_rrc_flips_accepted": sum(sum(min(r["t"], 63) - max(r["f"], 48) + 1 for r in x["flips"]
                                                    if r["o"] == "a" and r["f"] <= 63 and r["t"] >= 48) for x in norm if x["kind"] == "wrap"),
            "deviation_rotated_tokens_refused": "%d of %d" % (sum(1 for x in lines if x["rrc"] and not x["ver"]["ok"]), sum(1 for x in lines if x["rrc"])),
            "observation_marshal_with_ec_left_zero": "of %d Wrap tokens marshalled after SetCheckSum without setting EC: %d errors, %d tokens emitted without their checksum" % (
                sum(1 for x in lines if "ecunset" in x), sum(1 for x in lines if "ecunset" in x and x["ecunset"]["err"]),
                sum(1 for x in lines if "ecunset" in x and not x["ecunset"]["err"] and x["ecunset"]["len"] == 16 + len(x["msg"]) // 2)),
            "rejected_lines": len(bad)})
        run.cov["rule"] = ("cases = etype (6) x MIC/Wrap x payload length (quick: 0,1,15,16,17,64,255,300 + 6 seeded; thorough: every length 0..300) "
                           "x flags 0..7 x sequence number {0, 1, 2^32, 2^64-1, seeded} x the four GSS key usages (quick: all pairs; thorough: full "
                           "product on the boundary lengths, two of the 16 (seq, usage) pairs per (length, flags) rotating through all 16 elsewhere), random keys and messages; per case: Marshal "
                           "and the constructors compared octet for octet with the image rendered by GSSTokenFormat.tla, Unmarshal fields, Verify, Marshal of the decoded token, "
                           "wrong direction, EVERY single-bit flip of the image under both expected directions, every truncation, one extension, (Wrap) every value of the EC field and the checksum cut to every shorter length with matching EC, and "
                           "8 flags / 64 sequence-number / message / key / 22 key-usage / EC / RRC changes between SetChecksum and Verify. "
                           "evaluations = library operations observed; distinct = distinct (kind, etype, length, flags, seq, usage) cells")
        for x in (norm[3], norm[len(norm) // 2]):
            run.sample({k: x[k] for k in ("kind", "et", "u", "flags", "sn", "msg", "image", "flips", "truncs")})
        for i in bad:
            x = lines[i - 1]
            run.violation(facts_of(x), {"line": x})
        # ---- an independent implementation in the loop: MIT's GSS-API tokens verified by gokrb5, gokrb5's by MIT (AES etypes: RFC 4121 formats)
        import mitcross
        mg, mbad = mitcross.mit_gss_interop(wd, run.seed)
        run.extra["interop_with_mit_gssapi"] = mg
        for x in mbad:
            if x["mitStage"] != 6:
                vlib.spec_validation_problem(run, "MIT's GSS-API did not establish a context against the simulated KDC (stage %s, rc %s)" % (x["mitStage"], x["mitRC"]))
                continue
            run.violation({"interop": "mit-gssapi", "et": x["et"], "msglen": x["msglen"]}, {"line": x})
        if mg.get("available"):
            run.cov["evaluations"] += 8 * mg["contexts"]
            run.cov["traces_validated_against_impl"] += mg["contexts"] - len(mbad)
        run.assumptions += [
            "trusted base as for C05 (KrbPrims.java: AES, DES3, HMAC, MD5 of the JDK)",
            "RRC: RFC 4121 does not integrity-protect the rotation count and gokrb5 ignores it (never rotates, never un-rotates); a flip of an RRC "
            "bit and tokens with RRC # 0 have an unconstrained outcome here (documented deviation, counted in deviation_*)",
            "the flags octet is treated as an opaque signed header octet: for flags with the Sealed bit the integrity-only layout is checked "
            "(gokrb5 implements no confidentiality)",
            "a rejection of a changed token is taken as correct without recomputing its checksum (a forgery would need an HMAC collision); "
            "every acceptance is recomputed with the specification",
            "Wrap tokens are built as a caller must: struct literal, SetCheckSum, EC := len(CheckSum), Marshal",
        ]
    finally:
        shutil.rmtree(wd, ignore_errors=True)
    run.finish(exhaustive=False)


def replay(rep):
    main(rep.get("tier", "quick"))
