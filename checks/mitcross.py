"""Validation of the specification against MIT Kerberos (DESIGN 0.6): spec/mit/mitref.c is compiled against the installed
libkrb5 / libk5crypto and run on seeded inputs; TLC (spec/mit/TraceMIT.tla) compares MIT's results with the RFC
transcription KrbCrypto.  No gokrb5 code is involved.  Returns a statistics dict; raises Inconclusive when MIT and the
specification disagree (the specification - the oracle of C05/C07/C08/C17 - cannot then be trusted)."""
import os, random, shutil, subprocess, json
import vlib
from cryptocommon import ETYPES, KEYLEN, CONFLEN, rkey, rbytes, be32

CKSUM = {16: 12, 17: 15, 18: 16, 19: 19, 20: 20, 23: -138}


def build_mitref():
    exe = os.path.join(vlib.BUILD, "mitref")
    src = os.path.join(vlib.VERIF, "spec", "mit", "mitref.c")
    if os.path.exists(exe) and os.path.getmtime(exe) >= os.path.getmtime(src):
        return exe
    os.makedirs(vlib.BUILD, exist_ok=True)
    r = subprocess.run(["gcc", "-O1", "-o", exe, src, "-lgssapi_krb5", "-lkrb5", "-lk5crypto"], capture_output=True, text=True)
    if r.returncode != 0:
        return None
    return exe


def mit(exe, requests):
    r = subprocess.run([exe], input="\n".join(requests) + "\n", capture_output=True, text=True, timeout=600)
    out = [json.loads(l) for l in r.stdout.splitlines() if l.strip()]
    if len(out) != len(requests):
        raise vlib.Inconclusive("mitref answered %d of %d requests: %s" % (len(out), len(requests), r.stderr[-500:]))
    return out


def spec_stage(run, fn, *args):
    """Runs a stage that compares a specification with MIT (no gokrb5 code involved); a stage that cannot be carried out is a recorded
    problem of the specification's validation, not a verdict and not a failure of the check."""
    try:
        return fn(*args)
    except (vlib.Inconclusive, subprocess.SubprocessError, OSError, ValueError, KeyError) as e:
        vlib.spec_validation_problem(run, "%s could not be carried out: %s" % (fn.__name__, e))
        return {"available": False, "note": "stage failed: %s" % str(e)[:300]}


def run_mit_cross(seed, n=40):
    """n: cases per etype and operation"""
    exe = build_mitref()
    if exe is None:
        return {"available": False, "note": "MIT Kerberos development files are not installed: cross-check skipped"}
    rnd = random.Random(seed * 7919 + 17)
    wd = vlib.spec_scratch(["mit", "crypto"])
    try:
        lines, reqs = [], []
        h = lambda b: b.hex() if b else "-"
        pws = ["password", "p", "pässwörd-ÿ", "Ωmega-密码-пароль", "clef-\U0001D11E", "x" * 70]
        # ---- string-to-key and checksums
        for et in ETYPES:
            for i in range(n):
                pw = rnd.choice(pws) if i % 3 else "".join(chr(rnd.randrange(33, 127)) for _ in range(rnd.randrange(1, 30)))
                salt = "".join(chr(rnd.randrange(33, 127)) for _ in range(rnd.randrange(0 if et != 16 else 1, 30))).encode()
                params = "-"
                if et in (17, 18, 19, 20) and i % 2:
                    base = 4096 if et in (17, 18) else 32768         # MIT refuses iteration counts below the etype's default
                    params = "%08x" % (base + rnd.choice([0, 1, 904, rnd.randrange(5000)]))
                lines.append({"op": "s2k", "et": et, "pw": pw.encode().hex(), "cps": [ord(c) for c in pw], "salt": salt.hex(), "params": params})
                reqs.append("s2k %d %s %s %s" % (et, h(pw.encode()), h(salt) if et != 23 else "-", params))
                key, data, u = rkey(rnd, et), rbytes(rnd, rnd.choice([0, 1, 15, 16, 17, 63, 64, 65, 200, rnd.randrange(300)])), rnd.choice([1, 2, 3, 7, 8, 11, 22, 23, 24, 25, 1024, rnd.randrange(1, 1 << 20)])
                lines.append({"op": "cksum", "ct": CKSUM[et], "et": et, "key": key.hex(), "u": be32(u), "data": data.hex()})
                reqs.append("cksum %d %d %s %d %s" % (CKSUM[et], et, key.hex(), u, h(data)))
        # ---- ciphertexts minted by the specification, for MIT to decrypt
        gin = []
        for et in ETYPES:
            for i in range(n):
                u = rnd.choice([1, 2, 3, 7, 8, 11, 12, 13, 22, 24, 1024, rnd.randrange(1, 1 << 20)])
                gin.append({"et": et, "key": rkey(rnd, et).hex(), "u": be32(u), "un": u, "plain": rbytes(rnd, rnd.choice([0, 1, 7, 8, 15, 16, 17, 31, 32, 33, 100, rnd.randrange(200)])).hex(),
                            "conf": rbytes(rnd, CONFLEN[et]).hex()})
        vlib.write_ndjson(os.path.join(wd, "gen_in.ndjson"), gin)
        vlib.tlc_or_die(wd, "GenC05", cfg="Gen.cfg", workers=1, timeout=1200)
        gout = vlib.read_ndjson(os.path.join(wd, "gen_out.ndjson"))
        for g, o in zip(gin, gout):
            lines.append({"op": "dec", "et": g["et"], "key": g["key"], "u": g["u"], "plain": g["plain"], "conf": g["conf"], "cipher": o["cipher"]})
            reqs.append("dec %d %s %d %s" % (g["et"], g["key"], g["un"], o["cipher"]))
            # and MIT's own encryption of the same plaintext, for the specification to decrypt
            lines.append({"op": "enc", "et": g["et"], "key": g["key"], "u": g["u"], "plain": g["plain"]})
            reqs.append("enc %d %s %d %s" % (g["et"], g["key"], g["un"], h(bytes.fromhex(g["plain"]))))
        outs = mit(exe, reqs)
        for x, o in zip(lines, outs):
            x["rc"], x["out"] = o["rc"], o["out"]
        vlib.write_ndjson(os.path.join(wd, "trace.ndjson"), lines)
        res = vlib.tlc_or_die(wd, "TraceMIT", timeout=1800)
        bad = sorted(int(v) for v in res.tags("BADLINE"))
        if res.distinct != len(lines) + 1:
            raise vlib.Inconclusive("TraceMIT: TLC visited %d states, expected %d\n%s" % (res.distinct, len(lines) + 1, res.out[-1500:]))
        stats = {"available": True, "mit_version": "libkrb5 of this image (Debian krb5 1.20.1)", "operations": len(lines),
                 "by_op": {op: sum(1 for x in lines if x["op"] == op) for op in ("s2k", "cksum", "dec", "enc")}, "disagreements": len(bad)}
        if bad:
            x = lines[bad[0] - 1]
            raise vlib.Inconclusive("the specification and MIT Kerberos disagree on %d of %d operations; first: %s" % (len(bad), len(lines), json.dumps(x)[:900]))
        return stats
    finally:
        shutil.rmtree(wd, ignore_errors=True)


def mit_reads_gokrb5_keytabs(wd, image_lines, limit=300):
    """gokrb5's keytab WRITER against MIT's reader: the files Keytab.Marshal produced (field remarshal of the image lines of the C14
    trace) are read by MIT; TLC (TraceC14!MITReOK) requires the entries of the model.  Returns (statistics, rejected lines)."""
    exe = build_mitref()
    if exe is None:
        return {"available": False}, []
    def in_mit_domain(m):
        return all(it["kind"] == "hole" or (it["comps"] and all(it["comps"]) and it["realm"] and it["key"]) for it in m["items"])
    sel = [x for x in image_lines if x.get("remarshal") and not x["err"] and in_mit_domain(x["model"])][:limit]
    if not sel:
        return {"available": True, "files": 0, "rejected_lines": 0}, []
    d = os.path.join(wd, "ktre")
    os.makedirs(d, exist_ok=True)
    reqs = []
    for i, x in enumerate(sel):
        f = os.path.join(d, "r%d.keytab" % i)
        open(f, "wb").write(bytes.fromhex(x["remarshal"]))
        reqs.append("kt " + f)
    outs = mit(exe, reqs)
    shutil.rmtree(d, ignore_errors=True)
    lines = [{"ev": "mitre", "model": x["model"], "image": x["remarshal"], "rc": o["rc"], "entries": o["entries"]} for x, o in zip(sel, outs)]
    trace = os.path.join(wd, "trace.ndjson")
    keep = trace + ".keep6"
    os.rename(trace, keep)
    try:
        vlib.write_ndjson(trace, lines)
        res = vlib.tlc_or_die(wd, "TraceC14", timeout=1800)
        bad = sorted(int(v) for v in res.tags("BADLINE"))
    finally:
        os.replace(keep, trace)
    return {"available": True, "files": len(lines), "entries": sum(len(x["entries"]) for x in lines), "rejected_lines": len(bad)}, [lines[i - 1] for i in bad]


def mit_keytab_cross(wd, limit=300):
    """KeytabFormat (the independent writer of C14) against MIT's keytab reader: the images of wd/images.ndjson are written to files,
    read by MIT, and TLC (TraceC14!MITOK) compares what MIT read with what the model says was written."""
    exe = build_mitref()
    if exe is None:
        return {"available": False}
    def in_mit_domain(m):
        # MIT's reader treats an entry with no component, an empty component, an empty realm or an empty key as the end of the file
        return all(it["kind"] == "hole" or (it["comps"] and all(it["comps"]) and it["realm"] and it["key"]) for it in m["items"])
    allimg = vlib.read_ndjson(os.path.join(wd, "images.ndjson"))
    images = [im for im in allimg if in_mit_domain(im["model"])][:limit]
    d = os.path.join(wd, "ktfiles")
    os.makedirs(d, exist_ok=True)
    reqs = []
    for i, im in enumerate(images):
        f = os.path.join(d, "k%d.keytab" % i)
        open(f, "wb").write(bytes.fromhex(im["image"]))
        reqs.append("kt " + f)
    outs = mit(exe, reqs)
    lines = [{"ev": "mit", "model": im["model"], "image": im["image"], "rc": o["rc"], "entries": o["entries"]} for im, o in zip(images, outs)]
    trace = os.path.join(wd, "trace.ndjson")
    vlib.write_ndjson(trace, lines)
    res = vlib.tlc_or_die(wd, "TraceC14", timeout=1800)
    bad = sorted(int(v) for v in res.tags("BADLINE"))
    os.remove(trace)
    shutil.rmtree(d, ignore_errors=True)
    return {"available": True, "files_read_by_mit": len(lines), "files_outside_mit_reader_domain": len(allimg) - len([im for im in allimg if in_mit_domain(im["model"])]), "entries": sum(len(x["entries"]) for x in lines), "disagreements": len(bad),
            "first": (json.dumps(lines[bad[0] - 1])[:1500] if bad else "")}


def mit_ccache_cross(wd, models, images, limit=400):
    """CCacheFormat (the independent writer of C15) against MIT's credential-cache reader.  Compared per credential, in file order:
    client and server (realm, components, name type except in version 1), key type modulo 2^16 and key, the four times and the
    flags as 32-bit values, is_skey, address and authdata lists (types modulo 2^16), the ticket when the model gives its octets, and
    the second ticket.  Files MIT's reader refuses altogether are counted, not compared."""
    exe = build_mitref()
    if exe is None:
        return {"available": False}
    d = os.path.join(wd, "ccfiles")
    os.makedirs(d, exist_ok=True)
    pairs = list(zip(models, images))[:limit]
    reqs = []
    for i, (m, im) in enumerate(pairs):
        f = os.path.join(d, "c%d.cc" % i)
        open(f, "wb").write(bytes.fromhex(im["image"]))
        reqs.append("cc " + f)
    outs = mit(exe, reqs)
    shutil.rmtree(d, ignore_errors=True)
    h4 = lambda b4: "%02x%02x%02x%02x" % tuple(b4)

    def princ_diff(v, p, o):
        out = []
        if p["realm"] != o["realm"] or p["comps"] != o["comps"]:
            out.append("name")
        if v != 1 and h4(p["nt"]) != o["nt"]:
            out.append("nametype")
        return out
    refused, compared, creds, skipped, problems = 0, 0, 0, 0, []
    for i, ((m, im), o) in enumerate(zip(pairs, outs)):
        if o["rc"] != 0 or o["stop"] not in (0, -1765328242):   # -1765328242: KRB5_CC_END
            refused += 1
            continue
        compared += 1
        pr = princ_diff(m["version"], m["princ"], o["princ"])
        # MIT marks a removed credential by authtime -1 and endtime 0 and its reader skips such entries
        mcreds = [c for c in m["creds"] if not (h4(c["auth"]) == "ffffffff" and h4(c["end"]) == "00000000")]
        skipped += len(m["creds"]) - len(mcreds)
        if len(o["creds"]) != len(mcreds):
            pr.append("count %d/%d" % (len(o["creds"]), len(mcreds)))
        for k, (c, g) in enumerate(zip(mcreds, o["creds"])):
            creds += 1
            pr += ["cred %d client %s" % (k, x) for x in princ_diff(m["version"], c["client"], g["client"])]
            pr += ["cred %d server %s" % (k, x) for x in princ_diff(m["version"], c["server"], g["server"])]
            if c["ktype"] % 65536 != g["ktype"] % 65536 or c["key"] != g["key"]:
                pr.append("cred %d key" % k)
            for f in ("auth", "start", "end", "renew", "flags"):
                if h4(c[f]) != g[f]:
                    pr.append("cred %d %s: read %s, written %s" % (k, f, g[f], h4(c[f])))
            if bool(c["skey"]) != bool(g["skey"]):
                pr.append("cred %d skey" % k)
            for f in ("addrs", "ad"):
                if [(x["t"] % 65536, x["d"]) for x in c[f]] != [(x["t"] % 65536, x["d"]) for x in g[f]]:
                    pr.append("cred %d %s" % (k, f))
            if c["ticket"]["kind"] == "raw" and c["ticket"]["raw"] != g["ticket"]:
                pr.append("cred %d ticket" % k)
            if c["ticket2"] != g["ticket2"]:
                pr.append("cred %d second ticket" % k)
        if pr:
            problems.append({"model": i, "class": m.get("class"), "version": m["version"], "problems": pr[:6]})
    return {"available": True, "files": len(pairs), "refused_by_mit_reader": refused, "files_compared": compared, "credentials_compared": creds, "credentials_mit_treats_as_removed": skipped,
            "disagreements": len(problems), "first": problems[:3]}


def mit_apreq_cross(wd, mitdir, limit=3000):
    """APExchange (the decision procedure of C01/C03) against MIT's acceptor: the AP-REQs exported by `vh c01 -mitdir` are verified by
    krb5_rd_req with the same keytab; TLC (TraceMITAP) requires MIT's verdict to equal Accept at the instant MIT looked."""
    exe = build_mitref()
    if exe is None:
        return {"available": False}
    def comparable(x):
        c, st = x["case"], x["settings"]
        if c["kvnoLabel"] == "k258":
            return False        # MIT's file keytab also matches an entry whose number equals the ticket's modulo 256 (8-bit keytabs); the property asks for equality
        if c["caddr"] != "none" and st["clientAddr"] != "set":
            return False        # MIT skips the address test when the application has not told it the sender's address; gokrb5 then refuses
        return True
    exported = vlib.read_ndjson(os.path.join(mitdir, "apreqs.ndjson"))
    lines = [x for x in exported if comparable(x)][:limit]
    if not lines:
        return {"available": True, "requests": 0, "disagreements": 0, "first": ""}
    reqs = []
    for x in lines:
        addr = "0a010203" if x["settings"]["clientAddr"] == "set" else "-"
        reqs.append("rdreq %s %s %s@%s %s" % (os.path.join(mitdir, "kt_%d.keytab" % x["et"]), x["wire"], x["sname"], x["realm"], addr))
    env = dict(os.environ, KRB5RCACHETYPE="none", KRB5_CONFIG="/dev/null")
    r = subprocess.run([exe], input="\n".join(reqs) + "\n", capture_output=True, text=True, timeout=1200, env=env)
    outs = [json.loads(l) for l in r.stdout.splitlines() if l.strip()]
    if len(outs) != len(reqs):
        raise vlib.Inconclusive("mitref answered %d of %d rdreq requests: %s" % (len(outs), len(reqs), r.stderr[-500:]))
    for x, o in zip(lines, outs):
        x["rc"], x["t0"], x["t1"] = o["rc"], o["t0"], o["t1"]
        del x["wire"]
    trace = os.path.join(wd, "trace.ndjson")
    keep = None
    if os.path.exists(trace):
        keep = trace + ".keep"
        os.rename(trace, keep)
    try:
        vlib.write_ndjson(trace, lines)
        res = vlib.tlc_or_die(wd, "TraceMITAP", timeout=1800)
        bad = sorted(int(v) for v in res.tags("BADLINE"))
        if res.distinct != len(lines) + 1:
            raise vlib.Inconclusive("TraceMITAP: TLC visited %d states, expected %d" % (res.distinct, len(lines) + 1))
    finally:
        if keep:
            os.replace(keep, trace)
    rcs = {}
    for x in lines:
        rcs[x["rc"]] = rcs.get(x["rc"], 0) + 1
    return {"available": True, "requests": len(lines), "exported_but_not_comparable": len(exported) - len([x for x in exported if comparable(x)]), "accepted_by_mit": rcs.get(0, 0), "mit_error_codes": {str(k): v for k, v in sorted(rcs.items()) if k},
            "disagreements": len(bad), "first": (json.dumps(lines[bad[0] - 1])[:1200] if bad else ""),
            "disagreeing_deviations": sorted({json.dumps(sorted((d, lines[i - 1]["case"][d]) for d in lines[i - 1]["case"] if lines[i - 1]["case"][d] != NOMINAL.get(d))) for i in bad})[:40]}


def mit_client_interop(wd):
    """MIT's client against the simulated KDC, its AP-REQ against gokrb5's service (vh mitclient, TraceMITClient).  Returns
    (statistics, rejected lines): a rejected line with mitStage < 7 concerns the simulator, one with mitStage = 7 concerns gokrb5."""
    exe = build_mitref()
    if exe is None:
        return {"available": False}, []
    d = os.path.join(wd, "mitclient")
    os.makedirs(d, exist_ok=True)
    trace = os.path.join(wd, "trace.ndjson")
    keep = None
    if os.path.exists(trace):
        keep = trace + ".keep2"
        os.rename(trace, keep)
    try:
        vlib.run_harness(["mitclient", "-out", trace, "-mitref", exe, "-dir", d], timeout=900)
        lines = vlib.read_ndjson(trace)
        res = vlib.tlc_or_die(wd, "TraceMITClient", timeout=600)
        bad = sorted(int(v) for v in res.tags("BADLINE"))
        if res.distinct != len(lines) + 1:
            raise vlib.Inconclusive("TraceMITClient: TLC visited %d states, expected %d" % (res.distinct, len(lines) + 1))
    finally:
        if keep:
            os.replace(keep, trace)
        shutil.rmtree(d, ignore_errors=True)
    return ({"available": True, "scenarios": len(lines), "mit_client_completed": sum(1 for x in lines if x["mitStage"] == 7),
             "accepted_by_gokrb5": sum(1 for x in lines if x["accepted"]), "rejected_lines": len(bad)}, [lines[i - 1] for i in bad])


def mit_reply_cross(wd):
    """KDCReplyCheck (the acceptance predicate of C09) against MIT's client on perturbed replies of the simulated KDC
    (vh mitclient -cases, TraceMITReply).  Needs wd/cases.ndjson from GenC09."""
    exe = build_mitref()
    if exe is None:
        return {"available": False}
    d = os.path.join(wd, "mitreply")
    os.makedirs(d, exist_ok=True)
    trace = os.path.join(wd, "trace.ndjson")
    keep = None
    if os.path.exists(trace):
        keep = trace + ".keep3"
        os.rename(trace, keep)
    try:
        vlib.run_harness(["mitclient", "-out", trace, "-mitref", exe, "-dir", d, "-cases", os.path.join(wd, "cases.ndjson")], timeout=1200)
        lines = vlib.read_ndjson(trace)
        res = vlib.tlc_or_die(wd, "TraceMITReply", timeout=600)
        bad = sorted(int(v) for v in res.tags("BADLINE"))
        if res.distinct != len(lines) + 1:
            raise vlib.Inconclusive("TraceMITReply: TLC visited %d states, expected %d" % (res.distinct, len(lines) + 1))
    finally:
        if keep:
            os.replace(keep, trace)
        shutil.rmtree(d, ignore_errors=True)
    return {"available": True, "exchanges": len(lines), "accepted_by_mit": sum(1 for x in lines if x["mitStage"] == 7), "disagreements": len(bad),
            "first": [{k: lines[i - 1][k] for k in ("kind", "et", "devs", "mitStage", "mitMsg")} for i in bad[:5]]}


def mit_gss_interop(wd, seed):
    """GSS-API per-message tokens of MIT against gokrb5 and the other way round (vh mitgss, TraceMITGSS).  Returns (statistics,
    rejected lines); a rejected line whose context was not established concerns the environment, the others concern gokrb5."""
    exe = build_mitref()
    if exe is None:
        return {"available": False}, []
    d = os.path.join(wd, "mitgss")
    os.makedirs(d, exist_ok=True)
    trace = os.path.join(wd, "trace.ndjson")
    keep = None
    if os.path.exists(trace):
        keep = trace + ".keep4"
        os.rename(trace, keep)
    try:
        vlib.run_harness(["mitgss", "-out", trace, "-mitref", exe, "-dir", d, "-seed", str(seed)], timeout=900)
        lines = vlib.read_ndjson(trace)
        res = vlib.tlc_or_die(wd, "TraceMITGSS", timeout=600)
        bad = sorted(int(v) for v in res.tags("BADLINE"))
        if res.distinct != len(lines) + 1:
            raise vlib.Inconclusive("TraceMITGSS: TLC visited %d states, expected %d" % (res.distinct, len(lines) + 1))
    finally:
        if keep:
            os.replace(keep, trace)
        shutil.rmtree(d, ignore_errors=True)
    return ({"available": True, "contexts": len(lines), "established": sum(1 for x in lines if x["mitStage"] == 6),
             "mit_tokens_verified_by_gokrb5": 4 * sum(1 for x in lines if x["mitStage"] == 6), "gokrb5_tokens_verified_by_mit": 4 * sum(1 for x in lines if x["mitStage"] == 6),
             "rejected_lines": len(bad)}, [lines[i - 1] for i in bad])


def mit_hostrealm_cross(wd, limit_subsets=400):
    """RealmResolve (C16) against MIT's krb5_get_host_realm: the configurations and host names of wd/subsets.ndjson x wd/hosts.ndjson are
    given to MIT; TLC (TraceC16!MITResolveOK) compares."""
    exe = build_mitref()
    if exe is None:
        return {"available": False}
    hosts = vlib.read_ndjson(os.path.join(wd, "hosts.ndjson"))
    subsets = vlib.read_ndjson(os.path.join(wd, "subsets.ndjson"))
    step = max(1, len(subsets) // limit_subsets)
    d = os.path.join(wd, "mitconf")
    os.makedirs(d, exist_ok=True)
    lines, reqs = [], []
    for si, sset in enumerate(subsets[::step]):
        text = "[libdefaults]\n default_realm = DEFAULT.TEST\n dns_lookup_realm = false\n[domain_realm]\n"
        for i, k in enumerate(sset["d"]):
            name = ".".join(k[1])
            text += "  %s%s = R%d\n" % ("." if k[0] == "dom" else "", name, i + 1)
        cf = os.path.join(d, "c%d.conf" % si)
        open(cf, "w").write(text)
        for h in hosts:
            lines.append({"ev": "mitresolve", "h": h["h"], "d": sset["d"]})
            reqs.append("hostrealm %s %s" % (cf, ".".join(h["h"])))
    outs = mit(exe, reqs)
    for x, o in zip(lines, outs):
        x["rc"], x["mit"] = o["rc"], o["realm"]
    shutil.rmtree(d, ignore_errors=True)
    trace = os.path.join(wd, "trace.ndjson")
    keep = None
    if os.path.exists(trace):
        keep = trace + ".keep5"
        os.rename(trace, keep)
    try:
        vlib.write_ndjson(trace, lines)
        res = vlib.tlc_or_die(wd, "TraceC16", timeout=1800)
        bad = sorted(int(v) for v in res.tags("BADLINE"))
        if res.distinct != len(lines) + 1:
            raise vlib.Inconclusive("TraceC16 (MIT lines): TLC visited %d states, expected %d" % (res.distinct, len(lines) + 1))
    finally:
        if keep:
            os.replace(keep, trace)
        else:
            os.remove(trace)
    return {"available": True, "resolutions": len(lines), "resolved_by_mit_to_a_realm": sum(1 for x in lines if x["mit"]), "disagreements": len(bad),
            "first": [lines[i - 1] for i in bad[:4]]}


def mit_conf_cross(wd, confs, limit=400):
    """the meaning Krb5Conf gives the rendered krb5.conf models (C16) against MIT's profile library reading the same text: booleans
    (every spelling), durations (krb5_string_to_deltat), integers, strings, enctype lists as written, per-realm server lists in order,
    domain mappings.  Structurally valid models only."""
    exe = build_mitref()
    if exe is None:
        return {"available": False}
    d = os.path.join(wd, "mitconfs")
    os.makedirs(d, exist_ok=True)
    sel = [c for c in confs if c["model"]["structure"] == "ok"][:limit]
    reqs, plans = [], []
    for i, c in enumerate(sel):
        m = c["model"]
        f = os.path.join(d, "k%d.conf" % i)
        open(f, "w").write(c["text"])
        specs, exp = [], []
        for e in m["lib"]:
            if sum(1 for x in m["lib"] if x["key"] == e["key"]) != 1:
                continue
            if e["kind"] == "bool" and e["spelling"].lower() == "f":
                continue        # "f" is a boolean for gokrb5 (strconv.ParseBool) but not for MIT, whose list has "t" and no "f"
            if e["kind"] == "bool":
                sp = e["spelling"].lower()
                specs.append("b:libdefaults:" + e["key"])
                exp.append(("bool " + e["key"], "true" if sp in ("true", "t", "1", "yes", "y") else "false" if sp in ("false", "f", "0", "no", "n") else "bad"))
            elif e["kind"] == "dur" and e["dur"]["fmt"] != "bad":
                dd = e["dur"]
                secs = dd["s"] if dd["fmt"] == "sec" else dd["h"] * 3600 + dd["m"] * 60 + (dd["s"] if dd["fmt"] == "hms" else 0) if dd["fmt"] in ("hm", "hms") else dd["d"] * 86400 + dd["h"] * 3600 + dd["m"] * 60 + dd["s"]
                specs.append("d:libdefaults:" + e["key"])
                exp.append(("duration " + e["key"] + " " + str(dd), str(secs)))
            elif e["kind"] in ("int", "str"):
                specs.append("s:libdefaults:" + e["key"])
                exp.append((e["kind"] + " " + e["key"], str(e["v"])))
        for r in m["realms"]:
            if sum(1 for x in m["realms"] if x["name"] == r["name"]) != 1:
                continue
            for key, lst in (("kdc", r["kdc"]), ("admin_server", r["admin"]), ("kpasswd_server", r["kpasswd"]), ("master_kdc", r["master"])):
                if lst:
                    specs.append("v:realms:%s:%s" % (r["name"], key))
                    exp.append(("servers %s %s" % (r["name"], key), [s["host"] + (":%d" % s["port"] if s["port"] else "") + ("*" if s["final"] else "") for s in lst]))
        for dm in m["domains"]:
            if sum(1 for x in m["domains"] if x["dom"] == dm["dom"]) == 1:
                specs.append("s:domain_realm:" + dm["dom"])
                exp.append(("domain " + dm["dom"], dm["realm"]))
        specs, exp = specs[:60], exp[:60]
        reqs.append("conf %s %s" % (f, " ".join(specs)))
        plans.append(exp)
    outs = mit(exe, reqs)
    shutil.rmtree(d, ignore_errors=True)
    values, problems = 0, []
    for i, (exp, o) in enumerate(zip(plans, outs)):
        if o["rc"] != 0:
            problems.append({"conf": i, "what": "MIT does not load the file (rc %d)" % o["rc"]})
            continue
        for (what, want), got in zip(exp, o["vals"]):
            values += 1
            if got != want:
                problems.append({"conf": i, "what": what, "model_says": want, "mit_reads": got})
    return {"available": True, "files": len(sel), "values_compared": values, "disagreements": len(problems), "first": problems[:6]}


PAC_NOT_COMPARABLE = {
    "kdcdecl": "MIT does not look at the KDC signature's declared type when no KDC key is given; gokrb5 and the specification need it to know how many octets to zero",
    "rodc": "MIT 1.20 zeroes the whole remainder of a signature buffer, RODC identifier included; [MS-PAC] 2.8 zeroes the Signature field only (the specification follows MS-PAC)",
    "remove": "MIT's krb5_pac_verify without a principal does not require the logon-info and client-info buffers",
    "sigs-only": "as for remove",
    "sig6-then-garbage": "MIT refuses a PAC with two buffers of one type; [MS-PAC] 2.4 says later ones are ignored"}


def mit_pac_cross(models, images):
    """PACVerify (the decision procedure of C19) against MIT's krb5_pac_parse + krb5_pac_verify on the images the specification
    rendered and signed: MIT's verdict must equal the intended one (= PACVerify!Decide, checked by GenC19) wherever the two are
    comparable (PAC_NOT_COMPARABLE lists the variants where MIT knowingly follows other rules)."""
    import re
    exe = build_mitref()
    if exe is None:
        return {"available": False}
    reqs = ["pac %s %d %s" % (im["image"] or "-", im["vet"], im["vkey"]) for im in images]
    outs = mit(exe, reqs)
    agree, skipped, dis = 0, {}, []
    for m, im, o in zip(models, images, outs):
        variant = re.sub(r"-?\d+(\(type\d+\))?$", "", m["name"].split("/")[-1]).rstrip("-")
        if variant in PAC_NOT_COMPARABLE:
            skipped[variant] = skipped.get(variant, 0) + 1
            continue
        if (o["parse"] == 0 and o["rc"] == 0) == (m["expect"] == "accept"):
            agree += 1
        else:
            dis.append({"name": m["name"], "expect": m["expect"], "mit_parse": o["parse"], "mit_verify": o["rc"]})
    return {"available": True, "images_compared": agree + len(dis), "accepted_by_both": sum(1 for m, im, o in zip(models, images, outs) if m["expect"] == "accept" and o["parse"] == 0 and o["rc"] == 0),
            "not_comparable": skipped, "disagreements": len(dis), "first": dis[:5]}


NOMINAL = {"sealedBy": "sel", "kvnoLabel": "k2", "realmLabel": "R", "snameLabel": "P", "etLabel": "E", "tktCipher": "intact", "tktUsage": "right", "trailer": "none",
           "start": "past", "end": "future", "invalid": "no", "caddr": "none", "authKey": "session", "authUsage": "right", "authCipher": "intact", "cname": "match",
           "crealm": "match", "ctime": "now", "pac": "none"}


if __name__ == "__main__":
    print(run_mit_cross(1, 30))
