"""Binding self-test of the stateless trace modules (DESIGN 0.6): for a recorded, accepted trace, one observed field of a few
lines is changed; the specification must reject every changed line.  A trace module that accepts a corrupted observation is
not bound to what the code did (vacuous LineOK, wrong field name, over-permissive rule) and its verdicts are worth nothing:
the check then ends inconclusive.

A corruptor takes a line (dict) and returns the corrupted copy, or None when it has nothing unambiguous to change on this line
(time-ambiguous lines, lines whose outcome the specification leaves open)."""
import copy, json, random


def flip_hex(s):
    """change the last nibble of a hex string"""
    return s[:-1] + ("0" if s[-1] != "0" else "1")


def c01(x):
    if x["devs"] or not x["p1"]["ok"] or x["p1"]["panic"]:
        return None
    x["p1"]["ok"] = False            # a valid request reported as refused
    return x


def c03(x):
    if "reqs" not in x or len(x["reqs"]) != 1:
        return None
    e = x["reqs"][0]
    if e["q"]["hdr"]["class"] != "none" or e["q"]["cookie"] != "none" or e["obs"]["outcome"] != "refused":
        return None
    e["obs"].update(outcome="served", innerRan=True, status=200)      # a request without a token reaches the inner handler
    return x


def c04(x):
    if x.get("ev") != "agg" or x["panics"] != 0:
        return None
    x["panics"] = 1
    return x


def c05(x):
    if x["ev"] == "enc" and x.get("cipher"):
        x["cipher"] = flip_hex(x["cipher"])       # one bit of the library's ciphertext
        return x
    if x["ev"] == "dec" and x.get("lib"):
        x["lib"] = flip_hex(x["lib"])             # one bit of the plaintext the library returned
        return x
    return None


def c06(x):
    if x["class"] != "flip":
        return None
    x["succ"] = list(x["succ"]) + [{"same": False, "key": "k", "u": x["u"], "pos": 0}]     # a changed ciphertext decrypted successfully
    return x


def c07(x):
    if x["ev"] != "sum" or not x.get("sum"):
        return None
    x["sum"] = flip_hex(x["sum"])
    return x


def c08(x):
    for ev, f in (("s2k", "key"), ("nfold", "out"), ("dk", "dk"), ("kdf", "out"), ("r2k", "out"), ("hints", "key")):
        if x["ev"] == ev and x.get(f):
            x[f] = flip_hex(x[f])
            return x
    return None


def c09(x):
    if x["ev"] != "reply" or x["devs"] or x["client"]["err"]:
        return None
    x["client"]["err"] = True       # the correct reply refused
    return x


def c10(x):
    if not x["ops"] or x["ops"][0]["op"] != "L" or not x["ops"][0]["ok"]:
        return None
    x["ops"][0]["ok"] = False       # a login against a working KDC fails
    return x


def c11(x):
    if x.get("ev") == "race" or not x["results"]:
        return None
    for r in x["results"]:
        if r["op"] == "get" and r["ok"] and r["key"]:
            r["key"] = flip_hex(r["key"])        # a session key that was not issued with that ticket
            return x
    return None


def c12(x):
    if any(b["udp"] != "answers" or b["tcp"] != "answers" for b in x["beh"]) or x["obs"]["result"] != "answer":
        return None
    x["obs"]["result"] = "fail"     # every endpoint answers, yet the exchange fails
    return x


def c13(x):
    if x["ev"] == "codec" and x.get("hasMarshal") and x.get("lib") and not x.get("liberr"):
        x["lib"] = flip_hex(x["lib"])             # one bit of the encoding gokrb5 produced
        return x
    return None


def c15(x):
    if x.get("err") or x.get("panic"):
        return None
    x["err"] = True                 # a well-formed cache refused
    return x


def c19(x):
    if x.get("ev") == "case" and x["ap"]["o"] == "accept" and x["ap"].get("creds") and "effectiveName" in x["ap"]["creds"]:
        x["ap"]["creds"]["effectiveName"] += "X"  # an account name that is not the one in the verified PAC
        return x
    return None


def c14(x):
    if x["ev"] == "lookup" and not x["err"] and x["got"] > 0:
        x["got"] = x["got"] + 100   # a key no entry of this keytab has
        return x
    return None


def c16(x):
    if x["ev"] == "resolve" and x.get("got"):
        x["got"] = x["got"] + "X"   # another realm
        return x
    return None


def c17(x):
    if x.get("rrc"):
        return None                 # rotated tokens: gokrb5 does not interpret RRC, the line is only required not to panic
    if x.get("build") and not x["build"].get("err") and x["build"].get("hex"):
        x["build"]["hex"] = flip_hex(x["build"]["hex"])      # one bit of the token gokrb5 built
        return x
    return None


def c18(x):
    if x["result"] != "ok":
        return None
    x["result"] = "rej"             # not the server's final response
    return x


def c20(x):
    if x["hits"]:
        return None
    x["hits"] = [{"kind": "password", "enc": "raw"}]
    return x


def srv(x):
    """a look-up that lost a server, names one twice, or puts a higher priority number first; a login reported the other way round"""
    if x["ev"] == "login":
        x["ok"] = not x["ok"]
        return x
    if x["ev"] != "lookup" or x["err"] or len(x["servers"]) < 2:
        return None
    prio = {r["host"] + ":" + str(r["port"]): r["prio"] for r in x["records"]}
    s = x["servers"]
    if prio.get(s[0]) != prio.get(s[-1]):
        s[0], s[-1] = s[-1], s[0]          # priority order broken
    else:
        s[-1] = s[0]                       # one server twice, one lost
    return x


CORRUPT = {"TraceSRV": srv, "TraceC01": c01, "TraceC03": c03, "TraceC04": c04, "TraceC05": c05, "TraceC06": c06, "TraceC07": c07, "TraceC08": c08,
           "TraceC09": c09, "TraceC10": c10, "TraceC11": c11, "TraceC12": c12, "TraceC13": c13, "TraceC14": c14, "TraceC15": c15, "TraceC19": c19, "TraceC16": c16, "TraceC17": c17,
           "TraceC18": c18, "TraceC20": c20}


def corrupted_sample(module, raw_lines, seed, want=24):
    """raw_lines: list of bytes/str ndjson lines.  Returns the corrupted lines (json strings)."""
    fn = CORRUPT.get(module)
    if fn is None:
        return None
    rnd = random.Random(seed)
    idx = list(range(len(raw_lines)))
    rnd.shuffle(idx)
    out = []
    for i in idx[:4000]:
        try:
            y = fn(copy.deepcopy(json.loads(raw_lines[i])))
        except (KeyError, TypeError, IndexError):
            y = None
        if y is not None:
            out.append(json.dumps(y, separators=(",", ":")))
            if len(out) >= want:
                break
    return out
