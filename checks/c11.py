"""C11 - a client and its configuration can be shared by goroutines safely."""
import os, re, shutil, json
import vlib
from cryptocommon import line_trace


def parse_races(text):
    """race detector reports -> list of dicts with the gokrb5 frames of the two conflicting accesses"""
    out = []
    for rep in text.split("WARNING: DATA RACE")[1:]:
        rep = rep.split("==================")[0]
        blocks = re.split(r"\n\s*\n", rep)
        acc = []
        for b in blocks[:2]:
            frames = re.findall(r"\n\s+(\S+)\(\)\n\s+(\S+?):(\d+)", "\n" + b)
            gk = [(fn, f, ln) for fn, f, ln in frames if "/v8/" in f and "/harness" not in f and "hsrc" not in f]
            kind = "write" if re.search(r"[Ww]rite", b.split("\n")[0] + b.split("\n")[1] if len(b.split("\n")) > 1 else b) else "read"
            if gk:
                fn, f, ln = gk[0]
                # an access made while Client.Destroy builds the object it is about to publish (credentials.New and what it calls) is named as such
                via = " [in Client.Destroy]" if any(g[0].split("/")[-1] == "client.(*Client).Destroy" for g in gk[1:]) else ""
                acc.append("%s %s %s:%s%s" % (kind, fn.split("/")[-1], f.split("/v8/")[-1], ln, via))
            else:
                acc.append(kind + " (outside gokrb5)")
        out.append(sorted(acc))
    return out


def main(tier):
    run = vlib.Run("C11", "exploration", tier)
    vlib.build_harness(race=True)
    vlib.build_harness()
    wd = vlib.spec_scratch(["c11", "crypto"])
    try:
        res = vlib.tlc(wd, "MCConc", cfg="MCConc.cfg", timeout=900)
        if res.violation or res.rc != 0 or not res.finished:
            raise vlib.Inconclusive("ClientConcurrency (capacity 1) violates its own properties:\n" + res.out[-3000:])
        run.add_model(res)
        res0 = vlib.tlc(wd, "MCConc", cfg="MCConcCap0.cfg", timeout=900)
        if not res0.violation:
            raise vlib.Inconclusive("selftest: the model with an unbuffered cancel channel should deadlock but does not")
        res2 = vlib.tlc(wd, "MCConc", cfg="MCConcBlocking.cfg", timeout=900)
        if not res2.violation:
            raise vlib.Inconclusive("selftest: the model with the blocking cancel send (the code as found) should get stuck but does not")
        res1 = vlib.tlc(wd, "MCConc", cfg="MCConcHeldRead.cfg", timeout=900)
        if not res1.violation:
            raise vlib.Inconclusive("selftest: the model in which the caller-side refresh keeps the session's read lock should get stuck but does not")
        trace = os.path.join(wd, "trace.ndjson")
        rounds = 60 if not run.thorough else 1000     # (1500 before the clock-behind rounds grew: the same half hour)
        lines, races_all = [], []
        # phase "use": no concurrent Destroy; phase "destroy": one goroutine destroys the client while the others use it
        for phase, n, extra in (("use", rounds, []), ("destroy", max(10, rounds // 5), ["-destroy"]), ("stress", 3 if not run.thorough else 60, ["-stress"])):
            racelog = os.path.join(wd, "race-" + phase)
            # the stress rounds look for schedules, not for races: they run without the detector, many times faster
            vlib.run_harness(["c11", "-seed", str(run.seed), "-rounds", str(n), "-out", trace] + extra, timeout=3400, race=(phase != "stress"),
                             env={"GORACE": "halt_on_error=0 history_size=5 log_path=%s" % racelog}, ok_codes=(0, 3, 66))
            part = vlib.read_ndjson(trace)
            for x in part:
                x["ev"] = "round"
                x["phase"] = phase
            lines += part
            racetext = ""
            for f in os.listdir(wd):
                if f.startswith("race-" + phase + "."):
                    racetext += open(os.path.join(wd, f), errors="replace").read()
            races = parse_races(racetext)
            races_all += races
            # a report is a statement about gokrb5 when both conflicting accesses are made by gokrb5 code; a report with one side whose stack
            # the detector could not restore, or made by the harness itself, names no pair of library sites: counted, no verdict
            onesided = [a for a in races if any("(outside gokrb5)" in y for y in a)]
            run.extra["race_reports_with_one_unattributed_side"] = run.extra.get("race_reports_with_one_unattributed_side", 0) + len(onesided)
            for a in sorted({json.dumps(a) for a in races if a not in onesided}):
                lines.append({"ev": "race", "phase": phase, "accesses": json.loads(a)})
        races = races_all
        distinct_races = [x for x in lines if x["ev"] == "race"]
        vlib.write_ndjson(trace, lines)
        results = [y for x in lines if x["ev"] == "round" for y in x["results"]]
        run.cov["evaluations"] = len(results)
        run.extra["rounds"] = sum(1 for x in lines if x["ev"] == "round")
        run.extra["race_reports"] = len(races)
        run.extra["distinct_race_pairs"] = len(distinct_races)
        run.extra["ops"] = {k: sum(1 for y in results if y["op"] == k) for k in ("get", "kdcs", "login", "diag")}
        bad = line_trace(run, wd, "TraceC11", len(lines), timeout=3000)
        if not bad and run.extra["ops"]["get"] == 0:
            raise vlib.Inconclusive("vacuous: no service ticket request ran")
        run.cov["distinct_nontrivial"] = len({(x["g"], x["nkdc"], x["long"], x["round"]) for x in lines if x["ev"] == "round" and x["g"] >= 2})
        run.cov["rule"] = ("rounds of 2-16 goroutines on one logged-in client and one configuration: GetServiceTicket for 4 SPNs, Login, GetKDCs, Print, "
                           "with 1-3 configured KDC addresses, short TGTs (3 s) so that background renewal runs in the longer rounds, then Destroy; "
                           "free-running execution of the race-instrumented build with a watchdog; every round is non-trivial (>= 2 goroutines). "
                           "evaluations = operations performed")
        for x in lines[:1]:
            run.sample({"g": x["g"], "nkdc": x["nkdc"], "results": x["results"][:6], "issued": len(x["issued"])})
        for i in bad:
            x = lines[i - 1]
            if x["ev"] == "race":
                writes = [a for a in x["accesses"] if a.startswith("write")]
                pub = ("client.(*Client).Destroy", "credentials.New", "keytab.New")
                cls = "other"
                if writes and all(any(w.split()[1] == p for p in pub) or w.endswith("[in Client.Destroy]") for w in writes):
                    cls = "Destroy-replaces-Credentials"
                facts = {"ev": "race", "phase": x["phase"], "site_class": cls, "accesses": x["accesses"] if cls == "other" else []}
            else:
                facts = {"ev": "round", "deadlock": x["deadlock"], "configUnchanged": x["configUnchanged"],
                         "failed_ops": sorted({y["op"] for y in x["results"] if not y["ok"]}), "panic": any(y["panic"] for y in x["results"])}
            run.violation(facts, {"line": x if x["ev"] == "race" else {k: v for k, v in x.items() if k != "issued"}})
        run.extra["rejected_lines"] = len(bad)
        run.assumptions += ["data races are observed by Go's race detector on the executed schedules (a monitor on the conformance run, not a TLA+ verdict); TLC decides deadlock freedom and lock order of the modelled protocol only",
                            "free-running schedules: exploration, not exhaustive"]
    finally:
        shutil.rmtree(wd, ignore_errors=True)
    run.finish(exhaustive=False)


def replay(rep):
    main(rep.get("tier", "quick"))
