"""C04 - no input makes a decoder or verifier panic, hang or allocate without bound.
Worker child processes (one per entry point, under ulimit -v) apply the corruption classes of Robustness.tla to the
corpus of every entry point; a worker that dies or hangs on an input is restarted without it and the input is recorded as
fatal.  TLC evaluates the contract over the aggregated trace."""
import os, shutil, json, subprocess, struct, concurrent.futures, time
import vlib
from cryptocommon import line_trace

VMEM_KB = 4000000


def read_tolerant(path):
    out = []
    if os.path.exists(path):
        for l in open(path, errors="replace"):
            try:
                out.append(json.loads(l))
            except Exception:
                pass          # a line cut short by the death of the worker
    return out


def run_entry(exe, entry, tier, wd, extra=""):
    """runs the worker for one entry point; when an input kills it (out of memory, stack exhaustion, hang) the input is
    recorded as fatal and a new worker resumes after it.  Returns (merged lines, number of fatal inputs)."""
    safe = entry.replace("/", "_").replace(".", "_").replace("+", "_")
    out = os.path.join(wd, "w_%s.ndjson" % safe)
    prog = os.path.join(wd, "w_%s.prog" % safe)
    fatals, after, last = [], "", None
    t_start = time.time()
    capped = False
    for attempt in range(400):
        if len(fatals) >= 60 or time.time() - t_start > (150 if tier == 'quick' else 1200):
            capped = True
            break
        cmd = "ulimit -v %d; exec %s c04 -entry '%s' -tier %s -out %s -progress %s -after '%s' -extra '%s'" % (VMEM_KB, exe, entry, tier, out, prog, after, extra)
        try:
            r = subprocess.run(["bash", "-c", cmd], capture_output=True, text=True, timeout=1500)
            rc, err = r.returncode, r.stderr
        except subprocess.TimeoutExpired:
            rc, err = -9, "driver timeout"
        if rc == 0:
            break
        try:
            b = open(prog, "rb").read(64)
            cls = b[0:16].decode().strip()
            ci, idx, ln = struct.unpack("<QQQ", b[16:40])
            inp = "%s:%d:%d" % (cls, ci, idx)
        except Exception:
            inp = "unknown"
        kind = "timeout" if rc == 7 else "fatal"
        reason = "hang" if rc == 7 else ("out of memory" if "out of memory" in err or "cannot allocate" in err else ("stack overflow" if "stack overflow" in err or "goroutine stack exceeds" in err else "died rc=%d" % rc))
        site = "unknown"
        for l in err.splitlines():
            if l.startswith("github.com/jcmturner/") and "verifharness" not in l:
                site = l[:l.rfind("(")].replace("github.com/jcmturner/", "").replace("gokrb5/v8/", "")
                break
        if kind == "fatal":
            fatals.append({"ev": "fail", "entry": entry, "kind": kind, "input": inp, "site": site, "pclass": reason, "len": 0, "hex": "", "alloc": 0, "ms": 0, "panic": err[-300:]})
        if inp == "unknown" or inp == last:
            break
        after, last = inp, inp
    merged = {}
    lines = []
    for x in read_tolerant(out):
        if x.get("ev") == "agg":
            m = merged.setdefault(x["cell"], dict(x, n=0, value=0, errors=0, panics=0, slow=0, big=0, maxAlloc=0, maxAllocPermille=0, maxMs=0))
            for k in ("n", "value", "errors", "panics", "slow", "big"):
                m[k] += x[k]
            for k in ("maxAlloc", "maxAllocPermille", "maxMs"):
                m[k] = max(m[k], x[k])
        elif x.get("ev") == "fail":
            lines.append(x)
    if capped:
        for m in merged.values():
            m['capped'] = True
    return list(merged.values()) + lines + fatals, len(fatals)


def build_fuzzer():
    """the harness' test binary with the fuzz target (fuzz_test.go), instrumented for coverage guidance"""
    src = os.path.join(vlib.BUILD, "hsrc")
    out = os.path.join(vlib.BUILD, "vh.test")
    env = dict(os.environ, GOFLAGS="-mod=mod", GOPROXY="off", GOSUMDB="off", GOTOOLCHAIN="local")
    r = subprocess.run(["go", "test", "-c", "-tags", "verif", "-fuzz=FuzzEntry", "-o", out, "./cmd/vh"], cwd=src, env=env, capture_output=True, text=True, timeout=1200)
    if r.returncode != 0:
        raise vlib.Inconclusive("fuzz target did not build:\n" + r.stderr[-3000:])
    return out


def parse_go_fuzz_file(path):
    """a crasher saved by Go's fuzzer: 'go test fuzz v1' + one []byte("...") literal"""
    import ast, re
    txt = open(path, errors="replace").read()
    m = re.search(r'\[\]byte\((".*")\)\s*$', txt, re.S)
    if not m:
        return None
    try:
        v = ast.literal_eval("b" + m.group(1))
        return bytes(v)
    except Exception:
        return None


def fuzz_entry(fexe, entry, seconds, wd):
    """coverage-guided fuzzing of one entry point for `seconds`; returns (path of the file with the inputs found, statistics)"""
    safe = entry.replace("/", "_").replace(".", "_").replace("+", "_")
    d = os.path.join(wd, "fz_" + safe)
    os.makedirs(d, exist_ok=True)
    found = os.path.join(d, "found.txt")
    env = dict(os.environ, VH_FUZZ_ENTRY=entry, VH_FUZZ_OUT=found)
    cmd = ("ulimit -v %d; exec %s -test.run='^$' -test.fuzz='^FuzzEntry$' -test.fuzztime=%ds -test.fuzzcachedir=%s/fc -test.parallel=1"
           % (VMEM_KB, fexe, seconds, d))
    try:
        r = subprocess.run(["bash", "-c", cmd], cwd=d, env=env, capture_output=True, text=True, timeout=seconds + 120)
        out = r.stdout + r.stderr
    except subprocess.TimeoutExpired as e:
        out = (e.stdout or b"").decode(errors="replace") if isinstance(e.stdout, bytes) else (e.stdout or "")
    import re
    execs = [int(x) for x in re.findall(r"execs: (\d+)", out)]
    interesting = [int(x) for x in re.findall(r"total: (\d+)\)", out)]
    inputs = set()
    if os.path.exists(found):
        for l in open(found):
            if l.strip() or True:
                inputs.add(l.strip())
    cd = os.path.join(d, "testdata", "fuzz", "FuzzEntry")
    if os.path.isdir(cd):
        for f in os.listdir(cd):
            b = parse_go_fuzz_file(os.path.join(cd, f))
            if b is not None:
                inputs.add(b.hex())
    extra = os.path.join(d, "extra.txt")
    with open(extra, "w") as f:
        for h in sorted(inputs)[:400]:
            f.write(h + "\n")
    shutil.rmtree(os.path.join(d, "fc"), ignore_errors=True)
    return extra, {"execs": max(execs + [0]), "interesting": max(interesting + [0]), "inputs_found": len(inputs)}


def main(tier):
    run = vlib.Run("C04", "exploration", tier)
    exe = vlib.build_harness()
    wd = vlib.spec_scratch(["c04", "crypto"])
    try:
        entries = vlib.run_harness(["c04list"]).stdout.split()
        # ---- coverage-guided fuzzing from the corpus (Go's native fuzzer) as an input generator: 3 s (thorough 45 s) per entry point
        fexe = build_fuzzer()
        secs = 45 if run.thorough else 3
        extras, fstats = {}, {}
        with concurrent.futures.ThreadPoolExecutor(max_workers=max(2, vlib.NCPU // 2)) as ex:
            for e, (xf, st) in zip(entries, ex.map(lambda e: fuzz_entry(fexe, e, secs, wd), entries)):
                extras[e], fstats[e] = xf, st
        run.extra["fuzzing"] = {"seconds_per_entry_point": secs, "executions": sum(s["execs"] for s in fstats.values()),
                                "corpus_growth": sum(s["interesting"] for s in fstats.values()), "inputs_handed_to_the_worker": sum(s["inputs_found"] for s in fstats.values()),
                                "entry_points_with_findings": sorted(e for e, s in fstats.items() if s["inputs_found"])}
        if run.extra["fuzzing"]["executions"] == 0:
            raise vlib.Inconclusive("the fuzzer did not execute anything")
        lines = []
        with concurrent.futures.ThreadPoolExecutor(max_workers=8) as ex:
            for got, nf in ex.map(lambda e: run_entry(exe, e, run.tier, wd, extras.get(e, "")), entries):
                lines += got
        aggs = [x for x in lines if x["ev"] == "agg"]
        fails = [x for x in lines if x["ev"] == "fail"]
        seen_entries = {x["entry"] for x in aggs}
        missing = [e for e in entries if e not in seen_entries]
        run.extra["entry_points"] = len(entries)
        run.extra["entry_points_without_results"] = missing
        run.cov["evaluations"] = sum(x["n"] for x in aggs)
        run.extra["outcomes"] = {"value": sum(x["value"] for x in aggs), "error": sum(x["errors"] for x in aggs), "panic": sum(x["panics"] for x in aggs),
                                 "slow": sum(x["slow"] for x in aggs), "over_allocation": sum(x["big"] for x in aggs),
                                 "fatal": sum(1 for x in fails if x["kind"] == "fatal"), "timeout": sum(1 for x in fails if x["kind"] == "timeout")}
        # corpus vacuity guard: the valid items must be accepted by their entry point
        for x in aggs:
            x["cellkind"] = x["cell"].split("/")[0]
        bad_corpus = [x["entry"] for x in aggs if x["cellkind"] == "valid" and x["value"] != x["n"] and x["panics"] == 0]
        run.extra["corpus_items_rejected_by_their_entry_point"] = sorted(set(bad_corpus))
        vlib.write_ndjson(os.path.join(wd, "trace.ndjson"), lines)
        bad = line_trace(run, wd, "TraceC04", len(lines), timeout=3000)
        run.cov["distinct_nontrivial"] = len({(x["entry"], x["cell"]) for x in aggs if x["cellkind"] != "valid"})
        run.cov["rule"] = ("%d entry points (message/type/SPNEGO/GSS/PAC/kadmin decoders, message decryption per etype, key derivation from KDC "
                           "PA-data, PAC extraction from a ticket, keytab, ccache, krb5.conf) x corpus items (MIT test vectors of the repository, minted "
                           "tokens, rendered files) x corruption classes: every prefix, every position x 7 substitutions (krb5.conf: its 19 meaningful characters; thorough: all 256), 16/32/64-bit field overwrites at every position of the binary formats, every DER "
                           "length octet x 12 encodings, krb5.conf line corruptions; each in a worker process under ulimit -v 4 GB with a 10 s hang "
                           "watchdog. evaluations = inputs executed; distinct = (entry point, corpus item, class) cells other than the valid items" % len(entries))
        for x in aggs[:3]:
            run.sample({k: v for k, v in x.items() if k != "seq"})
        if fails:
            run.sample({k: fails[0][k] for k in ("entry", "kind", "input", "site", "pclass")})
        rejected_fail_keys = set()
        for i in bad:
            x = lines[i - 1]
            if x["ev"] == "fail":
                pkg = x["site"].split(".(")[0] if ".(" in x["site"] else x["site"].rsplit(".", 1)[0]
                facts = {"entry": x["entry"], "kind": x["kind"], "site_pkg": pkg, "site": x["site"], "pclass": x["pclass"],
                         "ndr_entry": x["entry"] in ("pac.ClientClaimsInfo", "pac.KerbValidationInfo", "pac.PACType.Unmarshal+Process", "messages.Ticket.GetPACType", "messages.Ticket.GetPACType/nil-logger")}
                rejected_fail_keys.add((x["entry"], x["kind"]))
                run.violation(facts, {"line": x})
        for i in bad:
            x = lines[i - 1]
            if x["ev"] == "agg":
                # a failing cell is explained by its individually recorded failing inputs; report it on its own only if none was recorded
                kinds = [k for k, f in (("panic", "panics"), ("slow", "slow"), ("alloc", "big")) if x[f] > 0]
                if not any((x["entry"], k) in rejected_fail_keys for k in kinds) or not kinds:
                    run.violation({"entry": x["entry"], "cell": x["cell"], "kind": "cell", "kinds": kinds}, {"line": x})
        if missing:
            raise vlib.Inconclusive("no results for entry points %s" % missing)
        run.extra["rejected_lines"] = len(bad)
        run.assumptions += ["panic / hang / allocation are observations; the specification supplies the enumeration and the contract, it does not prove absence of panics outside the enumerated corruption classes",
                            "coverage-guided fuzzing (Go's native fuzzer, 3 s / 45 s per entry point) generates further inputs; they are executed and judged like the enumerated ones",
                            "allocation is measured as the TotalAlloc delta of the call (GC'ed bytes count), time as wall clock of the call"]
    finally:
        shutil.rmtree(wd, ignore_errors=True)
    run.finish(exhaustive=False)


def replay(rep):
    main(rep.get("tier", "quick"))
